(* C15 specification, written from the property text and the documentation of Environment
   (add_template, add_template_owned, remove_template, clear_templates, set_loader, get_template,
   add_/remove_ filter/test/global, Clone) - not from loader.rs.

   What an environment CONTAINS is: for each template name at most one source (added explicitly, or
   obtained from the loader when the name was first requested - "Once a template has been loaded it's
   stored on the environment"), the current loader, and for each registry (filters, tests, globals)
   at most one function/value per name.  Nothing else: no tiers, no compiled templates, no sharing.
   Every operation is defined on the contents only, so behaviour cannot depend on history by
   construction; the theorems show that the code refines this. *)
From MJ Require Import Common.Base C15.Vocab.

Definition upd {A} (f : Z -> option A) (k : Z) (v : option A) : Z -> option A :=
  fun k' => if k' =? k then v else f k'.

Section Spec.
  Variable tmpl : Type.
  Variable compile : cmode -> src -> cres tmpl.
  Variable loader : Z -> Z -> name -> lres.
  Variable builtin_has : rk -> Z -> option Z.                 (* the built-in filters/tests/globals *)
  Variable render : Z -> tmpl -> (rk -> Z -> option Z) -> obs.

  (* ---- templates ---- *)
  (* a held template is a source together with the configuration that was current when it was added or
     loaded ("changing it at a later point only affects future templates loaded") *)
  Record contents := { tpl : name -> option (Z * src); cur_loader : option Z; cur_cfg : Z }.

  Definition contents_new : contents := {| tpl := fun _ => None; cur_loader := None; cur_cfg := 0 |}.

  (* an addition that fails to compile leaves the environment as it was *)
  Definition spec_add (c : contents) (n : name) (x : src) : contents * option Z :=
    match compile (MTemplate (cur_cfg c)) x with
    | CErr e => (c, Some e)
    | COk _ => ({| tpl := upd (tpl c) n (Some (cur_cfg c, x)); cur_loader := cur_loader c; cur_cfg := cur_cfg c |}, None)
    end.

  (* a name renders the source the environment holds for it; a name it does not hold is asked from
     the loader, and the source obtained is kept from then on *)
  Definition spec_get (c : contents) (n : name) (now : Z) : contents * gres tmpl :=
    match tpl c n with
    | Some (k, x) => (c, match compile (MTemplate k) x with COk t => GOk t | CErr e => GErr e end)
    | None =>
        match cur_loader c with
        | None => (c, GErr E_TemplateNotFound)
        | Some l =>
            match loader l now n with
            | LMissing => (c, GErr E_TemplateNotFound)
            | LFail e => (c, GErr e)
            | LFound x =>
                match compile (MTemplate (cur_cfg c)) x with
                | CErr e => (c, GErr e)
                | COk t => ({| tpl := upd (tpl c) n (Some (cur_cfg c, x)); cur_loader := cur_loader c; cur_cfg := cur_cfg c |}, GOk t)
                end
            end
        end
    end.

  Definition spec_step (c : contents) (o : sop) : contents * sout tmpl :=
    match o with
    | OAddBorrowed n x | OAddOwned n x => let (c', e) := spec_add c n x in (c', SAdd e)
    | ORemove n => ({| tpl := upd (tpl c) n None; cur_loader := cur_loader c; cur_cfg := cur_cfg c |}, SUnit)
    | OClear => ({| tpl := fun _ => None; cur_loader := cur_loader c; cur_cfg := cur_cfg c |}, SUnit)
    | OSetLoader l => ({| tpl := tpl c; cur_loader := Some l; cur_cfg := cur_cfg c |}, SUnit)
    | OSetConfig k => ({| tpl := tpl c; cur_loader := cur_loader c; cur_cfg := k |}, SUnit)
    | OGet n now => let (c', r) := spec_get c n now in (c', SGot r)
    end.

  Fixpoint spec_run (c : contents) (h : list sop) : contents * list (sout tmpl) :=
    match h with
    | [] => (c, [])
    | o :: r => let (c1, out) := spec_step c o in
                let (c2, outs) := spec_run c1 r in (c2, out :: outs)
    end.

  (* ---- whole environments ---- *)
  Record senv := { sc : contents; sr : rk -> Z -> option Z }.
  Record sworld := { scur : senv; sother : option senv }.

  Definition senv_new : senv := {| sc := contents_new; sr := builtin_has |}.
  Definition sworld_new : sworld := {| scur := senv_new; sother := None |}.

  Definition sr_upd (r : rk -> Z -> option Z) (k : rk) (nm : Z) (v : option Z) : rk -> Z -> option Z :=
    fun k' => match k, k' with
              | RF, RF | RT, RT | RG, RG => upd (r k') nm v
              | _, _ => r k'
              end.

  (* a render is a function of the call (context, sink), the template and the registries: it does not
     depend on earlier renders, failed or not, on this or any other thread *)
  Definition s_show_get (e : senv) (rc : Z) (r : gres tmpl) : obs :=
    match r with GOk t => render rc t (sr e) | GErr c => o_err c end.

  Definition s_show_sout (e : senv) (o : sout tmpl) : obs :=
    match o with
    | SUnit => o_unit
    | SAdd None => o_unit
    | SAdd (Some c) => o_err c
    | SGot r => s_show_get e 0 r
    end.

  (* what render call [rc] of [n] gives at time [now] *)
  Definition s_observe (e : senv) (rc : Z) (n : name) (now : Z) : obs := s_show_get e rc (snd (spec_get (sc e) n now)).

  Definition s_adhoc_mode (how c : Z) : cmode :=
    if how <? 4 then MTemplate c else if how <? 6 then MExpr else MAnalysis.

  (* operations act on the current environment only; a clone is an equal, independent environment *)
  Definition sworld_step (w : sworld) (o : wop) : sworld * obs :=
    let e := scur w in
    match o with
    | WStore so =>
        let (c', out) := spec_step (sc e) so in
        ({| scur := {| sc := c'; sr := sr e |}; sother := sother w |}, s_show_sout e out)
    | WRegAdd k nm v => ({| scur := {| sc := sc e; sr := sr_upd (sr e) k nm (Some v) |}; sother := sother w |}, o_unit)
    | WRegRemove k nm => ({| scur := {| sc := sc e; sr := sr_upd (sr e) k nm None |}; sother := sother w |}, o_unit)
    | WClone => ({| scur := e; sother := Some e |}, o_unit)
    | WSwap => match sother w with
               | Some e' => ({| scur := e'; sother := Some e |}, o_unit)
               | None => (w, o_unit)
               end
    | WAdhoc how n x =>
        (* an ad-hoc source is compiled under the current configuration and rendered; it is not part of
           the contents before or after, whatever name it carries *)
        (w, match compile (s_adhoc_mode how (cur_cfg (sc e))) x with COk t => render 0 t (sr e) | CErr c => o_err c end)
    | WRender rc n now =>
        let (c', r) := spec_get (sc e) n now in
        ({| scur := {| sc := c'; sr := sr e |}; sother := sother w |}, s_show_get e rc r)
    | WRenderBadCtx n now panics =>
        let (c', r) := spec_get (sc e) n now in
        ({| scur := {| sc := c'; sr := sr e |}; sother := sother w |},
         match r with
         | GOk _ => if panics then o_panic else o_err E_BadSerialization
         | GErr c => o_err c
         end)
    end.

  Fixpoint sworld_run (w : sworld) (h : list wop) : sworld * list obs :=
    match h with
    | [] => (w, [])
    | o :: r => let (w1, out) := sworld_step w o in
                let (w2, outs) := sworld_run w1 r in (w2, out :: outs)
    end.
End Spec.
