(* C15 vocabulary shared by the model (Model.v) and the specification (Spec.v): names,
   sources, the operations of a history and what they return.  No behaviour here. *)
From MJ Require Import Common.Base.

Definition name := Z.      (* a template name *)
Definition src := Z.       (* a template source text (its identity) *)

(* result of compiling a source: CompiledTemplate::new *)
Inductive cres (tmpl : Type) := COk (t : tmpl) | CErr (code : Z).
Arguments COk {tmpl} t.
Arguments CErr {tmpl} code.

(* what is being compiled: a template under a template_config (whitespace/syntax settings), an
   expression (compile_expression), or a template parsed for analysis (undeclared_variables) *)
Inductive cmode := MTemplate (cfg : Z) | MExpr | MAnalysis.

(* result of the loader closure: Ok(None) / Ok(Some(source)) / Err(e) *)
Inductive lres := LMissing | LFound (x : src) | LFail (code : Z).

(* result of LoaderStore::get / Environment::get_template *)
Inductive gres (tmpl : Type) := GOk (t : tmpl) | GErr (code : Z).
Arguments GOk {tmpl} t.
Arguments GErr {tmpl} code.

(* operations on the template store *)
Inductive sop :=
| OAddBorrowed (n : name) (x : src)   (* Environment::add_template (both Cow::Borrowed) *)
| OAddOwned (n : name) (x : src)      (* Environment::add_template_owned (any other Cow combination) *)
| ORemove (n : name)                  (* remove_template *)
| OClear                              (* clear_templates *)
| OSetLoader (l : Z)                  (* set_loader; [l] identifies the closure *)
| OSetConfig (c : Z)                  (* set_trim_blocks / set_keep_trailing_newline / set_syntax ...: the template_config *)
| OGet (n : name) (now : Z).          (* get_template at world time [now] *)

Inductive sout (tmpl : Type) :=
| SUnit
| SAdd (e : option Z)                 (* None = Ok(()), Some code = Err *)
| SGot (r : gres tmpl).
Arguments SUnit {tmpl}.
Arguments SAdd {tmpl} e.
Arguments SGot {tmpl} r.

(* the three registries of an environment *)
Inductive rk := RF | RT | RG.         (* filters, tests, globals *)

(* what a render (or an operation) shows to the caller: (0, v) output v; (1, c) error kind c;
   (2, 0) nothing to report; (4, 0) the caller's own code panicked *)
Definition obs := (Z * Z)%type.
Definition o_err (c : Z) : obs := (1, c).
Definition o_unit : obs := (2, 0).
Definition o_panic : obs := (4, 0).

(* operations on a "world": a current environment and at most one other environment
   (the original or the clone after [Environment::clone]) *)
Inductive wop :=
| WStore (o : sop)                    (* store operation on the current environment; OGet = get_template + render (call 0) *)
| WRender (rc : Z) (n : name) (now : Z)
                                      (* get_template + a render call [rc]: which context is passed, where the output goes
                                         (String / a writer that fails), on which thread *)
| WRegAdd (k : rk) (nm w : Z)         (* add_filter / add_test / add_function: name nm, function identity w *)
| WRegRemove (k : rk) (nm : Z)        (* remove_filter / remove_test / remove_global *)
| WClone                              (* other := clone of current (continuing on either copy) *)
| WSwap                               (* continue on the other environment *)
| WAdhoc (how : Z) (n : name) (x : src)
                                      (* an ad-hoc entry point given a source (and maybe a name that collides with a
                                         stored or loader-served template): how = 0 render_named_str, 1 render_str,
                                         2 template_from_named_str + render, 3 template_from_str + render,
                                         4 compile_expression + eval, 5 compile_expression_owned + eval,
                                         otherwise template_from_named_str + undeclared_variables *)
| WRenderBadCtx (n : name) (now : Z) (panics : bool).
                                      (* get_template + render with a context whose Serialize impl fails / panics *)
