(* C16 model.  Mirrors, as they are:
     minijinja/src/value/serialize.rs   ValueSerializer and its compound serializers        -> [ser]
     minijinja/src/value/deserialize.rs impl Deserializer for Value, EnumDeserializer,
                                        VariantDeserializer, composed with the visitors that
                                        serde's std impls / serde_derive generate for a type -> [de]
     minijinja/src/value/mod.rs         ValueHandleRegistry, impl Serialize for Value (handle
                                        branch), SerializeTupleStruct::Handle                -> [embed]
     minijinja/src/filters.rs           the character replacement at the end of tojson      -> [json_postprocess]
     serde_json  format_escaped_str (third party, modelled for the string leg only)          -> [json_quote]

   Modelling decisions (also listed in the evidence file):
   - strings are lists of code points, byte strings lists of bytes, floats are their IEEE bit
     pattern; an f32 is represented by the bit pattern of the f64 it widens to;
   - a template map is an association list in insertion order; the BTreeMap (or IndexMap)
     re-ordering is invisible to serde's map visitors and is not modelled; keys of one Rust
     map are assumed to serialise to pairwise different template values (no insert-collision);
   - [SHandle v] is a Rust field of type [Value] holding [v]: its Serialize impl goes through
     the handle registry ([embed]); theorem handles_identity justifies [ser (SHandle v) = v];
     the thread-local flag that selects the handle branch, its save/restore discipline
     (InternalSerializationGuard) and conversions nested inside Serialize impls are modelled by
     the state machine [ser_node] / [convert] at the end of this file (theorem reentrancy_transparent);
   - [de] follows the real code on every value that [ser] can produce.  Off that image three
     serde conveniences are not modelled and yield [None]: integer -> float coercion, bytes ->
     String (UTF-8), integer map keys used as field positions. *)
From MJ Require Import Common.Base.

Definition str := list Z.

Fixpoint str_eqb (a b : str) : bool :=
  match a, b with
  | [], [] => true
  | x :: a', y :: b' => (x =? y) && str_eqb a' b'
  | _, _ => false
  end.

(* ---------------------------------------------------------------------------------- *)
(* template values (ValueRepr)                                                          *)
(* ---------------------------------------------------------------------------------- *)
Inductive value :=
| VUndef
| VNone
| VBool (b : bool)
| VI64 (z : Z)
| VU64 (z : Z)
| VI128 (z : Z)
| VU128 (z : Z)
| VF64 (bits : Z)
| VStr (safe : bool) (s : str)                 (* String(_, Normal|Safe) / SmallStr *)
| VBytes (l : list Z)
| VSeq (tuple : bool) (l : list value)         (* Object with repr Seq; [tuple] = it is a value::Tuple *)
| VMap (es : list (value * value))             (* Object with repr Map *)
| VPlain (id : Z) (display : str)              (* Object with repr Plain, identified by [id]; its Display text *)
| VInvalid.                                    (* Value::from(Error) *)

(* ---------------------------------------------------------------------------------- *)
(* the serde data model: what T::serialize says to a Serializer                         *)
(* ---------------------------------------------------------------------------------- *)
Inductive sval :=
| SUnit
| SBool (b : bool)
| SInt (w : Z) (z : Z)                         (* serialize_i8 .. serialize_i128 *)
| SUInt (w : Z) (z : Z)
| SF64 (bits : Z)
| SF32 (bits : Z)
| SChar (c : Z)
| SStr (s : str)
| SBytes (l : list Z)
| SNone
| SSome (v : sval)
| SUnitStruct
| SUnitVariant (idx : Z) (name : str)
| SNewtypeStruct (v : sval)
| SNewtypeVariant (idx : Z) (name : str) (v : sval)
| SSeq (l : list sval)
| STuple (l : list sval)
| STupleStruct (l : list sval)
| STupleVariant (idx : Z) (name : str) (l : list sval)
| SMap (kvs : list (sval * sval))
| SStruct (fs : list (str * sval))
| SStructVariant (idx : Z) (name : str) (fs : list (str * sval))
| SHandle (v : value).                         (* a field of type minijinja::Value holding v *)

(* Rust types, as far as serde sees them.  The P-forms describe enum variants and occur only
   directly under TEnum. *)
Inductive sty :=
| TUnit | TBool
| TInt (w : Z) | TUInt (w : Z)
| TF64 | TF32 | TChar | TStr | TBytes
| TOption (t : sty)
| TUnitStruct
| TNewtype (t : sty)
| TSeq (t : sty)
| TTuple (ts : list sty)
| TTupleStruct (ts : list sty)
| TMap (k v : sty)
| TStruct (fs : list (str * sty))
| TEnum (vs : list (str * sty))
| TValue
| PUnit
| PNew (t : sty)
| PTuple (ts : list sty)
| PStruct (fs : list (str * sty)).

(* ---------------------------------------------------------------------------------- *)
(* serialize.rs                                                                         *)
(* ---------------------------------------------------------------------------------- *)
Definition key_of (name : str) : value := VStr false name.   (* Value::from(&'static str) *)

Fixpoint ser (v : sval) : value :=
  match v with
  | SUnit => VNone                                           (* serialize_unit *)
  | SBool b => VBool b
  | SInt w z => if w =? 128 then VI128 z else VI64 z         (* serialize_i8..i64 widen to I64 *)
  | SUInt w z => if w =? 128 then VU128 z else VU64 z
  | SF64 b => VF64 b
  | SF32 b => VF64 b                                         (* v as f64 *)
  | SChar c => VStr false [c]                                (* Value::from(char) *)
  | SStr s => VStr false s
  | SBytes l => VBytes l
  | SNone => VNone                                           (* serialize_none *)
  | SSome x => ser x                                         (* transform(value) *)
  | SUnitStruct => VNone
  | SUnitVariant _ name => key_of name
  | SNewtypeStruct x => ser x
  | SNewtypeVariant _ name x => VMap [(key_of name, ser x)]
  | SSeq l => VSeq false (map ser l)                         (* Value::from_object(Vec<Value>) *)
  | STuple l => VSeq true (map ser l)                        (* Value::from(Tuple::from(..)) *)
  | STupleStruct l => VSeq false (map ser l)                 (* SerializeTupleStruct::Fields *)
  | STupleVariant _ name l => VMap [(key_of name, VSeq false (map ser l))]
  | SMap kvs => VMap (map (fun kv => (ser (fst kv), ser (snd kv))) kvs)
  | SStruct fs => VMap (map (fun f => (key_of (fst f), ser (snd f))) fs)          (* StaticKeyMap *)
  | SStructVariant _ name fs => VMap [(key_of name, VMap (map (fun f => (key_of (fst f), ser (snd f))) fs))]
  | SHandle x => x                                           (* SerializeTupleStruct::Handle, see [embed] *)
  end.

(* ---------------------------------------------------------------------------------- *)
(* the handle registry (value/mod.rs)                                                   *)
(* ---------------------------------------------------------------------------------- *)
(* BTreeMap<u32, Value> as an association list with at most one entry per key *)
Definition amap := list (Z * value).
Definition amap_remove (h : Z) (m : amap) : amap := filter (fun e => negb (fst e =? h)) m.
Definition amap_insert (h : Z) (v : value) (m : amap) : amap := (h, v) :: amap_remove h m.
Fixpoint amap_get (h : Z) (m : amap) : option value :=
  match m with
  | [] => None
  | (h', v) :: r => if h' =? h then Some v else amap_get h r
  end.

Record registry := { single : option (Z * value); overflow : amap }.

(* ValueHandleRegistry::insert *)
Definition reg_insert (r : registry) (h : Z) (v : value) : registry :=
  match single r, overflow r with
  | None, [] => {| single := Some (h, v); overflow := [] |}
  | Some (h', v'), ov => {| single := None; overflow := amap_insert h v (amap_insert h' v' ov) |}
  | None, ov => {| single := None; overflow := amap_insert h v ov |}
  end.

(* ValueHandleRegistry::remove *)
Definition reg_remove (r : registry) (h : Z) : option value * registry :=
  match single r with
  | Some (h', v') =>
      if h' =? h then (Some v', {| single := None; overflow := overflow r |})
      else (amap_get h (overflow r), {| single := single r; overflow := amap_remove h (overflow r) |})
  | None => (amap_get h (overflow r), {| single := None; overflow := amap_remove h (overflow r) |})
  end.

(* what the registry holds under handle number [h] *)
Definition reg_get (r : registry) (h : Z) : option value :=
  match single r with
  | Some (h', v') => if h' =? h then Some v' else amap_get h (overflow r)
  | None => amap_get h (overflow r)
  end.

Definition u32_wrap (z : Z) : Z := z mod 2 ^ 32.

(* Value::as_usize on the value the handle number was transformed into *)
Definition as_usize (v : value) : option Z :=
  match v with
  | VU64 z => Some z
  | VI64 z => if 0 <=? z then Some z else None
  | _ => None
  end.

(* impl Serialize for Value while serializing_for_value(), received by ValueSerializer:
   LAST_VALUE_HANDLE += 1 (wrapping); insert; serialize_tuple_struct(MARKER, 1) -> Handle(None);
   serialize_field(&handle) -> transform(handle).as_usize() as u32; end() -> remove, or InvalidValue.
   State = (last handle, registry).  Result = the template value the field becomes. *)
Definition embed (last : Z) (r : registry) (v : value) : value * (Z * registry) :=
  let h := u32_wrap (last + 1) in
  let r1 := reg_insert r h v in
  let field := ser (SUInt 32 h) in
  match as_usize field with
  | Some x =>
      let '(res, r2) := reg_remove r1 (u32_wrap x) in
      (match res with Some v' => v' | None => VInvalid end, (h, r2))
  | None => (VInvalid, (h, r1))
  end.

(* ---------------------------------------------------------------------------------- *)
(* re-entrancy: INTERNAL_SERIALIZATION, InternalSerializationGuard, From<Serde<T>> for Value *)
(* ---------------------------------------------------------------------------------- *)
(* impl Serialize for Value when the flag is NOT set, received by ValueSerializer: the lossy
   structural copy (safe flag dropped, undefined/invalid -> none, plain object -> its text,
   tuple -> plain sequence) *)
Fixpoint lossy (v : value) : value :=
  match v with
  | VUndef | VNone | VInvalid => VNone
  | VStr _ s => VStr false s
  | VSeq _ l => VSeq false (map lossy l)
  | VMap es => VMap (map (fun e => (lossy (fst e), lossy (snd e))) es)
  | VPlain _ d => VStr false d
  | _ => v
  end.

(* What a user Serialize impl may do while a conversion is running (harness: c16.rs::Node). *)
Inductive node :=
| NInt (z : Z)
| NEmb (v : value)              (* a field of type Value *)
| NProbe                        (* serialize_bool(serializing_for_value()) *)
| NSeq (l : nodes) | NTuple (l : nodes) | NMap (l : nodes) | NStruct (l : nodes)
| NNVar (x : node) | NTVar (l : nodes) | NSVar (l : nodes) | NSome (x : node)
| NNested (x : node)            (* Value::from(Serde(x)).serialize(s) *)
| NNestedDrop (x : node)        (* let _ = Value::from(Serde(x)); s.serialize_unit() *)
| NNestedCatch (x : node)       (* the same under catch_unwind; unit when it panicked *)
| NThread (x : node)            (* the conversion runs on a fresh thread; its result is serialised here *)
| NFail                         (* Err(S::Error::custom(..)) *)
| NPanic
| NLeak (v : value)             (* a Value handed to a foreign serializer (serde_json::to_string) during the conversion:
                                   impl Serialize for Value registers a handle that nobody redeems; then serialize_unit *)
| NFlatten (v : value)          (* struct with #[serde(flatten)] on a Value field: handle registered, then serde's
                                   FlatMapSerializer refuses the tuple struct: error *)
with nodes := NNil | NCons (x : node) (r : nodes).

(* thread-local state: INTERNAL_SERIALIZATION, LAST_VALUE_HANDLE, VALUE_HANDLES *)
Record cstate := { flag : bool; last : Z; reg : registry }.
Definition fresh_thread : cstate := {| flag := false; last := 0; reg := {| single := None; overflow := [] |} |}.
Definition set_flag (b : bool) (st : cstate) : cstate := {| flag := b; last := last st; reg := reg st |}.

Inductive res (A : Type) := ROk (a : A) | RErr | RPanic.    (* Ok / serde error / unwinding *)
Arguments ROk {A} a. Arguments RErr {A}. Arguments RPanic {A}.

(* impl Serialize for Value, received by ValueSerializer *)
Definition ser_value (v : value) (st : cstate) : value * cstate :=
  if flag st then
    let '(v', (h, r2)) := embed (last st) (reg st) v in (v', {| flag := flag st; last := h; reg := r2 |})
  else (lossy v, st).

(* impl Serialize for Value with the flag set, received by a serializer that is NOT ValueSerializer:
   the handle is registered and stays in the registry *)
Definition leak (v : value) (st : cstate) : cstate :=
  if flag st then
    let h := u32_wrap (last st + 1) in {| flag := flag st; last := h; reg := reg_insert (reg st) h v |}
  else st.

Definition field_key (i : Z) : value := VStr false [102; 48 + i].    (* "f0" .. "f9" *)
Definition variant_key : value := VStr false [86].                  (* "V" *)

Definition with_keys (l : list value) : list (value * value) :=
  (fix go (i : Z) (l : list value) := match l with [] => [] | x :: r => (field_key i, x) :: go (i + 1) r end) 0 l.

(* [ser_node x st]: x.serialize(ValueSerializer).  [transform]: serialize.rs::transform, which
   turns a serde error into an invalid value.  [convert]: From<Serde<T>> for Value with its guard:
   old = flag.replace(true); run; on drop (also when unwinding) clear the flag iff old was false. *)
Fixpoint ser_node (x : node) (st : cstate) {struct x} : res value * cstate :=
  let transform := fun (y : node) (st : cstate) =>
    match ser_node y st with
    | (ROk v, st') => (ROk v, st')
    | (RErr, st') => (ROk VInvalid, st')
    | (RPanic, st') => (RPanic, st')
    end in
  let convert := fun (y : node) (st : cstate) =>
    let old := flag st in
    let '(r, st') := transform y (set_flag true st) in
    (r, if old then st' else set_flag false st') in
  let wrap := fun (f : value -> value) (r : res value * cstate) =>
    match r with (ROk v, st') => (ROk (f v), st') | (RErr, st') => (RErr, st') | (RPanic, st') => (RPanic, st') end in
  match x with
  | NInt z => (ROk (VI64 z), st)
  | NEmb v => let '(v', st') := ser_value v st in (ROk v', st')
  | NProbe => (ROk (VBool (flag st)), st)
  | NSeq l => match ser_nodes l st with (ROk vs, st') => (ROk (VSeq false vs), st') | (RErr, st') => (RErr, st') | (RPanic, st') => (RPanic, st') end
  | NTuple l => match ser_nodes l st with (ROk vs, st') => (ROk (VSeq true vs), st') | (RErr, st') => (RErr, st') | (RPanic, st') => (RPanic, st') end
  | NMap l | NStruct l =>
      match ser_nodes l st with (ROk vs, st') => (ROk (VMap (with_keys vs)), st') | (RErr, st') => (RErr, st') | (RPanic, st') => (RPanic, st') end
  | NNVar y => wrap (fun v => VMap [(variant_key, v)]) (transform y st)
  | NTVar l => match ser_nodes l st with (ROk vs, st') => (ROk (VMap [(variant_key, VSeq false vs)]), st') | (RErr, st') => (RErr, st') | (RPanic, st') => (RPanic, st') end
  | NSVar l => match ser_nodes l st with (ROk vs, st') => (ROk (VMap [(variant_key, VMap (with_keys vs))]), st') | (RErr, st') => (RErr, st') | (RPanic, st') => (RPanic, st') end
  | NSome y => transform y st
  | NNested y =>
      match convert y st with
      | (ROk v, st') => let '(v', st'') := ser_value v st' in (ROk v', st'')
      | (RErr, st') => (RErr, st')
      | (RPanic, st') => (RPanic, st')
      end
  | NNestedDrop y =>
      match convert y st with
      | (ROk _, st') => (ROk VNone, st')
      | (RErr, st') => (RErr, st')
      | (RPanic, st') => (RPanic, st')
      end
  | NNestedCatch y =>
      match convert y st with
      | (ROk v, st') => let '(v', st'') := ser_value v st' in (ROk v', st'')
      | (RErr, st') => (ROk VNone, st')
      | (RPanic, st') => (ROk VNone, st')
      end
  | NThread y =>
      match fst (convert y fresh_thread) with        (* other thread: other thread-locals *)
      | ROk v => let '(v', st') := ser_value v st in (ROk v', st')
      | RErr => (ROk VNone, st)
      | RPanic => (ROk VNone, st)
      end
  | NFail => (RErr, st)
  | NPanic => (RPanic, st)
  | NLeak v => (ROk VNone, leak v st)
  | NFlatten v => (RErr, leak v st)
  end
(* the elements / fields of a compound serializer, each through transform, left to right *)
with ser_nodes (l : nodes) (st : cstate) {struct l} : res (list value) * cstate :=
  match l with
  | NNil => (ROk [], st)
  | NCons y r =>
      match ser_node y st with
      | (RPanic, st') => (RPanic, st')
      | (ROk v, st') =>
          match ser_nodes r st' with
          | (ROk vs, st'') => (ROk (v :: vs), st'')
          | (RErr, st'') => (RErr, st'')
          | (RPanic, st'') => (RPanic, st'')
          end
      | (RErr, st') =>                                   (* transform: an invalid value *)
          match ser_nodes r st' with
          | (ROk vs, st'') => (ROk (VInvalid :: vs), st'')
          | (RErr, st'') => (RErr, st'')
          | (RPanic, st'') => (RPanic, st'')
          end
      end
  end.

Definition transform (y : node) (st : cstate) : res value * cstate :=
  match ser_node y st with
  | (ROk v, st') => (ROk v, st')
  | (RErr, st') => (ROk VInvalid, st')
  | (RPanic, st') => (RPanic, st')
  end.

(* Value::from(Serde(y)) *)
Definition convert (y : node) (st : cstate) : res value * cstate :=
  let old := flag st in
  let '(r, st') := transform y (set_flag true st) in
  (r, if old then st' else set_flag false st').

(* ---------------------------------------------------------------------------------- *)
(* deserialize.rs + the visitors of the target type                                     *)
(* ---------------------------------------------------------------------------------- *)
Definition int_range (signed : bool) (w z : Z) : bool :=
  if signed then (- 2 ^ (w - 1) <=? z) && (z <=? 2 ^ (w - 1) - 1)
  else (0 <=? z) && (z <=? 2 ^ w - 1).

(* deserialize_any on a number: visit_i64 / visit_u64; 128-bit representations reach
   visit_i128/visit_u128 which the 8..64-bit visitors do not implement *)
Definition int_of (v : value) : option Z :=
  match v with VI64 z | VU64 z => Some z | _ => None end.

(* the i128 / u128 visitors accept all four integer representations (num_self, num_as_self,
   int_to_uint, num_128), each with a range check *)
Definition int_of128 (v : value) : option Z :=
  match v with VI64 z | VU64 z | VI128 z | VU128 z => Some z | _ => None end.

Definition is_none_like (v : value) : bool :=
  match v with VNone | VUndef => true | _ => false end.

Definition is_option (t : sty) : bool := match t with TOption _ => true | _ => false end.

(* first entry whose key is the string [name] (MapDeserializer + derived field visitor) *)
Fixpoint assoc_str (name : str) (es : list (value * value)) : option value :=
  match es with
  | [] => None
  | (VStr _ s, x) :: r => if str_eqb s name then Some x else assoc_str name r
  | _ :: r => assoc_str name r
  end.

Definition all_str_keys (es : list (value * value)) : bool :=
  forallb (fun e => match fst e with VStr _ _ => true | _ => false end) es.

Definition mapM {A B} (f : A -> option B) : list A -> option (list B) :=
  fix go (l : list A) : option (list B) :=
    match l with
    | [] => Some []
    | x :: r => match f x, go r with Some y, Some ys => Some (y :: ys) | _, _ => None end
    end.

(* visit_seq of a tuple-like visitor: one element per component; a missing element is
   invalid_length; surplus elements are simply not read *)
Definition zipM {A B C} (f : A -> B -> option C) : list A -> list B -> option (list C) :=
  fix go (ts : list A) (l : list B) : option (list C) :=
    match ts with
    | [] => Some []
    | t :: ts' =>
        match l with
        | [] => None
        | x :: l' => match f t x, go ts' l' with Some y, Some ys => Some (y :: ys) | _, _ => None end
        end
    end.

(* derived struct visitor, visit_map: every field by name; a missing field is an error unless
   the field is an Option (serde's missing_field) *)
Definition fieldsM (f : sty -> value -> option sval) (es : list (value * value))
  : list (str * sty) -> option (list (str * sval)) :=
  fix go (fs : list (str * sty)) : option (list (str * sval)) :=
    match fs with
    | [] => Some []
    | (n, t) :: fs' =>
        let here := match assoc_str n es with
                    | Some x => f t x
                    | None => if is_option t then Some SNone else None
                    end in
        match here, go fs' with Some y, Some ys => Some ((n, y) :: ys) | _, _ => None end
    end.

(* derived struct visitor, visit_seq: positional *)
Definition fieldsSeqM (f : sty -> value -> option sval)
  : list (str * sty) -> list value -> option (list (str * sval)) :=
  fix go (fs : list (str * sty)) (l : list value) : option (list (str * sval)) :=
    match fs with
    | [] => Some []
    | (n, t) :: fs' =>
        match l with
        | [] => None
        | x :: l' => match f t x, go fs' l' with Some y, Some ys => Some ((n, y) :: ys) | _, _ => None end
        end
    end.

(* variant identifier: visit_str by name, visit_u64 by position *)
Definition variant_hit (key : value) (i : Z) (n : str) : bool :=
  match key with
  | VStr _ s => str_eqb s n
  | VU64 k => k =? i
  | _ => false
  end.

Definition variantM (g : sty -> Z -> str -> option sval) (key : value)
  : Z -> list (str * sty) -> option sval :=
  fix go (i : Z) (vs : list (str * sty)) : option sval :=
    match vs with
    | [] => None                                              (* unknown variant *)
    | (n, p) :: vs' => if variant_hit key i n then g p i n else go (i + 1) vs'
    end.

Fixpoint de (t : sty) (v : value) {struct t} : option sval :=
  match t with
  | TUnit => if is_none_like v then Some SUnit else None                 (* visit_unit *)
  | TUnitStruct => if is_none_like v then Some SUnitStruct else None     (* deserialize_unit_struct -> unit *)
  | TBool => match v with VBool b => Some (SBool b) | _ => None end
  | TInt w =>
      if w =? 128 then                                                   (* deserialize_i128 is forwarded to deserialize_any (c8ac377) *)
        match int_of128 v with
        | Some z => if int_range true 128 z then Some (SInt 128 z) else None
        | None => None
        end
      else if 64 <? w then None                                          (* no such Rust integer type *)
      else match int_of v with
           | Some z => if int_range true w z then Some (SInt w z) else None
           | None => None
           end
  | TUInt w =>
      if w =? 128 then
        match int_of128 v with
        | Some z => if int_range false 128 z then Some (SUInt 128 z) else None
        | None => None
        end
      else if 64 <? w then None
      else match int_of v with
           | Some z => if int_range false w z then Some (SUInt w z) else None
           | None => None
           end
  | TF64 => match v with VF64 b => Some (SF64 b) | _ => None end
  | TF32 => match v with VF64 b => Some (SF32 b) | _ => None end          (* v as f32, exact on widened f32 *)
  | TChar => match v with VStr _ [c] => Some (SChar c) | _ => None end    (* CharVisitor::visit_str *)
  | TStr => match v with VStr _ s => Some (SStr s) | _ => None end
  | TBytes => match v with VBytes l => Some (SBytes l) | _ => None end
  | TOption t' =>                                                         (* deserialize_option *)
      if is_none_like v then Some SNone
      else match de t' v with Some x => Some (SSome x) | None => None end
  | TNewtype t' =>                                                        (* visit_newtype_struct(self) *)
      match de t' v with Some x => Some (SNewtypeStruct x) | None => None end
  | TSeq t' =>
      match v with
      | VSeq _ l => match mapM (de t') l with Some xs => Some (SSeq xs) | None => None end
      | _ => None
      end
  | TTuple ts =>
      match v with
      | VSeq _ l => match zipM de ts l with Some xs => Some (STuple xs) | None => None end
      | _ => None
      end
  | TTupleStruct ts =>
      match v with
      | VSeq _ l => match zipM de ts l with Some xs => Some (STupleStruct xs) | None => None end
      | _ => None
      end
  | TMap k t' =>
      match v with
      | VMap es =>
          match mapM (fun e => match de k (fst e), de t' (snd e) with
                               | Some a, Some b => Some (a, b)
                               | _, _ => None
                               end) es with
          | Some kvs => Some (SMap kvs)
          | None => None
          end
      | _ => None
      end
  | TStruct fs =>
      match v with
      | VMap es => if all_str_keys es
                   then match fieldsM de es fs with Some xs => Some (SStruct xs) | None => None end
                   else None
      | VSeq _ l => match fieldsSeqM de fs l with Some xs => Some (SStruct xs) | None => None end
      | _ => None
      end
  | TEnum vs =>                                                            (* deserialize_enum *)
      match v with
      | VStr _ _ => variantM (fun p i n => de_payload p i n None) v 0 vs
      | VMap [(key, x)] => variantM (fun p i n => de_payload p i n (Some x)) key 0 vs
      | _ => None                                                          (* not a string, not a single-key map *)
      end
  | TValue => None                                                         (* not part of the round trip, see header *)
  | PUnit | PNew _ | PTuple _ | PStruct _ => None
  end
(* VariantDeserializer; [x] is its [value] *)
with de_payload (p : sty) (idx : Z) (name : str) (x : option value) {struct p} : option sval :=
  match p with
  | PUnit =>                                                               (* unit_variant *)
      match x with
      | None => Some (SUnitVariant idx name)
      | Some v => if is_none_like v then Some (SUnitVariant idx name) else None
      end
  | PNew t =>                                                              (* newtype_variant_seed *)
      match x with
      | Some v => match de t v with Some y => Some (SNewtypeVariant idx name y) | None => None end
      | None => None
      end
  | PTuple ts =>                                                           (* tuple_variant: repr Seq, SeqDeserializer with end() check *)
      match x with
      | Some (VSeq _ l) =>
          if lenZ l =? lenZ ts
          then match zipM de ts l with Some ys => Some (STupleVariant idx name ys) | None => None end
          else None
      | _ => None
      end
  | PStruct fs =>                                                          (* struct_variant: kind Map *)
      match x with
      | Some (VMap es) =>
          if all_str_keys es
          then match fieldsM de es fs with Some ys => Some (SStructVariant idx name ys) | None => None end
          else None
      | _ => None
      end
  | _ => None
  end.

(* ---------------------------------------------------------------------------------- *)
(* filters.rs::tojson, last step; serde_json string escaping                            *)
(* ---------------------------------------------------------------------------------- *)
Definition post_char (c : Z) : str :=
  if c =? 60 then [92; 117; 48; 48; 51; 99]          (* <  ->  < *)
  else if c =? 62 then [92; 117; 48; 48; 51; 101]    (* >  ->  > *)
  else if c =? 38 then [92; 117; 48; 48; 50; 54]     (* &  ->  & *)
  else if c =? 39 then [92; 117; 48; 48; 50; 55]     (* '  ->  ' *)
  else [c].

Definition json_postprocess (s : str) : str := flat_map post_char s.

Definition hexd (n : Z) : Z := if n <? 10 then 48 + n else 87 + n.   (* 0-9 a-f *)

(* serde_json::ser::format_escaped_str_contents (ESCAPE table) *)
Definition json_escape_char (c : Z) : str :=
  if c =? 34 then [92; 34]
  else if c =? 92 then [92; 92]
  else if c =? 8 then [92; 98]
  else if c =? 9 then [92; 116]
  else if c =? 10 then [92; 110]
  else if c =? 12 then [92; 102]
  else if c =? 13 then [92; 114]
  else if c <? 32 then [92; 117; 48; 48; hexd (c / 16); hexd (c mod 16)]
  else [c].

Definition json_quote (s : str) : str := 34 :: flat_map json_escape_char s ++ [34].

(* {{ s|tojson }} for a string value *)
Definition tojson_str (s : str) : str := json_postprocess (json_quote s).

(* ---------------------------------------------------------------------------------- *)
(* impl Serialize for Value, Seq/Iterable arm, received by serde_json                   *)
(* ---------------------------------------------------------------------------------- *)
(* serde_json::Serializer::serialize_seq(len) + SerializeSeq for Compound with a formatter whose
   element separator is [sep] ("," compact, ", " JinjaJsonFormatter): "[" is written at once; when
   len = Some 0 the "]" follows immediately and the state is Empty, otherwise First; every element
   is preceded by the separator unless the state is First; end() writes "]" unless Empty. *)
Inductive jstate := JEmpty | JFirst | JRest.

Fixpoint json_elems (sep : str) (st : jstate) (elems : list str) : str * jstate :=
  match elems with
  | [] => ([], st)
  | e :: r =>
      let pre := match st with JFirst => [] | _ => sep end in
      let '(rest, st') := json_elems sep JRest r in
      (pre ++ e ++ rest, st')
  end.

Definition json_array (sep : str) (hint : option Z) (elems : list str) : str :=
  let empty := match hint with Some 0 => true | _ => false end in
  let '(body, st) := json_elems sep (if empty then JEmpty else JFirst) elems in
  91 :: (if empty then [93] else []) ++ body ++ match st with JEmpty => [] | _ => [93] end.

(* value/mod.rs (after the fix: commit of known/C16.json): the object is enumerated once; the hint is Some n when the iterator's
   size_hint is exact (lower = upper = n, which the engine's sized enumerators guarantee to be the number
   of items), None otherwise *)
Definition seq_len_hint (sized : bool) (elems : list str) : option Z :=
  if sized then Some (lenZ elems) else None.
