(* C16, laws of the tojson post-processing (filters.rs: the four-character replacement): it leaves a text
   without < > & ' alone, hence is idempotent (a value passed through tojson twice is not double-escaped by
   this step), and it distributes over concatenation (chunked output equals whole output). *)
From MJ Require Import Common.Base C16.Model C16.Spec C16.Proofs.

Lemma post_fixed_on_safe : forall s, (forall x, In x s -> is_html4 x = false) -> json_postprocess s = s.
Proof.
  induction s as [|c r IH]; intros H; [reflexivity|].
  rewrite post_cons, post_char_plain by (apply H; left; reflexivity).
  cbn [app]. f_equal. apply IH. intros x Hx. apply H. right. exact Hx.
Qed.

Lemma post_idempotent : forall s, json_postprocess (json_postprocess s) = json_postprocess s.
Proof. intros s. apply post_fixed_on_safe. apply tojson_html_safe_proof. Qed.

Lemma post_app : forall a b, json_postprocess (a ++ b) = json_postprocess a ++ json_postprocess b.
Proof. intros a b. unfold json_postprocess. apply flat_map_app. Qed.

(* exactly the safe texts are fixed *)
Lemma post_fixed_iff : forall s, json_postprocess s = s <-> (forall x, In x s -> is_html4 x = false).
Proof.
  intros s. split; [|apply post_fixed_on_safe].
  intros E x Hx. rewrite <- E in Hx. eapply tojson_html_safe_proof; exact Hx.
Qed.
