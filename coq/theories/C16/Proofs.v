(* C16 proofs. *)
From MJ Require Import Common.Base C16.Model C16.Spec.

(* ================================================================================== *)
(* 1. round trip                                                                        *)
(* ================================================================================== *)

Lemma str_eqb_eq : forall a b, str_eqb a b = true <-> a = b.
Proof.
  induction a as [|x a IH]; destruct b as [|y b]; cbn [str_eqb]; split; intro H; try reflexivity; try discriminate.
  - apply andb_true_iff in H. destruct H as [H1 H2]. apply Z.eqb_eq in H1. apply IH in H2. subst. reflexivity.
  - injection H as -> ->. rewrite Z.eqb_refl. cbn. apply IH. reflexivity.
Qed.

Lemma str_eqb_refl : forall a, str_eqb a a = true.
Proof. intro a. apply str_eqb_eq. reflexivity. Qed.

Lemma str_eqb_sym : forall a b, str_eqb a b = str_eqb b a.
Proof.
  intros a b. destruct (str_eqb a b) eqn:E.
  - apply str_eqb_eq in E. subst. symmetry. apply str_eqb_refl.
  - destruct (str_eqb b a) eqn:E2; [|reflexivity]. apply str_eqb_eq in E2. subst. rewrite str_eqb_refl in E. discriminate.
Qed.

(* induction principle for the nested type [sty] *)
Section StyInd.
  Variable P : sty -> Prop.
  Hypothesis HUnit : P TUnit.
  Hypothesis HBool : P TBool.
  Hypothesis HInt : forall w, P (TInt w).
  Hypothesis HUInt : forall w, P (TUInt w).
  Hypothesis HF64 : P TF64.
  Hypothesis HF32 : P TF32.
  Hypothesis HChar : P TChar.
  Hypothesis HStr : P TStr.
  Hypothesis HBytes : P TBytes.
  Hypothesis HOption : forall t, P t -> P (TOption t).
  Hypothesis HUnitStruct : P TUnitStruct.
  Hypothesis HNewtype : forall t, P t -> P (TNewtype t).
  Hypothesis HSeq : forall t, P t -> P (TSeq t).
  Hypothesis HTuple : forall ts, Forall P ts -> P (TTuple ts).
  Hypothesis HTupleStruct : forall ts, Forall P ts -> P (TTupleStruct ts).
  Hypothesis HMap : forall k v, P k -> P v -> P (TMap k v).
  Hypothesis HStruct : forall fs, Forall (fun f => P (snd f)) fs -> P (TStruct fs).
  Hypothesis HEnum : forall vs, Forall (fun f => P (snd f)) vs -> P (TEnum vs).
  Hypothesis HValue : P TValue.
  Hypothesis HPUnit : P PUnit.
  Hypothesis HPNew : forall t, P t -> P (PNew t).
  Hypothesis HPTuple : forall ts, Forall P ts -> P (PTuple ts).
  Hypothesis HPStruct : forall fs, Forall (fun f => P (snd f)) fs -> P (PStruct fs).

  Fixpoint sty_ind' (t : sty) : P t :=
    let all := fix go (l : list sty) : Forall P l :=
                 match l with [] => Forall_nil _ | x :: r => Forall_cons x (sty_ind' x) (go r) end in
    let allf := fix go (l : list (str * sty)) : Forall (fun f => P (snd f)) l :=
                  match l with [] => Forall_nil _ | x :: r => Forall_cons x (sty_ind' (snd x)) (go r) end in
    match t with
    | TUnit => HUnit | TBool => HBool | TInt w => HInt w | TUInt w => HUInt w
    | TF64 => HF64 | TF32 => HF32 | TChar => HChar | TStr => HStr | TBytes => HBytes
    | TOption t' => HOption t' (sty_ind' t')
    | TUnitStruct => HUnitStruct
    | TNewtype t' => HNewtype t' (sty_ind' t')
    | TSeq t' => HSeq t' (sty_ind' t')
    | TTuple ts => HTuple ts (all ts)
    | TTupleStruct ts => HTupleStruct ts (all ts)
    | TMap k v => HMap k v (sty_ind' k) (sty_ind' v)
    | TStruct fs => HStruct fs (allf fs)
    | TEnum vs => HEnum vs (allf vs)
    | TValue => HValue
    | PUnit => HPUnit
    | PNew t' => HPNew t' (sty_ind' t')
    | PTuple ts => HPTuple ts (all ts)
    | PStruct fs => HPStruct fs (allf fs)
    end.
End StyInd.

(* unfolding equations of the list combinators of the model *)
Lemma mapM_cons : forall A B (f : A -> option B) x r,
  mapM f (x :: r) = match f x, mapM f r with Some y, Some ys => Some (y :: ys) | _, _ => None end.
Proof. reflexivity. Qed.
Lemma zipM_cons : forall A B C (f : A -> B -> option C) t ts x l,
  zipM f (t :: ts) (x :: l) = match f t x, zipM f ts l with Some y, Some ys => Some (y :: ys) | _, _ => None end.
Proof. reflexivity. Qed.
Lemma fieldsM_cons : forall f es n t fs,
  fieldsM f es ((n, t) :: fs) =
  match (match assoc_str n es with Some x => f t x | None => if is_option t then Some SNone else None end),
        fieldsM f es fs with
  | Some y, Some ys => Some ((n, y) :: ys)
  | _, _ => None
  end.
Proof. reflexivity. Qed.
Lemma variantM_cons : forall g key i n p vs,
  variantM g key i ((n, p) :: vs) = if variant_hit key i n then g p i n else variantM g key (i + 1) vs.
Proof. reflexivity. Qed.

Definition encf (f : str * sval) : value * value := (key_of (fst f), ser (snd f)).

(* what is to be shown of a type, and of a variant descriptor *)
Definition P1 (t : sty) : Prop :=
  forall v, wf_sty t = true -> roundtrippable t = true -> has_type t v = true -> de t (ser v) = Some v.

Definition P2 (p : sty) : Prop :=
  wf_payload p = true -> roundtrippable p = true -> forall idx name,
  match p with
  | PUnit => de_payload p idx name None = Some (SUnitVariant idx name)
  | PNew t => forall x, has_type t x = true ->
                de_payload p idx name (Some (ser x)) = Some (SNewtypeVariant idx name x)
  | PTuple ts => forall l, forall2b has_type ts l = true ->
                de_payload p idx name (Some (VSeq false (map ser l))) = Some (STupleVariant idx name l)
  | PStruct fs => forall l, fields_ok has_type fs l = true ->
                de_payload p idx name (Some (VMap (map encf l))) = Some (SStructVariant idx name l)
  | _ => True
  end.

Definition PP (t : sty) : Prop := P1 t /\ P2 t.

(* a value of a non-nullable type never serialises to none *)
Lemma not_nullable_ser : forall t v,
  nullable t = false -> has_type t v = true -> is_none_like (ser v) = false.
Proof.
  induction t; intros v Hn Ht; cbn [nullable] in Hn; try discriminate;
    destruct v; cbn [has_type] in Ht; try discriminate; cbn [ser is_none_like key_of]; try reflexivity.
  - destruct (w0 =? 128); reflexivity.
  - destruct (w0 =? 128); reflexivity.
  - apply IHt; assumption.
Qed.

Lemma mapM_rt : forall t l,
  P1 t -> wf_sty t = true -> roundtrippable t = true ->
  forallb (has_type t) l = true -> mapM (de t) (map ser l) = Some l.
Proof.
  intros t l H Hw Hr. induction l as [|x l IH]; intro Hl; cbn [map]; [reflexivity|]. rewrite mapM_cons.
  cbn [forallb] in Hl. apply andb_true_iff in Hl. destruct Hl as [Hx Hl].
  rewrite (H x Hw Hr Hx). rewrite (IH Hl). reflexivity.
Qed.

Lemma zipM_rt : forall ts l,
  Forall PP ts -> forallb wf_sty ts = true -> forallb roundtrippable ts = true ->
  forall2b has_type ts l = true -> zipM de ts (map ser l) = Some l.
Proof.
  induction ts as [|t ts IH]; intros l HP Hw Hr Hl; destruct l as [|x l]; cbn [forall2b] in Hl; try discriminate.
  - reflexivity.
  - cbn [forallb] in Hw, Hr. apply andb_true_iff in Hw, Hr, Hl.
    destruct Hw as [Hw1 Hw2], Hr as [Hr1 Hr2], Hl as [Hl1 Hl2].
    inversion HP as [|? ? [HP1 _] HPs]; subst.
    cbn [map]. rewrite zipM_cons. rewrite (HP1 x Hw1 Hr1 Hl1).
    rewrite (IH l HPs Hw2 Hr2 Hl2). reflexivity.
Qed.

Lemma forall2b_length : forall ts l, forall2b has_type ts l = true -> length l = length ts.
Proof.
  induction ts as [|t ts IH]; intros [|x l] H; cbn [forall2b] in H; try discriminate; [reflexivity|].
  apply andb_true_iff in H. destruct H as [_ H]. cbn [length]. f_equal. apply IH. exact H.
Qed.

Lemma all_str_keys_encf : forall l, all_str_keys (map encf l) = true.
Proof.
  induction l as [|f l IH]; [reflexivity|]. unfold all_str_keys in *. cbn [map forallb]. rewrite IH. reflexivity.
Qed.

Lemma nodup_app_notin : forall a n b,
  nodup_str (a ++ n :: b) = true -> existsb (fun s => str_eqb s n) a = false.
Proof.
  induction a as [|x a IH]; intros n b H; [reflexivity|].
  cbn [app nodup_str] in H. apply andb_true_iff in H. destruct H as [H1 H2].
  cbn [existsb]. rewrite (IH _ _ H2). rewrite orb_false_r.
  apply negb_true_iff in H1. rewrite existsb_app in H1. apply orb_false_iff in H1. destruct H1 as [_ H1].
  cbn [existsb] in H1. apply orb_false_iff in H1. destruct H1 as [H1 _]. exact H1.
Qed.

Lemma assoc_str_encf : forall pre n x post,
  existsb (fun s => str_eqb s n) (map fst pre) = false ->
  assoc_str n (map encf (pre ++ (n, x) :: post)) = Some (ser x).
Proof.
  induction pre as [|[m y] pre IH]; intros n x post H.
  - cbn [app map encf fst snd assoc_str key_of]. rewrite str_eqb_refl. reflexivity.
  - cbn [map fst existsb] in H. apply orb_false_iff in H. destruct H as [H1 H2].
    cbn [app map]. unfold encf at 1. cbn [fst snd key_of assoc_str]. rewrite H1. apply IH. exact H2.
Qed.

Lemma fieldsM_rt : forall fs l pre,
  Forall (fun f => PP (snd f)) fs ->
  forallb (fun f => wf_sty (snd f)) fs = true ->
  forallb (fun f => roundtrippable (snd f)) fs = true ->
  nodup_str (map fst pre ++ map fst fs) = true ->
  fields_ok has_type fs l = true ->
  fieldsM de (map encf (pre ++ l)) fs = Some l.
Proof.
  induction fs as [|[n t] fs IH]; intros l pre HP Hw Hr Hnd Hl; destruct l as [|[m x] l]; cbn [fields_ok] in Hl; try discriminate.
  - reflexivity.
  - apply andb_true_iff in Hl. destruct Hl as [Hl Hl2]. apply andb_true_iff in Hl. destruct Hl as [Hnm Hx].
    apply str_eqb_eq in Hnm. subst m.
    cbn [forallb snd] in Hw, Hr. apply andb_true_iff in Hw, Hr. destruct Hw as [Hw1 Hw2], Hr as [Hr1 Hr2].
    inversion HP as [|? ? [HP1 _] HPs]; subst. cbn [snd] in HP1.
    cbn [map fst] in Hnd.
    rewrite fieldsM_cons. rewrite (assoc_str_encf pre n x l (nodup_app_notin _ _ _ Hnd)).
    rewrite (HP1 x Hw1 Hr1 Hx).
    assert (E : pre ++ (n, x) :: l = (pre ++ [(n, x)]) ++ l) by (rewrite <- app_assoc; reflexivity).
    rewrite E. rewrite (IH l (pre ++ [(n, x)]) HPs Hw2 Hr2); [reflexivity| |exact Hl2].
    rewrite map_app. cbn [map fst]. rewrite <- app_assoc. exact Hnd.
Qed.

Lemma fieldsM_rt0 : forall fs l,
  Forall (fun f => PP (snd f)) fs ->
  nodup_str (map fst fs) && forallb (fun f => wf_sty (snd f)) fs = true ->
  forallb (fun f => roundtrippable (snd f)) fs = true ->
  fields_ok has_type fs l = true ->
  fieldsM de (map encf l) fs = Some l.
Proof.
  intros fs l HP Hw Hr Hl. apply andb_true_iff in Hw. destruct Hw as [Hnd Hw].
  apply (fieldsM_rt fs l [] HP Hw Hr Hnd Hl).
Qed.

(* the variant found by name is the variant at the recorded position *)
Lemma variantM_at : forall (g : sty -> bool) (G : sty -> Z -> str -> option sval) idx name b vs i0,
  nodup_str (map fst vs) = true ->
  variant_at g idx name i0 vs = true ->
  exists p, In (name, p) vs /\ g p = true /\ variantM G (VStr b name) i0 vs = G p idx name.
Proof.
  intros g G idx name b. induction vs as [|[n p] vs IH]; intros i0 Hnd H; cbn [variant_at] in H; [discriminate|].
  cbn [map fst nodup_str] in Hnd. apply andb_true_iff in Hnd. destruct Hnd as [Hn Hnd].
  destruct (i0 =? idx) eqn:Ei.
  - apply andb_true_iff in H. destruct H as [Hnm Hg]. apply str_eqb_eq in Hnm. subst n.
    apply Z.eqb_eq in Ei. subst i0.
    exists p. split; [left; reflexivity|]. split; [exact Hg|].
    rewrite variantM_cons. cbn [variant_hit]. rewrite str_eqb_refl. reflexivity.
  - destruct (IH (i0 + 1) Hnd H) as [q [Hin [Hg Hv]]].
    exists q. split; [right; exact Hin|]. split; [exact Hg|].
    rewrite variantM_cons. cbn [variant_hit].
    assert (Hne : str_eqb name n = false).
    { apply negb_true_iff in Hn. destruct (str_eqb name n) eqn:E; [|reflexivity].
      apply str_eqb_eq in E. subst n.
      assert (X : existsb (str_eqb name) (map fst vs) = true).
      { apply existsb_exists. exists name. split; [|apply str_eqb_refl].
        apply in_map_iff. exists (name, q). split; [reflexivity|exact Hin]. }
      rewrite X in Hn. discriminate. }
    rewrite Hne. exact Hv.
Qed.

Lemma Forall_In_snd : forall (P : sty -> Prop) (vs : list (str * sty)) n p,
  Forall (fun f => P (snd f)) vs -> In (n, p) vs -> P p.
Proof.
  intros P vs n p H Hin. rewrite Forall_forall in H. apply (H (n, p) Hin).
Qed.

Lemma forallb_In_snd : forall (f : sty -> bool) (vs : list (str * sty)) n p,
  forallb (fun x => f (snd x)) vs = true -> In (n, p) vs -> f p = true.
Proof.
  intros f vs n p H Hin. rewrite forallb_forall in H. apply (H (n, p) Hin).
Qed.

Lemma map_encf : forall l, map (fun f : str * sval => (key_of (fst f), ser (snd f))) l = map encf l.
Proof. reflexivity. Qed.

Theorem roundtrip_all : forall t, PP t.
Proof.
  induction t using sty_ind'; (split; [intros v Hw Hr Ht | intros Hw Hr idx name]);
    try (cbn [wf_sty] in Hw; discriminate Hw); try (cbn [wf_payload] in Hw; discriminate Hw); try exact I.
  (* --- first components: types --- *)
  - destruct v; try discriminate Ht. reflexivity.
  - destruct v; try discriminate Ht. reflexivity.
  - (* TInt *)
    destruct v; try discriminate Ht. cbn [has_type] in Ht. apply andb_true_iff in Ht. destruct Ht as [Hww Hrg].
    apply Z.eqb_eq in Hww. subst w0. cbn [roundtrippable] in Hr.
    cbn [ser]. destruct (w =? 128) eqn:E.
    + apply Z.eqb_eq in E. subst w. cbn [de int_of128]. change (128 =? 128) with true. cbv iota. rewrite Hrg. reflexivity.
    + cbn [de int_of]. rewrite E. destruct (64 <? w) eqn:E2; [lia|]. rewrite Hrg. reflexivity.
  - (* TUInt *)
    destruct v; try discriminate Ht. cbn [has_type] in Ht. apply andb_true_iff in Ht. destruct Ht as [Hww Hrg].
    apply Z.eqb_eq in Hww. subst w0. cbn [roundtrippable] in Hr.
    cbn [ser]. destruct (w =? 128) eqn:E.
    + apply Z.eqb_eq in E. subst w. cbn [de int_of128]. change (128 =? 128) with true. cbv iota. rewrite Hrg. reflexivity.
    + cbn [de int_of]. rewrite E. destruct (64 <? w) eqn:E2; [lia|]. rewrite Hrg. reflexivity.
  - destruct v; try discriminate Ht. reflexivity.
  - destruct v; try discriminate Ht. reflexivity.
  - destruct v; try discriminate Ht. reflexivity.
  - destruct v; try discriminate Ht. reflexivity.
  - destruct v; try discriminate Ht. reflexivity.
  - (* TOption *)
    destruct IHt as [IH _]. cbn [wf_sty] in Hw. cbn [roundtrippable] in Hr.
    apply andb_true_iff in Hr. destruct Hr as [Hn Hr]. apply negb_true_iff in Hn.
    destruct v; try discriminate Ht; cbn [has_type] in Ht.
    + reflexivity.
    + cbn [ser de]. rewrite (not_nullable_ser t v Hn Ht). rewrite (IH v Hw Hr Ht). reflexivity.
  - destruct v; try discriminate Ht. reflexivity.
  - (* TNewtype *)
    destruct IHt as [IH _]. destruct v; try discriminate Ht. cbn [has_type wf_sty roundtrippable] in *.
    cbn [ser de]. rewrite (IH v Hw Hr Ht). reflexivity.
  - (* TSeq *)
    destruct IHt as [IH _]. destruct v; try discriminate Ht. cbn [has_type wf_sty roundtrippable] in *.
    cbn [ser de]. rewrite (mapM_rt t l IH Hw Hr Ht). reflexivity.
  - (* TTuple *)
    destruct v; try discriminate Ht. cbn [has_type wf_sty roundtrippable] in *.
    cbn [ser de]. rewrite (zipM_rt ts l H Hw Hr Ht). reflexivity.
  - (* TTupleStruct *)
    destruct v; try discriminate Ht. cbn [has_type wf_sty roundtrippable] in *.
    cbn [ser de]. rewrite (zipM_rt ts l H Hw Hr Ht). reflexivity.
  - (* TMap *)
    destruct IHt1 as [IHk _], IHt2 as [IHv _]. destruct v; try discriminate Ht.
    cbn [has_type wf_sty roundtrippable] in *.
    apply andb_true_iff in Hw, Hr. destruct Hw as [Hwk Hwv], Hr as [Hrk Hrv].
    cbn [ser de].
    assert (E : mapM (fun e => match de t1 (fst e), de t2 (snd e) with Some a, Some b => Some (a, b) | _, _ => None end)
                  (map (fun kv => (ser (fst kv), ser (snd kv))) kvs) = Some kvs).
    { induction kvs as [|[a b] kvs IHl]; [reflexivity|].
      cbn [forallb fst snd] in Ht. apply andb_true_iff in Ht. destruct Ht as [Hab Hl].
      apply andb_true_iff in Hab. destruct Hab as [Ha Hb].
      cbn [map]. rewrite mapM_cons. cbn [fst snd]. rewrite (IHk a Hwk Hrk Ha), (IHv b Hwv Hrv Hb).
      rewrite (IHl Hl). reflexivity. }
    rewrite E. reflexivity.
  - (* TStruct *)
    destruct v; try discriminate Ht. cbn [has_type wf_sty roundtrippable] in *.
    cbn [ser]. rewrite map_encf. cbn [de]. rewrite all_str_keys_encf.
    rewrite (fieldsM_rt0 fs fs0 H Hw Hr Ht). reflexivity.
  - (* TEnum *)
    cbn [wf_sty] in Hw. apply andb_true_iff in Hw. destruct Hw as [Hnd Hwp]. cbn [roundtrippable] in Hr.
    destruct v; try discriminate Ht; cbn [has_type] in Ht.
    + (* unit variant *)
      cbn [ser de]. change (key_of name) with (VStr false name).
      destruct (variantM_at _ (fun p i n => de_payload p i n None) idx name false vs 0 Hnd Ht) as [p [Hin [Hg Hv]]].
      rewrite Hv. destruct p; try discriminate Hg.
      destruct (Forall_In_snd PP vs name PUnit H Hin) as [_ H2].
      apply (H2 (forallb_In_snd wf_payload vs name _ Hwp Hin) (forallb_In_snd roundtrippable vs name _ Hr Hin) idx name).
    + (* newtype variant *)
      cbn [ser de]. change (key_of name) with (VStr false name).
      destruct (variantM_at _ (fun p i n => de_payload p i n (Some (ser v))) idx name false vs 0 Hnd Ht) as [p [Hin [Hg Hv]]].
      rewrite Hv. destruct p; try discriminate Hg.
      destruct (Forall_In_snd PP vs name _ H Hin) as [_ H2].
      apply (H2 (forallb_In_snd wf_payload vs name _ Hwp Hin) (forallb_In_snd roundtrippable vs name _ Hr Hin) idx name v Hg).
    + (* tuple variant *)
      cbn [ser de]. change (key_of name) with (VStr false name).
      destruct (variantM_at _ (fun p i n => de_payload p i n (Some (VSeq false (map ser l)))) idx name false vs 0 Hnd Ht) as [p [Hin [Hg Hv]]].
      rewrite Hv. destruct p; try discriminate Hg.
      destruct (Forall_In_snd PP vs name _ H Hin) as [_ H2].
      apply (H2 (forallb_In_snd wf_payload vs name _ Hwp Hin) (forallb_In_snd roundtrippable vs name _ Hr Hin) idx name l Hg).
    + (* struct variant *)
      cbn [ser]. rewrite map_encf. cbn [de]. change (key_of name) with (VStr false name).
      destruct (variantM_at _ (fun p i n => de_payload p i n (Some (VMap (map encf fs)))) idx name false vs 0 Hnd Ht) as [p [Hin [Hg Hv]]].
      rewrite Hv. destruct p; try discriminate Hg.
      destruct (Forall_In_snd PP vs name _ H Hin) as [_ H2].
      apply (H2 (forallb_In_snd wf_payload vs name _ Hwp Hin) (forallb_In_snd roundtrippable vs name _ Hr Hin) idx name fs Hg).
  - (* TValue *) cbn [roundtrippable] in Hr. discriminate.
  (* --- second components: variant descriptors --- *)
  - reflexivity.
  - (* PNew *)
    destruct IHt as [IH _]. intros x Hx. cbn [wf_payload roundtrippable] in *. cbn [de_payload].
    rewrite (IH x Hw Hr Hx). reflexivity.
  - (* PTuple *)
    intros l Hl. cbn [wf_payload roundtrippable] in *. cbn [de_payload].
    unfold lenZ. rewrite map_length, (forall2b_length ts l Hl), Z.eqb_refl.
    rewrite (zipM_rt ts l H Hw Hr Hl). reflexivity.
  - (* PStruct *)
    intros l Hl. cbn [wf_payload roundtrippable] in *. cbn [de_payload]. rewrite all_str_keys_encf.
    rewrite (fieldsM_rt0 fs l H Hw Hr Hl). reflexivity.
Qed.

Theorem roundtrip_proof : forall t v,
  wf_sty t = true -> roundtrippable t = true -> has_type t v = true -> de t (ser v) = Some v.
Proof. intros t v. apply (proj1 (roundtrip_all t)). Qed.

(* the exclusions of [roundtrippable] are needed: what serde cannot carry *)
Lemma option_option_not_carried :
  de (TOption (TOption (TInt 64))) (ser (SSome SNone)) = Some SNone /\
  de (TOption TUnit) (ser (SSome SUnit)) = Some SNone.
Proof. repeat split; reflexivity. Qed.

(* ================================================================================== *)
(* 2. value handles                                                                     *)
(* ================================================================================== *)

Lemma reg_insert_remove : forall r h v, fst (reg_remove (reg_insert r h v) h) = Some v.
Proof.
  intros [sg ov] h v. unfold reg_insert. cbn [single overflow].
  destruct sg as [[h' v']|].
  - unfold reg_remove. cbn [single overflow fst]. unfold amap_insert at 1. cbn [amap_get fst]. rewrite Z.eqb_refl. reflexivity.
  - destruct ov as [|e ov].
    + unfold reg_remove. cbn [single overflow fst]. rewrite Z.eqb_refl. reflexivity.
    + unfold reg_remove. cbn [single overflow fst]. unfold amap_insert at 1. cbn [amap_get fst]. rewrite Z.eqb_refl. reflexivity.
Qed.

Lemma u32_wrap_idem : forall z, u32_wrap (u32_wrap z) = u32_wrap z.
Proof. intro z. unfold u32_wrap. apply Z.mod_mod. lia. Qed.

Theorem handles_identity_proof : forall last r v, fst (embed last r v) = v.
Proof.
  intros last r v. unfold embed.
  change (ser (SUInt 32 (u32_wrap (last + 1)))) with (VU64 (u32_wrap (last + 1))).
  cbn [as_usize]. rewrite u32_wrap_idem.
  pose proof (reg_insert_remove r (u32_wrap (last + 1)) v) as H.
  destruct (reg_remove (reg_insert r (u32_wrap (last + 1)) v) (u32_wrap (last + 1))) as [res r2].
  cbn [fst] in *. rewrite H. reflexivity.
Qed.

(* starting from an empty registry, the registry is empty again afterwards: nothing leaks *)
Theorem handles_no_leak_proof : forall last v,
  snd (snd (embed last {| single := None; overflow := [] |} v)) = {| single := None; overflow := [] |}.
Proof.
  intros last v. unfold embed.
  change (ser (SUInt 32 (u32_wrap (last + 1)))) with (VU64 (u32_wrap (last + 1))).
  cbn [as_usize]. rewrite u32_wrap_idem.
  unfold reg_insert. cbn [single overflow]. unfold reg_remove. cbn [single overflow]. rewrite Z.eqb_refl. reflexivity.
Qed.

(* ================================================================================== *)
(* 3. JSON: the post-processing of tojson                                               *)
(* ================================================================================== *)

Lemma post_char_safe : forall c x, In x (post_char c) -> is_html4 x = false.
Proof.
  intros c x. unfold post_char.
  destruct (c =? 60) eqn:E1; [ cbn [In]; intuition subst; reflexivity |].
  destruct (c =? 62) eqn:E2; [ cbn [In]; intuition subst; reflexivity |].
  destruct (c =? 38) eqn:E3; [ cbn [In]; intuition subst; reflexivity |].
  destruct (c =? 39) eqn:E4; [ cbn [In]; intuition subst; reflexivity |].
  cbn [In]. intros [<- | []]. unfold is_html4. rewrite E1, E2, E3, E4. reflexivity.
Qed.

Theorem tojson_html_safe_proof : forall s x, In x (json_postprocess s) -> is_html4 x = false.
Proof.
  intros s x H. unfold json_postprocess in H. apply in_flat_map in H. destruct H as [c [_ H]].
  eapply post_char_safe; eauto.
Qed.

Lemma post_cons : forall c r, json_postprocess (c :: r) = post_char c ++ json_postprocess r.
Proof. reflexivity. Qed.

Lemma post_char_plain : forall c, is_html4 c = false -> post_char c = [c].
Proof.
  intros c H. unfold is_html4 in H. unfold post_char.
  destruct (c =? 60); [discriminate|]. destruct (c =? 62); [discriminate|].
  destruct (c =? 38); [discriminate|]. destruct (c =? 39); [discriminate|]. reflexivity.
Qed.

Lemma html4_cases : forall c, is_html4 c = true -> c = 60 \/ c = 62 \/ c = 38 \/ c = 39.
Proof. intros c H. unfold is_html4 in H. lia. Qed.

(* unfolding equations of the token grammar *)
Lemma lex_str_quote : forall acc r, lex true acc (34 :: r) = cons_tok (TLit (rev acc)) (lex false [] r).
Proof. reflexivity. Qed.
Lemma lex_str_u : forall acc a b c d r,
  lex true acc (92 :: 117 :: a :: b :: c :: d :: r) =
  match hex4 a b c d with Some u => lex true (u :: acc) r | None => None end.
Proof. reflexivity. Qed.
Lemma lex_str_esc : forall acc e r, e <> 117 ->
  lex true acc (92 :: e :: r) = match simple_escape e with Some u => lex true (u :: acc) r | None => None end.
Proof. intros acc e r H. cbn [lex]. change (92 =? 34) with false. change (92 =? 92) with true. cbv iota.
  destruct (e =? 117) eqn:E; [lia|]. reflexivity. Qed.
Lemma lex_str_plain : forall acc c r, c <> 34 -> c <> 92 -> 32 <= c -> lex true acc (c :: r) = lex true (c :: acc) r.
Proof. intros acc c r H1 H2 H3. cbn [lex]. destruct (c =? 34) eqn:E1; [lia|]. destruct (c =? 92) eqn:E2; [lia|].
  destruct (c <? 32) eqn:E3; [lia|]. reflexivity. Qed.
Lemma lex_out_quote : forall acc r, lex false acc (34 :: r) = lex true [] r.
Proof. reflexivity. Qed.
Lemma lex_out_plain : forall acc c r, c <> 34 -> is_html4 c = false ->
  lex false acc (c :: r) = cons_tok (TCh c) (lex false [] r).
Proof. intros acc c r H1 H2. cbn [lex]. destruct (c =? 34) eqn:E1; [lia|]. rewrite H2. reflexivity. Qed.

Lemma hexval_plain : forall a x, hexval a = Some x -> post_char a = [a].
Proof.
  intros a x H. apply post_char_plain. unfold hexval in H. unfold is_html4.
  destruct ((48 <=? a) && (a <=? 57)) eqn:E1; [lia|].
  destruct ((97 <=? a) && (a <=? 102)) eqn:E2; [lia|].
  destruct ((65 <=? a) && (a <=? 70)) eqn:E3; [lia|]. discriminate.
Qed.

Lemma simple_escape_plain : forall e u, simple_escape e = Some u -> post_char e = [e] /\ e <> 117.
Proof.
  intros e u H. unfold simple_escape in H.
  assert (X : is_html4 e = false /\ e <> 117).
  { unfold is_html4.
    destruct (e =? 34) eqn:E1; [lia|]. destruct (e =? 92) eqn:E2; [lia|]. destruct (e =? 47) eqn:E3; [lia|].
    destruct (e =? 98) eqn:E4; [lia|]. destruct (e =? 102) eqn:E5; [lia|]. destruct (e =? 110) eqn:E6; [lia|].
    destruct (e =? 114) eqn:E7; [lia|]. destruct (e =? 116) eqn:E8; [lia|]. discriminate. }
  destruct X as [X1 X2]. split; [apply post_char_plain; exact X1 | exact X2].
Qed.

Lemma cons_tok_some : forall t o l, cons_tok t o = Some l -> exists l', o = Some l' /\ l = t :: l'.
Proof. intros t [l'|] l H; cbn in H; [injection H as <-; eauto | discriminate]. Qed.

Lemma post_preserves_lex : forall n s, (length s <= n)%nat ->
  forall instr acc toks, lex instr acc s = Some toks -> lex instr acc (json_postprocess s) = Some toks.
Proof.
  induction n as [|n IH]; intros s Hn instr acc toks H.
  - destruct s; [exact H | cbn [length] in Hn; lia].
  - destruct s as [|c r]; [exact H|]. cbn [length] in Hn. rewrite post_cons.
    destruct instr.
    + (* inside a string literal *)
      destruct (Z.eq_dec c 34) as [->|N34].
      { change (post_char 34) with [34]. cbn [app]. rewrite lex_str_quote in *.
        apply cons_tok_some in H. destruct H as [l' [H ->]].
        rewrite (IH r ltac:(lia) false [] l' H). reflexivity. }
      destruct (Z.eq_dec c 92) as [->|N92].
      { change (post_char 92) with [92]. cbn [app].
        destruct r as [|e r1]; [discriminate H|].
        destruct (Z.eq_dec e 117) as [->|N117].
        - destruct r1 as [|a [|b [|c' [|d r2]]]]; try discriminate H.
          rewrite lex_str_u in H. destruct (hex4 a b c' d) as [u|] eqn:Eh; [|discriminate H].
          assert (Hh := Eh). unfold hex4 in Hh.
          destruct (hexval a) eqn:Ea; [|discriminate Hh]. destruct (hexval b) eqn:Eb; [|discriminate Hh].
          destruct (hexval c') eqn:Ec; [|discriminate Hh]. destruct (hexval d) eqn:Ed; [|discriminate Hh].
          rewrite !post_cons. change (post_char 117) with [117].
          rewrite (hexval_plain _ _ Ea), (hexval_plain _ _ Eb), (hexval_plain _ _ Ec), (hexval_plain _ _ Ed).
          cbn [app]. rewrite lex_str_u, Eh. apply IH; [cbn [length] in Hn; lia | exact H].
        - rewrite lex_str_esc in H by exact N117.
          destruct (simple_escape e) as [u|] eqn:Ee; [|discriminate H].
          destruct (simple_escape_plain e u Ee) as [Hp _].
          rewrite post_cons, Hp. cbn [app]. rewrite lex_str_esc by exact N117. rewrite Ee.
          apply IH; [cbn [length] in Hn; lia | exact H]. }
      destruct (Z.ltb_spec c 32) as [Lt|Ge].
      { cbn [lex] in H. destruct (c =? 34) eqn:E1; [lia|]. destruct (c =? 92) eqn:E2; [lia|].
        destruct (c <? 32) eqn:E3; [discriminate H | lia]. }
      rewrite lex_str_plain in H by assumption.
      destruct (is_html4 c) eqn:Eh.
      * apply html4_cases in Eh.
        destruct Eh as [-> | [-> | [-> | ->]]]; cbn [post_char Z.eqb Pos.eqb app];
          rewrite lex_str_u; cbn [hex4 hexval]; (apply IH; [lia | exact H]).
      * rewrite (post_char_plain c Eh). cbn [app]. rewrite lex_str_plain by assumption.
        apply IH; [lia | exact H].
    + (* outside string literals *)
      destruct (Z.eq_dec c 34) as [->|N34].
      { change (post_char 34) with [34]. cbn [app]. rewrite lex_out_quote in *. apply IH; [lia | exact H]. }
      destruct (is_html4 c) eqn:Eh.
      { cbn [lex] in H. destruct (c =? 34) eqn:E1; [lia|]. rewrite Eh in H. discriminate H. }
      rewrite lex_out_plain in H by assumption. apply cons_tok_some in H. destruct H as [l' [H ->]].
      rewrite (post_char_plain c Eh). cbn [app]. rewrite lex_out_plain by assumption.
      rewrite (IH r ltac:(lia) false [] l' H). reflexivity.
Qed.

Theorem postprocess_preserves_json_proof : forall s toks,
  json_tokens s = Some toks -> json_tokens (json_postprocess s) = Some toks.
Proof. intros s toks H. unfold json_tokens in *. apply (post_preserves_lex (length s) s (le_n _)). exact H. Qed.

(* the four characters are not JSON syntax outside string literals, and never follow a backslash *)
Lemma html4_only_in_literals_proof : forall c r acc, is_html4 c = true ->
  lex false acc (c :: r) = None /\ lex true acc (92 :: c :: r) = None.
Proof.
  intros c r acc H. apply html4_cases in H. destruct H as [-> | [-> | [-> | ->]]]; split; reflexivity.
Qed.

(* the replacement text decodes to the replaced character *)
Lemma replacement_decodes_proof : forall c acc r, is_html4 c = true ->
  lex true acc (post_char c ++ r) = lex true (c :: acc) r.
Proof.
  intros c acc r H. apply html4_cases in H. destruct H as [-> | [-> | [-> | ->]]]; reflexivity.
Qed.

(* ---- serde_json's string emission is a literal that decodes to the string ---- *)
Lemma hexval_hexd : forall n, 0 <= n < 16 -> hexval (hexd n) = Some n.
Proof.
  intros n H. unfold hexd, hexval. destruct (n <? 10) eqn:E.
  - destruct ((48 <=? 48 + n) && (48 + n <=? 57)) eqn:E1; [f_equal; lia | lia].
  - destruct ((48 <=? 87 + n) && (87 + n <=? 57)) eqn:E1; [lia|].
    destruct ((97 <=? 87 + n) && (87 + n <=? 102)) eqn:E2; [f_equal; lia | lia].
Qed.

Lemma quote_body_lexes : forall s acc, Forall (fun c => 0 <= c) s ->
  lex true acc (flat_map json_escape_char s ++ [34]) = Some [TLit (rev acc ++ s)].
Proof.
  induction s as [|c s IH]; intros acc Hs.
  - cbn [flat_map app]. rewrite lex_str_quote. cbn [lex cons_tok]. rewrite app_nil_r. reflexivity.
  - inversion Hs as [|? ? Hc Hs']; subst. cbn [flat_map]. rewrite <- app_assoc.
    assert (Step : forall u, lex true (u :: acc) (flat_map json_escape_char s ++ [34]) = Some [TLit (rev acc ++ u :: s)]).
    { intro u. rewrite (IH (u :: acc) Hs'). cbn [rev]. rewrite <- app_assoc. reflexivity. }
    unfold json_escape_char.
    destruct (c =? 34) eqn:E1. { apply Z.eqb_eq in E1. subst c. cbn [app]. rewrite lex_str_esc by lia. apply Step. }
    destruct (c =? 92) eqn:E2. { apply Z.eqb_eq in E2. subst c. cbn [app]. rewrite lex_str_esc by lia. apply Step. }
    destruct (c =? 8) eqn:E3. { apply Z.eqb_eq in E3. subst c. cbn [app]. rewrite lex_str_esc by lia. apply Step. }
    destruct (c =? 9) eqn:E4. { apply Z.eqb_eq in E4. subst c. cbn [app]. rewrite lex_str_esc by lia. apply Step. }
    destruct (c =? 10) eqn:E5. { apply Z.eqb_eq in E5. subst c. cbn [app]. rewrite lex_str_esc by lia. apply Step. }
    destruct (c =? 12) eqn:E6. { apply Z.eqb_eq in E6. subst c. cbn [app]. rewrite lex_str_esc by lia. apply Step. }
    destruct (c =? 13) eqn:E7. { apply Z.eqb_eq in E7. subst c. cbn [app]. rewrite lex_str_esc by lia. apply Step. }
    destruct (c <? 32) eqn:E8.
    + cbn [app]. rewrite lex_str_u. unfold hex4. change (hexval 48) with (Some 0).
      assert (D : 0 <= c / 16 < 16 /\ 0 <= c mod 16 < 16 /\ ((0 * 16 + 0) * 16 + c / 16) * 16 + c mod 16 = c).
      { Ltac Zify.zify_post_hook ::= Z.div_mod_to_equations. lia. }
      destruct D as [D1 [D2 D3]]. rewrite (hexval_hexd _ D1), (hexval_hexd _ D2), D3. apply Step.
    + cbn [app]. rewrite lex_str_plain by lia. apply Step.
Qed.

Theorem quote_is_literal_proof : forall s, Forall (fun c => 0 <= c) s ->
  json_tokens (json_quote s) = Some [TLit s].
Proof.
  intros s Hs. unfold json_tokens, json_quote. rewrite lex_out_quote. apply (quote_body_lexes s [] Hs).
Qed.

Theorem tojson_str_valid_proof : forall s, Forall (fun c => 0 <= c) s ->
  json_tokens (tojson_str s) = Some [TLit s] /\ (forall x, In x (tojson_str s) -> is_html4 x = false).
Proof.
  intros s Hs. split.
  - unfold tojson_str. apply postprocess_preserves_json_proof. apply quote_is_literal_proof. exact Hs.
  - intros x Hx. apply (tojson_html_safe_proof _ _ Hx).
Qed.

(* ================================================================================== *)
(* 4. re-entrancy of the handle mechanism                                               *)
(* ================================================================================== *)
Scheme node_mut := Induction for node Sort Prop
  with nodes_mut := Induction for nodes Sort Prop.

(* under the flag, an embedded value comes back as itself and the flag stays set *)
Lemma ser_value_flagged : forall v st, flag st = true ->
  fst (ser_value v st) = v /\ flag (snd (ser_value v st)) = true.
Proof.
  intros v st Hf. unfold ser_value. rewrite Hf.
  pose proof (handles_identity_proof (last st) (reg st) v) as H.
  destruct (embed (last st) (reg st) v) as [v' [h r2]]. cbn [fst snd flag] in *. split; [exact H | reflexivity].
Qed.

(* unfolding equations (the local definitions of ser_node are transform / convert) *)
Lemma ser_node_nvar : forall y st, ser_node (NNVar y) st =
  match transform y st with
  | (ROk v, st') => (ROk (VMap [(variant_key, v)]), st') | (RErr, st') => (RErr, st') | (RPanic, st') => (RPanic, st')
  end.
Proof. reflexivity. Qed.
Lemma ser_node_some : forall y st, ser_node (NSome y) st = transform y st.
Proof. reflexivity. Qed.
Lemma ser_node_nested : forall y st, ser_node (NNested y) st =
  match convert y st with
  | (ROk v, st') => let '(v', st'') := ser_value v st' in (ROk v', st'')
  | (RErr, st') => (RErr, st')
  | (RPanic, st') => (RPanic, st')
  end.
Proof. reflexivity. Qed.
Lemma ser_node_drop : forall y st, ser_node (NNestedDrop y) st =
  match convert y st with (ROk _, st') => (ROk VNone, st') | (RErr, st') => (RErr, st') | (RPanic, st') => (RPanic, st') end.
Proof. reflexivity. Qed.
Lemma ser_node_catch : forall y st, ser_node (NNestedCatch y) st =
  match convert y st with
  | (ROk v, st') => let '(v', st'') := ser_value v st' in (ROk v', st'')
  | (RErr, st') => (ROk VNone, st')
  | (RPanic, st') => (ROk VNone, st')
  end.
Proof. reflexivity. Qed.
Lemma ser_node_thread : forall y st, ser_node (NThread y) st =
  match fst (convert y fresh_thread) with
  | ROk v => let '(v', st') := ser_value v st in (ROk v', st')
  | RErr => (ROk VNone, st)
  | RPanic => (ROk VNone, st)
  end.
Proof. reflexivity. Qed.
Lemma ser_nodes_cons : forall y r st, ser_nodes (NCons y r) st =
  match ser_node y st with
  | (RPanic, st') => (RPanic, st')
  | (ROk v, st') =>
      match ser_nodes r st' with
      | (ROk vs, st'') => (ROk (v :: vs), st'')
      | (RErr, st'') => (RErr, st'')
      | (RPanic, st'') => (RPanic, st'')
      end
  | (RErr, st') =>
      match ser_nodes r st' with
      | (ROk vs, st'') => (ROk (VInvalid :: vs), st'')
      | (RErr, st'') => (RErr, st'')
      | (RPanic, st'') => (RPanic, st'')
      end
  end.
Proof. reflexivity. Qed.

Definition Good (x : node) : Prop :=
  forall st, flag st = true -> fst (ser_node x st) = ideal x /\ flag (snd (ser_node x st)) = true.
Definition Goods (l : nodes) : Prop :=
  forall st, flag st = true -> fst (ser_nodes l st) = ideals l /\ flag (snd (ser_nodes l st)) = true.

Lemma transform_good : forall y, Good y -> forall st, flag st = true ->
  fst (transform y st) = tr (ideal y) /\ flag (snd (transform y st)) = true.
Proof.
  intros y H st Hf. destruct (H st Hf) as [H1 H2]. unfold transform.
  destruct (ser_node y st) as [r st']. cbn [fst snd] in *. subst r.
  destruct (ideal y); cbn [tr fst snd]; split; auto.
Qed.

(* the guard: whatever the outcome (value, invalid value, unwinding) the flag is what it was *)
Lemma convert_good : forall y, Good y -> forall st,
  fst (convert y st) = tr (ideal y) /\ flag (snd (convert y st)) = flag st.
Proof.
  intros y H st. unfold convert.
  destruct (transform_good y H (set_flag true st) eq_refl) as [H1 H2].
  destruct (transform y (set_flag true st)) as [r st']. cbn [fst snd] in *. split; [exact H1|].
  destruct (flag st); [exact H2 | reflexivity].
Qed.

Lemma compound_good : forall l (f : list value -> value), Goods l -> forall st, flag st = true ->
  let r := match ser_nodes l st with
           | (ROk vs, st') => (ROk (f vs), st') | (RErr, st') => (RErr, st') | (RPanic, st') => (RPanic, st')
           end in
  fst r = match ideals l with ROk vs => ROk (f vs) | RErr => RErr | RPanic => RPanic end /\ flag (snd r) = true.
Proof.
  intros l f H st Hf. destruct (H st Hf) as [H1 H2].
  destruct (ser_nodes l st) as [r st']. cbn [fst snd] in *. subst r.
  destruct (ideals l); cbn [fst snd]; split; auto.
Qed.

Theorem reentrancy_all : forall x, Good x.
Proof.
  apply (node_mut Good Goods); unfold Good, Goods; intros.
  - split; [reflexivity | exact H].
  - (* NEmb *) cbn [ser_node ideal]. destruct (ser_value_flagged v st H) as [H1 H2].
    destruct (ser_value v st) as [v' st']. cbn [fst snd] in *. subst. split; [reflexivity | exact H2].
  - (* NProbe *) cbn [ser_node ideal fst snd]. split; [rewrite H; reflexivity | exact H].
  - exact (compound_good l (fun vs => VSeq false vs) H st H0).
  - exact (compound_good l (fun vs => VSeq true vs) H st H0).
  - exact (compound_good l (fun vs => VMap (with_keys vs)) H st H0).
  - exact (compound_good l (fun vs => VMap (with_keys vs)) H st H0).
  - (* NNVar *) rewrite ser_node_nvar. cbn [ideal]. destruct (transform_good x H st H0) as [H1 H2].
    destruct (transform x st) as [r st']. cbn [fst snd] in *. subst r.
    destruct (tr (ideal x)); cbn [fst snd]; split; auto.
  - exact (compound_good l (fun vs => VMap [(variant_key, VSeq false vs)]) H st H0).
  - exact (compound_good l (fun vs => VMap [(variant_key, VMap (with_keys vs))]) H st H0).
  - (* NSome *) rewrite ser_node_some. exact (transform_good x H st H0).
  - (* NNested *) rewrite ser_node_nested. cbn [ideal]. destruct (convert_good x H st) as [H1 H2]. rewrite H0 in H2.
    destruct (convert x st) as [r st']. cbn [fst snd] in *. subst r.
    destruct (tr (ideal x)); cbn [fst snd]; try (split; auto; fail).
    destruct (ser_value_flagged a st' H2) as [H3 H4]. destruct (ser_value a st') as [v' st'']. cbn [fst snd] in *.
    subst. split; [reflexivity | assumption].
  - (* NNestedDrop *) rewrite ser_node_drop. cbn [ideal]. destruct (convert_good x H st) as [H1 H2]. rewrite H0 in H2.
    destruct (convert x st) as [r st']. cbn [fst snd] in *. subst r.
    destruct (tr (ideal x)); cbn [fst snd]; split; auto.
  - (* NNestedCatch *) rewrite ser_node_catch. cbn [ideal]. destruct (convert_good x H st) as [H1 H2]. rewrite H0 in H2.
    destruct (convert x st) as [r st']. cbn [fst snd] in *. subst r.
    destruct (tr (ideal x)); cbn [fst snd]; try (split; auto; fail).
    destruct (ser_value_flagged a st' H2) as [H3 H4]. destruct (ser_value a st') as [v' st'']. cbn [fst snd] in *.
    subst. split; [reflexivity | assumption].
  - (* NThread *) rewrite ser_node_thread. cbn [ideal]. destruct (convert_good x H fresh_thread) as [H1 _]. rewrite H1.
    destruct (tr (ideal x)); cbn [fst snd]; try (split; auto; fail).
    destruct (ser_value_flagged a st H0) as [H3 H4]. destruct (ser_value a st) as [v' st'']. cbn [fst snd] in *.
    subst. split; [reflexivity | assumption].
  - split; [reflexivity | exact H].
  - split; [reflexivity | exact H].
  - (* NLeak *) cbn [ser_node ideal fst snd]. split; [reflexivity | unfold leak; rewrite H; reflexivity].
  - (* NFlatten *) cbn [ser_node ideal fst snd]. split; [reflexivity | unfold leak; rewrite H; reflexivity].
  - (* NNil *) split; [reflexivity | exact H].
  - (* NCons *) rewrite ser_nodes_cons. cbn [ideals]. destruct (H st H1) as [H2 H3].
    destruct (ser_node x st) as [r1 st']. cbn [fst snd] in *. subst r1.
    destruct (ideal x) as [v| |]; cbn [fst snd]; try (split; auto; fail).
    + destruct (H0 st' H3) as [H4 H5]. destruct (ser_nodes r st') as [r2 st'']. cbn [fst snd] in *. subst r2.
      destruct (ideals r); cbn [fst snd]; split; auto.
    + destruct (H0 st' H3) as [H4 H5]. destruct (ser_nodes r st') as [r2 st'']. cbn [fst snd] in *. subst r2.
      destruct (ideals r); cbn [fst snd]; split; auto.
Qed.

(* Value::from(Serde(y)), entered with the flag set (nested) or clear (outermost): the ideal value,
   and the flag is left as it was found *)
Theorem reentrancy_transparent_proof : forall y st,
  fst (convert y st) = ideal_convert y /\ flag (snd (convert y st)) = flag st.
Proof. intros y st. apply convert_good. apply reentrancy_all. Qed.

(* ================================================================================== *)
(* 5. the registry is a map keyed by handle number (stale entries do not interfere)     *)
(* ================================================================================== *)
Lemma amap_get_remove_other : forall h h' m, h' <> h -> amap_get h' (amap_remove h m) = amap_get h' m.
Proof.
  intros h h' m Hne. induction m as [|[k x] m IH]; [reflexivity|].
  unfold amap_remove in *. cbn [filter fst]. destruct (k =? h) eqn:E; cbn [negb].
  - rewrite IH. cbn [amap_get]. destruct (k =? h') eqn:E2; [lia | reflexivity].
  - cbn [amap_get]. rewrite IH. reflexivity.
Qed.

Lemma amap_get_insert_same : forall h v m, amap_get h (amap_insert h v m) = Some v.
Proof. intros. unfold amap_insert. cbn [amap_get]. rewrite Z.eqb_refl. reflexivity. Qed.

Lemma amap_get_insert_other : forall h h' v m, h' <> h -> amap_get h' (amap_insert h v m) = amap_get h' m.
Proof.
  intros h h' v m Hne. unfold amap_insert. cbn [amap_get]. destruct (h =? h') eqn:E; [lia|].
  apply amap_get_remove_other. exact Hne.
Qed.

Theorem reg_get_insert_same : forall r h v, reg_get (reg_insert r h v) h = Some v.
Proof.
  intros [sg ov] h v. unfold reg_insert, reg_get. cbn [single overflow].
  destruct sg as [[h' v']|]; [|destruct ov]; cbn [single overflow]; try rewrite Z.eqb_refl; try reflexivity;
    apply amap_get_insert_same.
Qed.

Theorem reg_get_insert_other : forall r h v h', h' <> h -> reg_get (reg_insert r h v) h' = reg_get r h'.
Proof.
  intros [sg ov] h v h' Hne. unfold reg_insert, reg_get. cbn [single overflow].
  destruct sg as [[k x]|].
  - cbn [single overflow]. rewrite amap_get_insert_other by exact Hne.
    destruct (k =? h') eqn:E.
    + apply Z.eqb_eq in E. subst k. apply amap_get_insert_same.
    + apply amap_get_insert_other. lia.
  - destruct ov as [|e ov]; cbn [single overflow].
    + destruct (h =? h') eqn:E; [lia | reflexivity].
    + apply amap_get_insert_other. exact Hne.
Qed.

Theorem reg_remove_get : forall r h, fst (reg_remove r h) = reg_get r h.
Proof.
  intros [sg ov] h. unfold reg_remove, reg_get. cbn [single overflow].
  destruct sg as [[k x]|]; [destruct (k =? h)|]; reflexivity.
Qed.

Theorem reg_remove_other : forall r h h', h' <> h -> reg_get (snd (reg_remove r h)) h' = reg_get r h'.
Proof.
  intros [sg ov] h h' Hne. unfold reg_remove, reg_get. cbn [single overflow].
  destruct sg as [[k x]|].
  - destruct (k =? h) eqn:E; cbn [snd single overflow].
    + apply Z.eqb_eq in E. subst k. destruct (h =? h') eqn:E2; [lia | reflexivity].
    + destruct (k =? h'); [reflexivity | apply amap_get_remove_other; exact Hne].
  - cbn [snd single overflow]. apply amap_get_remove_other. exact Hne.
Qed.

(* ================================================================================== *)
(* 6. JSON arrays: the length hint                                                      *)
(* ================================================================================== *)
Lemma json_elems_rest : forall sep elems,
  json_elems sep JRest elems = (flat_map (fun e => sep ++ e) elems, JRest).
Proof.
  intros sep. induction elems as [|e r IH]; [reflexivity|].
  cbn [json_elems flat_map]. rewrite IH. rewrite <- app_assoc. reflexivity.
Qed.

Lemma intercalate_cons : forall sep e r, intercalate sep (e :: r) = e ++ flat_map (fun x => sep ++ x) r.
Proof.
  intros sep e r. revert e. induction r as [|x r IH]; intro e.
  - cbn [intercalate flat_map]. rewrite app_nil_r. reflexivity.
  - change (intercalate sep (e :: x :: r)) with (e ++ sep ++ intercalate sep (x :: r)).
    rewrite IH. cbn [flat_map]. rewrite <- app_assoc. reflexivity.
Qed.

Lemma json_array_not_empty_hint : forall sep elems,
  (let '(body, st) := json_elems sep JFirst elems in 91 :: [] ++ body ++ match st with JEmpty => [] | _ => [93] end)
  = array_text sep elems.
Proof.
  intros sep [|e r].
  - reflexivity.
  - cbn [json_elems]. rewrite json_elems_rest. unfold array_text. rewrite intercalate_cons. cbn [app]. reflexivity.
Qed.

(* a hint that is absent or exact gives the array text; this is all serde_json needs of the caller *)
Theorem json_array_wellformed_proof : forall sep hint elems,
  hint = None \/ hint = Some (lenZ elems) -> json_array sep hint elems = array_text sep elems.
Proof.
  intros sep hint elems [-> | ->].
  - unfold json_array. apply json_array_not_empty_hint.
  - destruct elems as [|e r].
    + reflexivity.
    + unfold json_array. assert (E : lenZ (e :: r) <> 0) by (unfold lenZ; cbn [length]; lia).
      destruct (lenZ (e :: r)) eqn:El; [contradiction | | ]; apply json_array_not_empty_hint.
Qed.

Theorem seq_hint_wellformed_proof : forall sep sized elems,
  json_array sep (seq_len_hint sized elems) elems = array_text sep elems.
Proof.
  intros sep sized elems. apply json_array_wellformed_proof. unfold seq_len_hint. destruct sized; auto.
Qed.

(* and why the hint must not be a mere lower bound: hint Some 0 on [1, 2] *)
Lemma zero_hint_breaks_proof :
  json_array [44; 32] (Some 0) [[49]; [50]] = [91; 93; 44; 32; 49; 44; 32; 50; 93] /\
  json_tokens (json_array [44; 32] (Some 0) [[49]; [50]]) <> json_tokens (array_text [44; 32] [[49]; [50]]).
Proof. split; [reflexivity | vm_compute; discriminate]. Qed.
