(* Executable entry points of the C16 model in the integer-list protocol shared with
   harness/src/bin/c16.rs (token tables are documented there).  Decoders / encoders are
   unverified glue of the correspondence check. *)
From Coq Require Import String.
From MJ Require Import Common.Base.
From MJ Require Import C16.Model C16.Spec.

Definition dres (A : Type) := option (A * list Z).

(* [n] items with decoder [d]; [n] is bounded by the length of the line *)
Fixpoint dec_n {A} (d : list Z -> dres A) (n : nat) (l : list Z) : dres (list A) :=
  match n with
  | O => Some ([], l)
  | S n' => match d l with
            | Some (x, l1) => match dec_n d n' l1 with
                              | Some (xs, l2) => Some (x :: xs, l2)
                              | None => None
                              end
            | None => None
            end
  end.

Definition count (n : Z) (l : list Z) : option nat :=
  if (0 <=? n) && (n <=? lenZ l) then Some (Z.to_nat n) else None.

Definition dec_many {A} (d : list Z -> dres A) (l : list Z) : dres (list A) :=
  match l with
  | n :: r => match count n r with Some k => dec_n d k r | None => if n =? 0 then Some ([], r) else None end
  | [] => None
  end.

Definition dec_int (l : list Z) : dres Z := match l with x :: r => Some (x, r) | [] => None end.
Definition dec_str (l : list Z) : dres str := dec_many dec_int l.

Definition dec_pair {A B} (da : list Z -> dres A) (db : list Z -> dres B) (l : list Z) : dres (A * B) :=
  match da l with
  | Some (a, l1) => match db l1 with Some (b, l2) => Some ((a, b), l2) | None => None end
  | None => None
  end.

Definition dmap {A B} (f : A -> B) (r : dres A) : dres B :=
  match r with Some (a, l) => Some (f a, l) | None => None end.

(* --- type descriptors --- *)
Fixpoint dec_sty (fuel : nat) (l : list Z) : dres sty :=
  match fuel with
  | O => None
  | S f =>
      match l with
      | 0 :: r => Some (TUnit, r)
      | 1 :: r => Some (TBool, r)
      | 2 :: w :: r => Some (TInt w, r)
      | 3 :: w :: r => Some (TUInt w, r)
      | 4 :: r => Some (TF64, r)
      | 5 :: r => Some (TF32, r)
      | 6 :: r => Some (TChar, r)
      | 7 :: r => Some (TStr, r)
      | 8 :: r => Some (TBytes, r)
      | 10 :: r => dmap TOption (dec_sty f r)
      | 11 :: r => Some (TUnitStruct, r)
      | 13 :: r => dmap TNewtype (dec_sty f r)
      | 15 :: r => dmap TSeq (dec_sty f r)
      | 16 :: r => dmap TTuple (dec_many (dec_sty f) r)
      | 17 :: r => dmap TTupleStruct (dec_many (dec_sty f) r)
      | 19 :: r => dmap (fun kv => TMap (fst kv) (snd kv)) (dec_pair (dec_sty f) (dec_sty f) r)
      | 20 :: r => dmap TStruct (dec_many (dec_pair dec_str (dec_sty f)) r)
      | 22 :: r => Some (TValue, r)
      | 30 :: r => dmap TEnum (dec_many (dec_pair dec_str (fun l =>
                     match l with
                     | 0 :: r => Some (PUnit, r)
                     | 1 :: r => dmap PNew (dec_sty f r)
                     | 2 :: r => dmap PTuple (dec_many (dec_sty f) r)
                     | 3 :: r => dmap PStruct (dec_many (dec_pair dec_str (dec_sty f)) r)
                     | _ => None
                     end)) r)
      | _ => None
      end
  end.

(* --- the embedded template values of c16.rs::POOL --- *)
Definition cps (s : string) : str := map (fun a => Z.of_N (Ascii.N_of_ascii a)) (list_ascii_of_string s).

Definition pool (k : Z) : value :=
  match k with
  | 0 => VStr true (cps "<b>&'""x</b>"%string)
  | 1 => VUndef
  | 2 => VPlain 2 (cps "<dyn 2>"%string)
  | 3 => VNone
  | 4 => VStr false (cps "plain <i>"%string)
  | 5 => VI64 42
  | 6 => VStr true []
  | 7 => VPlain 7 (cps "<dyn 7>"%string)
  | 8 => VStr true (cps "a long safe string, more than twenty-two bytes <&>"%string)
  | 9 => VSeq false [VStr true (cps "<s>"%string); VUndef]
  | _ => VUndef
  end.

(* --- serde values --- *)
Fixpoint dec_sval (fuel : nat) (l : list Z) : dres sval :=
  match fuel with
  | O => None
  | S f =>
      match l with
      | 0 :: r => Some (SUnit, r)
      | 1 :: b :: r => Some (SBool (negb (b =? 0)), r)
      | 2 :: w :: z :: r => Some (SInt w z, r)
      | 3 :: w :: z :: r => Some (SUInt w z, r)
      | 4 :: b :: r => Some (SF64 b, r)
      | 5 :: b :: r => Some (SF32 b, r)
      | 6 :: c :: r => Some (SChar c, r)
      | 7 :: r => dmap SStr (dec_str r)
      | 8 :: r => dmap SBytes (dec_str r)
      | 9 :: r => Some (SNone, r)
      | 10 :: r => dmap SSome (dec_sval f r)
      | 11 :: r => Some (SUnitStruct, r)
      | 12 :: i :: r => dmap (SUnitVariant i) (dec_str r)
      | 13 :: r => dmap SNewtypeStruct (dec_sval f r)
      | 14 :: i :: r => dmap (fun p => SNewtypeVariant i (fst p) (snd p)) (dec_pair dec_str (dec_sval f) r)
      | 15 :: r => dmap SSeq (dec_many (dec_sval f) r)
      | 16 :: r => dmap STuple (dec_many (dec_sval f) r)
      | 17 :: r => dmap STupleStruct (dec_many (dec_sval f) r)
      | 18 :: i :: r => dmap (fun p => STupleVariant i (fst p) (snd p)) (dec_pair dec_str (dec_many (dec_sval f)) r)
      | 19 :: r => dmap SMap (dec_many (dec_pair (dec_sval f) (dec_sval f)) r)
      | 20 :: r => dmap SStruct (dec_many (dec_pair dec_str (dec_sval f)) r)
      | 21 :: i :: r => dmap (fun p => SStructVariant i (fst p) (snd p))
                             (dec_pair dec_str (dec_many (dec_pair dec_str (dec_sval f))) r)
      | 22 :: k :: r => Some (SHandle (pool k), r)
      | _ => None
      end
  end.

(* --- encoders --- *)
Definition enc_str (s : str) : list Z := lenZ s :: s.
Definition b2z (b : bool) : Z := if b then 1 else 0.

Fixpoint enc_value (v : value) : list Z :=
  match v with
  | VUndef => [0]
  | VNone => [1]
  | VBool b => [2; b2z b]
  | VI64 z => [3; z]
  | VU64 z => [4; z]
  | VI128 z => [5; z]
  | VU128 z => [6; z]
  | VF64 b => [7; b]
  | VStr safe s => 8 :: b2z safe :: enc_str s
  | VBytes l => 9 :: enc_str l
  | VSeq tup l => 10 :: b2z tup :: lenZ l :: flat_map enc_value l
  | VMap es => 11 :: lenZ es :: flat_map (fun e => enc_value (fst e) ++ enc_value (snd e)) es
  | VPlain id _ => [12; id]
  | VInvalid => [13]
  end.

Fixpoint enc_sval (v : sval) : list Z :=
  match v with
  | SUnit => [0]
  | SBool b => [1; b2z b]
  | SInt w z => [2; w; z]
  | SUInt w z => [3; w; z]
  | SF64 b => [4; b]
  | SF32 b => [5; b]
  | SChar c => [6; c]
  | SStr s => 7 :: enc_str s
  | SBytes l => 8 :: enc_str l
  | SNone => [9]
  | SSome x => 10 :: enc_sval x
  | SUnitStruct => [11]
  | SUnitVariant i n => 12 :: i :: enc_str n
  | SNewtypeStruct x => 13 :: enc_sval x
  | SNewtypeVariant i n x => 14 :: i :: enc_str n ++ enc_sval x
  | SSeq l => 15 :: lenZ l :: flat_map enc_sval l
  | STuple l => 16 :: lenZ l :: flat_map enc_sval l
  | STupleStruct l => 17 :: lenZ l :: flat_map enc_sval l
  | STupleVariant i n l => 18 :: i :: enc_str n ++ lenZ l :: flat_map enc_sval l
  | SMap kvs => 19 :: lenZ kvs :: flat_map (fun kv => enc_sval (fst kv) ++ enc_sval (snd kv)) kvs
  | SStruct fs => 20 :: lenZ fs :: flat_map (fun f => enc_str (fst f) ++ enc_sval (snd f)) fs
  | SStructVariant i n fs => 21 :: i :: enc_str n ++ lenZ fs :: flat_map (fun f => enc_str (fst f) ++ enc_sval (snd f)) fs
  | SHandle _ => [22; -1]
  end.

(* input: tid L sty_1..sty_L sval.. *)
Definition decode (inp : list Z) : option (sty * sval) :=
  match inp with
  | _ :: l :: r =>
      let fuel := S (length r) in
      match dec_sty fuel (takeZ l r) with
      | Some (t, []) =>
          match dec_sval fuel (skipZ l r) with
          | Some (v, []) => Some (t, v)
          | _ => None
          end
      | _ => None
      end
  | _ => None
  end.

(* shape of Value::from(Serde(&x)), then T::deserialize of it *)
Definition run (inp : list Z) : list Z :=
  match decode inp with
  | Some (t, v) =>
      let x := ser v in
      0 :: enc_value x ++ match de t x with
                          | Some v' => 0 :: enc_sval v'
                          | None => [1; E_CannotDeserialize]
                          end
  | None => [9]
  end.

(* the specification's view of the case: is it a value of the type; is the type in the domain *)
Definition spec (inp : list Z) : list Z :=
  match decode inp with
  | Some (t, v) => [b2z (wf_sty t && has_type t v); b2z (roundtrippable t)]
  | None => [9]
  end.

(* input: len cp..  -- the text of {{ s|tojson }} *)
Definition run_tojson (inp : list Z) : list Z :=
  match dec_str inp with
  | Some (s, []) => 0 :: enc_str (tojson_str s)
  | _ => [9]
  end.

(* --- re-entrancy programs (c16.rs::Node): `200 0 ntop node..` --- *)
Fixpoint dec_node (fuel : nat) (l : list Z) : dres node :=
  match fuel with
  | O => None
  | S f =>
      let many := fun (l : list Z) =>
        match dec_many (dec_node f) l with
        | Some (xs, r) => Some (fold_right NCons NNil xs, r)
        | None => None
        end in
      match l with
      | 0 :: z :: r => Some (NInt z, r)
      | 1 :: k :: r => Some (NEmb (pool k), r)
      | 2 :: r => Some (NProbe, r)
      | 3 :: r => dmap NSeq (many r)
      | 4 :: r => dmap NTuple (many r)
      | 5 :: r => dmap NMap (many r)
      | 6 :: r => dmap NStruct (many r)
      | 7 :: r => dmap NNVar (dec_node f r)
      | 8 :: r => dmap NTVar (many r)
      | 9 :: r => dmap NSVar (many r)
      | 10 :: r => dmap NSome (dec_node f r)
      | 11 :: r => dmap NNested (dec_node f r)
      | 12 :: r => dmap NNestedDrop (dec_node f r)
      | 13 :: r => dmap NNestedCatch (dec_node f r)
      | 14 :: r => dmap NThread (dec_node f r)
      | 15 :: r => Some (NFail, r)
      | 16 :: r => Some (NPanic, r)
      | 17 :: k :: r => Some (NLeak (pool k), r)
      | 18 :: k :: r => Some (NFlatten (pool k), r)
      | _ => None
      end
  end.

Definition enc_res (r : res value) : list Z :=
  match r with ROk v => 0 :: enc_value v | RErr => [1] | RPanic => [2] end.

(* the conversions one after the other on one thread, starting from fresh thread-locals;
   after each: serializing_for_value() as seen outside *)
Fixpoint run_tops (ys : list node) (st : cstate) : list Z :=
  match ys with
  | [] => [b2z (flag st)]
  | y :: r => let '(res, st') := convert y st in enc_res res ++ b2z (flag st') :: run_tops r st'
  end.

Definition run_prog (inp : list Z) : list Z :=
  match inp with
  | _ :: _ :: r => match dec_many (dec_node (S (length r))) r with
                   | Some (ys, []) => 0 :: lenZ ys :: run_tops ys fresh_thread
                   | _ => [9]
                   end
  | _ => [9]
  end.

Definition spec_prog (inp : list Z) : list Z :=
  match inp with
  | _ :: _ :: r => match dec_many (dec_node (S (length r))) r with
                   | Some (ys, []) => 0 :: lenZ ys :: flat_map (fun y => enc_res (ideal_convert y) ++ [0]) ys ++ [0]
                   | _ => [9]
                   end
  | _ => [9]
  end.

(* input: sized n (len cp..)*  -- the text of a JSON array of already rendered elements, JinjaJsonFormatter separators *)
Definition run_array (inp : list Z) : list Z :=
  match inp with
  | sized :: r => match dec_many dec_str r with
                  | Some (elems, []) => 0 :: enc_str (json_array [44; 32] (seq_len_hint (negb (sized =? 0)) elems) elems)
                  | _ => [9]
                  end
  | _ => [9]
  end.

Open Scope string_scope.
Definition runners : list (string * (list Z -> list Z)) :=
  [ ("c16", run); ("c16-spec", spec); ("c16-tojson", run_tojson); ("c16-prog", run_prog); ("c16-prog-spec", spec_prog); ("c16-array", run_array) ].
