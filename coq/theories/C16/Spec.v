(* C16 specification, written from the property text:
   - which (type, value) pairs the round-trip claim is about: [has_type], [wf_sty], [roundtrippable];
   - what "valid JSON that parses back to an equal value" means at the level the tojson
     post-processing can affect: the token-level JSON grammar [lex] (RFC 8259 section 7 string
     literals with their escapes; every other character is a token of its own, and the four
     characters < > & ' are not JSON syntax outside string literals). *)
From MJ Require Import Common.Base C16.Model.

(* ---------------------------------------------------------------------------------- *)
(* typing of serde values                                                               *)
(* ---------------------------------------------------------------------------------- *)
Definition forall2b {A B} (f : A -> B -> bool) : list A -> list B -> bool :=
  fix go (ts : list A) (l : list B) : bool :=
    match ts, l with
    | [], [] => true
    | t :: ts', x :: l' => f t x && go ts' l'
    | _, _ => false
    end.

(* fields: same names in the same order *)
Definition fields_ok (f : sty -> sval -> bool) : list (str * sty) -> list (str * sval) -> bool :=
  fix go (fs : list (str * sty)) (l : list (str * sval)) : bool :=
    match fs, l with
    | [], [] => true
    | (n, t) :: fs', (m, x) :: l' => str_eqb n m && f t x && go fs' l'
    | _, _ => false
    end.

(* the [idx]-th variant, counted from [i] *)
Definition variant_at (g : sty -> bool) (idx : Z) (name : str) : Z -> list (str * sty) -> bool :=
  fix go (i : Z) (vs : list (str * sty)) : bool :=
    match vs with
    | [] => false
    | (n, p) :: vs' => if i =? idx then str_eqb n name && g p else go (i + 1) vs'
    end.

Fixpoint has_type (t : sty) (v : sval) {struct t} : bool :=
  match t, v with
  | TUnit, SUnit => true
  | TBool, SBool _ => true
  | TInt w, SInt w' z => (w =? w') && int_range true w z
  | TUInt w, SUInt w' z => (w =? w') && int_range false w z
  | TF64, SF64 _ => true
  | TF32, SF32 _ => true
  | TChar, SChar _ => true
  | TStr, SStr _ => true
  | TBytes, SBytes _ => true
  | TOption _, SNone => true
  | TOption t', SSome x => has_type t' x
  | TUnitStruct, SUnitStruct => true
  | TNewtype t', SNewtypeStruct x => has_type t' x
  | TSeq t', SSeq l => forallb (has_type t') l
  | TTuple ts, STuple l => forall2b has_type ts l
  | TTupleStruct ts, STupleStruct l => forall2b has_type ts l
  | TMap k t', SMap kvs => forallb (fun kv => has_type k (fst kv) && has_type t' (snd kv)) kvs
  | TStruct fs, SStruct l => fields_ok has_type fs l
  | TEnum vs, SUnitVariant idx name =>
      variant_at (fun p => match p with PUnit => true | _ => false end) idx name 0 vs
  | TEnum vs, SNewtypeVariant idx name x =>
      variant_at (fun p => match p with PNew t' => has_type t' x | _ => false end) idx name 0 vs
  | TEnum vs, STupleVariant idx name l =>
      variant_at (fun p => match p with PTuple ts => forall2b has_type ts l | _ => false end) idx name 0 vs
  | TEnum vs, SStructVariant idx name l =>
      variant_at (fun p => match p with PStruct fs => fields_ok has_type fs l | _ => false end) idx name 0 vs
  | TValue, SHandle _ => true
  | _, _ => false
  end.

(* can a value of the type serialise to none?  (what serde cannot tell from None) *)
Fixpoint nullable (t : sty) : bool :=
  match t with
  | TUnit | TUnitStruct | TOption _ | TValue => true
  | TNewtype t' => nullable t'
  | _ => false
  end.

Fixpoint nodup_str (l : list str) : bool :=
  match l with
  | [] => true
  | x :: r => negb (existsb (str_eqb x) r) && nodup_str r
  end.

(* a Rust type: field names of a struct and variant names of an enum are distinct; variant
   descriptors occur exactly under enums *)
Fixpoint wf_sty (t : sty) : bool :=
  match t with
  | TOption t' | TNewtype t' | TSeq t' => wf_sty t'
  | TTuple ts | TTupleStruct ts => forallb wf_sty ts
  | TMap k t' => wf_sty k && wf_sty t'
  | TStruct fs => nodup_str (map fst fs) && forallb (fun f => wf_sty (snd f)) fs
  | TEnum vs => nodup_str (map fst vs) && forallb (fun f => wf_payload (snd f)) vs
  | PUnit | PNew _ | PTuple _ | PStruct _ => false
  | _ => true
  end
with wf_payload (p : sty) : bool :=
  match p with
  | PUnit => true
  | PNew t' => wf_sty t'
  | PTuple ts => forallb wf_sty ts
  | PStruct fs => nodup_str (map fst fs) && forallb (fun f => wf_sty (snd f)) fs
  | _ => false
  end.

(* The domain of the round-trip claim: integers of every width Rust has (8 to 128 bits); no Option around a payload that can
   itself be none (Option<Option<_>>, Option<()>, Option<UnitStruct>, ...); no embedded template
   values (those are the subject of the handle clause). *)
Fixpoint roundtrippable (t : sty) : bool :=
  match t with
  | TInt w | TUInt w => (w <=? 64) || (w =? 128)
  | TValue => false
  | TOption t' => negb (nullable t') && roundtrippable t'
  | TNewtype t' | TSeq t' | PNew t' => roundtrippable t'
  | TTuple ts | TTupleStruct ts | PTuple ts => forallb roundtrippable ts
  | TMap k t' => roundtrippable k && roundtrippable t'
  | TStruct fs | TEnum fs | PStruct fs => forallb (fun f => roundtrippable (snd f)) fs
  | _ => true
  end.

(* ---------------------------------------------------------------------------------- *)
(* JSON at token level                                                                  *)
(* ---------------------------------------------------------------------------------- *)
Definition is_html4 (c : Z) : bool := (c =? 60) || (c =? 62) || (c =? 38) || (c =? 39).   (* < > & ' *)

Inductive tok :=
| TCh (c : Z)          (* a character outside string literals: punctuation, digit, letter of a literal, blank *)
| TLit (s : str).      (* a string literal, by its decoded content (code points; \uXXXX gives the code unit) *)

Definition hexval (c : Z) : option Z :=
  if (48 <=? c) && (c <=? 57) then Some (c - 48)
  else if (97 <=? c) && (c <=? 102) then Some (c - 87)
  else if (65 <=? c) && (c <=? 70) then Some (c - 55)
  else None.

Definition hex4 (a b c d : Z) : option Z :=
  match hexval a, hexval b, hexval c, hexval d with
  | Some x, Some y, Some z, Some w => Some (((x * 16 + y) * 16 + z) * 16 + w)
  | _, _, _, _ => None
  end.

(* the two-character escapes of RFC 8259: backslash followed by one of: quote, backslash, slash, b f n r t *)
Definition simple_escape (e : Z) : option Z :=
  if e =? 34 then Some 34 else if e =? 92 then Some 92 else if e =? 47 then Some 47
  else if e =? 98 then Some 8 else if e =? 102 then Some 12 else if e =? 110 then Some 10
  else if e =? 114 then Some 13 else if e =? 116 then Some 9 else None.

Definition cons_tok (t : tok) (o : option (list tok)) : option (list tok) :=
  match o with Some l => Some (t :: l) | None => None end.

(* [lex instr acc s]: [instr] = inside a string literal whose decoded content so far is [rev acc] *)
Fixpoint lex (instr : bool) (acc : str) (s : str) {struct s} : option (list tok) :=
  match s with
  | [] => if instr then None else Some []
  | c :: r =>
      if instr then
        if c =? 34 then cons_tok (TLit (rev acc)) (lex false [] r)
        else if c =? 92 then
          match r with
          | e :: r1 =>
              if e =? 117 then
                match r1 with
                | a :: b :: c' :: d :: r2 =>
                    match hex4 a b c' d with
                    | Some u => lex true (u :: acc) r2
                    | None => None
                    end
                | _ => None
                end
              else match simple_escape e with
                   | Some u => lex true (u :: acc) r1
                   | None => None
                   end
          | [] => None
          end
        else if c <? 32 then None                       (* control characters must be escaped *)
        else lex true (c :: acc) r
      else
        if c =? 34 then lex true [] r
        else if is_html4 c then None                    (* not JSON syntax outside a string literal *)
        else cons_tok (TCh c) (lex false [] r)
  end.

Definition json_tokens (s : str) : option (list tok) := lex false [] s.

(* ---------------------------------------------------------------------------------- *)
(* embedded template values and nested conversions: what a conversion must produce      *)
(* ---------------------------------------------------------------------------------- *)
(* From the property text and the docs of Serde / serializing_for_value(): a template value
   embedded in serialised data comes back as the very same value, wherever it stands and whatever
   the surrounding Serialize impls do (including converting other data into template values, on
   this or another thread, successfully or not); serializing_for_value() is true throughout a
   conversion.  No thread-local state appears here. *)
Definition tr (r : res value) : res value := match r with RErr => ROk VInvalid | r => r end.

Fixpoint ideal (x : node) : res value :=
  match x with
  | NInt z => ROk (VI64 z)
  | NEmb v => ROk v
  | NProbe => ROk (VBool true)
  | NSeq l => match ideals l with ROk vs => ROk (VSeq false vs) | RErr => RErr | RPanic => RPanic end
  | NTuple l => match ideals l with ROk vs => ROk (VSeq true vs) | RErr => RErr | RPanic => RPanic end
  | NMap l | NStruct l => match ideals l with ROk vs => ROk (VMap (with_keys vs)) | RErr => RErr | RPanic => RPanic end
  | NNVar y => match tr (ideal y) with ROk v => ROk (VMap [(variant_key, v)]) | r => r end
  | NTVar l => match ideals l with ROk vs => ROk (VMap [(variant_key, VSeq false vs)]) | RErr => RErr | RPanic => RPanic end
  | NSVar l => match ideals l with ROk vs => ROk (VMap [(variant_key, VMap (with_keys vs))]) | RErr => RErr | RPanic => RPanic end
  | NSome y => tr (ideal y)
  | NNested y => tr (ideal y)
  | NNestedDrop y => match tr (ideal y) with ROk _ => ROk VNone | r => r end
  | NNestedCatch y | NThread y => match tr (ideal y) with ROk v => ROk v | _ => ROk VNone end
  | NFail => RErr
  | NPanic => RPanic
  | NLeak _ => ROk VNone                       (* what the foreign serializer saw is not part of the value *)
  | NFlatten _ => RErr                         (* flattening a template value is refused (documented) *)
  end
with ideals (l : nodes) : res (list value) :=
  match l with
  | NNil => ROk []
  | NCons y r =>
      match ideal y with
      | RPanic => RPanic
      | r1 => let v := match r1 with ROk v => v | _ => VInvalid end in
              match ideals r with ROk vs => ROk (v :: vs) | RErr => RErr | RPanic => RPanic end
      end
  end.

(* Value::from(Serde(y)) *)
Definition ideal_convert (y : node) : res value := tr (ideal y).

(* a JSON array text: "[" e1 sep e2 sep ... en "]" *)
Fixpoint intercalate (sep : str) (elems : list str) : str :=
  match elems with
  | [] => []
  | [e] => e
  | e :: r => e ++ sep ++ intercalate sep r
  end.
Definition array_text (sep : str) (elems : list str) : str := 91 :: intercalate sep elems ++ [93].
