(* C17, acceptance set: safe_join refuses a name exactly when one of its '/'-separated segments starts
   with a dot or contains a backslash - the rejection is no wider than that (nothing a host could
   legitimately store under the base is turned away) and no narrower (C17/Proofs.v). *)
From MJ Require Import Common.Base C17.Model.

Definition bad_segment (seg : str) : bool := starts_with_dot seg || contains_backslash seg.

Lemma join_segments_none_iff segs : forall rv,
  join_segments rv segs = None <-> existsb bad_segment segs = true.
Proof.
  induction segs as [|seg segs IH]; intros rv; cbn [join_segments existsb].
  - split; discriminate.
  - fold (bad_segment seg). destruct (bad_segment seg); cbn [orb].
    + split; reflexivity.
    + apply IH.
Qed.

Lemma safe_join_none_iff base nm :
  safe_join base nm = None <-> existsb bad_segment (split_slash nm) = true.
Proof. apply join_segments_none_iff. Qed.

Lemma safe_join_accepts base nm :
  forallb (fun seg => negb (bad_segment seg)) (split_slash nm) = true ->
  exists p, safe_join base nm = Some p.
Proof.
  intros H. destruct (safe_join base nm) as [p|] eqn:E; [eexists; reflexivity|].
  apply safe_join_none_iff in E. apply existsb_exists in E. destruct E as [seg [Hin Hb]].
  rewrite forallb_forall in H. specialize (H seg Hin). rewrite Hb in H. discriminate H.
Qed.

(* acceptance does not depend on the base directory *)
Lemma safe_join_accept_base_independent base base' nm :
  (safe_join base nm = None) <-> (safe_join base' nm = None).
Proof. rewrite !safe_join_none_iff. reflexivity. Qed.
