(* C17 model: minijinja/src/loader.rs::safe_join and path_loader as they are, on Unix.
   Strings and paths are lists of code points (a Rust &str / a PathBuf made from &strs).
   No proofs in this file. *)
From MJ Require Import Common.Base.

Definition SLASH := 47.
Definition DOT := 46.
Definition BACKSLASH := 92.

Definition str := list Z.

(* str::split('/'): at every '/', empty pieces included, never an empty list *)
Fixpoint split_slash (s : str) : list str :=
  match s with
  | [] => [[]]
  | c :: r =>
      if c =? SLASH then [] :: split_slash r
      else match split_slash r with
           | seg :: segs => (c :: seg) :: segs
           | [] => [[c]]          (* never happens: split_slash is non-empty *)
           end
  end.

(* segment.starts_with('.') / segment.contains('\\') *)
Definition starts_with_dot (seg : str) : bool :=
  match seg with c :: _ => c =? DOT | [] => false end.
Definition contains_backslash (seg : str) : bool := existsb (fun c => c =? BACKSLASH) seg.

(* Path::is_absolute on Unix *)
Definition is_absolute (p : str) : bool :=
  match p with c :: _ => c =? SLASH | [] => false end.

(* std PathBuf::_push on Unix: an absolute argument replaces the buffer; otherwise a separator is
   added when the buffer is non-empty and does not end with one, then the argument is appended *)
Definition need_sep (buf : str) : bool :=
  match buf with [] => false | _ :: _ => negb (last buf 0 =? SLASH) end.
Definition push (buf path : str) : str :=
  if is_absolute path then path
  else if need_sep buf then buf ++ SLASH :: path
  else buf ++ path.

(* the loop of safe_join *)
Fixpoint join_segments (rv : str) (segs : list str) : option str :=
  match segs with
  | [] => Some rv
  | seg :: r =>
      if starts_with_dot seg || contains_backslash seg then None
      else join_segments (push rv seg) r
  end.

Definition safe_join (base name : str) : option str := join_segments base (split_slash name).

(* path_loader over an abstract file system: what fs::read_to_string answers for a path *)
Inductive read_result := ReadOk (content : str) | ReadNotFound | ReadOtherError.
Inductive loader_result := LoadOk (content : str) | LoadMissing | LoadErr (code : Z).

Definition path_loader (read : str -> read_result) (dir name : str) : loader_result :=
  match safe_join dir name with
  | None => LoadMissing
  | Some path =>
      match read path with
      | ReadOk s => LoadOk s
      | ReadNotFound => LoadMissing
      | ReadOtherError => LoadErr E_InvalidOperation
      end
  end.
