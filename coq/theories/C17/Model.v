(* C17 model: minijinja/src/loader.rs::safe_join and path_loader as they are, on Unix.
   Strings and paths are lists of code points (a Rust &str / a PathBuf made from &strs).
   No proofs in this file. *)
From MJ Require Import Common.Base.

Definition SLASH := 47.
Definition DOT := 46.
Definition BACKSLASH := 92.

Definition str := list Z.

(* str::split('/'): at every '/', empty pieces included, never an empty list *)
Fixpoint split_slash (s : str) : list str :=
  match s with
  | [] => [[]]
  | c :: r =>
      if c =? SLASH then [] :: split_slash r
      else match split_slash r with
           | seg :: segs => (c :: seg) :: segs
           | [] => [[c]]          (* never happens: split_slash is non-empty *)
           end
  end.

(* segment.starts_with('.') / segment.contains('\\') *)
Definition starts_with_dot (seg : str) : bool :=
  match seg with c :: _ => c =? DOT | [] => false end.
Definition contains_backslash (seg : str) : bool := existsb (fun c => c =? BACKSLASH) seg.

(* Path::is_absolute on Unix *)
Definition is_absolute (p : str) : bool :=
  match p with c :: _ => c =? SLASH | [] => false end.

(* std PathBuf::_push on Unix: an absolute argument replaces the buffer; otherwise a separator is
   added when the buffer is non-empty and does not end with one, then the argument is appended *)
Definition need_sep (buf : str) : bool :=
  match buf with [] => false | _ :: _ => negb (last buf 0 =? SLASH) end.
Definition push (buf path : str) : str :=
  if is_absolute path then path
  else if need_sep buf then buf ++ SLASH :: path
  else buf ++ path.

(* the loop of safe_join *)
Fixpoint join_segments (rv : str) (segs : list str) : option str :=
  match segs with
  | [] => Some rv
  | seg :: r =>
      if starts_with_dot seg || contains_backslash seg then None
      else join_segments (push rv seg) r
  end.

Definition safe_join (base name : str) : option str := join_segments base (split_slash name).

(* path_loader over an abstract file system: what fs::read_to_string answers for a path *)
Inductive read_result := ReadOk (content : str) | ReadNotFound | ReadOtherError.
Inductive loader_result := LoadOk (content : str) | LoadMissing | LoadErr (code : Z).

Definition path_loader (read : str -> read_result) (dir name : str) : loader_result :=
  match safe_join dir name with
  | None => LoadMissing
  | Some path =>
      match read path with
      | ReadOk s => LoadOk s
      | ReadNotFound => LoadMissing
      | ReadOtherError => LoadErr E_InvalidOperation
      end
  end.

(* ---------------------------------------------------------------------------------------- *)
(* How a template name computed inside a template reaches the loader:                        *)
(*   environment.rs::join_template_path, vm/state.rs::State::get_template,                   *)
(*   loader.rs::LoaderStore::get (behind Environment::get_template),                         *)
(*   vm/mod.rs::perform_include (include / import / from-import) and load_blocks (extends).  *)
(* ---------------------------------------------------------------------------------------- *)
Record env := mk_env {
  (* templates the store already holds under a name: add_template* or loaded before (memo cache) *)
  stored : str -> option str;
  (* Environment::set_loader *)
  loader : option (str -> loader_result);
  (* Environment::set_path_join_callback: cb(name, parent) *)
  path_join : option (str -> str -> str)
}.

(* environment.rs::join_template_path *)
Definition join_template_path (e : env) (name parent : str) : str :=
  match path_join e with
  | Some cb => cb name parent
  | None => name
  end.

Inductive get_result :=
| Found (source : str)          (* the source that is compiled and evaluated *)
| NotFound                      (* ErrorKind::TemplateNotFound *)
| LoaderFailed (code : Z).      (* the loader's own error *)

(* LoaderStore::get: the store first, else the loader with this very name.
   Second component: the names the loader was called with. *)
Definition env_get_template (e : env) (name : str) : get_result * list str :=
  match stored e name with
  | Some src => (Found src, [])
  | None =>
      match loader e with
      | None => (NotFound, [])
      | Some l =>
          (match l name with
           | LoadOk s => Found s
           | LoadMissing => NotFound
           | LoadErr c => LoaderFailed c
           end, [name])
      end
  end.

(* State::get_template, called by the template named [parent] *)
Definition state_get_template (e : env) (parent name : str) : get_result * list str :=
  env_get_template e (join_template_path e name parent).

(* load_blocks ({% extends %}): the operand must be a string ([None] = any other value) *)
Definition extends_lookup (e : env) (parent : str) (operand : option str) : get_result * list str :=
  match operand with
  | None => (LoaderFailed E_InvalidOperation, [])        (* "template name was not a string" *)
  | Some name => env_get_template e (join_template_path e name parent)
  end.

(* perform_include ({% include %}, {% import %}, {% from .. import %}): the operand is one value or
   a sequence of choices; the first one that is found is evaluated, a missing one is skipped, any
   other failure ends the include *)
Fixpoint include_lookup (e : env) (parent : str) (choices : list (option str)) : get_result * list str :=
  match choices with
  | [] => (NotFound, [])
  | None :: _ => (LoaderFailed E_InvalidOperation, [])
  | Some name :: rest =>
      let '(r, asked) := state_get_template e parent name in
      match r with
      | NotFound => let '(r', asked') := include_lookup e parent rest in (r', asked ++ asked')
      | _ => (r, asked)
      end
  end.
