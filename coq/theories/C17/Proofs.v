(* C17 proofs: whatever safe_join accepts lies beneath the base directory. *)
From MJ Require Import Common.Base C17.Model C17.Spec.

Definition nonempty (s : list Z) : bool := match s with [] => false | _ => true end.
Definition noslash (s : list Z) : Prop := ~ In 47 s.

(* ---- splitting ---- *)
Lemma split_nonempty s : split_slash s <> [].
Proof.
  induction s as [|c r IH]; cbn [split_slash]; [discriminate|].
  destruct (c =? SLASH); [discriminate|]. destruct (split_slash r); [contradiction|discriminate].
Qed.

Lemma split_cons_other c r : c <> 47 ->
  exists seg segs, split_slash r = seg :: segs /\ split_slash (c :: r) = (c :: seg) :: segs.
Proof.
  intros H. cbn [split_slash]. unfold SLASH. destruct (c =? 47) eqn:E; [lia|].
  destruct (split_slash r) as [|seg segs] eqn:S; [exfalso; exact (split_nonempty r S)|].
  exists seg, segs. split; reflexivity.
Qed.

Lemma split_cons_slash r : split_slash (47 :: r) = [] :: split_slash r.
Proof. reflexivity. Qed.

Lemma split_app a : forall b, split_slash (a ++ 47 :: b) = split_slash a ++ split_slash b.
Proof.
  induction a as [|c a IH]; intros b.
  - reflexivity.
  - cbn [app]. destruct (Z.eq_dec c 47) as [->|H].
    + rewrite !split_cons_slash, IH. reflexivity.
    + destruct (split_cons_other c a H) as (seg & segs & S1 & S2).
      destruct (split_cons_other c (a ++ 47 :: b) H) as (seg' & segs' & S1' & S2').
      rewrite S2, S2'. rewrite IH, S1 in S1'. cbn [app] in S1'. inversion S1'; subst. reflexivity.
Qed.

Lemma split_noslash s : noslash s -> split_slash s = [s].
Proof.
  unfold noslash. induction s as [|c r IH]; intros H; [reflexivity|].
  assert (c <> 47) by (intros ->; apply H; left; reflexivity).
  destruct (split_cons_other c r H0) as (seg & segs & S1 & S2). rewrite S2.
  rewrite IH in S1 by (intros X; apply H; right; exact X). inversion S1; subst. reflexivity.
Qed.

Lemma split_segments_noslash s : Forall noslash (split_slash s).
Proof.
  induction s as [|c r IH].
  - constructor; [intros []|constructor].
  - destruct (Z.eq_dec c 47) as [->|H].
    + rewrite split_cons_slash. constructor; [intros []|exact IH].
    + destruct (split_cons_other c r H) as (seg & segs & S1 & S2). rewrite S2. rewrite S1 in IH.
      inversion IH; subst. constructor; [|assumption].
      intros [X|X]; [congruence|contradiction].
Qed.

(* the specification's components are the same pieces *)
Lemma components_split : forall p cur,
  components p cur = match split_slash p with seg :: segs => (rev cur ++ seg) :: segs | [] => [] end.
Proof.
  induction p as [|c r IH]; intros cur.
  - cbn. rewrite app_nil_r. reflexivity.
  - cbn [components]. destruct (Z.eq_dec c 47) as [->|H].
    + cbn [Z.eqb Pos.eqb]. rewrite split_cons_slash, app_nil_r. f_equal.
      rewrite IH. cbn [rev app]. destruct (split_slash r) eqn:S; [exfalso; exact (split_nonempty r S)|reflexivity].
    + destruct (c =? 47) eqn:E; [lia|]. rewrite IH.
      destruct (split_cons_other c r H) as (seg & segs & S1 & S2). rewrite S1, S2.
      cbn [rev]. rewrite <- app_assoc. reflexivity.
Qed.

Lemma components_nil p : components p [] = split_slash p.
Proof.
  rewrite components_split. destruct (split_slash p) eqn:S; [exfalso; exact (split_nonempty p S)|reflexivity].
Qed.

(* ---- walking ---- *)
Definition start (cwd : list name) (p : path) : list name := match p with 47 :: _ => [] | _ => cwd end.

Lemma resolve_eq cwd p : resolve cwd p = walk (start cwd p) (split_slash p).
Proof. unfold resolve, start. rewrite components_nil. reflexivity. Qed.

Lemma start_app cwd p q : p <> [] -> start cwd (p ++ q) = start cwd p.
Proof. destruct p as [|c p]; [contradiction|]. intros _. reflexivity. Qed.

Lemma walk_app loc a b : walk loc (a ++ b) = walk (walk loc a) b.
Proof. unfold walk. apply fold_left_app. Qed.

Lemma noslash_not_absolute seg : noslash seg -> is_absolute seg = false.
Proof.
  destruct seg as [|c r]; [reflexivity|]. intros H. cbn. unfold SLASH.
  destruct (c =? 47) eqn:E; [|reflexivity]. exfalso. apply H. left. lia.
Qed.

Lemma noslash_start cwd seg : noslash seg -> start cwd seg = cwd.
Proof.
  destruct seg as [|c r]; [reflexivity|]. intros H. unfold start.
  destruct (Z.eq_dec c 47) as [->|N]; [exfalso; apply H; left; reflexivity|].
  destruct c as [|q|q]; try reflexivity.
  do 6 (destruct q as [q|q|]; try reflexivity). exfalso. apply N. reflexivity.
Qed.

(* one PathBuf::push of a slash-free segment = one step of the walk *)
Lemma resolve_push cwd buf seg : noslash seg ->
  resolve cwd (push buf seg) = walk1 (resolve cwd buf) seg.
Proof.
  intros Hs. rewrite !resolve_eq. unfold push. rewrite (noslash_not_absolute seg Hs).
  destruct buf as [|b0 buf'] eqn:Eb.
  - cbn [need_sep app]. rewrite (split_noslash seg Hs), (noslash_start cwd seg Hs). reflexivity.
  - rewrite <- Eb. assert (Hne : buf <> []) by (rewrite Eb; discriminate).
    assert (Hn : need_sep buf = negb (last buf 0 =? SLASH)) by (rewrite Eb; reflexivity).
    rewrite Hn. destruct (last buf 0 =? SLASH) eqn:El; cbn [negb].
    + (* buffer ends with a separator *)
      destruct (exists_last Hne) as (b' & x & Hb). rewrite Hb in El. rewrite last_last in El.
      assert (x = 47) by (unfold SLASH in El; lia). subst x.
      rewrite Hb. rewrite <- app_assoc. cbn [app].
      rewrite !split_app, (split_noslash seg Hs). cbn [split_slash].
      assert (St : start cwd (b' ++ 47 :: seg) = start cwd (b' ++ [47])).
      { destruct b' as [|c b'']; reflexivity. }
      rewrite St, !walk_app. reflexivity.
    + rewrite split_app, (split_noslash seg Hs), start_app by exact Hne.
      rewrite walk_app. reflexivity.
Qed.

Lemma walk1_plain loc seg : starts_with_dot seg = false ->
  walk1 loc seg = if nonempty seg then loc ++ [seg] else loc.
Proof.
  destruct seg as [|c r]; [reflexivity|]. cbn [starts_with_dot nonempty]. unfold DOT. intros H.
  unfold walk1, is_dot, is_dotdot.
  destruct (Z.eq_dec c 46) as [->|N]; [cbn in H; discriminate|].
  destruct c as [|q|q]; try reflexivity.
  do 6 (destruct q as [q|q|]; try reflexivity). exfalso. apply N. reflexivity.
Qed.

Lemma existsb_false_not_in (l : list Z) : existsb (fun c => c =? BACKSLASH) l = false -> ~ In 92 l.
Proof.
  induction l as [|c r IH]; cbn [existsb]; intros H; [intros []|].
  apply orb_false_iff in H as [H1 H2]. intros [X|X]; [unfold BACKSLASH in H1; lia|exact (IH H2 X)].
Qed.

Lemma join_segments_confined cwd : forall segs rv p, Forall noslash segs ->
  join_segments rv segs = Some p ->
  resolve cwd p = resolve cwd rv ++ filter nonempty segs /\ Forall plain (filter nonempty segs).
Proof.
  induction segs as [|seg segs IH]; intros rv p Hn H; cbn [join_segments filter] in *.
  - inversion H; subst. rewrite app_nil_r. split; [reflexivity|constructor].
  - inversion Hn as [|x l Hs Hn']; subst.
    destruct (starts_with_dot seg) eqn:E1; [discriminate|].
    destruct (contains_backslash seg) eqn:E2; [discriminate|]. cbn [orb] in H.
    destruct (IH (push rv seg) p Hn' H) as [R P].
    rewrite R, (resolve_push cwd rv seg Hs), (walk1_plain _ seg E1).
    destruct (nonempty seg) eqn:E3.
    + split; [rewrite <- app_assoc; reflexivity|]. constructor; [|exact P].
      unfold plain. repeat split.
      * intros ->. discriminate.
      * intros r ->. cbn in E1. discriminate.
      * exact Hs.
      * exact (existsb_false_not_in seg E2).
    + split; [reflexivity|exact P].
Qed.

Lemma safe_join_confined_proof : forall cwd base nm p,
  safe_join base nm = Some p ->
  let segs := filter nonempty (split_slash nm) in
  resolve cwd p = resolve cwd base ++ segs /\ Forall plain segs.
Proof.
  intros cwd base nm p H. exact (join_segments_confined cwd _ base p (split_segments_noslash nm) H).
Qed.

Lemma is_prefix_app a : forall b, is_prefix a (a ++ b) = true.
Proof.
  induction a as [|x a IH]; intros b; [reflexivity|]. cbn [app is_prefix].
  destruct (list_eq_dec Z.eq_dec x x); [|contradiction]. rewrite IH. reflexivity.
Qed.

Lemma safe_join_beneath_proof : forall cwd base nm p, safe_join base nm = Some p -> beneath cwd base p = true.
Proof.
  intros cwd base nm p H. destruct (safe_join_confined_proof cwd base nm p H) as [R _].
  unfold beneath. rewrite R. apply is_prefix_app.
Qed.

(* ---- rejection ---- *)
Lemma join_segments_rejects : forall segs rv seg, In seg segs ->
  starts_with_dot seg = true \/ contains_backslash seg = true -> join_segments rv segs = None.
Proof.
  induction segs as [|s segs IH]; intros rv seg Hi Hb; [contradiction|]. cbn [join_segments].
  destruct (starts_with_dot s || contains_backslash s) eqn:E; [reflexivity|].
  destruct Hi as [->|Hi]; [|exact (IH _ seg Hi Hb)].
  apply orb_false_iff in E as [E1 E2]. destruct Hb; congruence.
Qed.

Lemma safe_join_rejects_proof : forall base nm seg, In seg (split_slash nm) ->
  starts_with_dot seg = true \/ contains_backslash seg = true -> safe_join base nm = None.
Proof. intros base nm seg. apply join_segments_rejects. Qed.

Lemma safe_join_rejects_dotdot_proof : forall base nm, In [46; 46] (split_slash nm) -> safe_join base nm = None.
Proof. intros base nm H. apply (safe_join_rejects_proof base nm _ H). left. reflexivity. Qed.

(* ---- the loader ---- *)
Lemma loader_confined_proof : forall cwd read dir nm s,
  path_loader read dir nm = LoadOk s ->
  exists p, safe_join dir nm = Some p /\ read p = ReadOk s /\ beneath cwd dir p = true.
Proof.
  intros cwd read dir nm s H. unfold path_loader in H.
  destruct (safe_join dir nm) as [p|] eqn:J; [|discriminate].
  destruct (read p) eqn:R; try discriminate. inversion H; subst.
  exists p. repeat split; auto. exact (safe_join_beneath_proof cwd dir nm p J).
Qed.

(* ---- names computed inside templates ---- *)
Lemma names_unchanged_proof : forall e parent name, path_join e = None ->
  state_get_template e parent name = env_get_template e name /\
  extends_lookup e parent (Some name) = env_get_template e name.
Proof. intros e parent name H. unfold state_get_template, extends_lookup, join_template_path. rewrite H. split; reflexivity. Qed.

Lemma names_joined_proof : forall e parent name cb, path_join e = Some cb ->
  state_get_template e parent name = env_get_template e (cb name parent) /\
  extends_lookup e parent (Some name) = env_get_template e (cb name parent).
Proof. intros e parent name cb H. unfold state_get_template, extends_lookup, join_template_path. rewrite H. split; reflexivity. Qed.

(* the loader is asked at most once per lookup, with exactly the joined name, and only for a name
   the store does not hold *)
Lemma loader_asked_proof : forall e parent name r asked,
  state_get_template e parent name = (r, asked) ->
  (asked = [] \/ asked = [join_template_path e name parent]) /\
  (asked <> [] -> stored e (join_template_path e name parent) = None).
Proof.
  intros e parent name r asked H. unfold state_get_template, env_get_template in H.
  destruct (stored e _) eqn:S.
  - inversion H; subst. split; [left; reflexivity|intros X; contradiction].
  - destruct (loader e); inversion H; subst; split; auto.
Qed.

(* every name the loader sees during an include is the joined form of one of the choices *)
Lemma include_asks_joined_proof : forall e parent choices r asked,
  include_lookup e parent choices = (r, asked) ->
  Forall (fun a => exists name, In (Some name) choices /\ a = join_template_path e name parent) asked.
Proof.
  intros e parent. induction choices as [|[name|] rest IH]; intros r asked H; cbn [include_lookup] in H.
  - injection H as <- <-. constructor.
  - destruct (state_get_template e parent name) as [r0 a0] eqn:G.
    assert (Hd : Forall (fun a => exists n, In (Some n) (Some name :: rest) /\ a = join_template_path e n parent) a0).
    { destruct (loader_asked_proof e parent name r0 a0 G) as [[->| ->] _]; [constructor|].
      constructor; [|constructor]. exists name. split; [left; reflexivity|reflexivity]. }
    assert (Hrest : forall r' a', include_lookup e parent rest = (r', a') ->
              Forall (fun a => exists n, In (Some n) (Some name :: rest) /\ a = join_template_path e n parent) a').
    { intros r' a' I. eapply Forall_impl; [|exact (IH r' a' I)].
      intros a (n & Hin & ->). exists n. split; [right; exact Hin|reflexivity]. }
    destruct r0.
    + injection H as <- <-. exact Hd.
    + destruct (include_lookup e parent rest) as [r' a'] eqn:I. injection H as <- <-.
      apply Forall_app. split; [exact Hd|exact (Hrest r' a' eq_refl)].
    + injection H as <- <-. exact Hd.
  - injection H as <- <-. constructor.
Qed.

(* composition with the path loader: whatever the template computes and whatever the join callback
   returns, a source that comes from the path loader is the content of a file beneath the base *)
Lemma env_get_confined_proof : forall cwd read dir e nm s asked,
  loader e = Some (path_loader read dir) ->
  env_get_template e nm = (Found s, asked) ->
  stored e nm = Some s \/
  exists p, safe_join dir nm = Some p /\ read p = ReadOk s /\ beneath cwd dir p = true.
Proof.
  intros cwd read dir e nm s asked L H. unfold env_get_template in H.
  destruct (stored e nm) eqn:S; [inversion H; subst; left; reflexivity|].
  rewrite L in H. destruct (path_loader read dir nm) eqn:P; inversion H; subst.
  right. exact (loader_confined_proof cwd read dir nm s P).
Qed.

Lemma include_confined_proof : forall cwd read dir e parent choices s asked,
  loader e = Some (path_loader read dir) -> (forall n, stored e n = None) ->
  include_lookup e parent choices = (Found s, asked) ->
  exists name p, In (Some name) choices /\
    safe_join dir (join_template_path e name parent) = Some p /\ read p = ReadOk s /\ beneath cwd dir p = true.
Proof.
  intros cwd read dir e parent choices s asked L N. revert asked.
  induction choices as [|[name|] rest IH]; intros asked H; cbn [include_lookup] in H; try discriminate.
  destruct (state_get_template e parent name) as [r0 a0] eqn:G. destruct r0.
  - injection H as -> <-. unfold state_get_template in G.
    destruct (env_get_confined_proof cwd read dir e _ s a0 L G) as [X|(p & J & R & B)]; [rewrite N in X; discriminate|].
    exists name, p. repeat split; auto. left; reflexivity.
  - destruct (include_lookup e parent rest) as [r' a'] eqn:I. injection H as -> <-.
    destruct (IH a' eq_refl) as (n & p & Hin & J & R & B). exists n, p. repeat split; auto. right; exact Hin.
  - discriminate.
Qed.
