(* Executable entry points of the C17 model (integer-list protocol of harness/src/bin/c17.rs, mode 0).
   input : 0 nb b1..bnb nn c1..cnn              output: 0 | 1 n p1..pn
   spec  : 0 nb b.. nn c.. <result as above>    output: 1 when the result is None or a path beneath
           the base (for the working directory /cwd), else 0
   Encoders/decoders are unverified glue. *)
From Coq Require Import String.
From MJ Require Import Common.Base.
From MJ Require Import C17.Model C17.Spec.

Definition take_str (l : list Z) : list Z * list Z :=
  match l with
  | n :: r => (takeZ n r, skipZ n r)
  | [] => ([], [])
  end.

Definition run (inp : list Z) : list Z :=
  match inp with
  | _ :: r =>
      let (b, r1) := take_str r in
      let (nm, _) := take_str r1 in
      match safe_join b nm with
      | None => [0]
      | Some p => 1 :: lenZ p :: p
      end
  | _ => [9]
  end.

Definition CWD : list (list Z) := [[99; 119; 100]].

Definition spec (inp : list Z) : list Z :=
  match inp with
  | _ :: r =>
      let (b, r1) := take_str r in
      let (nm, r2) := take_str r1 in
      match r2 with
      | 0 :: _ => [1]
      | 1 :: r3 => let (p, _) := take_str r3 in [if beneath CWD b p then 1 else 0]
      | _ => [0]
      end
  | _ => [9]
  end.

Open Scope string_scope.
Definition runners : list (string * (list Z -> list Z)) :=
  [ ("c17", run); ("c17-spec", spec) ].
