(* Executable entry points of the C17 model (integer-list protocol of harness/src/bin/c17.rs, mode 0).
   input : 0 nb b1..bnb nn c1..cnn              output: 0 | 1 n p1..pn
   spec  : 0 nb b.. nn c.. <result as above>    output: 1 when the result is None or a path beneath
           the base (for the working directory /cwd), else 0
   Encoders/decoders are unverified glue. *)
From Coq Require Import String.
From MJ Require Import Common.Base.
From MJ Require Import C17.Model C17.Spec.

Definition take_str (l : list Z) : list Z * list Z :=
  match l with
  | n :: r => (takeZ n r, skipZ n r)
  | [] => ([], [])
  end.

Definition run (inp : list Z) : list Z :=
  match inp with
  | _ :: r =>
      let (b, r1) := take_str r in
      let (nm, _) := take_str r1 in
      match safe_join b nm with
      | None => [0]
      | Some p => 1 :: lenZ p :: p
      end
  | _ => [9]
  end.

Definition CWD : list (list Z) := [[99; 119; 100]].

Definition spec (inp : list Z) : list Z :=
  match inp with
  | _ :: r =>
      let (b, r1) := take_str r in
      let (nm, r2) := take_str r1 in
      match r2 with
      | 0 :: _ => [1]
      | 1 :: r3 => let (p, _) := take_str r3 in [if beneath CWD b p then 1 else 0]
      | _ => [0]
      end
  | _ => [9]
  end.

(* names computed inside templates (mode 2 of the harness).
   input : 2 cb how np parent.. nn name.. found1     found1 = what the file system has for the first name asked:
                                                     1 a readable file, 2 unreadable, 0 nothing
   output: k (n c1..cn)*k       the names the loader is asked for, in order
   The three callbacks of the harness, in Gallina (glue): *)
Fixpoint join_with_slash (segs : list (list Z)) : list Z :=
  match segs with
  | [] => []
  | [s] => s
  | s :: r => s ++ 47 :: join_with_slash r
  end.
Definition cb_documented (nm parent : list Z) : list Z :=
  let rv := removelast (split_slash parent) in
  join_with_slash (fold_left (fun rv seg => match seg with
                                            | [46] => rv
                                            | [46; 46] => removelast rv
                                            | _ => rv ++ [seg]
                                            end) (split_slash nm) rv).
Definition cb_of (k : Z) : option (list Z -> list Z -> list Z) :=
  match k with
  | 1 => Some cb_documented
  | 2 => Some (fun nm _ => [46; 46; 47] ++ nm)
  | 3 => Some (fun nm parent => parent ++ [47; 46; 46; 47] ++ nm)
  | _ => None
  end.
Definition str_eqb (a b : list Z) : bool := if list_eq_dec Z.eq_dec a b then true else false.
Fixpoint enc_strs (l : list (list Z)) : list Z :=
  match l with [] => [] | s :: r => lenZ s :: s ++ enc_strs r end.

Definition run_names (inp : list Z) : list Z :=
  match inp with
  | _ :: cb :: how :: r =>
      let (parent, r1) := take_str r in
      let (nm, r2) := take_str r1 in
      let first_result := match r2 with 1 :: _ => LoadOk [] | 2 :: _ => LoadErr E_InvalidOperation | _ => LoadMissing end in
      let e0 := mk_env (fun n => if str_eqb n parent then Some [] else None) None (cb_of cb) in
      let first := join_template_path e0 nm parent in
      let e := mk_env (stored e0)
                      (Some (fun n => if str_eqb n first then first_result else LoadOk []))
                      (cb_of cb) in
      let '(_, asked) :=
        if how =? 2 then extends_lookup e parent (Some nm)
        else if how =? 5 then include_lookup e parent [Some nm; Some [97]]
        else include_lookup e parent [Some nm] in
      lenZ asked :: enc_strs asked
  | _ => [9]
  end.

Open Scope string_scope.
Definition runners : list (string * (list Z -> list Z)) :=
  [ ("c17", run); ("c17-spec", spec); ("c17-names", run_names) ].
