(* C17 specification: where a path leads.  Written from POSIX path resolution (symbolic links aside,
   as the property says): a path is walked component by component from the root (absolute path) or
   from the working directory; "" and "." stay, ".." goes to the parent (the root is its own
   parent), any other component descends.  A directory is identified by the list of names leading
   to it from the root.  "Beneath base" = base's location is a prefix of the path's location. *)
From MJ Require Import Common.Base.

Definition path := list Z.
Definition name := list Z.

(* components between '/' (accumulator [cur] holds the current component reversed) *)
Fixpoint components (p : path) (cur : name) : list name :=
  match p with
  | [] => [rev cur]
  | c :: r => if c =? 47 then rev cur :: components r [] else components r (c :: cur)
  end.

Definition is_dot (n : name) : bool := match n with [46] => true | _ => false end.
Definition is_dotdot (n : name) : bool := match n with [46; 46] => true | _ => false end.

Definition walk1 (loc : list name) (n : name) : list name :=
  match n with
  | [] => loc
  | _ => if is_dot n then loc else if is_dotdot n then removelast loc else loc ++ [n]
  end.

Definition walk (loc : list name) (comps : list name) : list name := fold_left walk1 comps loc.

Definition resolve (cwd : list name) (p : path) : list name :=
  walk (match p with 47 :: _ => [] | _ => cwd end) (components p []).

Fixpoint is_prefix (a b : list name) : bool :=
  match a, b with
  | [], _ => true
  | x :: a', y :: b' => (if list_eq_dec Z.eq_dec x y then true else false) && is_prefix a' b'
  | _ :: _, [] => false
  end.

Definition beneath (cwd : list name) (base p : path) : bool := is_prefix (resolve cwd base) (resolve cwd p).

(* a name that can only descend *)
Definition plain (n : name) : Prop :=
  n <> [] /\ (forall r, n <> 46 :: r) /\ ~ In 47 n /\ ~ In 92 n.
