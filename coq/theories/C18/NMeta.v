(* C18: compiler/meta.rs in nested mode (`undeclared_variables(true)`, track_nested): the report is a
   set of dotted names.  Differences to the flat mode (Lang/Meta.v), mirrored one by one:
   - a variable that is not assigned is reported as the one-segment name and is NOT marked assigned
     (assign_nested instead of assign);
   - an attribute chain x.a.b that ends in a variable which is not assigned is reported as one
     dotted name, and nothing below it is visited; if the variable is assigned, or the chain ends in
     something else, the base expression is visited as usual.
   Everything else (scopes, visit order of every construct) is the flat walk. *)
From MJ Require Import Common.Base Lang.Syntax Lang.Meta.

Definition path := (name * list name)%type.      (* x.a.b = (x, [a; b]) *)

Fixpoint list_eqb (a b : list name) : bool :=
  match a, b with
  | [], [] => true
  | x :: a, y :: b => (x =? y) && list_eqb a b
  | _, _ => false
  end.
Definition path_eqb (p q : path) : bool := (fst p =? fst q) && list_eqb (snd p) (snd q).

Record nstate := mkN { n_paths : list path; n_assigned : list (list name) }.

Definition n_is_assigned (x : name) (t : nstate) : bool := existsb (mem x) (n_assigned t).
Definition n_assign (x : name) (t : nstate) : nstate :=
  match n_assigned t with
  | sc :: r => mkN (n_paths t) ((x :: sc) :: r)
  | [] => mkN (n_paths t) [[x]]
  end.
Definition n_push (t : nstate) : nstate := mkN (n_paths t) ([] :: n_assigned t).
Definition n_pop (t : nstate) : nstate := mkN (n_paths t) (tl (n_assigned t)).
Definition n_report (p : path) (t : nstate) : nstate :=
  if existsb (path_eqb p) (n_paths t) then t else mkN (p :: n_paths t) (n_assigned t).
Definition n_lookup (x : name) (t : nstate) : nstate :=
  if n_is_assigned x t then t else n_report (x, []) t.

(* the attribute chain an expression is, if it is one *)
Fixpoint attr_chain (e : expr) : option path :=
  match e with
  | EVar x => Some (x, [])
  | EAttr a n => match attr_chain a with Some (x, l) => Some (x, l ++ [n]) | None => None end
  | _ => None
  end.

Fixpoint nvisit (e : expr) (t : nstate) {struct e} : nstate :=
  match e with
  | EConst _ => t
  | EVar x => n_lookup x t
  | EList items => (fix go l t := match l with [] => t | x :: r => go r (nvisit x t) end) items t
  | EMap pairs => (fix go (l : list (expr * expr)) t := match l with [] => t | (k, v) :: r => go r (nvisit v (nvisit k t)) end) pairs t
  | ENeg a | ENot a => nvisit a t
  | EBin _ a b | EAnd a b | EOr a b => nvisit b (nvisit a t)
  | ECmp a rest => (fix go (l : list (cmpop * expr)) t := match l with [] => t | (_, x) :: r => go r (nvisit x t) end) rest (nvisit a t)
  | EIf c a f => let t := nvisit a (nvisit c t) in match f with Some f => nvisit f t | None => t end
  | EItem a i => nvisit i (nvisit a t)
  | EAttr a n =>
      match attr_chain a with
      | Some (x, l) => if n_is_assigned x t then nvisit a t else n_report (x, l ++ [n]) t
      | None => nvisit a t
      end
  | EFilter _ a args | ETest _ a args _ =>
      (fix go l t := match l with [] => t | x :: r => go r (nvisit x t) end) args (nvisit a t)
  | ECall f args kwargs =>
      let t := (fix go l t := match l with [] => t | x :: r => go r (nvisit x t) end) args (n_lookup f t) in
      (fix go (l : list (name * expr)) t := match l with [] => t | (_, x) :: r => go r (nvisit x t) end) kwargs t
  end.

Definition n_assign_target (tg : target) (t : nstate) : nstate :=
  match tg with TVar x => n_assign x t | TPair x y => n_assign y (n_assign x t) end.

Definition nvisit_params (params : list name) (defaults : list (name * expr)) (t : nstate) : nstate :=
  fold_left (fun t p => n_assign p (match default_of p defaults with Some d => nvisit d t | None => t end))
            (rev params) t.

Fixpoint nwalk (s : stmt) (t : nstate) {struct s} : nstate :=
  let walk_list := fix go (l : list stmt) (t : nstate) : nstate := match l with [] => t | x :: r => go r (nwalk x t) end in
  let visit_macro (declare_caller : bool) (params : list name) (defaults : list (name * expr)) (body : list stmt) (t : nstate) :=
      let t := if declare_caller then n_assign N_caller t else t in
      walk_list body (nvisit_params params defaults t) in
  match s with
  | SRaw _ | SBreak | SContinue => t
  | SEmit e => nvisit e t
  | SIf arms els =>
      (fix go (l : list (expr * list stmt)) (t : nstate) : nstate :=
         match l with
         | [] => match els with Some b => walk_list b t | None => t end
         | (c, b) :: r =>
             let t := nvisit c t in
             let t := n_pop (walk_list b (n_push t)) in
             match r, els with
             | [], None => n_pop (n_push t)
             | _, _ => n_pop (go r (n_push t))
             end
         end) arms t
  | SFor tg iter flt body els _ =>
      let t := nvisit iter t in
      let t := n_assign_target tg (n_push t) in
      let t := match flt with Some f => nvisit f t | None => t end in
      let t := n_assign N_loop t in
      let t := n_pop (walk_list body t) in
      n_pop (match els with Some b => walk_list b (n_push t) | None => n_push t end)
  | SSet tg e => n_assign_target tg (nvisit e t)
  | SSetBlock x body _ => n_assign x (n_pop (walk_list body (n_push t)))
  | SWith binds body =>
      let t := fold_left (fun t b => n_assign_target (fst b) (nvisit (snd b) t)) binds (n_push t) in
      n_pop (walk_list body t)
  | SMacro nm params defaults body => n_assign nm (n_pop (visit_macro true params defaults body (n_push t)))
  | SCallBlock mn args body =>
      let t := fold_left (fun t a => nvisit a t) args (n_lookup mn t) in
      n_pop (visit_macro true [] [] body (n_push t))
  | SFilterBlock _ body => n_pop (walk_list body (n_push t))
  | SAutoEscape v body => n_pop (walk_list body (n_push (nvisit v t)))
  end.

Definition nwalk_list (l : list stmt) (t : nstate) : nstate := fold_left (fun t s => nwalk s t) l t.

(* find_undeclared(.., track_nested = true) *)
Definition find_undeclared_nested (body : list stmt) : list path := n_paths (nwalk_list body (mkN [] [[]])).

Definition heads_mem (x : name) (ps : list path) : bool := existsb (fun p => fst p =? x) ps.
