(* C18: every name the flat report contains is the first segment of a name of the nested report
   (simulation between the two walks of the same program).  With undeclared_sound this gives the
   soundness of `undeclared_variables(true)`: every key a render asks the context for is the first
   segment of a reported dotted name. *)
From MJ Require Import Common.Base Lang.Syntax Lang.Meta C18.Tracker C18.NMeta.

(* ---- the nested walk with its nested fixes replaced by folds ---- *)
Definition nvisit_list (l : list expr) (t : nstate) : nstate := fold_left (fun t e => nvisit e t) l t.
Definition nvisit_kw {K} (l : list (K * expr)) (t : nstate) : nstate := fold_left (fun t p => nvisit (snd p) t) l t.

Definition nvisit_pairs (l : list (expr * expr)) (t : nstate) : nstate :=
  fold_left (fun t p => nvisit (snd p) (nvisit (fst p) t)) l t.
Lemma nvisit_pairs_fix (l : list (expr * expr)) : forall t,
  (fix go (l : list (expr * expr)) (t : nstate) := match l with [] => t | (k, v) :: r => go r (nvisit v (nvisit k t)) end) l t = nvisit_pairs l t.
Proof. induction l as [|[k v] l IH]; intros t; [reflexivity|]. unfold nvisit_pairs. cbn [fold_left fst snd]. apply IH. Qed.

Lemma nvisit_list_fix l : forall t,
  (fix go (l : list expr) (t : nstate) := match l with [] => t | x :: r => go r (nvisit x t) end) l t = nvisit_list l t.
Proof. induction l; intros t; cbn; auto. Qed.
Lemma nvisit_cmp_fix (l : list (cmpop * expr)) : forall t,
  (fix go (l : list (cmpop * expr)) (t : nstate) := match l with [] => t | (_, x) :: r => go r (nvisit x t) end) l t = nvisit_kw l t.
Proof. induction l as [|[o e] l IH]; intros t; [reflexivity|]. unfold nvisit_kw. cbn [fold_left snd]. apply IH. Qed.
Lemma nvisit_kw_fix (l : list (name * expr)) : forall t,
  (fix go (l : list (name * expr)) (t : nstate) := match l with [] => t | (_, x) :: r => go r (nvisit x t) end) l t = nvisit_kw l t.
Proof. induction l as [|[o e] l IH]; intros t; [reflexivity|]. unfold nvisit_kw. cbn [fold_left snd]. apply IH. Qed.

Lemma nvisit_eq e t : nvisit e t =
  match e with
  | EConst _ => t
  | EVar x => n_lookup x t
  | EList items => nvisit_list items t
  | EMap pairs => nvisit_pairs pairs t
  | ENeg a | ENot a => nvisit a t
  | EBin _ a b | EAnd a b | EOr a b => nvisit b (nvisit a t)
  | ECmp a rest => nvisit_kw rest (nvisit a t)
  | EIf c a f => let t := nvisit a (nvisit c t) in match f with Some f => nvisit f t | None => t end
  | EItem a i => nvisit i (nvisit a t)
  | EAttr a n =>
      match attr_chain a with
      | Some (x, l) => if n_is_assigned x t then nvisit a t else n_report (x, l ++ [n]) t
      | None => nvisit a t
      end
  | EFilter _ a args | ETest _ a args _ => nvisit_list args (nvisit a t)
  | ECall f args kwargs => nvisit_kw kwargs (nvisit_list args (n_lookup f t))
  end.
Proof.
  destruct e; cbn [nvisit]; auto; try apply nvisit_list_fix; try apply nvisit_cmp_fix; try apply nvisit_pairs_fix.
  rewrite nvisit_list_fix. apply nvisit_kw_fix.
Qed.

Lemma nwalk_list_fix l : forall t,
  (fix go (l : list stmt) (t : nstate) : nstate := match l with [] => t | x :: r => go r (nwalk x t) end) l t = nwalk_list l t.
Proof. induction l; intros t; cbn; auto. Qed.

Fixpoint nwalk_arms (els : option (list stmt)) (arms : list (expr * list stmt)) (t : nstate) : nstate :=
  match arms with
  | [] => match els with Some b => nwalk_list b t | None => t end
  | (c, b) :: r =>
      let t := nvisit c t in
      let t := n_pop (nwalk_list b (n_push t)) in
      match r, els with
      | [], None => n_pop (n_push t)
      | _, _ => n_pop (nwalk_arms els r (n_push t))
      end
  end.

Definition nvisit_macro (dc : bool) (params : list name) (defaults : list (name * expr)) (body : list stmt) (t : nstate) : nstate :=
  nwalk_list body (nvisit_params params defaults (if dc then n_assign N_caller t else t)).
Definition nvisit_binds (binds : list (target * expr)) (t : nstate) : nstate :=
  fold_left (fun t b => n_assign_target (fst b) (nvisit (snd b) t)) binds t.

Lemma nwalk_eq st t : nwalk st t =
  match st with
  | SRaw _ | SBreak | SContinue => t
  | SEmit e => nvisit e t
  | SIf arms els => nwalk_arms els arms t
  | SFor tg iter flt body els _ =>
      let t := nvisit iter t in
      let t := n_assign_target tg (n_push t) in
      let t := match flt with Some f => nvisit f t | None => t end in
      let t := n_assign N_loop t in
      let t := n_pop (nwalk_list body t) in
      n_pop (match els with Some b => nwalk_list b (n_push t) | None => n_push t end)
  | SSet tg e => n_assign_target tg (nvisit e t)
  | SSetBlock x body _ => n_assign x (n_pop (nwalk_list body (n_push t)))
  | SWith binds body => n_pop (nwalk_list body (nvisit_binds binds (n_push t)))
  | SMacro nm ps ds body => n_assign nm (n_pop (nvisit_macro true ps ds body (n_push t)))
  | SCallBlock mn args body => n_pop (nvisit_macro true [] [] body (n_push (nvisit_list args (n_lookup mn t))))
  | SFilterBlock _ body => n_pop (nwalk_list body (n_push t))
  | SAutoEscape v body => n_pop (nwalk_list body (n_push (nvisit v t)))
  end.
Proof.
  destruct st; cbn [nwalk]; rewrite ?nwalk_list_fix; auto.
  revert t. induction arms as [|[c b] r IH]; intros t; cbn [nwalk_arms].
  + destruct els; auto.
  + rewrite nwalk_list_fix. cbn zeta. destruct r as [|a r'].
    * destruct els as [e|]; reflexivity.
    * f_equal. apply IH.
Qed.

(* ---- the simulation ---- *)
Definition Sub (cs ms : list (list name)) : Prop := forall x, asgl cs x = true -> asgl ms x = true.
Definition Heads (tf : tstate) (tn : nstate) : Prop := forall x, mem x (t_out tf) = true -> heads_mem x (n_paths tn) = true.
Definition GN (ms cs : list (list name)) (tf : tstate) (tn : nstate) : Prop :=
  exists m c, t_assigned tf = m :: ms /\ n_assigned tn = c :: cs /\ Sub (c :: cs) (m :: ms) /\ Heads tf tn.
Definition Rpres (f : tstate -> tstate) (g : nstate -> nstate) : Prop :=
  forall ms cs tf tn, GN ms cs tf tn -> GN ms cs (f tf) (g tn).

Lemma Rpres_id : Rpres (fun t => t) (fun t => t).
Proof. intros ms cs tf tn H. exact H. Qed.
Lemma Rpres_comp f g f' g' : Rpres f g -> Rpres f' g' -> Rpres (fun t => f' (f t)) (fun t => g' (g t)).
Proof. intros H1 H2 ms cs tf tn H. apply H2, H1, H. Qed.
Lemma Rpres_ext f g f' g' : (forall t, f t = f' t) -> (forall t, g t = g' t) -> Rpres f' g' -> Rpres f g.
Proof. intros E1 E2 H ms cs tf tn G. rewrite E1, E2. apply H, G. Qed.

Lemma heads_mem_cons x p ps : heads_mem x (p :: ps) = (fst p =? x) || heads_mem x ps.
Proof. reflexivity. Qed.

Lemma n_report_heads p t x : heads_mem x (n_paths t) = true -> heads_mem x (n_paths (n_report p t)) = true.
Proof. unfold n_report. destruct (existsb (path_eqb p) (n_paths t)); auto. cbn [n_paths]. rewrite heads_mem_cons. intros ->. apply orb_true_r. Qed.
Lemma list_eqb_refl l : list_eqb l l = true.
Proof. induction l; cbn; auto. rewrite Z.eqb_refl. exact IHl. Qed.
Lemma n_report_head p t : heads_mem (fst p) (n_paths (n_report p t)) = true.
Proof.
  unfold n_report. destruct (existsb (path_eqb p) (n_paths t)) eqn:E.
  - apply existsb_exists in E as (q & Hq & Eq). unfold path_eqb in Eq. apply andb_prop in Eq as [E1 _].
    unfold heads_mem. apply existsb_exists. exists q. split; auto. rewrite Z.eqb_sym. exact E1.
  - cbn [n_paths]. rewrite heads_mem_cons, Z.eqb_refl. reflexivity.
Qed.
Lemma n_report_assigned p t : n_assigned (n_report p t) = n_assigned t.
Proof. unfold n_report. destruct (existsb (path_eqb p) (n_paths t)); reflexivity. Qed.

Lemma Rpres_assign x : Rpres (t_assign x) (n_assign x).
Proof.
  intros ms cs [of af] [pn an] (m & c & E1 & E2 & HS & HH). cbn [t_assigned n_assigned] in E1, E2. subst af an.
  exists (x :: m), (x :: c). unfold t_assign, n_assign. cbn [t_assigned t_out n_assigned n_paths]. repeat split; auto.
  intros y. rewrite !asgl_cons, !mem_cons. specialize (HS y). rewrite !asgl_cons in HS.
  destruct (y =? x); cbn [orb]; auto.
Qed.

(* a flat lookup against anything on the nested side that reports the head when the name is not
   assigned there *)
Lemma Rpres_lookup_gen x (g : nstate -> nstate) :
  (forall tn, n_assigned (g tn) = n_assigned tn) ->
  (forall tn y, heads_mem y (n_paths tn) = true -> heads_mem y (n_paths (g tn)) = true) ->
  (forall tn, n_is_assigned x tn = false -> heads_mem x (n_paths (g tn)) = true) ->
  Rpres (t_lookup x) g.
Proof.
  intros Ga Gm Gh ms cs [of af] tn (m & c & E1 & E2 & HS & HH). cbn [t_assigned] in E1. subst af.
  rewrite lookup_cons. destruct (asgl (m :: ms) x) eqn:Am.
  - exists m, c. rewrite Ga. repeat split; auto. intros y Hy. apply Gm, HH, Hy.
  - exists (x :: m), c. rewrite Ga. cbn [t_assigned t_out]. split; [reflexivity|]. split; [exact E2|]. split.
    + intros y Hy. apply asgl_add. right. apply HS, Hy.
    + intros y Hy. cbn [t_out] in Hy. apply mem_add in Hy as [->|Hy]; [|apply Gm, HH, Hy].
      apply Gh. unfold n_is_assigned. rewrite E2. destruct (asgl (c :: cs) x) eqn:Ac; auto. apply HS in Ac. congruence.
Qed.

Lemma Rpres_lookup x : Rpres (t_lookup x) (n_lookup x).
Proof.
  apply Rpres_lookup_gen.
  - intros tn. unfold n_lookup. destruct (n_is_assigned x tn); auto. apply n_report_assigned.
  - intros tn y Hy. unfold n_lookup. destruct (n_is_assigned x tn); auto. apply n_report_heads, Hy.
  - intros tn Hn. unfold n_lookup. rewrite Hn. apply (n_report_head (x, []) tn).
Qed.

Lemma Rpres_scoped f g : Rpres f g -> Rpres (fun t => t_pop (f (t_push t))) (fun t => n_pop (g (n_push t))).
Proof.
  intros Hf ms cs tf tn (m & c & E1 & E2 & HS & HH).
  assert (G0 : GN (m :: ms) (c :: cs) (t_push tf) (n_push tn)).
  { exists [], []. unfold t_push, n_push. cbn [t_assigned t_out n_assigned n_paths]. rewrite E1, E2.
    split; [reflexivity|]. split; [reflexivity|]. split; [|exact HH].
    intros x. change (asgl ([] :: c :: cs) x) with (asgl (c :: cs) x). change (asgl ([] :: m :: ms) x) with (asgl (m :: ms) x). apply HS. }
  destruct (Hf _ _ _ _ G0) as (m1 & c1 & F1 & F2 & FS & FH).
  exists m, c. unfold t_pop, n_pop. cbn [t_assigned t_out n_assigned n_paths]. rewrite F1, F2. cbn [tl].
  split; [reflexivity|]. split; [reflexivity|]. split; [exact HS|exact FH].
Qed.

Lemma Rpres_fold {X} (f : X -> tstate -> tstate) (g : X -> nstate -> nstate) (l : list X) :
  Forall (fun x => Rpres (f x) (g x)) l ->
  Rpres (fun t => fold_left (fun t x => f x t) l t) (fun t => fold_left (fun t x => g x t) l t).
Proof.
  induction 1 as [|x l Hx Hl IH]; cbn [fold_left]; [apply Rpres_id|].
  apply (Rpres_comp (f x) (g x) _ _ Hx IH).
Qed.

(* the flat visit of an attribute chain is the lookup of its variable *)
Lemma chain_flat e x l : attr_chain e = Some (x, l) -> forall t, visit_expr e t = t_lookup x t.
Proof.
  revert x l. induction e; intros x0 l0 H tr; cbn [attr_chain] in H; try discriminate.
  - inversion H; subst. reflexivity.
  - destruct (attr_chain e) as [[y ly]|] eqn:E; [|discriminate]. inversion H; subst.
    rewrite visit_expr_eq. eapply IHe; eauto.
Qed.

Lemma Rpres_visit e : Rpres (visit_expr e) (nvisit e).
Proof.
  induction e using expr_ind'; (eapply Rpres_ext; [intros t; apply visit_expr_eq|intros t; apply nvisit_eq|]); cbn beta iota.
  - apply Rpres_id.
  - apply Rpres_lookup.
  - apply (Rpres_fold (fun e t => visit_expr e t) (fun e t => nvisit e t) items H).
  - apply (Rpres_fold (fun p t => visit_expr (snd p) (visit_expr (fst p) t)) (fun p t => nvisit (snd p) (nvisit (fst p) t)) pairs).
    eapply Forall_impl; [|exact H]. intros p [Hk Hv]. apply (Rpres_comp _ _ _ _ Hk Hv).
  - auto.
  - auto.
  - apply (Rpres_comp _ _ _ _ IHe1 IHe2).
  - apply (Rpres_comp _ _ _ _ IHe). apply (Rpres_fold (fun p t => visit_expr (snd p) t) (fun p t => nvisit (snd p) t) rest H).
  - apply (Rpres_comp _ _ _ _ IHe1 IHe2).
  - apply (Rpres_comp _ _ _ _ IHe1 IHe2).
  - cbn zeta. destruct f as [f'|].
    + apply (Rpres_comp (fun t => visit_expr e2 (visit_expr e1 t)) (fun t => nvisit e2 (nvisit e1 t)) _ _ (Rpres_comp _ _ _ _ IHe1 IHe2) (H f' eq_refl)).
    + apply (Rpres_comp _ _ _ _ IHe1 IHe2).
  - apply (Rpres_comp _ _ _ _ IHe1 IHe2).
  - (* attribute: the nested side may report the whole chain instead of descending *)
    destruct (attr_chain e) as [[x l]|] eqn:Ec; [|exact IHe].
    intros ms cs tf tn G. destruct (n_is_assigned x tn) eqn:Ea; [apply IHe, G|].
    rewrite (chain_flat e x l Ec).
    assert (R : Rpres (t_lookup x) (fun tn0 => if n_is_assigned x tn0 then tn0 else n_report (x, l ++ [n]) tn0)).
    { apply Rpres_lookup_gen.
      - intros tn0. destruct (n_is_assigned x tn0); auto. apply n_report_assigned.
      - intros tn0 y Hy. destruct (n_is_assigned x tn0); auto. apply n_report_heads, Hy.
      - intros tn0 Hn. rewrite Hn. apply (n_report_head (x, l ++ [n]) tn0). }
    specialize (R ms cs tf tn G). cbn beta in R. rewrite Ea in R. exact R.
  - apply (Rpres_comp _ _ _ _ IHe). apply (Rpres_fold (fun e t => visit_expr e t) (fun e t => nvisit e t) args H).
  - apply (Rpres_comp _ _ _ _ IHe). apply (Rpres_fold (fun e t => visit_expr e t) (fun e t => nvisit e t) args H).
  - apply (Rpres_comp (fun t => visit_list args (t_lookup f t)) (fun t => nvisit_list args (n_lookup f t)) (visit_kw kw) (nvisit_kw kw)).
    + apply (Rpres_comp _ _ _ _ (Rpres_lookup f)). apply (Rpres_fold (fun e t => visit_expr e t) (fun e t => nvisit e t) args H).
    + apply (Rpres_fold (fun p t => visit_expr (snd p) t) (fun p t => nvisit (snd p) t) kw H0).
Qed.

Definition RW (s : stmt) : Prop := Rpres (walk s) (nwalk s).

Lemma Rpres_walk_list l : Forall RW l -> Rpres (walk_list l) (nwalk_list l).
Proof. intros H. apply (Rpres_fold (fun s t => walk s t) (fun s t => nwalk s t) l H). Qed.

Lemma Rpres_scoped_body body : Forall RW body ->
  Rpres (fun t => t_pop (walk_list body (t_push t))) (fun t => n_pop (nwalk_list body (n_push t))).
Proof. intros H. apply Rpres_scoped, Rpres_walk_list, H. Qed.

Lemma Rpres_walk_arms els arms :
  Forall (fun a => Forall RW (snd a)) arms -> (forall b, els = Some b -> Forall RW b) ->
  Rpres (walk_arms els arms) (nwalk_arms els arms).
Proof.
  intros Ha He. induction Ha as [|[c b] r Hb Hr IH].
  - cbn [walk_arms nwalk_arms]. destruct els as [b|]; [apply Rpres_walk_list; auto|apply Rpres_id].
  - cbn [snd] in Hb.
    assert (P1 : Rpres (fun t => t_pop (walk_list b (t_push (visit_expr c t)))) (fun t => n_pop (nwalk_list b (n_push (nvisit c t))))).
    { apply (Rpres_comp _ _ _ _ (Rpres_visit c) (Rpres_scoped_body b Hb)). }
    assert (P2 : Rpres (fun t => t_pop (walk_arms els r (t_push t))) (fun t => n_pop (nwalk_arms els r (n_push t)))) by (apply Rpres_scoped, IH).
    eapply Rpres_ext; [| |apply (Rpres_comp _ _ _ _ P1 P2)].
    + intros t. cbn [walk_arms]. cbn zeta. destruct r; [destruct els|]; reflexivity.
    + intros t. cbn [nwalk_arms]. cbn zeta. destruct r; [destruct els|]; reflexivity.
Qed.

Lemma Rpres_assign_target tg : Rpres (assign_target tg) (n_assign_target tg).
Proof. destruct tg; cbn [assign_target n_assign_target]; [apply Rpres_assign|]. apply (Rpres_comp _ _ _ _ (Rpres_assign x) (Rpres_assign y)). Qed.

Lemma Rpres_visit_params ps ds : Rpres (visit_params ps ds) (nvisit_params ps ds).
Proof.
  unfold visit_params, nvisit_params.
  apply (Rpres_fold (fun p t => t_assign p (match default_of p ds with Some d => visit_expr d t | None => t end))
                    (fun p t => n_assign p (match default_of p ds with Some d => nvisit d t | None => t end)) (rev ps)).
  apply Forall_forall. intros p _. destruct (default_of p ds).
  - apply (Rpres_comp _ _ _ _ (Rpres_visit e) (Rpres_assign p)).
  - apply Rpres_assign.
Qed.

Lemma Rpres_visit_macro dc ps ds body : Forall RW body -> Rpres (visit_macro dc ps ds body) (nvisit_macro dc ps ds body).
Proof.
  intros Hb. unfold visit_macro, nvisit_macro.
  apply (Rpres_comp (fun t => visit_params ps ds (if dc then t_assign N_caller t else t)) (fun t => nvisit_params ps ds (if dc then n_assign N_caller t else t))
                    (walk_list body) (nwalk_list body)); [|apply Rpres_walk_list, Hb].
  apply (Rpres_comp (fun t => if dc then t_assign N_caller t else t) (fun t => if dc then n_assign N_caller t else t)); [|apply Rpres_visit_params].
  destruct dc; [apply Rpres_assign|apply Rpres_id].
Qed.

Lemma Rpres_visit_binds binds : Rpres (visit_binds binds) (nvisit_binds binds).
Proof.
  unfold visit_binds, nvisit_binds.
  apply (Rpres_fold (fun b t => assign_target (fst b) (visit_expr (snd b) t)) (fun b t => n_assign_target (fst b) (nvisit (snd b) t)) binds).
  apply Forall_forall. intros b _. apply (Rpres_comp _ _ _ _ (Rpres_visit (snd b)) (Rpres_assign_target (fst b))).
Qed.

Lemma Rpres_visit_list l : Rpres (visit_list l) (nvisit_list l).
Proof. apply (Rpres_fold (fun e t => visit_expr e t) (fun e t => nvisit e t) l). apply Forall_forall. intros e _. apply Rpres_visit. Qed.

Lemma Rpres_walk st : RW st.
Proof.
  unfold RW. induction st using stmt_ind'; (eapply Rpres_ext; [intros tr; apply walk_eq|intros tr; apply nwalk_eq|]); cbn beta iota; try apply Rpres_id.
  - apply Rpres_visit.
  - apply Rpres_walk_arms; auto.
  - cbn zeta.
    set (inner := fun t1 => walk_list body (t_assign N_loop (match flt with Some f => visit_expr f (assign_target tg t1) | None => assign_target tg t1 end))).
    set (ninner := fun t1 => nwalk_list body (n_assign N_loop (match flt with Some f => nvisit f (n_assign_target tg t1) | None => n_assign_target tg t1 end))).
    assert (P1 : Rpres inner ninner).
    { unfold inner, ninner.
      apply (Rpres_comp (fun t1 => t_assign N_loop (match flt with Some f => visit_expr f (assign_target tg t1) | None => assign_target tg t1 end))
                        (fun t1 => n_assign N_loop (match flt with Some f => nvisit f (n_assign_target tg t1) | None => n_assign_target tg t1 end))
                        (walk_list body) (nwalk_list body)); [|apply Rpres_walk_list; auto].
      apply (Rpres_comp (fun t1 => match flt with Some f => visit_expr f (assign_target tg t1) | None => assign_target tg t1 end)
                        (fun t1 => match flt with Some f => nvisit f (n_assign_target tg t1) | None => n_assign_target tg t1 end)); [|apply Rpres_assign].
      destruct flt; [apply (Rpres_comp _ _ _ _ (Rpres_assign_target tg) (Rpres_visit e))|apply Rpres_assign_target]. }
    assert (P2 : Rpres (fun t => t_pop (match els with Some b => walk_list b (t_push t) | None => t_push t end))
                       (fun t => n_pop (match els with Some b => nwalk_list b (n_push t) | None => n_push t end))).
    { destruct els as [b|]; [apply Rpres_scoped_body; auto|apply (Rpres_scoped _ _ Rpres_id)]. }
    apply (Rpres_ext _ _ (fun t => (fun t6 => t_pop (match els with Some b => walk_list b (t_push t6) | None => t_push t6 end)) (t_pop (inner (t_push (visit_expr it t)))))
                         (fun t => (fun t6 => n_pop (match els with Some b => nwalk_list b (n_push t6) | None => n_push t6 end)) (n_pop (ninner (n_push (nvisit it t)))))).
    { intros tr. reflexivity. } { intros tr. reflexivity. }
    apply (Rpres_comp (fun t => t_pop (inner (t_push (visit_expr it t)))) (fun t => n_pop (ninner (n_push (nvisit it t))))
                      (fun t6 => t_pop (match els with Some b => walk_list b (t_push t6) | None => t_push t6 end))
                      (fun t6 => n_pop (match els with Some b => nwalk_list b (n_push t6) | None => n_push t6 end))); [|exact P2].
    apply (Rpres_comp (visit_expr it) (nvisit it) (fun t => t_pop (inner (t_push t))) (fun t => n_pop (ninner (n_push t))) (Rpres_visit it) (Rpres_scoped _ _ P1)).
  - apply (Rpres_comp _ _ _ _ (Rpres_visit e) (Rpres_assign_target x)).
  - apply (Rpres_comp _ _ _ _ (Rpres_scoped_body body H) (Rpres_assign x)).
  - apply (Rpres_scoped (fun t => walk_list body (visit_binds binds t)) (fun t => nwalk_list body (nvisit_binds binds t))).
    apply (Rpres_comp _ _ _ _ (Rpres_visit_binds binds)). apply Rpres_walk_list; auto.
  - apply (Rpres_comp (fun t => t_pop (visit_macro true ps ds body (t_push t))) (fun t => n_pop (nvisit_macro true ps ds body (n_push t))) _ _); [|apply Rpres_assign].
    apply Rpres_scoped, Rpres_visit_macro; auto.
  - apply (Rpres_comp (fun t => visit_list args (t_lookup nm t)) (fun t => nvisit_list args (n_lookup nm t))
                      (fun t => t_pop (visit_macro true [] [] body (t_push t))) (fun t => n_pop (nvisit_macro true [] [] body (n_push t)))).
    + apply (Rpres_comp _ _ _ _ (Rpres_lookup nm) (Rpres_visit_list args)).
    + apply Rpres_scoped, Rpres_visit_macro; auto.
  - apply Rpres_scoped_body; auto.
  - apply (Rpres_comp _ _ _ _ (Rpres_visit v) (Rpres_scoped_body body H)).
Qed.

(* every name of the flat report is the first segment of a name of the nested report *)
Lemma flat_in_nested body x : mem x (find_undeclared body) = true -> heads_mem x (find_undeclared_nested body) = true.
Proof.
  assert (G0 : GN [] [] (mkT [] [[]]) (mkN [] [[]])).
  { exists [], []. split; [reflexivity|]. split; [reflexivity|]. split; [intros y H; exact H|intros y H; discriminate]. }
  assert (P : Rpres (walk_list body) (nwalk_list body)) by (apply Rpres_walk_list, Forall_forall; intros s _; apply Rpres_walk).
  destruct (P _ _ _ _ G0) as (m & c & _ & _ & _ & HH). apply HH.
Qed.
