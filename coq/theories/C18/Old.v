(* The assignment tracker of compiler/meta.rs as it was BEFORE the C18 fixes (kept for the
   refutation examples and for measuring, in the check, how many generated programs tell the two
   apart): a target was marked assigned before its right-hand side / body was visited, macro
   parameters before their defaults, the macro name before the macro, `loop` before the iterable
   and the filter of a for loop, and the value of autoescape, the sliced value of a slice and the
   namespace of an attribute assignment (written ESlice / SSetAttr, see C18/XInterp.v) were not
   visited. *)
From MJ Require Import Common.Base Lang.Syntax Lang.Meta Lang.Interp C18.XInterp.

(* tracker_visit_expr before the fix: Slice.expr was not visited, and track_assign ignored
   attribute targets *)
Fixpoint visit_expr_old (e : expr) (t : tstate) {struct e} : tstate :=
  match e with
  | EConst _ => t
  | EVar x => t_lookup x t
  | EList items => (fix go l t := match l with [] => t | x :: r => go r (visit_expr_old x t) end) items t
  | EMap pairs => (fix go (l : list (expr * expr)) t := match l with [] => t | (k, v) :: r => go r (visit_expr_old v (visit_expr_old k t)) end) pairs t
  | ENeg a | ENot a => visit_expr_old a t
  | EBin _ a b | EAnd a b | EOr a b => visit_expr_old b (visit_expr_old a t)
  | ECmp a rest => (fix go (l : list (cmpop * expr)) t := match l with [] => t | (_, x) :: r => go r (visit_expr_old x t) end) rest (visit_expr_old a t)
  | EIf c a f => let t := visit_expr_old a (visit_expr_old c t) in match f with Some f => visit_expr_old f t | None => t end
  | EItem a i => visit_expr_old i (visit_expr_old a t)
  | EAttr a _ => visit_expr_old a t
  | EFilter f a args =>
      let t := if f =? F_slice then t else visit_expr_old a t in
      if f =? F_setattr then t else
      (fix go l t := match l with [] => t | x :: r => go r (visit_expr_old x t) end) args t
  | ETest _ a args _ =>
      (fix go l t := match l with [] => t | x :: r => go r (visit_expr_old x t) end) args (visit_expr_old a t)
  | ECall f args kwargs =>
      let t := (fix go l t := match l with [] => t | x :: r => go r (visit_expr_old x t) end) args (t_lookup f t) in
      (fix go (l : list (name * expr)) t := match l with [] => t | (_, x) :: r => go r (visit_expr_old x t) end) kwargs t
  end.

Fixpoint walk_old (s : stmt) (t : tstate) {struct s} : tstate :=
  let walk_list := fix go (l : list stmt) (t : tstate) : tstate := match l with [] => t | x :: r => go r (walk_old x t) end in
  let visit_macro (declare_caller : bool) (params : list name) (defaults : list (name * expr)) (body : list stmt) (t : tstate) :=
      let t := if declare_caller then t_assign N_caller t else t in
      let t := fold_left (fun t p => t_assign p t) params t in
      let t := fold_left (fun t d => visit_expr_old (snd d) t) defaults t in
      walk_list body t in
  match s with
  | SRaw _ | SBreak | SContinue => t
  | SEmit e => visit_expr_old e t
  | SIf arms els =>
      (* `elif` is a nested if in the else branch: cond, push, body, pop, push, <rest>, pop *)
      (fix go (l : list (expr * list stmt)) (t : tstate) : tstate :=
         match l with
         | [] => match els with Some b => walk_list b t | None => t end
         | (c, b) :: r =>
             let t := visit_expr_old c t in
             let t := t_pop (walk_list b (t_push t)) in
             match r, els with
             | [], None => t_pop (t_push t)
             | _, _ => t_pop (go r (t_push t))
             end
         end) arms t
  | SFor tg iter flt body els _ =>
      let t := t_assign N_loop (t_push t) in
      let t := visit_expr_old iter t in
      let t := assign_target tg t in
      let t := match flt with Some f => visit_expr_old f t | None => t end in
      let t := t_pop (walk_list body t) in
      t_pop (match els with Some b => walk_list b (t_push t) | None => t_push t end)
  | SSet tg e => visit_expr_old e (assign_target tg t)
  | SSetBlock x body _ => t_pop (walk_list body (t_push (t_assign x t)))
  | SWith binds body =>
      let t := fold_left (fun t b => visit_expr_old (snd b) (assign_target (fst b) t)) binds (t_push t) in
      t_pop (walk_list body t)
  | SMacro nm params defaults body => t_pop (visit_macro true params defaults body (t_push (t_assign nm t)))
  | SCallBlock mn args body =>
      let t := fold_left (fun t a => visit_expr_old a t) args (t_lookup mn t) in
      t_pop (visit_macro true [] [] body (t_push t))
  | SFilterBlock _ body | SAutoEscape _ body => t_pop (walk_list body (t_push t))
  end.

Definition walk_list_old (l : list stmt) (t : tstate) : tstate := fold_left (fun t s => walk_old s t) l t.

(* find_macro_closure: tracker_visit_macro(m, fresh, declare_caller = false) *)
Definition closure_raw_old (params : list name) (defaults : list (name * expr)) (body : list stmt) : list name :=
  let t := mkT [] [[]] in
  let t := fold_left (fun t p => t_assign p t) params t in
  let t := fold_left (fun t d => visit_expr_old (snd d) t) defaults t in
  t_out (walk_list_old body t).

Definition find_undeclared_old (body : list stmt) : list name := t_out (walk_list_old body (mkT [] [[]])).
