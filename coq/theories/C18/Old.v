(* The assignment tracker of compiler/meta.rs as it was BEFORE the C18 fixes (kept for the
   refutation examples and for measuring, in the check, how many generated programs tell the two
   apart): a target was marked assigned before its right-hand side / body was visited, macro
   parameters before their defaults, the macro name before the macro, `loop` before the iterable
   and the filter of a for loop, and the value of autoescape was not visited. *)
From MJ Require Import Common.Base Lang.Syntax Lang.Meta.

Fixpoint walk_old (s : stmt) (t : tstate) {struct s} : tstate :=
  let walk_list := fix go (l : list stmt) (t : tstate) : tstate := match l with [] => t | x :: r => go r (walk_old x t) end in
  let visit_macro (declare_caller : bool) (params : list name) (defaults : list (name * expr)) (body : list stmt) (t : tstate) :=
      let t := if declare_caller then t_assign N_caller t else t in
      let t := fold_left (fun t p => t_assign p t) params t in
      let t := fold_left (fun t d => visit_expr (snd d) t) defaults t in
      walk_list body t in
  match s with
  | SRaw _ | SBreak | SContinue => t
  | SEmit e => visit_expr e t
  | SIf arms els =>
      (* `elif` is a nested if in the else branch: cond, push, body, pop, push, <rest>, pop *)
      (fix go (l : list (expr * list stmt)) (t : tstate) : tstate :=
         match l with
         | [] => match els with Some b => walk_list b t | None => t end
         | (c, b) :: r =>
             let t := visit_expr c t in
             let t := t_pop (walk_list b (t_push t)) in
             match r, els with
             | [], None => t_pop (t_push t)
             | _, _ => t_pop (go r (t_push t))
             end
         end) arms t
  | SFor tg iter flt body els _ =>
      let t := t_assign N_loop (t_push t) in
      let t := visit_expr iter t in
      let t := assign_target tg t in
      let t := match flt with Some f => visit_expr f t | None => t end in
      let t := t_pop (walk_list body t) in
      t_pop (match els with Some b => walk_list b (t_push t) | None => t_push t end)
  | SSet x e => visit_expr e (t_assign x t)
  | SSetBlock x body _ => t_pop (walk_list body (t_push (t_assign x t)))
  | SWith binds body =>
      let t := fold_left (fun t b => visit_expr (snd b) (t_assign (fst b) t)) binds (t_push t) in
      t_pop (walk_list body t)
  | SMacro nm params defaults body => t_pop (visit_macro true params defaults body (t_push (t_assign nm t)))
  | SCallBlock mn args body =>
      let t := fold_left (fun t a => visit_expr a t) args (t_lookup mn t) in
      t_pop (visit_macro true [] [] body (t_push t))
  | SFilterBlock _ body | SAutoEscape _ body => t_pop (walk_list body (t_push t))
  end.

Definition walk_list_old (l : list stmt) (t : tstate) : tstate := fold_left (fun t s => walk_old s t) l t.

(* find_macro_closure: tracker_visit_macro(m, fresh, declare_caller = false) *)
Definition closure_raw_old (params : list name) (defaults : list (name * expr)) (body : list stmt) : list name :=
  let t := mkT [] [[]] in
  let t := fold_left (fun t p => t_assign p t) params t in
  let t := fold_left (fun t d => visit_expr (snd d) t) defaults t in
  t_out (walk_list_old body t).

Definition find_undeclared_old (body : list stmt) : list name := t_out (walk_list_old body (mkT [] [[]])).
