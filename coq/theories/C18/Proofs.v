From MJ Require Import Common.Base Lang.Syntax Lang.Meta Lang.Interp C18.Old.
