(* C18: the static report of undeclared variables contains every key the interpreter asks the
   render context for, whatever the outcome of the render.  Mutual induction on the fuel of the
   error-carrying interpreter (C18/XInterp.v) over xeval / xcall_macro / xexec / xexec_list; the
   list-walking combinators each get a lemma of their own.  The statement about the shared
   interpreter Lang/Interp.v follows through C18/XAgree.v. *)
From MJ Require Import Common.Base Lang.Syntax Lang.Meta Lang.Interp Lang.Facts C09.Spec C18.Old C18.Tracker C18.Runtime C18.XInterp C18.XAgree C18.NMeta C18.NTracker.

Section Main.
Variable c : cfg.
Hypothesis Hroot : root_good c.
Let m := c_mode c.

(* ---- small accessors ---- *)
Lemma step_ok_sext o s s' : step_ok c o s s' -> sext s s'.
Proof. intros H. apply H. Qed.
Lemma step_ok_sgood o s s' : step_ok c o s s' -> sgood s'.
Proof. intros H. apply H. Qed.
Lemma step_ok_lmono o s s' : step_ok c o s s' -> lmono c s s'.
Proof. intros H. apply sext_lmono, H. Qed.
Lemma sext_clos s s' : sext s s' -> clos_ext (s_clos s) (s_clos s').
Proof. intros (f & e & f' & _ & _ & _ & H). exact H. Qed.
Lemma step_ok_clos o s s' : step_ok c o s s' -> clos_ext (s_clos s) (s_clos s').
Proof. intros H. apply sext_clos, H. Qed.

Lemma asks_in_eq P a a' b b' : s_asks a = s_asks a' -> s_asks b = s_asks b' -> asks_in P a b -> asks_in P a' b'.
Proof. intros E1 E2 (l & E & H). exists l. rewrite <- E1, <- E2. auto. Qed.

(* ---- lookups ---- *)
Lemma lookup_ok o s x v s1 : lookup c s x = (v, s1) -> sgood s -> (localb c s x = false -> mem x o = true) ->
  step_ok c o s s1 /\ (forall w, v = Some w -> vgood (s_clos s1) w) /\ s_env s1 = s_env s /\ s_clos s1 = s_clos s /\ s_out s1 = s_out s.
Proof.
  intros Hl Hg Ho. destruct (lookup_spec c s x) as (v' & E & Hv). rewrite E in Hl. injection Hl as Ev Es. subst s1.
  cbn [s_env s_clos s_out]. split; [|split; [|auto]].
  - split; [|split].
    + apply eext_sext; [apply Hg|]. split; [reflexivity|apply clos_ext_refl].
    + destruct Hg as (H1 & H2 & H3). unfold sgood. cbn [s_env s_clos]. auto.
    + cbn [s_asks]. destruct (localb c s x) eqn:El.
      * apply asks_in_refl. reflexivity.
      * exists [x]. split; [reflexivity|]. intros y [<-|[]]. split; auto.
  - intros w Hw. destruct Hg as (H1 & H2 & H3). eapply load_good; eauto. rewrite <- Hv, Ev. exact Hw.
Qed.

(* ---- values produced by the operators are well formed ---- *)
Lemma do_bin_good C op x y r : do_bin op x y = Ok r -> vgood C r.
Proof.
  unfold do_bin. intros H.
  repeat match type of H with
         | context [match ?a with _ => _ end] => destruct a; try discriminate
         end; inversion H; exact I.
Qed.

Lemma idx_list_good C l z v : Forall (vgood C) l -> idx_list l z = Some v -> vgood C v.
Proof.
  unfold idx_list. intros Hl. destruct ((0 <=? (if z <? 0 then z + lenZ l else z)) && ((if z <? 0 then z + lenZ l else z) <? lenZ l)); [|discriminate].
  intros H. apply nth_error_In in H. rewrite Forall_forall in Hl. auto.
Qed.

Lemma loop_attr_good C i n a v : loop_attr i n a = Some v -> vgood C v.
Proof.
  unfold loop_attr. intros H.
  repeat match type of H with
         | context [if ?a then _ else _] => destruct a
         end; inversion H; exact I.
Qed.

Lemma do_filter_good C md esc f v args r : do_filter md esc f v args = Ok r -> vgood C v -> Forall (vgood C) args -> vgood C r.
Proof.
  (* robust against new filters: every branch returns a scalar, the operand, an argument, an element of
     the operand, or a list of strings *)
  assert (Hlast : forall l, Forall (vgood C) l -> vgood C (match rev l with x :: _ => x | [] => VUndef end)).
  { intros l Hl. destruct (rev l) eqn:Er; [exact I|]. rewrite Forall_forall in Hl. apply Hl, in_rev. rewrite Er. left. reflexivity. }
  assert (Hchars : forall s : list Z, vgood C (VList (map (fun ch => VStr false [ch]) s))).
  { intros s. apply vgood_list, Forall_forall. intros x Hx. apply in_map_iff in Hx as (ch & <- & _). exact I. }
  assert (Hitems : forall kvs, entries_all (vgood C) kvs -> vgood C (VList (map (fun '(k, x) => VList [k; x]) kvs))).
  { intros kvs Hk. apply vgood_list. induction Hk as [|[k x] rest [Hk1 Hk2] Hrest IH]; cbn [map]; constructor; [|exact IH].
    cbn [fst snd] in *. apply vgood_list. constructor; [exact Hk1|]. constructor; [exact Hk2|constructor]. }
  unfold do_filter, bind, u_not_undef. intros H Hv Ha.
  repeat match type of H with
         | context [if (f =? ?k) then _ else _] => destruct (f =? k)
         | context [if (?a || ?b) then _ else _] => destruct (a || b)
         end;
  destruct v; try discriminate;
  repeat match type of H with
         | context [if ?a then _ else _] => destruct a; try discriminate
         | context [match ?a with _ => _ end] =>
             lazymatch a with
             | rev _ => fail
             | _ => destruct a; try discriminate
             end
         end;
  try discriminate;
  inversion H; subst; clear H;
  first [ exact I | exact Hv | (apply Hlast; apply vgood_list; exact Hv) | apply Hchars
        | (apply vgood_list in Hv; inversion Hv; assumption)
        | (apply vgood_map in Hv; inversion Hv as [|? ? [Hk0 Hx0] Hr0]; assumption)
        | (apply vgood_list, (map_keys_all (vgood C)), vgood_map; exact Hv)
        | (apply Hitems, vgood_map; exact Hv)
        | (inversion Ha; assumption) ].
Qed.

Lemma range_list_good C fuel i n : Forall (vgood C) (range_list fuel i n).
Proof. revert i. induction fuel; intros i; cbn; [constructor|]. destruct (i <? n); constructor; auto. exact I. Qed.

(* ---- binding a loop target ---- *)
Lemma bind_target_ok o tg s item s' : bind_target tg s item = Ok s' -> sgood s -> vgood (s_clos s) item ->
  step_ok c o s s' /\ (forall t s0, nonempty t -> Inv c t s0 -> lmono c s0 s -> Inv c (assign_target tg t) s').
Proof.
  intros H Hg Hv. destruct tg as [x|x y]; cbn [assign_target].
  - cbn [bind_target] in H. inversion H; subst. split; [apply store_step_ok; auto|].
    intros t s0 Hn Hi Hl. eapply Inv_assign; eauto.
    + eapply lmono_trans; [apply Hl|]. apply sext_lmono, store_sext, Hg.
    + apply store_local, Hg.
  - (* unpacking: a list into its items, a map into its keys *)
    apply bind_target_pair_inv in H as (a & b & Hu & ->).
    assert (Hab : Forall (vgood (s_clos s)) [a; b]).
    { eapply (unpack_items_all (vgood (s_clos s))); [| |exact Hu].
      - intros l ->. apply vgood_list, Hv.
      - intros kvs ->. apply vgood_map, Hv. }
    inversion Hab as [|? ? Ha Hb']; subst. inversion Hb' as [|? ? Hb _]; subst.
    assert (S1 := store_step_ok c o s x a Hg Ha).
    assert (Hb2 : vgood (s_clos (store s x a)) b) by (eapply vgood_mono; [apply store_clos_ext|exact Hb]).
    assert (S2 := store_step_ok c o (store s x a) y b (step_ok_sgood _ _ _ S1) Hb2).
    split; [eapply step_ok_trans; eauto; apply omono_refl|].
    intros t s0 Hn Hi Hl.
    assert (I1 : Inv c (t_assign x t) (store s x a)).
    { eapply Inv_assign; eauto; [eapply lmono_trans; [apply Hl|apply (step_ok_lmono _ _ _ S1)]|apply store_local, Hg]. }
    eapply Inv_assign; [eapply tstep_nonempty, tstep_assign, Hn|apply I1|apply (step_ok_lmono _ _ _ S2)|apply store_local].
    apply (step_ok_sgood _ _ _ S1).
Qed.

(* ---- leaving a run-time scope ---- *)
Lemma scoped_step o s F sb : sgood s -> f_base F = false -> step_ok c o (push_frame s F) sb -> step_ok c o s (pop_frame sb).
Proof.
  intros Hg Hb (X1 & X2 & X3). destruct (pop_sext s F sb (proj1 Hg) X1) as [Y1 Y2].
  split; [exact Y1|]. split; [eapply pop_sgood; eauto; apply Hg|].
  eapply asks_in_eq; [| |eapply asks_in_weaken; [|apply X3]]; try reflexivity.
  intros x. apply AP_weaken; [apply omono_refl|apply push_lmono, Hb].
Qed.

Lemma loop_local s f e i n : s_env s = f :: e -> f_loop f = Some (i, n, true) -> localb c s N_loop = true.
Proof.
  intros E Hl. unfold localb. rewrite E, load_cons. unfold frame_find. rewrite Hl.
  destruct (assoc N_loop (f_locals f)); [reflexivity|]. rewrite Z.eqb_refl. reflexivity.
Qed.

Lemma loop_exposed_local s f e : s_env s = f :: e -> loop_exposed f = true -> localb c s N_loop = true.
Proof.
  intros E Hl. unfold loop_exposed in Hl. destruct (f_loop f) as [[[i n] [|]]|] eqn:El; try discriminate.
  eapply loop_local; eauto.
Qed.


Lemma select_sub {A} (l : list A) idx x : In x (select l idx) -> In x l.
Proof.
  unfold select. intros H. apply in_flat_map in H as (i & _ & H).
  destruct (nth_error l (Z.to_nat i)) eqn:E; [|destruct H]. destruct H as [<-|[]]. eapply nth_error_In; eauto.
Qed.

Lemma xdo_filter_good C md esc f v args r : xdo_filter md esc f v args = Ok r -> vgood C v -> Forall (vgood C) args -> vgood C r.
Proof.
  unfold xdo_filter. destruct (f =? F_slice).
  - unfold slice_value. intros H Hv _. destruct args as [|a [|b [|d [|? ?]]]]; try discriminate.
    apply bind_ok in H as (start & _ & H). apply bind_ok in H as (stop & _ & H). apply bind_ok in H as (stp & _ & H).
    destruct (_ =? 0); [discriminate|]. destruct v; try discriminate; inversion H; subst; try exact I.
    apply vgood_list. apply vgood_list in Hv. rewrite Forall_forall in *. intros x Hx. apply Hv. eapply select_sub; eauto.
  - destruct (f =? F_setattr); [discriminate|]. apply do_filter_good.
Qed.

(* ---- outcomes that carry their lookups: a small Hoare logic over bindE ---- *)
Definition ast (a : list name) : st := mkSt [] [] [] a.

(* [Q] holds of a result; a failure only asked for names that are in [o] and not local at [s] *)
Definition epost {A} (o : list name) (s : st) (r : outE A) (Q : A -> Prop) : Prop :=
  match r with
  | OkE a => Q a
  | ErrE _ a => asks_in (AP c o s) s (ast a)
  | _ => True
  end.

(* where a sub-computation starts, seen from the start [s] of the enclosing one *)
Definition pre (o : list name) (s s1 : st) : Prop := asks_in (AP c o s) s s1 /\ lmono c s s1.

Lemma pre_refl o s : pre o s s.
Proof. split; [apply asks_in_refl; reflexivity|apply lmono_refl]. Qed.
Lemma pre_of_step o s s1 : step_ok c o s s1 -> pre o s s1.
Proof. intros H. split; [apply H|apply (step_ok_lmono _ _ _ H)]. Qed.
Lemma pre_step o o1 s s1 s2 : pre o s s1 -> step_ok c o1 s1 s2 -> omono o1 o -> pre o s s2.
Proof.
  intros [P1 P2] H Ho. split; [|eapply lmono_trans; [exact P2|apply (step_ok_lmono _ _ _ H)]].
  eapply asks_in_trans; [exact P1|]. eapply asks_in_weaken; [|apply H]. intros x. apply AP_weaken; auto.
Qed.
Lemma pre_eq o s s1 s2 : pre o s s1 -> s_asks s2 = s_asks s1 -> lmono c s1 s2 -> pre o s s2.
Proof.
  intros [P1 P2] E Hl. split; [|eapply lmono_trans; eauto]. eapply asks_in_eq; [reflexivity|symmetry; exact E|exact P1].
Qed.
Lemma pre_weaken o o' s s1 : pre o s s1 -> omono o o' -> pre o' s s1.
Proof. intros [P1 P2] Ho. split; auto. eapply asks_in_weaken; [|exact P1]. intros x. apply AP_weaken; auto. apply lmono_refl. Qed.

Lemma epost_ok {A} o s (a : A) (Q : A -> Prop) : Q a -> epost o s (OkE a) Q.
Proof. intros H. exact H. Qed.

Lemma epost_err {A} o s s1 code (Q : A -> Prop) : pre o s s1 -> epost o s (ErrE code (s_asks s1)) Q.
Proof. intros [P _]. cbn [epost]. eapply asks_in_eq; [reflexivity| |exact P]. reflexivity. Qed.

Lemma epost_rebase {A} o o1 s s1 (r : outE A) (Q : A -> Prop) : pre o s s1 -> omono o1 o -> epost o1 s1 r Q -> epost o s r Q.
Proof.
  intros [P1 P2] Ho H. destruct r; cbn [epost] in *; auto.
  eapply asks_in_trans; [exact P1|]. eapply asks_in_weaken; [|exact H]. intros x. apply AP_weaken; auto.
Qed.

Lemma epost_imp {A} o s (r : outE A) (Q Q' : A -> Prop) : (forall a, Q a -> Q' a) -> epost o s r Q -> epost o s r Q'.
Proof. intros HQ H. destruct r; cbn [epost] in *; auto. Qed.

(* sequencing: the sub-computation [r] ran from [s1] with its own report [o1] *)
Lemma sub_step {A B} o o1 s s1 (r : outE A) (f : A -> outE B) (P : A -> Prop) (Q : B -> Prop) :
  pre o s s1 -> omono o1 o -> epost o1 s1 r P -> (forall a, P a -> epost o s (f a) Q) -> epost o s (bindE r f) Q.
Proof.
  intros Hp Ho Hr Hf. destruct r; cbn [bindE epost] in *; auto.
  apply (epost_rebase o o1 s s1 (ErrE code asks) Q Hp Ho Hr).
Qed.

Lemma lift_step {A B} o s s1 (p : outcome A) (f : A -> outE B) (Q : B -> Prop) :
  pre o s s1 -> (forall a, p = Ok a -> epost o s (f a) Q) -> epost o s (bindE (lift s1 p) f) Q.
Proof.
  intros Hp Hf. destruct p; cbn [lift bindE]; auto; try exact I. apply epost_err, Hp.
Qed.
Lemma Inv_after_expr e t s s' : nonempty t -> Inv c t s -> lmono c s s' -> Inv c (visit_expr e t) s'.
Proof. intros Hn Hi Hl. eapply Inv_soft; eauto. apply visit_expr_soft, Hn. Qed.

Lemma visit_expr_omono e t : nonempty t -> omono (t_out t) (t_out (visit_expr e t)).
Proof. intros Hn. apply tsoft_omono, visit_expr_soft, Hn. Qed.
Lemma visit_expr_nonempty e t : nonempty t -> nonempty (visit_expr e t).
Proof. intros Hn. eapply tsoft_nonempty, visit_expr_soft, Hn. Qed.

Lemma visit_kw_soft' {K} (l : list (K * expr)) t : nonempty t -> tsoft t (visit_kw l t).
Proof. intros H. apply visit_kw_soft; auto. apply Forall_forall. intros e _. apply visit_expr_soft. Qed.

Lemma vgood_step o s s' v : step_ok c o s s' -> vgood (s_clos s) v -> vgood (s_clos s') v.
Proof. intros H. apply vgood_mono, (step_ok_clos _ _ _ H). Qed.

(* ---- map_eval ---- *)

(* ---- what the four mutually recursive functions guarantee ---- *)
Definition EV (o : list name) (s : st) : value * st -> Prop :=
  fun p => step_ok c o s (snd p) /\ vgood (s_clos (snd p)) (fst p).
Definition SG (o : list name) (s : st) (t' : tstate) : signal * st -> Prop :=
  fun p => step_ok c o s (snd p) /\ (fst p = SigNormal -> Inv c t' (snd p)).

Definition xeval_spec (ev : st -> expr -> outE (value * st)) : Prop :=
  forall s e t, sgood s -> nonempty t -> Inv c t s ->
    epost (t_out (visit_expr e t)) s (ev s e) (EV (t_out (visit_expr e t)) s).

Definition xcall_spec (cm : st -> macro -> option nat -> list value -> list (name * value) -> outE (value * st)) : Prop :=
  forall s mc cl args kwargs, sgood s -> mgood (s_clos s) mc cl ->
    Forall (vgood (s_clos s)) args -> Forall (fun kv => vgood (s_clos s) (snd kv)) kwargs ->
    epost [] s (cm s mc cl args kwargs) (EV [] s).

Definition xexec_spec (ex : st -> stmt -> outE (signal * st)) : Prop :=
  forall s st t, sgood s -> nonempty t -> Inv c t s ->
    epost (t_out (walk st t)) s (ex s st) (SG (t_out (walk st t)) s (walk st t)).

Definition xexec_list_spec (ex : st -> list stmt -> outE (signal * st)) : Prop :=
  forall s l t, sgood s -> nonempty t -> Inv c t s ->
    epost (t_out (walk_list l t)) s (ex s l) (SG (t_out (walk_list l t)) s (walk_list l t)).

(* evaluating a sub-expression [a] at [s1] (tracker [t]) inside a computation that started at [s] *)
Lemma ev_step {B} ev o s s1 a t (f : value * st -> outE B) (Q : B -> Prop) :
  xeval_spec ev -> pre o s s1 -> sgood s1 -> nonempty t -> Inv c t s1 -> omono (t_out (visit_expr a t)) o ->
  (forall x s2, step_ok c (t_out (visit_expr a t)) s1 s2 -> vgood (s_clos s2) x -> Inv c (visit_expr a t) s2 ->
                nonempty (visit_expr a t) -> sgood s2 -> pre o s s2 -> epost o s (f (x, s2)) Q) ->
  epost o s (bindE (ev s1 a) f) Q.
Proof.
  intros Hev Hp Hg Hn Hi Ho Hf. eapply sub_step; [exact Hp|exact Ho|apply (Hev s1 a t Hg Hn Hi)|].
  intros [x s2] [A1 A2]. cbn [fst snd] in *. apply Hf; auto.
  - eapply Inv_after_expr; [exact Hn|exact Hi|apply (step_ok_lmono _ _ _ A1)].
  - apply visit_expr_nonempty, Hn.
  - apply A1.
  - eapply pre_step; eauto.
Qed.

(* ---- map_eval ---- *)
Lemma xmap_eval_ok ev : xeval_spec ev -> forall l s t, sgood s -> nonempty t -> Inv c t s ->
  epost (t_out (visit_list l t)) s (xmap_eval ev s l)
        (fun p => step_ok c (t_out (visit_list l t)) s (snd p) /\ Forall (vgood (s_clos (snd p))) (fst p)).
Proof.
  intros Hev. induction l as [|x r IH]; intros s t Hg Hn Hi; cbn [xmap_eval].
  - apply epost_ok. cbn. split; [apply step_ok_refl, Hg|constructor].
  - change (visit_list (x :: r) t) with (visit_list r (visit_expr x t)).
    assert (Hn1 := visit_expr_nonempty x t Hn).
    assert (Om : omono (t_out (visit_expr x t)) (t_out (visit_list r (visit_expr x t)))) by (apply tsoft_omono, visit_list_soft', Hn1).
    eapply (ev_step ev _ s s x t); [exact Hev|apply pre_refl|exact Hg|exact Hn|exact Hi|exact Om|].
    intros v s1 A1 A2 A3 A4 A5 P1.
    eapply sub_step; [exact P1|apply omono_refl|apply (IH s1 _ A5 A4 A3)|].
    intros [vs s2] [B1 B2]. cbn [fst snd] in *. apply epost_ok. cbn [fst snd]. split.
    + eapply step_ok_trans; eauto.
    + constructor; auto. eapply vgood_step; eauto.
Qed.

Lemma xmap_eval_kw_ok ev : xeval_spec ev -> forall (l : list (name * expr)) s t, sgood s -> nonempty t -> Inv c t s ->
  epost (t_out (visit_kw l t)) s (xmap_eval_kw ev s l)
        (fun p => step_ok c (t_out (visit_kw l t)) s (snd p) /\ Forall (fun kv => vgood (s_clos (snd p)) (snd kv)) (fst p)).
Proof.
  intros Hev. induction l as [|[k x] r IH]; intros s t Hg Hn Hi; cbn [xmap_eval_kw].
  - apply epost_ok. cbn. split; [apply step_ok_refl, Hg|constructor].
  - change (visit_kw ((k, x) :: r) t) with (visit_kw r (visit_expr x t)).
    assert (Hn1 := visit_expr_nonempty x t Hn).
    assert (Om : omono (t_out (visit_expr x t)) (t_out (visit_kw r (visit_expr x t)))) by (apply tsoft_omono, visit_kw_soft', Hn1).
    eapply (ev_step ev _ s s x t); [exact Hev|apply pre_refl|exact Hg|exact Hn|exact Hi|exact Om|].
    intros v s1 A1 A2 A3 A4 A5 P1.
    eapply sub_step; [exact P1|apply omono_refl|apply (IH s1 _ A5 A4 A3)|].
    intros [vs s2] [B1 B2]. cbn [fst snd] in *. apply epost_ok. cbn [fst snd]. split.
    + eapply step_ok_trans; eauto.
    + constructor; auto. cbn [snd]. eapply vgood_step; eauto.
Qed.

(* ---- map literals: k1 v1 k2 v2 .. ---- *)
Lemma visit_pairs_soft' l t : nonempty t -> tsoft t (visit_pairs l t).
Proof.
  intros H. apply visit_pairs_soft; auto. apply Forall_forall. intros p _. split; intros t0; apply visit_expr_soft.
Qed.

Lemma xmap_eval_pairs_ok ev : xeval_spec ev -> forall l s t, sgood s -> nonempty t -> Inv c t s ->
  epost (t_out (visit_pairs l t)) s (xmap_eval_pairs ev s l)
        (fun p => step_ok c (t_out (visit_pairs l t)) s (snd p) /\ entries_all (vgood (s_clos (snd p))) (fst p)).
Proof.
  intros Hev. induction l as [|[ke ve] r IH]; intros s t Hg Hn Hi; cbn [xmap_eval_pairs].
  - apply epost_ok. cbn. split; [apply step_ok_refl, Hg|constructor].
  - change (visit_pairs ((ke, ve) :: r) t) with (visit_pairs r (visit_expr ve (visit_expr ke t))).
    set (t1 := visit_expr ke t). set (t2 := visit_expr ve t1).
    assert (Hn1 : nonempty t1) by (apply visit_expr_nonempty, Hn).
    assert (Hn2 : nonempty t2) by (apply visit_expr_nonempty, Hn1).
    assert (O12 : omono (t_out t1) (t_out t2)) by (apply visit_expr_omono, Hn1).
    assert (O2T : omono (t_out t2) (t_out (visit_pairs r t2))) by (apply tsoft_omono, visit_pairs_soft', Hn2).
    assert (O1T : omono (t_out t1) (t_out (visit_pairs r t2))) by (eapply omono_trans; eauto).
    eapply (ev_step ev _ s s ke t); [exact Hev|apply pre_refl|exact Hg|exact Hn|exact Hi|exact O1T|].
    intros k s1 A1 A2 A3 A4 A5 P1. fold t1 in A1, A3, A4.
    eapply (ev_step ev _ s s1 ve t1); [exact Hev|exact P1|exact A5|exact A4|exact A3|exact O2T|].
    intros v s2 B1 B2 B3 B4 B5 P2. fold t2 in B1, B3, B4.
    eapply sub_step; [exact P2|apply omono_refl|apply (IH s2 t2 B5 B4 B3)|].
    intros [kvs s3] [C1 C2]. cbn [fst snd] in *. apply epost_ok. cbn [fst snd].
    assert (AB : step_ok c (t_out (visit_pairs r t2)) s s2).
    { eapply step_ok_weaken; [eapply step_ok_trans; [apply A1|apply B1|exact O12]|exact O2T]. }
    split.
    + eapply step_ok_trans; [apply AB|apply C1|apply omono_refl].
    + apply entries_all_cons; [| |exact C2].
      * eapply vgood_step; [apply C1|]. eapply vgood_step; [apply B1|exact A2].
      * eapply vgood_step; [apply C1|exact B2].
Qed.

(* ---- comparison chains ---- *)
Lemma xcmp_chain_ok ev : xeval_spec ev -> forall (l : list (cmpop * expr)) left s t, sgood s -> nonempty t -> Inv c t s ->
  epost (t_out (visit_kw l t)) s (xcmp_chain m ev left s l) (EV (t_out (visit_kw l t)) s).
Proof.
  intros Hev. induction l as [|[op x] r IH]; intros left s t Hg Hn Hi; cbn [xcmp_chain].
  - apply epost_ok. split; [apply step_ok_refl, Hg|exact I].
  - change (visit_kw ((op, x) :: r) t) with (visit_kw r (visit_expr x t)).
    assert (Hn1 := visit_expr_nonempty x t Hn).
    assert (Om : omono (t_out (visit_expr x t)) (t_out (visit_kw r (visit_expr x t)))) by (apply tsoft_omono, visit_kw_soft', Hn1).
    eapply (ev_step ev _ s s x t); [exact Hev|apply pre_refl|exact Hg|exact Hn|exact Hi|exact Om|].
    intros y s2 A1 A2 A3 A4 A5 P1.
    apply lift_step; [exact P1|]. intros b _.
    assert (Stop : forall w, epost (t_out (visit_kw r (visit_expr x t))) s (OkE (VBool w, s2)) (EV (t_out (visit_kw r (visit_expr x t))) s)).
    { intros w. apply epost_ok. split; [eapply step_ok_weaken; eauto|exact I]. }
    destruct r as [|p r']; [apply Stop|]. destruct b; [|apply Stop].
    eapply epost_imp; [|eapply epost_rebase; [exact P1|apply omono_refl|apply (IH y s2 _ A5 A4 A3)]].
    intros [v s3] [B1 B2]. split; auto. cbn [snd] in *. eapply step_ok_trans; eauto.
Qed.
Lemma bind_params_good C kwargs : Forall (fun kv => vgood C (snd kv)) kwargs -> forall ps pos bound,
  bind_params kwargs ps pos = Ok bound -> Forall (vgood C) pos ->
  Forall (fun kv => vgood C (snd kv)) bound /\ map fst bound = ps.
Proof.
  intros Hk. assert (Ha : forall p v, assoc p kwargs = Some v -> vgood C v).
  { induction Hk as [|[k w] r Hw Hr IH]; intros p v; cbn [assoc]; [discriminate|]. destruct (p =? k); [intros E; inversion E; subst; exact Hw|apply IH]. }
  induction ps as [|p ps IH]; intros pos bound H Hp; cbn [bind_params] in H.
  - inversion H; subst. split; constructor.
  - destruct pos as [|v pos']; destruct (assoc p kwargs) as [w|] eqn:Ea; try discriminate.
    + apply bind_ok in H as (r & H1 & H). inversion H; subst. destruct (IH _ _ H1 Hp) as [B1 B2]. split; [constructor; eauto|cbn; congruence].
    + apply bind_ok in H as (r & H1 & H). inversion H; subst. destruct (IH _ _ H1 Hp) as [B1 B2]. split; [constructor; [exact I|auto]|cbn; congruence].
    + apply bind_ok in H as (r & H1 & H). inversion H; subst. inversion Hp; subst. destruct (IH _ _ H1 H4) as [B1 B2]. split; [constructor; auto|cbn; congruence].
Qed.

Definition visit_params_l (ds : list (name * expr)) (lp : list name) (t : tstate) : tstate :=
  fold_left (fun t p => t_assign p (match default_of p ds with Some d => visit_expr d t | None => t end)) lp t.

Lemma default_of_assoc p ds : default_of p ds = assoc p ds.
Proof. induction ds as [|[k d] r IH]; cbn; auto. destruct (p =? k); auto. Qed.

Lemma visit_params_l_step ds lp t : nonempty t -> tstep t (visit_params_l ds lp t).
Proof.
  revert t. induction lp as [|p l IH]; intros t Hn; cbn [visit_params_l fold_left].
  - apply tstep_refl, Hn.
  - assert (S1 : tstep t (match default_of p ds with Some d => visit_expr d t | None => t end)).
    { destruct (default_of p ds); [apply visit_expr_step, Hn|apply tstep_refl, Hn]. }
    assert (S2 := tstep_assign p _ (tstep_nonempty _ _ S1)).
    eapply tstep_trans; [apply S1|]. eapply tstep_trans; [apply S2|]. apply IH. eapply tstep_nonempty, S2.
Qed.


Lemma xstore_args_ok ev ds : xeval_spec ev -> forall l s t, sgood s -> nonempty t -> Inv c t s ->
  Forall (fun kv => vgood (s_clos s) (snd kv)) l ->
  epost (t_out (visit_params_l ds (map fst l) t)) s (xstore_args ev ds s l)
        (fun s' => step_ok c (t_out (visit_params_l ds (map fst l) t)) s s' /\ Inv c (visit_params_l ds (map fst l) t) s').
Proof.
  intros Hev. induction l as [|[p v] r IH]; intros s t Hg Hn Hi Hl; cbn [xstore_args].
  - apply epost_ok. split; [apply step_ok_refl, Hg|exact Hi].
  - inversion Hl as [|? ? Hv Hr]; subst. cbn [snd] in Hv. cbn [map fst visit_params_l fold_left].
    rewrite default_of_assoc.
    set (t1 := match assoc p ds with Some d => visit_expr d t | None => t end).
    assert (Soft1 : tsoft t t1) by (unfold t1; destruct (assoc p ds); [apply visit_expr_soft, Hn|apply tsoft_refl, Hn]).
    assert (Hn1 : nonempty t1) by (eapply tsoft_nonempty, Soft1).
    assert (Hn2 : nonempty (t_assign p t1)) by (eapply tstep_nonempty, tstep_assign, Hn1).
    set (T := visit_params_l ds (map fst r) (t_assign p t1)).
    assert (Om2 : omono (t_out (t_assign p t1)) (t_out T)) by (apply tstep_omono, visit_params_l_step, Hn2).
    assert (Plain : epost (t_out T) s (xstore_args ev ds (store s p v) r) (fun s' => step_ok c (t_out T) s s' /\ Inv c T s')).
    { assert (S1 := store_step_ok c (t_out (t_assign p t1)) s p v Hg Hv).
      assert (I1 : Inv c (t_assign p t1) (store s p v)).
      { eapply Inv_assign; [exact Hn1| |apply (step_ok_lmono _ _ _ S1)|apply store_local, Hg]. eapply Inv_soft; eauto. apply lmono_refl. }
      assert (Hr' : Forall (fun kv => vgood (s_clos (store s p v)) (snd kv)) r).
      { eapply Forall_impl; [|apply Hr]. intros kv. apply vgood_mono, store_clos_ext. }
      eapply epost_imp; [|eapply epost_rebase; [apply (pre_of_step _ _ _ (step_ok_weaken c _ _ _ _ S1 Om2))|apply omono_refl|apply (IH _ _ (step_ok_sgood _ _ _ S1) Hn2 I1 Hr')]].
      intros s' [B1 B2]. split; auto. eapply step_ok_trans; eauto. }
    destruct (is_undef v); [|exact Plain]. destruct (assoc p ds) as [d|] eqn:Ed; [|exact Plain].
    assert (O1 : omono (t_out t1) (t_out T)).
    { eapply omono_trans; [apply tstep_omono, tstep_assign, Hn1|exact Om2]. }
    eapply (ev_step ev _ s s d t); [exact Hev|apply pre_refl|exact Hg|exact Hn|exact Hi|exact O1|].
    intros dv s1 A1 A2 A3 A4 A5 P1. fold t1 in A1, A3, A4.
    assert (S1 := store_step_ok c (t_out (t_assign p t1)) s1 p dv A5 A2).
    assert (I1 : Inv c (t_assign p t1) (store s1 p dv)).
    { eapply Inv_assign; [exact Hn1|exact A3|apply (step_ok_lmono _ _ _ S1)|apply store_local, A5]. }
    assert (Hr' : Forall (fun kv => vgood (s_clos (store s1 p dv)) (snd kv)) r).
    { eapply Forall_impl; [|apply Hr]. intros kv Hkv. eapply vgood_step; [apply S1|]. eapply vgood_step; eauto. }
    assert (A1S : step_ok c (t_out T) s (store s1 p dv)).
    { eapply step_ok_trans; [apply A1|apply (step_ok_weaken c _ _ _ _ S1 Om2)|]. exact O1. }
    eapply epost_imp; [|eapply epost_rebase; [apply (pre_of_step _ _ _ A1S)|apply omono_refl|apply (IH _ _ (step_ok_sgood _ _ _ S1) Hn2 I1 Hr')]].
    intros s' [B1 B2]. split; auto. eapply step_ok_trans; [apply A1S|apply B1|apply omono_refl].
Qed.
Lemma walk_list_omono l t : nonempty t -> omono (t_out t) (t_out (walk_list l t)).
Proof. intros Hn. apply tstep_omono, walk_list_step', Hn. Qed.

Lemma walk_arms_step' els arms t : nonempty t -> tstep t (walk_arms els arms t).
Proof.
  intros Hn. apply walk_arms_step; auto.
  - apply Forall_forall. intros a _. apply Forall_forall. intros s _. apply walk_step.
  - intros b _. apply Forall_forall. intros s _. apply walk_step.
Qed.

Lemma scoped_body_soft' body t : nonempty t -> tsoft t (t_pop (walk_list body (t_push t))).
Proof. intros Hn. apply scoped_body_soft; auto. apply Forall_forall. intros s _. apply walk_step. Qed.


(* ---- if / elif / else ---- *)
Lemma xif_arms_ok ev ex els : xeval_spec ev -> xexec_list_spec ex ->
  forall arms s t, sgood s -> nonempty t -> Inv c t s ->
  epost (t_out (walk_arms els arms t)) s (xif_arms m ev ex els s arms) (SG (t_out (walk_arms els arms t)) s (walk_arms els arms t)).
Proof.
  intros Hev Hex. induction arms as [|[cnd body] r IH]; intros s t Hg Hn Hi; cbn [xif_arms walk_arms].
  - destruct els as [b|]; [apply Hex; auto|]. apply epost_ok. split; [apply step_ok_refl, Hg|auto].
  - cbn zeta.
    set (t1 := visit_expr cnd t). assert (Hn1 : nonempty t1) by (apply visit_expr_nonempty, Hn).
    set (t2 := t_pop (walk_list body (t_push t1))).
    assert (Soft2 : tsoft t1 t2) by (apply scoped_body_soft', Hn1).
    assert (Hn2 : nonempty t2) by (eapply tsoft_nonempty, Soft2).
    set (T := match r, els with [], None => t_pop (t_push t2) | _, _ => t_pop (walk_arms els r (t_push t2)) end).
    assert (SoftT : tsoft t2 T).
    { unfold T. destruct r; [destruct els|]; apply tstep_push_pop; auto; try apply walk_arms_step', push_nonempty. apply tstep_refl, push_nonempty. }
    assert (O2T := tsoft_omono _ _ SoftT). assert (O12 := tsoft_omono _ _ Soft2).
    assert (O1T : omono (t_out t1) (t_out T)) by (eapply omono_trans; eauto).
    eapply (ev_step ev _ s s cnd t); [exact Hev|apply pre_refl|exact Hg|exact Hn|exact Hi|exact O1T|].
    intros v s1 A1 _ I1 _ G1 P1. fold t1 in A1, I1.
    assert (A1T : step_ok c (t_out T) s s1) by (eapply step_ok_weaken; eauto).
    apply lift_step; [exact P1|]. intros b _.
    destruct b.
    + (* this arm runs: its body is walked in a scope of its own *)
      assert (Ip : Inv c (t_push t1) s1) by (eapply Inv_push; [exact I1|apply lmono_refl]).
      eapply epost_imp; [|eapply epost_rebase; [exact P1| |apply (Hex s1 body (t_push t1) G1 (push_nonempty t1) Ip)]].
      * intros [sg s'] [B1 _]. cbn [fst snd] in *. split.
        -- eapply step_ok_trans; [apply A1T| |apply omono_refl]. eapply step_ok_weaken; [apply B1|]. exact O2T.
        -- intros _. eapply Inv_soft; [eapply tsoft_trans; [apply Soft2|apply SoftT]|exact I1|apply (step_ok_lmono _ _ _ B1)].
      * exact O2T.
    + (* the remaining arms *)
      assert (I2 : Inv c t2 s1) by (eapply Inv_soft; [apply Soft2|exact I1|apply lmono_refl]).
      assert (Ip : Inv c (t_push t2) s1) by (eapply Inv_push; [exact I2|apply lmono_refl]).
      assert (Rest : epost (t_out T) s (xif_arms m ev ex els s1 r) (SG (t_out T) s T) ->
                     epost (t_out T) s (xif_arms m ev ex els s1 r) (SG (t_out T) s T)) by auto.
      destruct r as [|a r'].
      * destruct els as [eb|].
        -- eapply epost_imp; [|eapply epost_rebase; [exact P1| |apply (IH s1 (t_push t2) G1 (push_nonempty t2) Ip)]].
           ++ intros [sg s'] [B1 _]. cbn [fst snd] in *. split.
              ** eapply step_ok_trans; [apply A1T| |apply omono_refl]. eapply step_ok_weaken; [apply B1|]. unfold T. intros x Hx. exact Hx.
              ** intros _. eapply Inv_soft; [apply SoftT|exact I2|apply (step_ok_lmono _ _ _ B1)].
           ++ unfold T. intros x Hx. exact Hx.
        -- cbn [xif_arms]. apply epost_ok. split; [exact A1T|]. intros _. eapply Inv_soft; [apply SoftT|exact I2|apply lmono_refl].
      * eapply epost_imp; [|eapply epost_rebase; [exact P1| |apply (IH s1 (t_push t2) G1 (push_nonempty t2) Ip)]].
        -- intros [sg s'] [B1 _]. cbn [fst snd] in *. split.
           ++ eapply step_ok_trans; [apply A1T| |apply omono_refl]. eapply step_ok_weaken; [apply B1|]. unfold T. intros x Hx. exact Hx.
           ++ intros _. eapply Inv_soft; [apply SoftT|exact I2|apply (step_ok_lmono _ _ _ B1)].
        -- unfold T. intros x Hx. exact Hx.
Qed.

(* ---- with ---- *)
Lemma xwith_binds_ok ev : xeval_spec ev -> forall binds s t, sgood s -> nonempty t -> Inv c t s ->
  epost (t_out (visit_binds binds t)) s (xwith_binds ev s binds)
        (fun s' => step_ok c (t_out (visit_binds binds t)) s s' /\ Inv c (visit_binds binds t) s').
Proof.
  intros Hev. induction binds as [|[tg e] r IH]; intros s t Hg Hn Hi; cbn [xwith_binds].
  - apply epost_ok. split; [apply step_ok_refl, Hg|exact Hi].
  - change (visit_binds ((tg, e) :: r) t) with (visit_binds r (assign_target tg (visit_expr e t))).
    assert (Hn1 := visit_expr_nonempty e t Hn).
    assert (Sa : tstep (visit_expr e t) (assign_target tg (visit_expr e t))) by (apply assign_target_step, Hn1).
    assert (Hn2 : nonempty (assign_target tg (visit_expr e t))) by (eapply tstep_nonempty, Sa).
    set (T := visit_binds r (assign_target tg (visit_expr e t))).
    assert (O2 : omono (t_out (assign_target tg (visit_expr e t))) (t_out T)) by (apply tstep_omono, visit_binds_step, Hn2).
    assert (O1 : omono (t_out (visit_expr e t)) (t_out T)).
    { eapply omono_trans; [apply tstep_omono, Sa|exact O2]. }
    eapply (ev_step ev _ s s e t); [exact Hev|apply pre_refl|exact Hg|exact Hn|exact Hi|exact O1|].
    intros v s1 A1 A2 A3 A4 A5 P1.
    (* the right-hand side is evaluated completely, then its target is bound (which may fail to unpack) *)
    apply lift_step; [exact P1|]. intros s2 H1.
    destruct (bind_target_ok (t_out (assign_target tg (visit_expr e t))) tg s1 v s2 H1 A5 A2) as [S1 S2].
    assert (I1 : Inv c (assign_target tg (visit_expr e t)) s2) by (apply (S2 (visit_expr e t) s1 A4 A3 (lmono_refl c s1))).
    assert (A1S : step_ok c (t_out T) s s2).
    { eapply step_ok_trans; [apply A1|apply (step_ok_weaken c _ _ _ _ S1 O2)|exact O1]. }
    eapply epost_imp; [|eapply epost_rebase; [apply (pre_of_step _ _ _ A1S)|apply omono_refl|apply (IH _ _ (step_ok_sgood _ _ _ S1) Hn2 I1)]].
    intros s' [B1 B2]. split; auto. eapply step_ok_trans; [apply A1S|apply B1|apply omono_refl].
Qed.

(* ---- for: the filter pass ---- *)
Definition loop_frame0 (n : Z) (expose : bool) : frame := mkFrame [] (Some (0, n, expose)) None None false.

Lemma pre_push o s F : f_base F = false -> pre o s (push_frame s F).
Proof. intros Hb. eapply pre_eq; [apply pre_refl|reflexivity|apply push_lmono, Hb]. Qed.

Lemma xfilter_items_ok ev tg fe t1 s0 : xeval_spec ev -> nonempty t1 -> Inv c t1 s0 ->
  forall l s, sgood s -> lmono c s0 s -> Forall (vgood (s_clos s)) l ->
  epost (t_out (visit_expr fe (assign_target tg (t_push t1)))) s (xfilter_items m ev tg fe s l)
        (fun p => step_ok c (t_out (visit_expr fe (assign_target tg (t_push t1)))) s (snd p) /\ Forall (vgood (s_clos (snd p))) (fst p)).
Proof.
  intros Hev Hn1 Hi0. set (tf := assign_target tg (t_push t1)). set (o := t_out (visit_expr fe tf)).
  assert (Hnf : nonempty tf) by (eapply tstep_nonempty, assign_target_step, push_nonempty).
  induction l as [|item r IH]; intros s Hg Hl Hv; cbn [xfilter_items].
  - apply epost_ok. split; [apply step_ok_refl, Hg|constructor].
  - cbn zeta. inversion Hv as [|? ? Hitem Hrest]; subst.
    set (F := mkFrame [] (Some (0, 0, false)) None None false).
    set (sf := push_frame s F).
    assert (Gf : sgood sf) by (apply push_sgood; [exact Hg|apply fresh_frame_good]).
    assert (Lf : lmono c s sf) by (apply push_lmono; reflexivity).
    assert (Pf : pre o s sf) by (apply pre_push; reflexivity).
    apply lift_step; [exact Pf|]. intros sf1 H1.
    destruct (bind_target_ok o tg sf item sf1 H1 Gf Hitem) as [A1 A2].
    assert (If : Inv c tf sf1).
    { apply (A2 (t_push t1) s0 (push_nonempty t1)); [eapply Inv_push; [exact Hi0|apply lmono_refl]|]. eapply lmono_trans; eauto. }
    eapply (ev_step ev o s sf1 fe tf); [exact Hev|eapply pre_step; [exact Pf|exact A1|apply omono_refl]|apply A1|exact Hnf|exact If|apply omono_refl|].
    intros v sf2 B1 _ _ _ G2 P2. fold o in B1.
    apply lift_step; [exact P2|]. intros keep _.
    assert (AB : step_ok c o sf sf2) by (eapply step_ok_trans; [apply A1|apply B1|apply omono_refl]).
    assert (P := scoped_step _ s F sf2 Hg eq_refl AB).
    assert (Hrest' : Forall (vgood (s_clos (pop_frame sf2))) r).
    { eapply Forall_impl; [|apply Hrest]. intros w. eapply vgood_step; eauto. }
    assert (Ll : lmono c s0 (pop_frame sf2)) by (eapply lmono_trans; [apply Hl|apply (step_ok_lmono _ _ _ P)]).
    eapply sub_step; [apply (pre_of_step _ _ _ P)|apply omono_refl|apply (IH _ (step_ok_sgood _ _ _ P) Ll Hrest')|].
    intros [rest s3] [C1 C2]. cbn [fst snd] in *. apply epost_ok. cbn [fst snd]. split.
    + eapply step_ok_trans; [apply P|apply C1|apply omono_refl].
    + destruct keep; auto. constructor; auto. eapply vgood_step; [apply C1|]. eapply vgood_step; eauto.
Qed.

(* ---- for: the iterations ---- *)
Definition loop_state (n : Z) (O : list name) (s2 s : st) : Prop :=
  sext (push_frame s2 (loop_frame0 n true)) s /\ sgood s /\ asks_in (AP c O s2) s2 s.

Lemma xloop_items_ok ex tg body n flt t1 s2 : xexec_list_spec ex -> nonempty t1 -> Inv c t1 s2 -> sgood s2 ->
  let tfv := match flt with Some f => visit_expr f (assign_target tg (t_push t1)) | None => assign_target tg (t_push t1) end in
  let tb := t_assign N_loop tfv in
  let O := t_out (walk_list body tb) in
  forall l s i, loop_state n O s2 s -> Forall (vgood (s_clos s)) l ->
  epost O s2 (xloop_items ex tg body n s i l) (loop_state n O s2).
Proof.
  intros Hex Hn1 Hi2 Hg2 tfv tb O.
  assert (Hna : nonempty (assign_target tg (t_push t1))) by (eapply tstep_nonempty, assign_target_step, push_nonempty).
  assert (Softv : tsoft (assign_target tg (t_push t1)) tfv).
  { unfold tfv. destruct flt; [apply visit_expr_soft, Hna|apply tsoft_refl, Hna]. }
  assert (Hnv : nonempty tfv) by (eapply tsoft_nonempty, Softv).
  assert (Hnb : nonempty tb) by (eapply tstep_nonempty, tstep_assign, Hnv).
  induction l as [|item r IH]; intros s i Hs Hv; cbn [xloop_items].
  - apply epost_ok. exact Hs.
  - cbn zeta. destruct Hs as (X1 & X2 & X3).
    destruct X1 as (f0 & e0 & f & E1 & E2 & FE & CE). cbn [push_frame s_env s_clos] in E1, CE. inversion E1; subst f0 e0. clear E1.
    rewrite E2.
    set (Fi := mkFrame [] (Some (i, n, true)) (f_closure f) (f_closure_ctx f) false).
    set (sit := with_env s (Fi :: s_env s2)).
    assert (Xit : sext (push_frame s2 (loop_frame0 n true)) sit).
    { exists (loop_frame0 n true), (s_env s2), Fi. split; [reflexivity|]. split; [reflexivity|]. split; [|exact CE].
      destruct FE as (F1 & F2 & F3 & F4). split; [intros x Hx; cbn in Hx; congruence|]. split; [reflexivity|]. split; [exact F3|reflexivity]. }
    assert (Git : sgood sit).
    { destruct X2 as (G1 & G2 & G3). unfold sgood, sit, with_env. cbn [s_env s_clos]. split; [discriminate|]. split; auto.
      rewrite E2 in G2. inversion G2 as [|? ? Gf Gr]; subst. constructor; auto. split; [cbn; intros; discriminate|]. apply Gf. }
    assert (L2it : lmono c s2 sit).
    { eapply lmono_trans; [apply (push_lmono c s2 (loop_frame0 n true) eq_refl)|apply sext_lmono, Xit]. }
    assert (Pit : pre O s2 sit) by (split; [eapply asks_in_eq; [reflexivity| |exact X3]; reflexivity|exact L2it]).
    inversion Hv as [|? ? Hitem Hrest]; subst.
    apply lift_step; [exact Pit|]. intros s3 H1.
    destruct (bind_target_ok O tg sit item s3 H1 Git Hitem) as [A1 A2].
    assert (Ia : Inv c (assign_target tg (t_push t1)) s3).
    { apply (A2 (t_push t1) s2 (push_nonempty t1)); [eapply Inv_push; [exact Hi2|apply lmono_refl]|exact L2it]. }
    assert (Ib : Inv c tb s3).
    { eapply Inv_assign; [exact Hnv|eapply Inv_soft; [apply Softv|exact Ia|apply lmono_refl]|apply lmono_refl|].
      destruct (step_ok_sext _ _ _ A1) as (fa & ea & fa' & Ea1 & Ea2 & FEa & _).
      unfold sit, with_env in Ea1. cbn [s_env] in Ea1. inversion Ea1; subst fa ea.
      eapply loop_exposed_local; [exact Ea2|]. apply FEa. reflexivity. }
    assert (P3 : pre O s2 s3) by (eapply pre_step; [exact Pit|exact A1|apply omono_refl]).
    eapply sub_step; [exact P3|apply omono_refl|apply (Hex s3 body tb (step_ok_sgood _ _ _ A1) Hnb Ib)|].
    intros [sg s4] [B1 _]. cbn [fst snd] in *. fold O in B1.
    assert (Hs4 : loop_state n O s2 s4).
    { split; [eapply sext_trans; [exact Xit|]; eapply sext_trans; [apply A1|apply B1]|]. split; [apply B1|].
      apply (pre_step O O s2 s3 s4 P3 B1 (omono_refl _)). }
    assert (Hrest4 : Forall (vgood (s_clos s4)) r).
    { eapply Forall_impl; [|apply Hrest]. intros w Hw. eapply vgood_step; [apply B1|]. eapply vgood_step; [apply A1|]. exact Hw. }
    destruct sg; [apply IH; auto|apply epost_ok; exact Hs4|apply IH; auto].
Qed.

(* ---- the induction on the fuel ---- *)
Lemma omono_nil o : omono [] o.
Proof. intros x H. discriminate. Qed.

(* the rest of an evaluation is one more sub-expression *)
Lemma ev_tail ev o s s1 a t : xeval_spec ev -> step_ok c o s s1 -> nonempty t -> Inv c t s1 -> omono (t_out (visit_expr a t)) o ->
  epost o s (ev s1 a) (EV o s).
Proof.
  intros Hev A1 Hn Hi Ho.
  apply (epost_imp o s (ev s1 a) (EV (t_out (visit_expr a t)) s1)).
  - intros [v s2] [B1 B2]. split; auto. cbn [snd] in *. eapply step_ok_trans; [apply A1|eapply step_ok_weaken; [apply B1|exact Ho]|apply omono_refl].
  - eapply epost_rebase; [apply (pre_of_step _ _ _ A1)|exact Ho|]. apply (Hev s1 a t (step_ok_sgood _ _ _ A1) Hn Hi).
Qed.

Definition xall_specs (fuel : nat) : Prop :=
  (forall esc, xeval_spec (xeval c fuel esc)) /\ (forall esc, xcall_spec (xcall_macro c fuel esc)) /\
  (forall esc, xexec_spec (xexec c fuel esc)) /\ (forall esc, xexec_list_spec (xexec_list c fuel esc)).

Lemma handle_undefined_good C md b v : u_handle_undefined md b = Ok v -> vgood C v.
Proof. unfold u_handle_undefined. destruct md; destruct b; intros H; inversion H; exact I. Qed.

Lemma xeval_step fuel : xall_specs fuel -> forall esc, xeval_spec (xeval c (S fuel) esc).
Proof.
  intros (IHe & IHm & _ & _) esc s e t Hg Hn Hi. assert (He := IHe esc).
  rewrite visit_expr_eq. cbn [xeval]. fold (xcall_macro c). destruct e.
  - (* const *) destruct l; apply epost_ok; (split; [apply step_ok_refl, Hg|exact I]).
  - (* var *) destruct (lookup c s x) as [v0 s1] eqn:E.
    destruct (lookup_ok (t_out (t_lookup x t)) s x v0 s1 E Hg) as (A1 & A2 & _).
    { intros Hl. eapply lookup_late; [exact Hi|apply lmono_refl|exact Hl]. }
    apply epost_ok. split; [exact A1|]. cbn [fst snd]. destruct v0; [apply A2; reflexivity|exact I].
  - (* list *)
    eapply sub_step; [apply pre_refl|apply omono_refl|apply (xmap_eval_ok _ He items s t Hg Hn Hi)|].
    intros [vs s1] [A1 A2]. apply epost_ok. split; [exact A1|apply vgood_list, A2].
  - (* map literal *)
    eapply sub_step; [apply pre_refl|apply omono_refl|apply (xmap_eval_pairs_ok _ He pairs s t Hg Hn Hi)|].
    intros [kvs s1] [A1 A2]. apply epost_ok. split; [exact A1|]. cbn [fst snd] in *. apply vgood_map, map_of_pairs_all, A2.
  - (* neg *)
    eapply (ev_step _ _ s s e t); [exact He|apply pre_refl|exact Hg|exact Hn|exact Hi|apply omono_refl|].
    intros x s1 A1 _ _ _ _ P1. destruct x; try (apply epost_err; exact P1). apply epost_ok. split; [exact A1|exact I].
  - (* not *)
    eapply (ev_step _ _ s s e t); [exact He|apply pre_refl|exact Hg|exact Hn|exact Hi|apply omono_refl|].
    intros x s1 A1 _ _ _ _ P1. apply lift_step; [exact P1|]. intros b _. apply epost_ok. split; [exact A1|exact I].
  - (* bin *)
    assert (Hn1 := visit_expr_nonempty e1 t Hn).
    eapply (ev_step _ _ s s e1 t); [exact He|apply pre_refl|exact Hg|exact Hn|exact Hi|apply visit_expr_omono, Hn1|].
    intros x s1 A1 A2 A3 A4 A5 P1.
    eapply (ev_step _ _ s s1 e2 _); [exact He|exact P1|exact A5|exact A4|exact A3|apply omono_refl|].
    intros y s2 B1 B2 _ _ _ P2.
    apply lift_step; [exact P2|]. intros u _. apply lift_step; [exact P2|]. intros r Hr. apply epost_ok. split.
    + eapply step_ok_trans; [apply A1|apply B1|apply visit_expr_omono, A4].
    + eapply do_bin_good; eauto.
  - (* cmp *)
    assert (Hn1 := visit_expr_nonempty e t Hn).
    assert (Om : omono (t_out (visit_expr e t)) (t_out (visit_kw rest (visit_expr e t)))) by (apply tsoft_omono, visit_kw_soft', Hn1).
    eapply (ev_step _ _ s s e t); [exact He|apply pre_refl|exact Hg|exact Hn|exact Hi|exact Om|].
    intros x s1 A1 A2 A3 A4 A5 P1.
    eapply epost_imp; [|eapply epost_rebase; [exact P1|apply omono_refl|apply (xcmp_chain_ok _ He rest x s1 _ A5 A4 A3)]].
    intros [v s2] [B1 B2]. split; auto. cbn [snd] in *. eapply step_ok_trans; eauto.
  - (* and *)
    assert (Hn1 := visit_expr_nonempty e1 t Hn). assert (Om := visit_expr_omono e2 _ Hn1).
    eapply (ev_step _ _ s s e1 t); [exact He|apply pre_refl|exact Hg|exact Hn|exact Hi|exact Om|].
    intros x s1 A1 A2 A3 A4 A5 P1. apply lift_step; [exact P1|]. intros b _.
    assert (A1T := step_ok_weaken c _ _ _ _ A1 Om).
    destruct b; [apply (ev_tail _ _ s s1 e2 _ He A1T A4 A3); apply omono_refl|]. apply epost_ok. split; [exact A1T|exact A2].
  - (* or *)
    assert (Hn1 := visit_expr_nonempty e1 t Hn). assert (Om := visit_expr_omono e2 _ Hn1).
    eapply (ev_step _ _ s s e1 t); [exact He|apply pre_refl|exact Hg|exact Hn|exact Hi|exact Om|].
    intros x s1 A1 A2 A3 A4 A5 P1. apply lift_step; [exact P1|]. intros b _.
    assert (A1T := step_ok_weaken c _ _ _ _ A1 Om).
    destruct b; [apply epost_ok; split; [exact A1T|exact A2]|]. apply (ev_tail _ _ s s1 e2 _ He A1T A4 A3). apply omono_refl.
  - (* if-expression *)
    cbn zeta. set (t1 := visit_expr e1 t). set (t2 := visit_expr e2 t1).
    assert (Hn1 : nonempty t1) by (apply visit_expr_nonempty, Hn).
    assert (Hn2 : nonempty t2) by (apply visit_expr_nonempty, Hn1).
    assert (O12 : omono (t_out t1) (t_out t2)) by (apply visit_expr_omono, Hn1).
    set (T := match f with Some f0 => visit_expr f0 t2 | None => t2 end).
    assert (O2T : omono (t_out t2) (t_out T)) by (unfold T; destruct f; [apply visit_expr_omono, Hn2|apply omono_refl]).
    assert (O1T : omono (t_out t1) (t_out T)) by (eapply omono_trans; eauto).
    eapply (ev_step _ _ s s e1 t); [exact He|apply pre_refl|exact Hg|exact Hn|exact Hi|exact O1T|].
    intros x s1 A1 A2 A3 A4 A5 P1. fold t1 in A1, A3. apply lift_step; [exact P1|]. intros b _.
    assert (A1T := step_ok_weaken c _ _ _ _ A1 O1T).
    destruct b; [apply (ev_tail _ _ s s1 e2 t1 He A1T Hn1 A3 O2T)|].
    destruct f as [f0|].
    + assert (I2 : Inv c t2 s1) by (eapply Inv_after_expr; [exact Hn1|exact A3|apply lmono_refl]).
      apply (ev_tail _ _ s s1 f0 t2 He A1T Hn2 I2). apply omono_refl.
    + apply epost_ok. split; [exact A1T|exact I].
  - (* item *)
    assert (Hn1 := visit_expr_nonempty e1 t Hn).
    eapply (ev_step _ _ s s e1 t); [exact He|apply pre_refl|exact Hg|exact Hn|exact Hi|apply visit_expr_omono, Hn1|].
    intros x s1 A1 A2 A3 A4 A5 P1.
    eapply (ev_step _ _ s s1 e2 _); [exact He|exact P1|exact A5|exact A4|exact A3|apply omono_refl|].
    intros k s2 B1 B2 _ _ _ P2.
    assert (AB : step_ok c (t_out (visit_expr e2 (visit_expr e1 t))) s s2) by (eapply step_ok_trans; [apply A1|apply B1|apply visit_expr_omono, A4]).
    destruct (get_item_opt x k) eqn:Ei.
    + apply epost_ok. split; [exact AB|]. cbn [fst snd].
      assert (Hx : vgood (s_clos s2) x) by (eapply vgood_step; [apply B1|exact A2]).
      eapply (get_item_opt_all (vgood (s_clos s2))); [| |exact Ei].
      * intros l ->. apply vgood_list, Hx.
      * intros kvs ->. apply vgood_map, Hx.
    + apply lift_step; [exact P2|]. intros u Hu. apply epost_ok. split; [exact AB|]. eapply handle_undefined_good; eauto.
  - (* attr *)
    eapply (ev_step _ _ s s e t); [exact He|apply pre_refl|exact Hg|exact Hn|exact Hi|apply omono_refl|].
    intros x s1 A1 A2 _ _ _ P1.
    destruct (get_attr_opt x a) eqn:Ei.
    + apply epost_ok. split; [exact A1|]. cbn [fst snd].
      eapply (get_attr_opt_all (vgood (s_clos s1))); [| |exact Ei].
      * intros i n w _ Hw. eapply loop_attr_good; eauto.
      * intros kvs ->. apply vgood_map, A2.
    + apply lift_step; [exact P1|]. intros u Hu. apply epost_ok. split; [exact A1|]. eapply handle_undefined_good; eauto.
  - (* filter *)
    assert (Hn1 := visit_expr_nonempty e t Hn).
    assert (Om : omono (t_out (visit_expr e t)) (t_out (visit_list args (visit_expr e t)))) by (apply tsoft_omono, visit_list_soft', Hn1).
    eapply (ev_step _ _ s s e t); [exact He|apply pre_refl|exact Hg|exact Hn|exact Hi|exact Om|].
    intros x s1 A1 A2 A3 A4 A5 P1.
    eapply sub_step; [exact P1|apply omono_refl|apply (xmap_eval_ok _ He args s1 _ A5 A4 A3)|].
    intros [vs s2] [B1 B2]. cbn [fst snd] in *.
    assert (AB : step_ok c (t_out (visit_list args (visit_expr e t))) s s2) by (eapply step_ok_trans; [apply A1|apply B1|exact Om]).
    apply lift_step; [apply (pre_of_step _ _ _ AB)|]. intros r Hr. apply epost_ok. split; [exact AB|].
    eapply xdo_filter_good; [exact Hr| |exact B2]. eapply vgood_step; [apply B1|exact A2].
  - (* test *)
    assert (Hn1 := visit_expr_nonempty e t Hn).
    assert (Om : omono (t_out (visit_expr e t)) (t_out (visit_list args (visit_expr e t)))) by (apply tsoft_omono, visit_list_soft', Hn1).
    eapply (ev_step _ _ s s e t); [exact He|apply pre_refl|exact Hg|exact Hn|exact Hi|exact Om|].
    intros x s1 A1 A2 A3 A4 A5 P1.
    eapply sub_step; [exact P1|apply omono_refl|apply (xmap_eval_ok _ He args s1 _ A5 A4 A3)|].
    intros [vs s2] [B1 B2]. cbn [fst snd] in *.
    assert (AB : step_ok c (t_out (visit_list args (visit_expr e t))) s s2) by (eapply step_ok_trans; [apply A1|apply B1|exact Om]).
    apply lift_step; [apply (pre_of_step _ _ _ AB)|]. intros r Hr. apply epost_ok. split; [exact AB|exact I].
  - (* call *)
    set (t1 := t_lookup f t). assert (S1 : tsoft t t1) by (apply tsoft_lookup, Hn).
    assert (Hn1 : nonempty t1) by (eapply tsoft_nonempty, S1).
    assert (I1 : Inv c t1 s) by (eapply Inv_soft; [apply S1|exact Hi|apply lmono_refl]).
    set (t2 := visit_list args t1). assert (S2 : tsoft t1 t2) by (apply visit_list_soft', Hn1).
    assert (Hn2 : nonempty t2) by (eapply tsoft_nonempty, S2).
    set (T := visit_kw kwargs t2). assert (S3 : tsoft t2 T) by (apply visit_kw_soft', Hn2).
    assert (O2T := tsoft_omono _ _ S3).
    eapply sub_step; [apply pre_refl|exact O2T|apply (xmap_eval_ok _ He args s t1 Hg Hn1 I1)|].
    intros [vs s1] [A1 A2]. cbn [fst snd] in *. fold t2 in A1.
    assert (I2 : Inv c t2 s1) by (eapply Inv_soft; [apply S2|exact I1|apply (step_ok_lmono _ _ _ A1)]).
    assert (A1T := step_ok_weaken c _ _ _ _ A1 O2T).
    eapply sub_step; [apply (pre_of_step _ _ _ A1T)|apply omono_refl|apply (xmap_eval_kw_ok _ He kwargs s1 t2 (step_ok_sgood _ _ _ A1) Hn2 I2)|].
    intros [kvs s2] [B1 B2]. cbn [fst snd] in *. fold T in B1.
    assert (AB : step_ok c (t_out T) s s2) by (eapply step_ok_trans; [apply A1T|apply B1|apply omono_refl]).
    destruct (lookup c s2 f) as [fv s3] eqn:El.
    destruct (lookup_ok (t_out T) s2 f fv s3 El (step_ok_sgood _ _ _ AB)) as (C1 & C2 & C3 & C4 & _).
    { intros Hl. apply O2T, (tsoft_omono _ _ S2). eapply lookup_late; [exact Hi|apply (step_ok_lmono _ _ _ AB)|exact Hl]. }
    assert (ABC : step_ok c (t_out T) s s3) by (eapply step_ok_trans; [apply AB|apply C1|apply omono_refl]).
    assert (P3 := pre_of_step _ _ _ ABC).
    destruct fv as [fv|]; [|apply epost_err; exact P3]. destruct fv; try (apply epost_err; exact P3).
    + (* a macro *)
      assert (Gm : mgood (s_clos s3) m0 closure) by (apply (C2 _ eq_refl)).
      assert (Gv : Forall (vgood (s_clos s3)) vs).
      { eapply Forall_impl; [|apply A2]. intros w Hw. rewrite C4. eapply vgood_step; [apply B1|exact Hw]. }
      assert (Gk : Forall (fun kv => vgood (s_clos s3) (snd kv)) kvs) by (rewrite C4; exact B2).
      eapply epost_imp; [|eapply epost_rebase; [exact P3|apply omono_nil|apply (IHm esc s3 m0 closure vs kvs (step_ok_sgood _ _ _ ABC) Gm Gv Gk)]].
      intros [v s4] [D1 D2]. split; auto. cbn [snd] in *.
      eapply step_ok_trans; [apply ABC| |apply omono_refl]. eapply step_ok_weaken; [apply D1|apply omono_nil].
    + (* range *)
      destruct (f0 =? N_range); [|apply epost_err; exact P3].
      destruct vs as [|v1 vs']; [apply epost_err; exact P3|]. destruct v1; try (apply epost_err; exact P3).
      destruct vs'; [|apply epost_err; exact P3]. destruct kvs; [|apply epost_err; exact P3].
      apply epost_ok. split; [exact ABC|]. apply vgood_list, range_list_good.
Qed.

Lemma assoc_good C (kw : list (name * value)) p v : Forall (fun kv => vgood C (snd kv)) kw -> assoc p kw = Some v -> vgood C v.
Proof.
  induction 1 as [|[k w] r Hw Hr IH]; cbn [assoc]; [discriminate|]. destruct (p =? k); auto. intros E. inversion E; subst. exact Hw.
Qed.

Lemma xcall_step fuel : xall_specs fuel -> forall esc, xcall_spec (xcall_macro c (S fuel) esc).
Proof.
  intros (IHe & _ & _ & IHl) esc s mc cl args kwargs Hg Hm Ha Hk.
  cbn [xcall_macro]. fold (xeval c) (xexec_list c).
  destruct (Nat.ltb _ _); [apply epost_err, pre_refl|].
  apply lift_step; [apply pre_refl|]. intros bound E1.
  match goal with |- context [if ?b then _ else _] => destruct b end; [apply epost_err, pre_refl|].
  set (caller_v := match assoc N_caller kwargs with Some v => v | None => VUndef end).
  set (top := mkFrame (if m_caller mc then [(N_caller, caller_v)] else []) None None cl false).
  set (s0 := mkSt [top; base_frame] (s_clos s) [] (s_asks s)).
  set (ps := m_params mc) in *. set (ds := m_defaults mc) in *. set (body := m_body mc) in *.
  assert (Gcv : vgood (s_clos s) caller_v).
  { unfold caller_v. destruct (assoc N_caller kwargs) eqn:Ea; [eapply assoc_good; eauto|exact I]. }
  assert (G0 : sgood s0).
  { destruct Hg as (G1 & G2 & G3). unfold sgood, s0. cbn [s_env s_clos]. split; [discriminate|]. split; auto.
    constructor; [|constructor; [|constructor]].
    - split; [|cbn; intros; discriminate]. unfold top. cbn [f_locals]. intros x w. destruct (m_caller mc); cbn [assoc]; [|discriminate].
      destruct (x =? N_caller); [|discriminate]. intros E. inversion E; subst. exact Gcv.
    - split; cbn; intros; discriminate. }
  set (tm0 := mkT [] [[]]).
  assert (Hn0 : nonempty tm0) by (unfold nonempty; cbn; discriminate).
  assert (I0 : Inv c tm0 s0) by (intros x Hx; cbn in Hx; discriminate).
  destruct (bind_params_good (s_clos s) kwargs Hk _ _ _ E1 Ha) as [Gb Eb].
  assert (Gr : Forall (fun kv => vgood (s_clos s0) (snd kv)) (rev bound)) by (apply Forall_rev, Gb).
  pose proof (xstore_args_ok _ ds (IHe esc) (rev bound) s0 tm0 G0 Hn0 I0 Gr) as SA.
  rewrite map_rev, Eb in SA.
  change (visit_params_l ds (rev ps) tm0) with (visit_params ps ds tm0) in SA.
  set (tm1 := visit_params ps ds tm0) in *.
  assert (Hn1 : nonempty tm1) by (eapply tstep_nonempty, visit_params_step, Hn0).
  set (CR := closure_raw ps ds body).
  assert (O1 : omono (t_out tm1) CR) by (apply (walk_list_omono body tm1 Hn1)).
  (* every name the macro can ask for is in its closure (or is `caller`): nothing is asked *)
  assert (Loc : forall x, mem x CR = true -> localb c s0 x = true).
  { intros x Hx. unfold localb, s0. cbn [s_env s_clos]. rewrite load_cons. unfold frame_find, top. cbn [f_locals f_loop f_closure_ctx].
    destruct Hm as [Hm1 Hm2]. fold ps ds body in Hm1, Hm2.
    destruct (x =? N_caller) eqn:Ec.
    - apply Z.eqb_eq in Ec. subst x. unfold uses_caller in Hm1. fold CR in Hm1. rewrite Hx in Hm1. rewrite Hm1. cbn [assoc]. rewrite Z.eqb_refl. reflexivity.
    - destruct (assoc x (if m_caller mc then [(N_caller, caller_v)] else [])); [reflexivity|].
      assert (Hin : In x (macro_closure ps ds body)).
      { unfold macro_closure. apply filter_In. split; [apply mem_In, Hx|rewrite Ec; reflexivity]. }
      destruct (Hm2 x Hin) as (id & -> & Hc). destruct (cget (s_clos s) id x); [reflexivity|congruence]. }
  match goal with |- epost _ _ ?W _ => set (WW := W) end.
  assert (Inner : epost CR s0 WW (fun p => exists s2, p = (VStr esc (output_of s2), mkSt (s_env s) (s_clos s2) (s_out s) (s_asks s2)) /\ step_ok c CR s0 s2)).
  { unfold WW. eapply sub_step; [apply pre_refl|exact O1|exact SA|].
    intros s1 [A1 A2].
    assert (A1C := step_ok_weaken c _ _ _ _ A1 O1).
    eapply sub_step; [apply (pre_of_step _ _ _ A1C)|apply omono_refl|apply (IHl esc s1 body tm1 (step_ok_sgood _ _ _ A1) Hn1 A2)|].
    intros [sg s2] [B1 _]. cbn [fst snd] in *. apply epost_ok. exists s2. split; [reflexivity|].
    eapply step_ok_trans; [apply A1C|apply B1|apply omono_refl]. }
  assert (NoAsk : forall st', asks_in (AP c CR s0) s0 st' -> s_asks st' = s_asks s).
  { intros st' (l & El & Hl). destruct l as [|x l']; [exact El|]. exfalso.
    destruct (Hl x (or_introl eq_refl)) as [H1 H2]. rewrite (Loc x H1) in H2. discriminate. }
  destruct WW as [[v s']|code a| |]; cbn [epost] in *; try exact I.
  - destruct Inner as (s2 & E & AB). inversion E; subst v s'. clear E.
    assert (El := NoAsk s2 (proj2 (proj2 AB))).
    assert (CE : clos_ext (s_clos s) (s_clos s2)) by (apply (sext_clos _ _ (proj1 AB))).
    split; [|exact I]. cbn [snd]. split; [|split].
    + apply eext_sext; [apply Hg|]. split; [reflexivity|exact CE].
    + destruct Hg as (G1 & G2 & G3). unfold sgood. cbn [s_env s_clos]. split; auto. split; [|apply AB].
      eapply Forall_impl; [|apply G2]. intros fr. apply frame_good_mono, CE.
    + apply asks_in_refl. cbn [s_asks]. exact El.
  - apply asks_in_refl. apply (NoAsk (ast a) Inner).
Qed.
Lemma same_ctx_lmono s s' : same_ctx s s' -> lmono c s s'.
Proof. intros E x. rewrite (same_ctx_localb c s s' x E). auto. Qed.
Lemma same_ctx_sym s s' : same_ctx s s' -> same_ctx s' s.
Proof. intros (A & B & D). repeat split; auto. Qed.
Lemma emit_same s chunk : same_ctx s (emit s chunk).
Proof. repeat split. Qed.
Lemma with_out_same s o : same_ctx s (with_out s o).
Proof. repeat split. Qed.

Lemma t_assign_out x t : t_out (t_assign x t) = t_out t.
Proof. unfold t_assign. destruct (t_assigned t); reflexivity. Qed.
Lemma t_pop_out t : t_out (t_pop t) = t_out t.
Proof. reflexivity. Qed.

(* the names Enclose asks the context for are reported by the walk over the macro *)
Lemma enclose_asks_reported ps ds body t s y : Inv c t s ->
  In y (macro_closure ps ds body) -> localb c s y = false ->
  mem y (t_out (t_pop (visit_macro true ps ds body (t_push t)))) = true.
Proof.
  intros Hi Hy Hl. unfold macro_closure in Hy. apply filter_In in Hy as [Hy1 Hy2].
  assert (Hc : y <> N_caller) by (intros ->; rewrite Z.eqb_refl in Hy2; discriminate).
  apply mem_In in Hy1. rewrite t_pop_out.
  destruct (asgl (t_assigned t) y) eqn:Ea.
  - destruct (Hi y Ea) as [H|H]; [|congruence].
    assert (S : tstep (t_push t) (visit_macro true ps ds body (t_push t))).
    { apply visit_macro_step; [|apply push_nonempty]. apply Forall_forall. intros st _. apply walk_step. }
    apply (tstep_omono _ _ S). exact H.
  - apply closure_in_context; auto.
Qed.

Lemma visit_macro_step' dc ps ds body t : nonempty t -> tstep t (visit_macro dc ps ds body t).
Proof. intros Hn. apply visit_macro_step; auto. apply Forall_forall. intros st _. apply walk_step. Qed.


Lemma pre_same o s s1 s2 : pre o s s1 -> same_ctx s1 s2 -> pre o s s2.
Proof. intros P E. eapply pre_eq; [exact P|apply E|apply same_ctx_lmono, E]. Qed.

Lemma bindE_assoc {A B C} (r : outE A) (f : A -> outE B) (g : B -> outE C) :
  bindE (bindE r f) g = bindE r (fun a => bindE (f a) g).
Proof. destruct r; reflexivity. Qed.

Lemma xexec_step fuel : xall_specs fuel -> forall esc, xexec_spec (xexec c (S fuel) esc).
Proof.
  intros (IHe & IHm & _ & IHl) esc s st t Hg Hn Hi. assert (He := IHe esc).
  rewrite walk_eq. cbn [xexec]. fold (xeval c) (xexec_list c) (xcall_macro c). destruct st.
  - (* raw *) apply epost_ok. split; [apply step_ok_same; [exact Hg|apply emit_same]|].
    intros _. eapply Inv_lmono; [exact Hi|apply same_ctx_lmono, emit_same].
  - (* emit *)
    eapply (ev_step _ _ s s e t); [exact He|apply pre_refl|exact Hg|exact Hn|exact Hi|apply omono_refl|].
    intros v s1 A1 A2 A3 A4 A5 P1. destruct (_ && _); [apply epost_err; exact P1|]. apply epost_ok. split.
    + eapply step_ok_trans; [apply A1|apply step_ok_same; [exact A5|apply emit_same]|apply omono_refl].
    + intros _. eapply Inv_lmono; [exact A3|apply same_ctx_lmono, emit_same].
  - (* if *) apply xif_arms_ok; auto.
  - (* for *)
    cbn zeta. set (t1 := visit_expr iter t).
    set (ta := assign_target t0 (t_push t1)).
    set (tfv := match filter with Some f => visit_expr f ta | None => ta end).
    set (tb := t_assign N_loop tfv).
    set (t6 := t_pop (walk_list body tb)).
    set (T := t_pop (match els with Some b => walk_list b (t_push t6) | None => t_push t6 end)).
    assert (Hn1 : nonempty t1) by (apply visit_expr_nonempty, Hn).
    assert (Sa : tstep (t_push t1) ta) by (apply assign_target_step, push_nonempty).
    assert (Hna : nonempty ta) by (eapply tstep_nonempty, Sa).
    assert (Sv : tsoft ta tfv) by (unfold tfv; destruct filter; [apply visit_expr_soft, Hna|apply tsoft_refl, Hna]).
    assert (Hnv : nonempty tfv) by (eapply tsoft_nonempty, Sv).
    assert (Sb : tstep tfv tb) by (apply tstep_assign, Hnv).
    assert (Hnb : nonempty tb) by (eapply tstep_nonempty, Sb).
    assert (Sw : tstep tb (walk_list body tb)) by (apply walk_list_step', Hnb).
    assert (Sall : tstep (t_push t1) (walk_list body tb)).
    { eapply tstep_trans; [apply Sa|]. eapply tstep_trans; [apply tsoft_step, Sv|]. eapply tstep_trans; [apply Sb|apply Sw]. }
    assert (S16 : tsoft t1 t6) by (apply tstep_push_pop; auto).
    assert (Hn6 : nonempty t6) by (eapply tsoft_nonempty, S16).
    assert (S6T : tsoft t6 T).
    { unfold T. apply tstep_push_pop; auto. destruct els; [apply walk_list_step', push_nonempty|apply tstep_refl, push_nonempty]. }
    assert (Ofv : omono (t_out tfv) (t_out t6)).
    { unfold t6. rewrite t_pop_out. eapply omono_trans; [apply tstep_omono, Sb|apply tstep_omono, Sw]. }
    assert (O6T := tsoft_omono _ _ S6T). assert (O16 := tsoft_omono _ _ S16).
    assert (O1T : omono (t_out t1) (t_out T)) by (eapply omono_trans; eauto).
    assert (OfT : omono (t_out tfv) (t_out T)) by (eapply omono_trans; eauto).
    eapply (ev_step _ _ s s iter t); [exact He|apply pre_refl|exact Hg|exact Hn|exact Hi|exact O1T|].
    intros iv s1 A1 A2 A3 A4 A5 P1. fold t1 in A1, A3, A4.
    apply lift_step; [exact P1|]. intros items0 E2.
    assert (G0 : Forall (vgood (s_clos s1)) items0).
    { destruct iv; try discriminate; try (destruct (u_strictish _); try discriminate); injection E2 as <-;
      first [apply vgood_list; exact A2 | constructor
            | (apply (map_keys_all (vgood (s_clos s1))), vgood_map; exact A2)
            | (apply Forall_forall; intros w Hw; apply in_map_iff in Hw as (ch & <- & _); exact I)]. }
    assert (A1T := step_ok_weaken c _ _ _ _ A1 O1T).
    (* the filter pass *)
    eapply (sub_step (t_out T) (t_out tfv) s s1 _ _ (fun p => step_ok c (t_out tfv) s1 (snd p) /\ Forall (vgood (s_clos (snd p))) (fst p))); [exact P1|exact OfT| |].
    { unfold tfv. destruct filter as [fe|].
      - apply (xfilter_items_ok _ t0 fe t1 s1 He A4 A3 items0 s1 A5 (lmono_refl c s1) G0).
      - apply epost_ok. split; [apply step_ok_refl, A5|exact G0]. }
    intros [items s2] [F1 F2]. cbn [fst snd] in *.
    assert (I12 : Inv c t1 s2) by (eapply Inv_lmono; [exact A3|apply (step_ok_lmono _ _ _ F1)]).
    assert (G2 := step_ok_sgood _ _ _ F1).
    assert (A2T : step_ok c (t_out T) s s2).
    { eapply step_ok_trans; [apply A1T| |apply omono_refl]. eapply step_ok_weaken; [apply F1|exact OfT]. }
    (* the iterations *)
    set (n := lenZ items). set (O := t_out (walk_list body tb)).
    assert (OOT : omono O (t_out T)) by (unfold O; rewrite <- (t_pop_out (walk_list body tb)); exact O6T).
    assert (L0 : loop_state n O s2 (push_frame s2 (loop_frame0 n true))).
    { split; [apply sext_refl; cbn; discriminate|]. split; [apply push_sgood; [exact G2|apply fresh_frame_good]|]. apply asks_in_refl. reflexivity. }
    eapply (sub_step (t_out T) O s s2 _ _ (loop_state n O s2)); [apply (pre_of_step _ _ _ A2T)|exact OOT| |].
    { apply (xloop_items_ok _ t0 body n filter t1 s2 (IHl esc) A4 I12 G2 items _ 0 L0 F2). }
    intros s5 (X1 & X2 & X3). fold ta tfv tb O in X3.
    destruct (pop_sext s2 _ s5 (proj1 G2) X1) as [Y1 Y2].
    assert (G6 : sgood (pop_frame s5)) by (eapply pop_sgood; eauto; apply G2).
    set (s6 := pop_frame s5) in *.
    assert (L26 : step_ok c (t_out t6) s2 s6).
    { split; [exact Y1|]. split; [exact G6|]. eapply asks_in_eq; [| |apply X3]; reflexivity. }
    assert (I6 : Inv c t6 s6) by (eapply Inv_soft; [apply S16|exact I12|apply (step_ok_lmono _ _ _ L26)]).
    assert (PreT : step_ok c (t_out T) s s6).
    { eapply step_ok_trans; [apply A2T| |apply omono_refl]. eapply step_ok_weaken; [apply L26|exact O6T]. }
    assert (NoElse : epost (t_out T) s (OkE (SigNormal, s6)) (SG (t_out T) s T)).
    { apply epost_ok. split; [exact PreT|]. intros _. eapply Inv_soft; [apply S6T|exact I6|apply lmono_refl]. }
    destruct items as [|i0 items']; [|exact NoElse]. destruct els as [eb|]; [|exact NoElse].
    assert (Ip : Inv c (t_push t6) s6) by (eapply Inv_push; [exact I6|apply lmono_refl]).
    eapply epost_imp; [|eapply epost_rebase; [apply (pre_of_step _ _ _ PreT)| |apply (IHl esc s6 eb (t_push t6) G6 (push_nonempty t6) Ip)]].
    + intros [sg s'] [B1 _]. cbn [fst snd] in *. split.
      * eapply step_ok_trans; [apply PreT| |apply omono_refl]. eapply step_ok_weaken; [apply B1|]. unfold T. rewrite t_pop_out. apply omono_refl.
      * intros _. eapply Inv_soft; [apply S6T|exact I6|apply (step_ok_lmono _ _ _ B1)].
    + unfold T. rewrite t_pop_out. apply omono_refl.
  - (* set: the right-hand side is evaluated completely before the target is bound *)
    assert (Hn1 := visit_expr_nonempty e t Hn).
    assert (Oa : omono (t_out (visit_expr e t)) (t_out (assign_target t0 (visit_expr e t)))) by (apply tstep_omono, assign_target_step, Hn1).
    eapply (ev_step _ _ s s e t); [exact He|apply pre_refl|exact Hg|exact Hn|exact Hi|exact Oa|].
    intros v s1 A1 A2 A3 A4 A5 P1.
    apply lift_step; [exact P1|]. intros s2 H1.
    destruct (bind_target_ok (t_out (assign_target t0 (visit_expr e t))) t0 s1 v s2 H1 A5 A2) as [B1 B2].
    apply epost_ok. split.
    + eapply step_ok_trans; [apply A1|apply B1|exact Oa].
    + intros _. apply (B2 (visit_expr e t) s1 A4 A3 (lmono_refl c s1)).
  - (* set block *)
    set (t2 := t_pop (walk_list body (t_push t))).
    assert (S2 : tsoft t t2) by (apply scoped_body_soft', Hn).
    assert (Hn2 : nonempty t2) by (eapply tsoft_nonempty, S2).
    assert (G0 : sgood (with_out s [])) by (eapply same_ctx_sgood; [apply with_out_same|exact Hg]).
    assert (Ip : Inv c (t_push t) (with_out s [])) by (eapply Inv_push; [exact Hi|apply same_ctx_lmono, with_out_same]).
    assert (OT : omono (t_out (walk_list body (t_push t))) (t_out (t_assign x t2))) by (rewrite t_assign_out; unfold t2; rewrite t_pop_out; apply omono_refl).
    set (oT := t_out (t_assign x t2)) in *.
    rewrite bindE_assoc. eapply sub_step; [apply (pre_same _ _ _ _ (pre_refl oT s) (with_out_same s []))|exact OT|apply (IHl esc _ body (t_push t) G0 (push_nonempty t) Ip)|].
    intros [sg1 s1'] [B1 _]. cbn [fst snd bindE] in *.
    set (sa := with_out s1' (s_out s)).
    assert (Sa : step_ok c oT s sa).
    { eapply step_ok_trans; [apply step_ok_same; [exact Hg|apply (with_out_same s [])]| |apply omono_refl].
      eapply step_ok_trans; [apply (step_ok_weaken c _ _ _ _ B1 OT)|apply step_ok_same; [apply B1|apply with_out_same]|apply omono_refl]. }
    destruct sg1; try (apply epost_ok; split; [exact Sa|intros; discriminate]).
    apply lift_step; [apply (pre_of_step _ _ _ Sa)|]. intros v E3.
    assert (Gv : vgood (s_clos sa) v).
    { destruct filter; [eapply xdo_filter_good; [exact E3|exact I|constructor]|inversion E3; exact I]. }
    assert (S1 := store_step_ok c oT sa x v (step_ok_sgood _ _ _ Sa) Gv). apply epost_ok. split.
    + eapply step_ok_trans; [apply Sa|apply S1|apply omono_refl].
    + intros _. eapply Inv_assign; [exact Hn2| |apply (step_ok_lmono _ _ _ S1)|apply store_local, (step_ok_sgood _ _ _ Sa)].
      eapply Inv_soft; [apply S2|exact Hi|apply (step_ok_lmono _ _ _ Sa)].
  - (* with *)
    set (sp := push_frame s empty_frame).
    assert (Gp : sgood sp) by (apply push_sgood; [exact Hg|apply fresh_frame_good]).
    assert (Ip : Inv c (t_push t) sp) by (eapply Inv_push; [exact Hi|apply push_lmono; reflexivity]).
    set (tw := visit_binds binds (t_push t)).
    assert (Sw : tstep (t_push t) tw) by (apply visit_binds_step, push_nonempty).
    assert (Hnw : nonempty tw) by (eapply tstep_nonempty, Sw).
    set (oT := t_out (t_pop (walk_list body tw))).
    assert (OwT : omono (t_out tw) oT) by (unfold oT; rewrite t_pop_out; apply walk_list_omono, Hnw).
    assert (Pp : pre oT s sp) by (apply pre_push; reflexivity).
    eapply sub_step; [exact Pp|exact OwT|apply (xwith_binds_ok _ He binds sp (t_push t) Gp (push_nonempty t) Ip)|].
    intros s1 [A1 A2]. fold tw in A1, A2.
    assert (P1 : pre oT s s1) by (eapply pre_step; eauto).
    eapply sub_step; [exact P1|unfold oT; rewrite t_pop_out; apply omono_refl|apply (IHl esc s1 body tw (step_ok_sgood _ _ _ A1) Hnw A2)|].
    intros [sg0 s2] [B1 _]. cbn [fst snd] in *. apply epost_ok.
    assert (AB : step_ok c oT sp s2).
    { eapply step_ok_trans; [apply (step_ok_weaken c _ _ _ _ A1 OwT)| |apply omono_refl]. eapply step_ok_weaken; [apply B1|]. unfold oT. rewrite t_pop_out. apply omono_refl. }
    assert (P := scoped_step _ s empty_frame s2 Hg eq_refl AB). split; [exact P|].
    intros _. eapply Inv_scoped; [|exact Hi|apply (step_ok_lmono _ _ _ P)].
    eapply tstep_trans; [apply Sw|apply walk_list_step', Hnw].
  - (* macro *)
    destruct (enclose c s _) as [s1 cl] eqn:E.
    destruct (enclose_spec c Hroot _ _ _ _ E Hg) as (X1 & X2 & X3 & X4 & _).
    set (t2 := t_pop (visit_macro true params defaults body (t_push t))).
    assert (S2 : tsoft t t2) by (apply tstep_push_pop; [exact Hn|apply visit_macro_step', push_nonempty]).
    assert (Hn2 : nonempty t2) by (eapply tsoft_nonempty, S2).
    set (mc := mkMacro m0 params defaults body (uses_caller params defaults body)).
    assert (Gm : vgood (s_clos s1) (VMacro mc cl)) by (split; [reflexivity|exact X4]).
    assert (E1 : step_ok c (t_out (t_assign m0 t2)) s s1).
    { split; [exact X1|]. split; [exact X2|]. eapply asks_in_weaken; [|apply X3]. intros y [Hy1 Hy2]. split; [|exact Hy2].
      rewrite t_assign_out. eapply enclose_asks_reported; eauto. }
    assert (S1 := store_step_ok c (t_out (t_assign m0 t2)) s1 m0 (VMacro mc cl) X2 Gm). apply epost_ok. split.
    + eapply step_ok_trans; [apply E1|apply S1|apply omono_refl].
    + intros _. eapply Inv_assign; [exact Hn2| |apply (step_ok_lmono _ _ _ S1)|apply store_local, X2].
      eapply Inv_soft; [apply S2|exact Hi|apply sext_lmono, X1].
  - (* call block *)
    set (t1 := t_lookup m0 t). assert (S1 : tsoft t t1) by (apply tsoft_lookup, Hn).
    assert (Hn1 : nonempty t1) by (eapply tsoft_nonempty, S1).
    assert (I1 : Inv c t1 s) by (eapply Inv_soft; [apply S1|exact Hi|apply lmono_refl]).
    set (t2 := visit_list args t1). assert (S2 : tsoft t1 t2) by (apply visit_list_soft', Hn1).
    assert (Hn2 : nonempty t2) by (eapply tsoft_nonempty, S2).
    set (T := t_pop (visit_macro true [] [] body (t_push t2))).
    assert (S3 : tsoft t2 T) by (apply tstep_push_pop; [exact Hn2|apply visit_macro_step', push_nonempty]).
    assert (O2T := tsoft_omono _ _ S3).
    eapply sub_step; [apply pre_refl|exact O2T|apply (xmap_eval_ok _ He args s t1 Hg Hn1 I1)|].
    intros [vs s1] [A1 A2]. cbn [fst snd] in *. fold t2 in A1.
    assert (I2 : Inv c t2 s1) by (eapply Inv_soft; [apply S2|exact I1|apply (step_ok_lmono _ _ _ A1)]).
    destruct (enclose c s1 _) as [s2 cl] eqn:E. destruct (lookup c s2 m0) as [fv s3] eqn:El.
    destruct (enclose_spec c Hroot _ _ _ _ E (step_ok_sgood _ _ _ A1)) as (X1 & X2 & X3 & X4 & _).
    assert (E2 : step_ok c (t_out T) s1 s2).
    { split; [exact X1|]. split; [exact X2|]. eapply asks_in_weaken; [|apply X3]. intros y [Hy1 Hy2]. split; [|exact Hy2].
      eapply enclose_asks_reported; eauto. }
    assert (A12 : step_ok c (t_out T) s s2) by (eapply step_ok_trans; [apply A1|apply E2|exact O2T]).
    destruct (lookup_ok (t_out T) s2 m0 fv s3 El X2) as (C1 & C2 & C3 & C4 & _).
    { intros Hl. apply O2T, (tsoft_omono _ _ S2). eapply lookup_late; [exact Hi|apply (step_ok_lmono _ _ _ A12)|exact Hl]. }
    assert (A13 : step_ok c (t_out T) s s3) by (eapply step_ok_trans; [apply A12|apply C1|apply omono_refl]).
    assert (P3 := pre_of_step _ _ _ A13).
    destruct fv as [fv|]; [|apply epost_err; exact P3]. destruct fv; try (apply epost_err; exact P3).
    assert (Gm : mgood (s_clos s3) m1 closure) by (apply (C2 _ eq_refl)).
    assert (Gv : Forall (vgood (s_clos s3)) vs).
    { eapply Forall_impl; [|apply A2]. intros w Hw. rewrite C4. eapply vgood_step; [apply E2|exact Hw]. }
    assert (Gk : Forall (fun kv => vgood (s_clos s3) (snd kv)) [(N_caller, VMacro (mkMacro N_caller [] [] body (uses_caller [] [] body)) cl)]).
    { constructor; [|constructor]. cbn [snd]. rewrite C4. split; [reflexivity|exact X4]. }
    eapply sub_step; [exact P3|apply omono_nil|apply (IHm esc s3 m1 closure vs _ (step_ok_sgood _ _ _ A13) Gm Gv Gk)|].
    intros [v s4] [D1 D2]. cbn [fst snd] in *.
    assert (A14 : step_ok c (t_out T) s s4).
    { eapply step_ok_trans; [apply A13| |apply omono_refl]. eapply step_ok_weaken; [apply D1|apply omono_nil]. }
    apply epost_ok. split.
    + eapply step_ok_trans; [apply A14|apply step_ok_same; [apply A14|apply emit_same]|apply omono_refl].
    + intros _. eapply Inv_soft; [eapply tsoft_trans; [apply S1|]; eapply tsoft_trans; [apply S2|apply S3]|exact Hi|].
      eapply lmono_trans; [apply (step_ok_lmono _ _ _ A14)|apply same_ctx_lmono, emit_same].
  - (* filter block *)
    set (t2 := t_pop (walk_list body (t_push t))).
    assert (S2 : tsoft t t2) by (apply scoped_body_soft', Hn).
    assert (G0 : sgood (with_out s [])) by (eapply same_ctx_sgood; [apply with_out_same|exact Hg]).
    assert (Ip : Inv c (t_push t) (with_out s [])) by (eapply Inv_push; [exact Hi|apply same_ctx_lmono, with_out_same]).
    assert (OT : omono (t_out (walk_list body (t_push t))) (t_out t2)) by (unfold t2; rewrite t_pop_out; apply omono_refl).
    rewrite bindE_assoc. eapply sub_step; [apply (pre_same _ _ _ _ (pre_refl (t_out t2) s) (with_out_same s []))|exact OT|apply (IHl esc _ body (t_push t) G0 (push_nonempty t) Ip)|].
    intros [sg1 s1'] [B1 _]. cbn [fst snd bindE] in *.
    set (sa := with_out s1' (s_out s)).
    assert (Sa : step_ok c (t_out t2) s sa).
    { eapply step_ok_trans; [apply step_ok_same; [exact Hg|apply (with_out_same s [])]| |apply omono_refl].
      eapply step_ok_trans; [apply (step_ok_weaken c _ _ _ _ B1 OT)|apply step_ok_same; [apply B1|apply with_out_same]|apply omono_refl]. }
    assert (Ia : Inv c t2 sa) by (eapply Inv_soft; [apply S2|exact Hi|apply (step_ok_lmono _ _ _ Sa)]).
    destruct sg1; try (apply epost_ok; split; [exact Sa|intros; discriminate]).
    apply lift_step; [apply (pre_of_step _ _ _ Sa)|]. intros v E3. apply epost_ok. split.
    + eapply step_ok_trans; [apply Sa|apply step_ok_same; [apply Sa|apply emit_same]|apply omono_refl].
    + intros _. eapply Inv_lmono; [exact Ia|apply same_ctx_lmono, emit_same].
  - (* autoescape *)
    set (t1 := visit_expr v t). set (T := t_pop (walk_list body (t_push t1))).
    assert (Hn1 : nonempty t1) by (apply visit_expr_nonempty, Hn).
    assert (S1 : tsoft t1 T) by (apply scoped_body_soft', Hn1).
    assert (O1T := tsoft_omono _ _ S1).
    eapply (ev_step _ _ s s v t); [exact He|apply pre_refl|exact Hg|exact Hn|exact Hi|exact O1T|].
    intros v0 s1 A1 A2 A3 A4 A5 P1. fold t1 in A1, A3.
    apply lift_step; [exact P1|]. intros esc' _.
    assert (Ip : Inv c (t_push t1) s1) by (eapply Inv_push; [exact A3|apply lmono_refl]).
    assert (A1T := step_ok_weaken c _ _ _ _ A1 O1T).
    eapply epost_imp; [|eapply epost_rebase; [exact P1| |apply (IHl esc' s1 body (t_push t1) A5 (push_nonempty t1) Ip)]].
    + intros [sg s'] [B1 _]. cbn [fst snd] in *. split.
      * eapply step_ok_trans; [apply A1T| |apply omono_refl]. eapply step_ok_weaken; [apply B1|]. unfold T. rewrite t_pop_out. apply omono_refl.
      * intros _. eapply Inv_soft; [apply S1|exact A3|apply (step_ok_lmono _ _ _ B1)].
    + unfold T. rewrite t_pop_out. apply omono_refl.
  - (* break *) apply epost_ok. split; [apply step_ok_refl, Hg|intros; discriminate].
  - (* continue *) apply epost_ok. split; [apply step_ok_refl, Hg|intros; discriminate].
Qed.

Lemma xexec_list_step fuel : xall_specs fuel -> forall esc, xexec_list_spec (xexec_list c (S fuel) esc).
Proof.
  intros (_ & _ & IHx & IHl) esc s l t Hg Hn Hi. cbn [xexec_list]. fold (xexec c). destruct l as [|st r].
  - apply epost_ok. split; [apply step_ok_refl, Hg|intros _; exact Hi].
  - change (walk_list (st :: r) t) with (walk_list r (walk st t)).
    assert (Hn1 : nonempty (walk st t)) by (eapply tstep_nonempty, walk_step, Hn).
    assert (Om : omono (t_out (walk st t)) (t_out (walk_list r (walk st t)))) by (apply walk_list_omono, Hn1).
    eapply sub_step; [apply pre_refl|exact Om|apply (IHx esc s st t Hg Hn Hi)|].
    intros [sg0 s1] [A1 A2]. cbn [fst snd] in *.
    assert (A1T := step_ok_weaken c _ _ _ _ A1 Om).
    destruct sg0; try (apply epost_ok; split; [exact A1T|intros; discriminate]).
    eapply epost_imp; [|eapply epost_rebase; [apply (pre_of_step _ _ _ A1T)|apply omono_refl|apply (IHl esc s1 r (walk st t) (step_ok_sgood _ _ _ A1) Hn1 (A2 eq_refl))]].
    intros [sg s'] [B1 B2]. split; auto. cbn [snd] in *. eapply step_ok_trans; [apply A1T|apply B1|apply omono_refl].
Qed.

Theorem xall_specs_hold : forall fuel, xall_specs fuel.
Proof.
  induction fuel as [|fuel IH].
  - repeat split; intros; exact I.
  - split; [apply xeval_step, IH|]. split; [apply xcall_step, IH|]. split; [apply xexec_step, IH|apply xexec_list_step, IH].
Qed.
End Main.

(* ---- the theorems ---- *)
Definition plain_context (c : cfg) : bool := forallb (fun kv => vplain (snd kv)) (c_root c).

Lemma plain_root_good c : plain_context c = true -> root_good c.
Proof.
  unfold plain_context, root_good. intros H C x v. induction (c_root c) as [|[k w] r IH]; cbn [assoc]; [discriminate|].
  cbn [forallb snd] in H. apply andb_prop in H as [H1 H2]. destruct (x =? k); [|apply IH, H2].
  intros E. inversion E; subst. apply vplain_good, H1.
Qed.

Lemma init_good c : sgood (init_state) /\ Inv c (mkT [] [[]]) init_state /\ nonempty (mkT [] [[]]).
Proof.
  split; [|split].
  - unfold sgood, init_state. cbn [s_env s_clos]. split; [discriminate|]. split.
    + constructor; [|constructor]. split; cbn; intros; discriminate.
    + intros id x v. unfold cget. destruct id; cbn; discriminate.
  - intros x Hx. cbn in Hx. discriminate.
  - unfold nonempty. cbn. discriminate.
Qed.

(* every outcome: the lookups of a finished render and the lookups recorded up to a failure *)
Lemma undeclared_sound_proof (c : cfg) (fuel : nat) (body : list stmt) :
  plain_context c = true ->
  forall x, In x (asks_of (run_asks c fuel body)) -> In x (find_undeclared body).
Proof.
  intros Hp x Hx. assert (Hroot := plain_root_good c Hp).
  destruct (xall_specs_hold c Hroot fuel) as (_ & _ & _ & Hl).
  destruct (init_good c) as (G & I0 & N0).
  pose proof (Hl (c_escape c) init_state body (mkT [] [[]]) G N0 I0) as H.
  unfold run_asks in Hx. destruct (xexec_list c fuel (c_escape c) init_state body) as [[sg s]|code a| |]; cbn [bindE asks_of epost] in *; try contradiction.
  - destruct H as [(_ & _ & (l & El & Hin)) _]. cbn [snd] in *.
    unfold init_state in El. cbn [s_asks] in El. rewrite app_nil_r in El. rewrite El in Hx. apply mem_In, (Hin x Hx).
  - destruct H as (l & El & Hin). cbn [ast s_asks init_state] in El. rewrite app_nil_r in El. subst a. apply mem_In, (Hin x Hx).
Qed.

(* ... in particular for the shared interpreter, whose successful runs are runs of this one *)
Lemma undeclared_sound_interp_proof (c : cfg) (fuel : nat) (body : list stmt) (s : st) :
  plain_context c = true -> Interp.run c fuel body = Ok s ->
  forall x, In x (s_asks s) -> In x (find_undeclared body).
Proof.
  intros Hp Hr x Hx. apply (undeclared_sound_proof c fuel body Hp). rewrite (xrun_agrees_proof c fuel body s Hr). exact Hx.
Qed.

(* calling a well-formed macro never asks the render context for anything, whether the call finishes
   or fails: every free name of the macro is in its closure *)
Lemma macro_call_asks_nothing_proof (c : cfg) fuel esc s mc cl args kwargs :
  plain_context c = true -> sgood s -> mgood (s_clos s) mc cl ->
  Forall (vgood (s_clos s)) args -> Forall (fun kv => vgood (s_clos s) (snd kv)) kwargs ->
  match xcall_macro c fuel esc s mc cl args kwargs with
  | OkE (_, s') => s_asks s' = s_asks s
  | ErrE _ a => a = s_asks s
  | _ => True
  end.
Proof.
  intros Hp Hg Hm Ha Hk. assert (Hroot := plain_root_good c Hp).
  destruct (xall_specs_hold c Hroot fuel) as (_ & Hc & _ & _).
  pose proof (Hc esc s mc cl args kwargs Hg Hm Ha Hk) as H.
  destruct (xcall_macro c fuel esc s mc cl args kwargs) as [[v s']|code a| |]; cbn [epost] in H; auto.
  - destruct H as [(_ & _ & (l & El & Hin)) _]. cbn [snd] in *.
    destruct l as [|x l']; [exact El|]. destruct (Hin x (or_introl eq_refl)) as [Hx _]. discriminate.
  - destruct H as (l & El & Hin). destruct l as [|x l']; [exact El|]. destruct (Hin x (or_introl eq_refl)) as [Hx _]. discriminate.
Qed.

(* nested mode (`undeclared_variables(true)`): every key a render asks the context for, whatever its
   outcome, is the first segment of a reported dotted name *)
Lemma nested_sound_proof (c : cfg) (fuel : nat) (body : list stmt) :
  plain_context c = true ->
  forall x, In x (asks_of (run_asks c fuel body)) -> exists p, In p (find_undeclared_nested body) /\ fst p = x.
Proof.
  intros Hp x Hx. assert (H := undeclared_sound_proof c fuel body Hp x Hx).
  apply mem_In, flat_in_nested in H. unfold heads_mem in H. apply existsb_exists in H as (p & Hp1 & Hp2).
  exists p. split; auto. apply Z.eqb_eq, Hp2.
Qed.

(* ---- the tracker before the fixes: refuted on each construct whose visit was wrong ---- *)
Definition asked_not_reported (report : list stmt -> list name) (c : cfg) (fuel : nat) (body : list stmt) : bool :=
  match run_asks c fuel body with
  | GasE | PanicE => false
  | o => existsb (fun x => negb (mem x (report body))) (asks_of o)
  end.

Definition X : name := 100.
Definition M : name := 101.
Definition Y : name := 102.
Definition cfg0 := mkCfg Lenient [] false.
Definition p_set := [SSet (TVar X) (EVar X)].                                              (* {% set x = x %} *)
Definition p_with := [SWith [(TVar X, EVar X)] []].                                      (* {% with x = x %}{% endwith %} *)
Definition p_setblock := [SSetBlock X [SEmit (EVar X)] None].                       (* {% set x %}{{ x }}{% endset %} *)
Definition p_macro_default := [SMacro M [X] [(X, EVar X)] [SEmit (EVar X)]; SEmit (ECall M [] [])].   (* {% macro m(x=x) %}{{ x }}{% endmacro %}{{ m() }} *)
Definition p_macro_default2 := [SMacro M [Y; X] [(X, EVar Y)] [SEmit (EVar X)]; SEmit (ECall M [EConst (LInt 1)] [])]. (* {% macro m(y, x=y) %} *)
Definition p_macro_rec := [SMacro M [] [] [SEmit (EVar M)]].                        (* {% macro m() %}{{ m }}{% endmacro %} *)
Definition p_loop_iter := [SFor (TVar X) (EVar N_loop) None [] None false].          (* {% for x in loop %}{% endfor %} *)
Definition p_loop_filter := [SFor (TVar X) (EList [EConst (LInt 1)]) (Some (EVar N_loop)) [] None false]. (* {% for x in [1] if loop %} *)
Definition p_autoescape := [SAutoEscape (EVar X) []].                               (* {% autoescape x %}{% endautoescape %} *)
Definition p_slice := [SEmit (EFilter F_length (ESlice (EVar X) (EConst (LInt 1)) (EConst (LInt 2)) (EConst LNone)) [])].  (* {{ x[1:2]|length }} *)
Definition p_setattr := [SSetAttr X (EConst (LInt 1))].                             (* {% set x.attr = 1 %}: fails after asking for x *)
Definition refutation_programs :=
  [p_set; p_with; p_setblock; p_macro_default; p_macro_default2; p_macro_rec; p_loop_iter; p_loop_filter; p_autoescape; p_slice; p_setattr].

Lemma refuted_before_fix_proof :
  forallb (asked_not_reported find_undeclared_old cfg0 50) refutation_programs = true /\
  forallb (fun p => negb (asked_not_reported find_undeclared cfg0 50 p)) refutation_programs = true.
Proof. split; vm_compute; reflexivity. Qed.

(* non-vacuity, success: a program with a set, a macro whose default reads the context, a filtered loop,
   a call block and a slice, on a context of plain values: renders "8182" and "2", asks six times *)
Definition demo_ctx := mkCfg Lenient [(X, VList [VInt 1; VInt 2]); (Y, VInt 5)] false.
Definition demo_body : list stmt :=
  [ SSet (TVar 104) (EConst (LInt 3));
    SMacro M [103] [(103, EVar Y)] [SEmit (EBin OAdd (EVar 103) (EVar 104)); SEmit (ECall N_caller [] [])];
    SFor (TVar 105) (EVar X) (Some (ECmp (EVar 105) [(CLt, EVar Y)])) [SCallBlock M [] [SEmit (EVar 105)]] None false;
    SEmit (EFilter F_length (ESlice (EVar X) (EConst LNone) (EConst LNone) (EConst (LInt (-1)))) []);
    SEmit (EVar 106) ].
Lemma demo_runs : exists s, run_asks demo_ctx 60 demo_body = OkE s /\ plain_context demo_ctx = true /\ length (s_asks s) = 6%nat.
Proof. eexists. split; [vm_compute; reflexivity|]. split; reflexivity. Qed.

(* non-vacuity, failure: the render fails in its second statement, an assignment to an attribute of a
   value that is no namespace, after it asked for three keys (x; then the value and the namespace of
   the assignment); the third statement is not reached *)
Definition demo_fail : list stmt :=
  [ SEmit (EVar X); SSetAttr Y (EVar 107); SEmit (EVar 108) ].
Lemma demo_fails : exists a, run_asks demo_ctx 60 demo_fail = ErrE E_InvalidOperation a /\ length a = 3%nat.
Proof. eexists. split; [vm_compute; reflexivity|reflexivity]. Qed.

(* ---- Lang v2: maps and unpacking assignments ---- *)
(* the pre-fix tracker marked BOTH names of an unpacking target assigned before it visited the right-hand
   side (set and with), also when the assignment then fails to unpack; a map literal's keys and values are
   visited like any other sub-expression *)
Definition p_set_pair := [SSet (TPair X Y) (EList [EVar X; EVar Y])].               (* {% set x, y = [x, y] %} *)
Definition p_with_pair := [SWith [(TPair X Y, EList [EVar Y; EVar X])] []].         (* {% with (x, y) = [y, x] %}{% endwith %} *)
Definition p_set_pair_fail := [SSet (TPair X Y) (EVar Y)].                          (* {% set x, y = y %}: asks y, then cannot unpack *)
Definition p_set_map := [SSet (TVar X) (EMap [(EVar X, EConst (LInt 1))])].         (* {% set x = {x: 1} %} *)
Definition refutation_programs_v2 := [p_set_pair; p_with_pair; p_set_pair_fail; p_set_map].

Lemma refuted_before_fix_v2_proof :
  forallb (asked_not_reported find_undeclared_old cfg0 50) refutation_programs_v2 = true /\
  forallb (fun p => negb (asked_not_reported find_undeclared cfg0 50 p)) refutation_programs_v2 = true.
Proof. split; vm_compute; reflexivity. Qed.

(* non-vacuity with maps, success: {% set a, b = {"p": x, "q": y} %} (unpacks into the keys "p", "q"),
   a loop over a map literal whose key is a variable, a `with` that unpacks [{"p": v}, 1] and reads the
   map by attribute and by subscript, the length of a map from a context that holds a map: renders
   "pq771" and asks five times (x, y, z, v, the context map) *)
Definition demo_ctx2 := mkCfg Lenient [(X, VList [VInt 1; VInt 2]); (Y, VInt 5); (110, VInt 7);
                                        (111, VMap (map_of_pairs [(VStr false [97], VInt 1)]))] false.
Definition demo_map_body : list stmt :=
  [ SSet (TPair 104 105) (EMap [(EConst (LStr [112]), EVar X); (EConst (LStr [113]), EVar Y)]);
    SFor (TVar 106) (EMap [(EVar 104, EVar 107)]) None [SEmit (EVar 106); SEmit (EVar 105)] None false;
    SWith [(TPair 108 109, EList [EMap [(EConst (LStr [112]), EVar 110)]; EConst (LInt 1)])]
          [SEmit (EAttr (EVar 108) 1112); SEmit (EItem (EVar 108) (EVar 104))];
    SEmit (EFilter F_length (EVar 111) []) ].
Lemma demo_maps_run : exists s, run_asks demo_ctx2 60 demo_map_body = OkE s /\ plain_context demo_ctx2 = true /\
  output_of s = [112; 113; 55; 55; 49] /\ length (s_asks s) = 5%nat.
Proof. eexists. split; [vm_compute; reflexivity|]. repeat split; reflexivity. Qed.

(* ... failure: {{ x }}{% set a, b = [y, u, v] %}{{ w }} evaluates the whole right-hand side (asking y, u, v),
   then fails to unpack three items into two names; the third statement is not reached *)
Definition demo_unpack_fail : list stmt :=
  [ SEmit (EVar X); SSet (TPair 104 105) (EList [EVar Y; EVar 107; EVar 108]); SEmit (EVar 109) ].
Lemma demo_unpack_fails : exists a, run_asks demo_ctx2 60 demo_unpack_fail = ErrE E_CannotUnpack a /\ length a = 4%nat.
Proof. eexists. split; [vm_compute; reflexivity|reflexivity]. Qed.
