(* C18: the static report of undeclared variables contains every key the interpreter asks the
   render context for.  Mutual induction on the interpreter's fuel over eval / call_macro / exec /
   exec_list; the list-walking combinators of Lang/Interp.v each get a lemma of their own. *)
From MJ Require Import Common.Base Lang.Syntax Lang.Meta Lang.Interp C18.Old C18.Tracker C18.Runtime.

Section Main.
Variable c : cfg.
Hypothesis Hroot : root_good c.
Let m := c_mode c.

(* ---- small accessors ---- *)
Lemma step_ok_sext o s s' : step_ok c o s s' -> sext s s'.
Proof. intros H. apply H. Qed.
Lemma step_ok_sgood o s s' : step_ok c o s s' -> sgood s'.
Proof. intros H. apply H. Qed.
Lemma step_ok_lmono o s s' : step_ok c o s s' -> lmono c s s'.
Proof. intros H. apply sext_lmono, H. Qed.
Lemma sext_clos s s' : sext s s' -> clos_ext (s_clos s) (s_clos s').
Proof. intros (f & e & f' & _ & _ & _ & H). exact H. Qed.
Lemma step_ok_clos o s s' : step_ok c o s s' -> clos_ext (s_clos s) (s_clos s').
Proof. intros H. apply sext_clos, H. Qed.

Lemma asks_in_eq P a a' b b' : s_asks a = s_asks a' -> s_asks b = s_asks b' -> asks_in P a b -> asks_in P a' b'.
Proof. intros E1 E2 (l & E & H). exists l. rewrite <- E1, <- E2. auto. Qed.

(* ---- lookups ---- *)
Lemma lookup_ok o s x v s1 : lookup c s x = (v, s1) -> sgood s -> (localb c s x = false -> mem x o = true) ->
  step_ok c o s s1 /\ (forall w, v = Some w -> vgood (s_clos s1) w) /\ s_env s1 = s_env s /\ s_clos s1 = s_clos s /\ s_out s1 = s_out s.
Proof.
  intros Hl Hg Ho. destruct (lookup_spec c s x) as (v' & E & Hv). rewrite E in Hl. injection Hl as Ev Es. subst s1.
  cbn [s_env s_clos s_out]. split; [|split; [|auto]].
  - split; [|split].
    + apply eext_sext; [apply Hg|]. split; [reflexivity|apply clos_ext_refl].
    + destruct Hg as (H1 & H2 & H3). unfold sgood. cbn [s_env s_clos]. auto.
    + cbn [s_asks]. destruct (localb c s x) eqn:El.
      * apply asks_in_refl. reflexivity.
      * exists [x]. split; [reflexivity|]. intros y [<-|[]]. split; auto.
  - intros w Hw. destruct Hg as (H1 & H2 & H3). eapply load_good; eauto. rewrite <- Hv, Ev. exact Hw.
Qed.

(* ---- values produced by the operators are well formed ---- *)
Lemma do_bin_good C op x y r : do_bin op x y = Ok r -> vgood C r.
Proof.
  unfold do_bin. intros H.
  repeat match type of H with
         | context [match ?a with _ => _ end] => destruct a; try discriminate
         end; inversion H; exact I.
Qed.

Lemma idx_list_good C l z v : Forall (vgood C) l -> idx_list l z = Some v -> vgood C v.
Proof.
  unfold idx_list. intros Hl. destruct ((0 <=? (if z <? 0 then z + lenZ l else z)) && ((if z <? 0 then z + lenZ l else z) <? lenZ l)); [|discriminate].
  intros H. apply nth_error_In in H. rewrite Forall_forall in Hl. auto.
Qed.

Lemma loop_attr_good C i n a v : loop_attr i n a = Some v -> vgood C v.
Proof.
  unfold loop_attr. intros H.
  repeat match type of H with
         | context [if ?a then _ else _] => destruct a
         end; inversion H; exact I.
Qed.

Lemma do_filter_good C md esc f v args r : do_filter md esc f v args = Ok r -> vgood C v -> Forall (vgood C) args -> vgood C r.
Proof.
  assert (Hlast : forall l, Forall (vgood C) l -> vgood C (match rev l with x :: _ => x | [] => VUndef end)).
  { intros l Hl. destruct (rev l) eqn:Er; [exact I|]. rewrite Forall_forall in Hl. apply Hl, in_rev. rewrite Er. left. reflexivity. }
  unfold do_filter, bind, u_not_undef. intros H Hv Ha.
  repeat match type of H with
         | context [if (f =? ?k) then _ else _] => destruct (f =? k)
         | context [if (?a || ?b) then _ else _] => destruct (a || b)
         end;
  destruct v; try discriminate;
  repeat match type of H with
         | context [if ?a then _ else _] => destruct a; try discriminate
         | context [match ?a with _ => _ end] => is_var a; destruct a; try discriminate
         end;
  try discriminate;
  inversion H; subst; clear H;
  first [ exact I | exact Hv | (apply Hlast; apply vgood_list; exact Hv)
        | (apply vgood_list in Hv; inversion Hv; assumption)
        | (inversion Ha; assumption) ].
Qed.

Lemma range_list_good C fuel i n : Forall (vgood C) (range_list fuel i n).
Proof. revert i. induction fuel; intros i; cbn; [constructor|]. destruct (i <? n); constructor; auto. exact I. Qed.

(* ---- binding a loop target ---- *)
Lemma bind_target_ok o tg s item s' : bind_target tg s item = Ok s' -> sgood s -> vgood (s_clos s) item ->
  step_ok c o s s' /\ (forall t s0, nonempty t -> Inv c t s0 -> lmono c s0 s -> Inv c (assign_target tg t) s').
Proof.
  intros H Hg Hv. destruct tg as [x|x y]; cbn [bind_target assign_target] in *.
  - inversion H; subst. split; [apply store_step_ok; auto|].
    intros t s0 Hn Hi Hl. eapply Inv_assign; eauto.
    + eapply lmono_trans; [apply Hl|]. apply sext_lmono, store_sext, Hg.
    + apply store_local, Hg.
  - destruct item; try discriminate. destruct l as [|a [|b [|? ?]]]; try discriminate. inversion H; subst.
    apply vgood_list in Hv. inversion Hv as [|? ? Ha Hb']; subst. inversion Hb' as [|? ? Hb _]; subst.
    assert (S1 := store_step_ok c o s x a Hg Ha).
    assert (Hb2 : vgood (s_clos (store s x a)) b) by (eapply vgood_mono; [apply store_clos_ext|exact Hb]).
    assert (S2 := store_step_ok c o (store s x a) y b (step_ok_sgood _ _ _ S1) Hb2).
    split; [eapply step_ok_trans; eauto; apply omono_refl|].
    intros t s0 Hn Hi Hl.
    assert (I1 : Inv c (t_assign x t) (store s x a)).
    { eapply Inv_assign; eauto; [eapply lmono_trans; [apply Hl|apply (step_ok_lmono _ _ _ S1)]|apply store_local, Hg]. }
    eapply Inv_assign; [eapply tstep_nonempty, tstep_assign, Hn|apply I1|apply (step_ok_lmono _ _ _ S2)|apply store_local].
    apply (step_ok_sgood _ _ _ S1).
Qed.

(* ---- leaving a run-time scope ---- *)
Lemma scoped_step o s F sb : sgood s -> f_base F = false -> step_ok c o (push_frame s F) sb -> step_ok c o s (pop_frame sb).
Proof.
  intros Hg Hb (X1 & X2 & X3). destruct (pop_sext s F sb (proj1 Hg) X1) as [Y1 Y2].
  split; [exact Y1|]. split; [eapply pop_sgood; eauto; apply Hg|].
  eapply asks_in_eq; [| |eapply asks_in_weaken; [|apply X3]]; try reflexivity.
  intros x. apply AP_weaken; [apply omono_refl|apply push_lmono, Hb].
Qed.

Lemma loop_local s f e i n : s_env s = f :: e -> f_loop f = Some (i, n, true) -> localb c s N_loop = true.
Proof.
  intros E Hl. unfold localb. rewrite E, load_cons. unfold frame_find. rewrite Hl.
  destruct (assoc N_loop (f_locals f)); [reflexivity|]. rewrite Z.eqb_refl. reflexivity.
Qed.

Lemma loop_exposed_local s f e : s_env s = f :: e -> loop_exposed f = true -> localb c s N_loop = true.
Proof.
  intros E Hl. unfold loop_exposed in Hl. destruct (f_loop f) as [[[i n] [|]]|] eqn:El; try discriminate.
  eapply loop_local; eauto.
Qed.

(* ---- what the four mutually recursive functions guarantee ---- *)
Definition eval_spec (ev : st -> expr -> outcome (value * st)) : Prop :=
  forall s e v s' t, ev s e = Ok (v, s') -> sgood s -> nonempty t -> Inv c t s ->
    step_ok c (t_out (visit_expr e t)) s s' /\ vgood (s_clos s') v.

Definition call_spec (cm : st -> macro -> option nat -> list value -> list (name * value) -> outcome (value * st)) : Prop :=
  forall s mc cl args kwargs v s', cm s mc cl args kwargs = Ok (v, s') -> sgood s -> mgood (s_clos s) mc cl ->
    Forall (vgood (s_clos s)) args -> Forall (fun kv => vgood (s_clos s) (snd kv)) kwargs ->
    step_ok c [] s s' /\ vgood (s_clos s') v.

Definition exec_spec (ex : st -> stmt -> outcome (signal * st)) : Prop :=
  forall s st sg s' t, ex s st = Ok (sg, s') -> sgood s -> nonempty t -> Inv c t s ->
    step_ok c (t_out (walk st t)) s s' /\ (sg = SigNormal -> Inv c (walk st t) s').

Definition exec_list_spec (ex : st -> list stmt -> outcome (signal * st)) : Prop :=
  forall s l sg s' t, ex s l = Ok (sg, s') -> sgood s -> nonempty t -> Inv c t s ->
    step_ok c (t_out (walk_list l t)) s s' /\ (sg = SigNormal -> Inv c (walk_list l t) s').

(* after an expression ran, the invariant holds for the tracker that visited it *)
Lemma Inv_after_expr e t s s' : nonempty t -> Inv c t s -> lmono c s s' -> Inv c (visit_expr e t) s'.
Proof. intros Hn Hi Hl. eapply Inv_soft; eauto. apply visit_expr_soft, Hn. Qed.

Lemma visit_expr_omono e t : nonempty t -> omono (t_out t) (t_out (visit_expr e t)).
Proof. intros Hn. apply tsoft_omono, visit_expr_soft, Hn. Qed.
Lemma visit_expr_nonempty e t : nonempty t -> nonempty (visit_expr e t).
Proof. intros Hn. eapply tsoft_nonempty, visit_expr_soft, Hn. Qed.

Lemma visit_kw_soft' {K} (l : list (K * expr)) t : nonempty t -> tsoft t (visit_kw l t).
Proof. intros H. apply visit_kw_soft; auto. apply Forall_forall. intros e _. apply visit_expr_soft. Qed.

Lemma vgood_step o s s' v : step_ok c o s s' -> vgood (s_clos s) v -> vgood (s_clos s') v.
Proof. intros H. apply vgood_mono, (step_ok_clos _ _ _ H). Qed.

(* ---- map_eval ---- *)
Lemma map_eval_ok ev : eval_spec ev -> forall l s vs s' t, map_eval ev s l = Ok (vs, s') -> sgood s -> nonempty t -> Inv c t s ->
  step_ok c (t_out (visit_list l t)) s s' /\ Forall (vgood (s_clos s')) vs.
Proof.
  intros Hev. induction l as [|x r IH]; intros s vs s' t H Hg Hn Hi; cbn [map_eval] in H.
  - inversion H; subst. split; [apply step_ok_refl, Hg|constructor].
  - apply bind_ok in H as ([v s1] & H1 & H). apply bind_ok in H as ([vs' s2] & H2 & H). inversion H; subst. clear H.
    destruct (Hev _ _ _ _ t H1 Hg Hn Hi) as [A1 A2].
    assert (Hn1 := visit_expr_nonempty x t Hn).
    assert (I1 : Inv c (visit_expr x t) s1) by (eapply Inv_after_expr; [exact Hn|exact Hi|apply (step_ok_lmono _ _ _ A1)]).
    destruct (IH _ _ _ _ H2 (step_ok_sgood _ _ _ A1) Hn1 I1) as [B1 B2].
    change (visit_list (x :: r) t) with (visit_list r (visit_expr x t)). split.
    + eapply step_ok_trans; eauto. apply tsoft_omono, visit_list_soft', Hn1.
    + constructor; auto. eapply vgood_step; eauto.
Qed.

Lemma map_eval_kw_ok ev : eval_spec ev -> forall (l : list (name * expr)) s kvs s' t, map_eval_kw ev s l = Ok (kvs, s') -> sgood s -> nonempty t -> Inv c t s ->
  step_ok c (t_out (visit_kw l t)) s s' /\ Forall (fun kv => vgood (s_clos s') (snd kv)) kvs.
Proof.
  intros Hev. induction l as [|[k x] r IH]; intros s vs s' t H Hg Hn Hi; cbn [map_eval_kw] in H.
  - inversion H; subst. split; [apply step_ok_refl, Hg|constructor].
  - apply bind_ok in H as ([v s1] & H1 & H). apply bind_ok in H as ([vs' s2] & H2 & H). inversion H; subst. clear H.
    destruct (Hev _ _ _ _ t H1 Hg Hn Hi) as [A1 A2].
    assert (Hn1 := visit_expr_nonempty x t Hn).
    assert (I1 : Inv c (visit_expr x t) s1) by (eapply Inv_after_expr; [exact Hn|exact Hi|apply (step_ok_lmono _ _ _ A1)]).
    destruct (IH _ _ _ _ H2 (step_ok_sgood _ _ _ A1) Hn1 I1) as [B1 B2].
    change (visit_kw ((k, x) :: r) t) with (visit_kw r (visit_expr x t)). split.
    + eapply step_ok_trans; eauto. apply tsoft_omono, visit_kw_soft', Hn1.
    + constructor; auto. cbn [snd]. eapply vgood_step; eauto.
Qed.

(* ---- comparison chains ---- *)
Lemma cmp_chain_ok ev : eval_spec ev -> forall (l : list (cmpop * expr)) left s v s' t, cmp_chain m ev left s l = Ok (v, s') -> sgood s -> nonempty t -> Inv c t s ->
  step_ok c (t_out (visit_kw l t)) s s' /\ vgood (s_clos s') v.
Proof.
  intros Hev. induction l as [|[op x] r IH]; intros left s v s' t H Hg Hn Hi; cbn [cmp_chain] in H.
  - inversion H; subst. split; [apply step_ok_refl, Hg|exact I].
  - apply bind_ok in H as ([y s2] & H1 & H). apply bind_ok in H as (b & H2 & H).
    destruct (Hev _ _ _ _ t H1 Hg Hn Hi) as [A1 A2].
    assert (Hn1 := visit_expr_nonempty x t Hn).
    change (visit_kw ((op, x) :: r) t) with (visit_kw r (visit_expr x t)).
    assert (Om : omono (t_out (visit_expr x t)) (t_out (visit_kw r (visit_expr x t)))) by (apply tsoft_omono, visit_kw_soft', Hn1).
    assert (Stop : forall w, Ok (VBool w, s2) = Ok (v, s') -> step_ok c (t_out (visit_kw r (visit_expr x t))) s s' /\ vgood (s_clos s') v).
    { intros w E. inversion E; subst. split; [eapply step_ok_weaken; eauto|exact I]. }
    destruct r as [|p r']; [eapply Stop; eauto|]. destruct b; [|eapply Stop; eauto].
    assert (I1 : Inv c (visit_expr x t) s2) by (eapply Inv_after_expr; [exact Hn|exact Hi|apply (step_ok_lmono _ _ _ A1)]).
    destruct (IH _ _ _ _ _ H (step_ok_sgood _ _ _ A1) Hn1 I1) as [B1 B2].
    split; auto. eapply step_ok_trans; eauto.
Qed.

(* ---- macro arguments ---- *)
Lemma bind_params_good C kwargs : Forall (fun kv => vgood C (snd kv)) kwargs -> forall ps pos bound,
  bind_params kwargs ps pos = Ok bound -> Forall (vgood C) pos ->
  Forall (fun kv => vgood C (snd kv)) bound /\ map fst bound = ps.
Proof.
  intros Hk. assert (Ha : forall p v, assoc p kwargs = Some v -> vgood C v).
  { induction Hk as [|[k w] r Hw Hr IH]; intros p v; cbn [assoc]; [discriminate|]. destruct (p =? k); [intros E; inversion E; subst; exact Hw|apply IH]. }
  induction ps as [|p ps IH]; intros pos bound H Hp; cbn [bind_params] in H.
  - inversion H; subst. split; constructor.
  - destruct pos as [|v pos']; destruct (assoc p kwargs) as [w|] eqn:Ea; try discriminate.
    + apply bind_ok in H as (r & H1 & H). inversion H; subst. destruct (IH _ _ H1 Hp) as [B1 B2]. split; [constructor; eauto|cbn; congruence].
    + apply bind_ok in H as (r & H1 & H). inversion H; subst. destruct (IH _ _ H1 Hp) as [B1 B2]. split; [constructor; [exact I|auto]|cbn; congruence].
    + apply bind_ok in H as (r & H1 & H). inversion H; subst. inversion Hp; subst. destruct (IH _ _ H1 H4) as [B1 B2]. split; [constructor; auto|cbn; congruence].
Qed.

Definition visit_params_l (ds : list (name * expr)) (lp : list name) (t : tstate) : tstate :=
  fold_left (fun t p => t_assign p (match default_of p ds with Some d => visit_expr d t | None => t end)) lp t.

Lemma default_of_assoc p ds : default_of p ds = assoc p ds.
Proof. induction ds as [|[k d] r IH]; cbn; auto. destruct (p =? k); auto. Qed.

Lemma visit_params_l_step ds lp t : nonempty t -> tstep t (visit_params_l ds lp t).
Proof.
  revert t. induction lp as [|p l IH]; intros t Hn; cbn [visit_params_l fold_left].
  - apply tstep_refl, Hn.
  - assert (S1 : tstep t (match default_of p ds with Some d => visit_expr d t | None => t end)).
    { destruct (default_of p ds); [apply visit_expr_step, Hn|apply tstep_refl, Hn]. }
    assert (S2 := tstep_assign p _ (tstep_nonempty _ _ S1)).
    eapply tstep_trans; [apply S1|]. eapply tstep_trans; [apply S2|]. apply IH. eapply tstep_nonempty, S2.
Qed.

Lemma store_args_ok ev ds : eval_spec ev -> forall l s s' t, store_args ev ds s l = Ok s' -> sgood s -> nonempty t -> Inv c t s ->
  Forall (fun kv => vgood (s_clos s) (snd kv)) l ->
  step_ok c (t_out (visit_params_l ds (map fst l) t)) s s' /\ Inv c (visit_params_l ds (map fst l) t) s'.
Proof.
  intros Hev. induction l as [|[p v] r IH]; intros s s' t H Hg Hn Hi Hl; cbn [store_args] in H.
  - inversion H; subst. split; [apply step_ok_refl, Hg|exact Hi].
  - inversion Hl as [|? ? Hv Hr]; subst. cbn [snd] in Hv. cbn [map fst visit_params_l fold_left].
    rewrite default_of_assoc.
    set (t1 := match assoc p ds with Some d => visit_expr d t | None => t end).
    assert (Soft1 : tsoft t t1) by (unfold t1; destruct (assoc p ds); [apply visit_expr_soft, Hn|apply tsoft_refl, Hn]).
    assert (Hn1 : nonempty t1) by (eapply tsoft_nonempty, Soft1).
    assert (Hn2 : nonempty (t_assign p t1)) by (eapply tstep_nonempty, tstep_assign, Hn1).
    assert (Om2 : omono (t_out (t_assign p t1)) (t_out (visit_params_l ds (map fst r) (t_assign p t1)))).
    { apply tstep_omono, visit_params_l_step, Hn2. }
    assert (Plain : forall s0, store_args ev ds (store s p v) r = Ok s0 -> s0 = s' ->
              step_ok c (t_out (visit_params_l ds (map fst r) (t_assign p t1))) s s' /\ Inv c (visit_params_l ds (map fst r) (t_assign p t1)) s').
    { intros s0 H0 ->. assert (S1 := store_step_ok c (t_out (t_assign p t1)) s p v Hg Hv).
      assert (I1 : Inv c (t_assign p t1) (store s p v)).
      { eapply Inv_assign; [exact Hn1| |apply (step_ok_lmono _ _ _ S1)|apply store_local, Hg]. eapply Inv_soft; eauto. apply lmono_refl. }
      assert (Hr' : Forall (fun kv => vgood (s_clos (store s p v)) (snd kv)) r).
      { eapply Forall_impl; [|apply Hr]. intros kv. apply vgood_mono, store_clos_ext. }
      destruct (IH _ _ _ H0 (step_ok_sgood _ _ _ S1) Hn2 I1 Hr') as [B1 B2]. split; auto. eapply step_ok_trans; eauto. }
    destruct (is_undef v); [|eapply Plain; eauto].
    destruct (assoc p ds) as [d|] eqn:Ed; [|eapply Plain; eauto].
    apply bind_ok in H as ([dv s1] & H1 & H).
    destruct (Hev _ _ _ _ t H1 Hg Hn Hi) as [A1 A2]. fold t1 in A1.
    assert (S1 := store_step_ok c (t_out (t_assign p t1)) s1 p dv (step_ok_sgood _ _ _ A1) A2).
    assert (I1 : Inv c (t_assign p t1) (store s1 p dv)).
    { eapply Inv_assign; [exact Hn1| |apply (step_ok_lmono _ _ _ S1)|apply store_local, (step_ok_sgood _ _ _ A1)].
      eapply Inv_soft; eauto. apply (step_ok_lmono _ _ _ A1). }
    assert (Hr' : Forall (fun kv => vgood (s_clos (store s1 p dv)) (snd kv)) r).
    { eapply Forall_impl; [|apply Hr]. intros kv Hkv. eapply vgood_step; [apply S1|]. eapply vgood_step; eauto. }
    destruct (IH _ _ _ H (step_ok_sgood _ _ _ S1) Hn2 I1 Hr') as [B1 B2]. split; auto.
    eapply step_ok_trans; [|apply B1|exact Om2]. eapply step_ok_trans; [apply A1|apply S1|]. apply tstep_omono, tstep_assign, Hn1.
Qed.

(* ---- if / elif / else ---- *)
Lemma walk_list_omono l t : nonempty t -> omono (t_out t) (t_out (walk_list l t)).
Proof. intros Hn. apply tstep_omono, walk_list_step', Hn. Qed.

Lemma walk_arms_step' els arms t : nonempty t -> tstep t (walk_arms els arms t).
Proof.
  intros Hn. apply walk_arms_step; auto.
  - apply Forall_forall. intros a _. apply Forall_forall. intros s _. apply walk_step.
  - intros b _. apply Forall_forall. intros s _. apply walk_step.
Qed.

Lemma scoped_body_soft' body t : nonempty t -> tsoft t (t_pop (walk_list body (t_push t))).
Proof. intros Hn. apply scoped_body_soft; auto. apply Forall_forall. intros s _. apply walk_step. Qed.

Lemma if_arms_ok ev ex els : eval_spec ev -> exec_list_spec ex ->
  forall arms s sg s' t, if_arms m ev ex els s arms = Ok (sg, s') -> sgood s -> nonempty t -> Inv c t s ->
  step_ok c (t_out (walk_arms els arms t)) s s' /\ (sg = SigNormal -> Inv c (walk_arms els arms t) s').
Proof.
  intros Hev Hex. induction arms as [|[cnd body] r IH]; intros s sg s' t H Hg Hn Hi; cbn [if_arms walk_arms] in *.
  - destruct els as [b|]; [eapply Hex; eauto|]. inversion H; subst. split; [apply step_ok_refl, Hg|auto].
  - apply bind_ok in H as ([v s1] & H1 & H). apply bind_ok in H as (b & H2 & H). cbn zeta.
    destruct (Hev _ _ _ _ t H1 Hg Hn Hi) as [A1 _].
    set (t1 := visit_expr cnd t) in *. assert (Hn1 : nonempty t1) by (apply visit_expr_nonempty, Hn).
    assert (I1 : Inv c t1 s1) by (eapply Inv_after_expr; [exact Hn|exact Hi|apply (step_ok_lmono _ _ _ A1)]).
    set (t2 := t_pop (walk_list body (t_push t1))) in *.
    assert (Soft2 : tsoft t1 t2) by (apply scoped_body_soft', Hn1).
    assert (Hn2 : nonempty t2) by (eapply tsoft_nonempty, Soft2).
    set (T := match r, els with [], None => t_pop (t_push t2) | _, _ => t_pop (walk_arms els r (t_push t2)) end).
    assert (SoftT : tsoft t2 T).
    { unfold T. destruct r; [destruct els|]; apply tstep_push_pop; auto; try apply walk_arms_step', push_nonempty. apply tstep_refl, push_nonempty. }
    assert (G1 : s_env s1 <> []) by (apply (step_ok_sgood _ _ _ A1)).
    destruct b.
    + (* this arm runs: its body is walked in a scope of its own *)
      assert (Ip : Inv c (t_push t1) s1) by (eapply Inv_push; [exact I1|apply lmono_refl]).
      destruct (Hex _ _ _ _ (t_push t1) H (step_ok_sgood _ _ _ A1) (push_nonempty t1) Ip) as [B1 _].
      split.
      * eapply step_ok_trans; [apply A1| |].
        -- eapply step_ok_weaken; [apply B1|]. eapply omono_trans; [|apply tsoft_omono, SoftT]. unfold t2. intros x Hx. exact Hx.
        -- eapply omono_trans; [apply tsoft_omono, Soft2|apply tsoft_omono, SoftT].
      * intros _. eapply Inv_soft; [eapply tsoft_trans; [apply Soft2|apply SoftT]|exact I1|apply (step_ok_lmono _ _ _ B1)].
    + (* the remaining arms *)
      assert (I2 : Inv c t2 s1) by (eapply Inv_soft; [apply Soft2|exact I1|apply lmono_refl]).
      destruct r as [|a r'].
      * destruct els as [eb|].
        -- assert (Ip : Inv c (t_push t2) s1) by (eapply Inv_push; [exact I2|apply lmono_refl]).
           destruct (IH _ _ _ (t_push t2) H (step_ok_sgood _ _ _ A1) (push_nonempty t2) Ip) as [B1 _]. split.
           ++ eapply step_ok_trans; [apply A1| |].
              ** eapply step_ok_weaken; [apply B1|]. unfold T. intros x Hx. exact Hx.
              ** eapply omono_trans; [apply tsoft_omono, Soft2|apply tsoft_omono, SoftT].
           ++ intros _. eapply Inv_soft; [apply SoftT|exact I2|apply (step_ok_lmono _ _ _ B1)].
        -- cbn [if_arms] in H. inversion H; subst. split.
           ++ eapply step_ok_weaken; [apply A1|]. eapply omono_trans; [apply tsoft_omono, Soft2|apply tsoft_omono, SoftT].
           ++ intros _. eapply Inv_soft; [apply SoftT|exact I2|apply lmono_refl].
      * assert (Ip : Inv c (t_push t2) s1) by (eapply Inv_push; [exact I2|apply lmono_refl]).
        destruct (IH _ _ _ (t_push t2) H (step_ok_sgood _ _ _ A1) (push_nonempty t2) Ip) as [B1 _]. split.
        -- eapply step_ok_trans; [apply A1| |].
           ++ eapply step_ok_weaken; [apply B1|]. unfold T. intros x Hx. exact Hx.
           ++ eapply omono_trans; [apply tsoft_omono, Soft2|apply tsoft_omono, SoftT].
        -- intros _. eapply Inv_soft; [apply SoftT|exact I2|apply (step_ok_lmono _ _ _ B1)].
Qed.

(* ---- with ---- *)
Lemma with_binds_ok ev : eval_spec ev -> forall binds s s' t, with_binds ev s binds = Ok s' -> sgood s -> nonempty t -> Inv c t s ->
  step_ok c (t_out (visit_binds binds t)) s s' /\ Inv c (visit_binds binds t) s'.
Proof.
  intros Hev. induction binds as [|[x e] r IH]; intros s s' t H Hg Hn Hi; cbn [with_binds] in H.
  - inversion H; subst. split; [apply step_ok_refl, Hg|exact Hi].
  - apply bind_ok in H as ([v s1] & H1 & H).
    destruct (Hev _ _ _ _ t H1 Hg Hn Hi) as [A1 A2].
    assert (Hn1 := visit_expr_nonempty e t Hn).
    assert (S1 := store_step_ok c (t_out (t_assign x (visit_expr e t))) s1 x v (step_ok_sgood _ _ _ A1) A2).
    assert (I1 : Inv c (t_assign x (visit_expr e t)) (store s1 x v)).
    { eapply Inv_assign; [exact Hn1| |apply (step_ok_lmono _ _ _ S1)|apply store_local, (step_ok_sgood _ _ _ A1)].
      eapply Inv_after_expr; [exact Hn|exact Hi|apply (step_ok_lmono _ _ _ A1)]. }
    assert (Hn2 : nonempty (t_assign x (visit_expr e t))) by (eapply tstep_nonempty, tstep_assign, Hn1).
    destruct (IH _ _ _ H (step_ok_sgood _ _ _ S1) Hn2 I1) as [B1 B2].
    change (visit_binds ((x, e) :: r) t) with (visit_binds r (t_assign x (visit_expr e t))). split; auto.
    eapply step_ok_trans; [|apply B1|apply tstep_omono, visit_binds_step, Hn2].
    eapply step_ok_trans; [apply A1|apply S1|apply tstep_omono, tstep_assign, Hn1].
Qed.

(* ---- for: the filter pass ---- *)
Definition loop_frame0 (n : Z) (expose : bool) : frame := mkFrame [] (Some (0, n, expose)) None None false.

Lemma filter_items_ok ev tg fe t1 s0 : eval_spec ev -> nonempty t1 -> Inv c t1 s0 ->
  forall l s kept s', filter_items m ev tg fe s l = Ok (kept, s') -> sgood s -> lmono c s0 s -> Forall (vgood (s_clos s)) l ->
  step_ok c (t_out (visit_expr fe (assign_target tg (t_push t1)))) s s' /\ Forall (vgood (s_clos s')) kept.
Proof.
  intros Hev Hn1 Hi0. set (tf := assign_target tg (t_push t1)).
  assert (Hnf : nonempty tf) by (eapply tstep_nonempty, assign_target_step, push_nonempty).
  induction l as [|item r IH]; intros s kept s' H Hg Hl Hv; cbn [filter_items] in H.
  - inversion H; subst. split; [apply step_ok_refl, Hg|constructor].
  - cbn zeta in H. apply bind_ok in H as (sf1 & H1 & H). apply bind_ok in H as ([v sf2] & H2 & H).
    apply bind_ok in H as (keep & H3 & H). apply bind_ok in H as ([rest s3] & H4 & H). inversion H; subst. clear H.
    inversion Hv as [|? ? Hitem Hrest]; subst.
    set (F := mkFrame [] (Some (0, 0, false)) None None false) in *.
    set (sf := push_frame s F) in *.
    assert (Gf : sgood sf) by (apply push_sgood; [exact Hg|apply fresh_frame_good]).
    assert (Lf : lmono c s sf) by (apply push_lmono; reflexivity).
    destruct (bind_target_ok (t_out (visit_expr fe tf)) tg sf item sf1 H1 Gf Hitem) as [A1 A2].
    assert (If : Inv c tf sf1).
    { apply (A2 (t_push t1) s0 (push_nonempty t1)); [eapply Inv_push; [exact Hi0|apply lmono_refl]|]. eapply lmono_trans; eauto. }
    destruct (Hev _ _ _ _ tf H2 (step_ok_sgood _ _ _ A1) Hnf If) as [B1 B2].
    assert (AB : step_ok c (t_out (visit_expr fe tf)) sf sf2) by (eapply step_ok_trans; [apply A1|apply B1|apply omono_refl]).
    assert (P := scoped_step _ s F sf2 Hg eq_refl AB).
    assert (Hrest' : Forall (vgood (s_clos (pop_frame sf2))) r).
    { eapply Forall_impl; [|apply Hrest]. intros w. eapply vgood_step; eauto. }
    assert (Ll : lmono c s0 (pop_frame sf2)) by (eapply lmono_trans; [apply Hl|apply (step_ok_lmono _ _ _ P)]).
    destruct (IH _ _ _ H4 (step_ok_sgood _ _ _ P) Ll Hrest') as [C1 C2]. split.
    + eapply step_ok_trans; [apply P|apply C1|apply omono_refl].
    + destruct keep; auto. constructor; auto. eapply vgood_step; [apply C1|]. eapply vgood_step; eauto.
Qed.

(* ---- for: the iterations ---- *)
Definition loop_state (n : Z) (O : list name) (s2 s : st) : Prop :=
  sext (push_frame s2 (loop_frame0 n true)) s /\ sgood s /\ asks_in (AP c O s2) s2 s.

Lemma loop_items_ok ex tg body n flt t1 s2 : exec_list_spec ex -> nonempty t1 -> Inv c t1 s2 -> sgood s2 ->
  let tfv := match flt with Some f => visit_expr f (assign_target tg (t_push t1)) | None => assign_target tg (t_push t1) end in
  let tb := t_assign N_loop tfv in
  let O := t_out (walk_list body tb) in
  forall l s i s', loop_items ex tg body n s i l = Ok s' -> loop_state n O s2 s -> Forall (vgood (s_clos s)) l ->
  loop_state n O s2 s'.
Proof.
  intros Hex Hn1 Hi2 Hg2 tfv tb O.
  assert (Hna : nonempty (assign_target tg (t_push t1))) by (eapply tstep_nonempty, assign_target_step, push_nonempty).
  assert (Softv : tsoft (assign_target tg (t_push t1)) tfv).
  { unfold tfv. destruct flt; [apply visit_expr_soft, Hna|apply tsoft_refl, Hna]. }
  assert (Hnv : nonempty tfv) by (eapply tsoft_nonempty, Softv).
  assert (Hnb : nonempty tb) by (eapply tstep_nonempty, tstep_assign, Hnv).
  induction l as [|item r IH]; intros s i s' H Hs Hv; cbn [loop_items] in H.
  - inversion H; subst. exact Hs.
  - cbn zeta in H. destruct Hs as (X1 & X2 & X3).
    destruct X1 as (f0 & e0 & f & E1 & E2 & FE & CE). cbn [push_frame s_env s_clos] in E1, CE. inversion E1; subst f0 e0. clear E1.
    rewrite E2 in H.
    set (Fi := mkFrame [] (Some (i, n, true)) (f_closure f) (f_closure_ctx f) false) in *.
    set (sit := with_env s (Fi :: s_env s2)) in *.
    apply bind_ok in H as (s3 & H1 & H). apply bind_ok in H as ([sg s4] & H2 & H).
    assert (Xit : sext (push_frame s2 (loop_frame0 n true)) sit).
    { exists (loop_frame0 n true), (s_env s2), Fi. split; [reflexivity|]. split; [reflexivity|]. split; [|exact CE].
      destruct FE as (F1 & F2 & F3 & F4). split; [intros x Hx; cbn in Hx; congruence|]. split; [reflexivity|]. split; [exact F3|reflexivity]. }
    assert (Git : sgood sit).
    { destruct X2 as (G1 & G2 & G3). unfold sgood, sit, with_env. cbn [s_env s_clos]. split; [discriminate|]. split; auto.
      rewrite E2 in G2. inversion G2 as [|? ? Gf Gr]; subst. constructor; auto. split; [cbn; intros; discriminate|]. apply Gf. }
    assert (L2it : lmono c s2 sit).
    { eapply lmono_trans; [apply (push_lmono c s2 (loop_frame0 n true) eq_refl)|apply sext_lmono, Xit]. }
    inversion Hv as [|? ? Hitem Hrest]; subst.
    destruct (bind_target_ok O tg sit item s3 H1 Git Hitem) as [A1 A2].
    assert (Ia : Inv c (assign_target tg (t_push t1)) s3).
    { apply (A2 (t_push t1) s2 (push_nonempty t1)); [eapply Inv_push; [exact Hi2|apply lmono_refl]|exact L2it]. }
    assert (Ib : Inv c tb s3).
    { eapply Inv_assign; [exact Hnv|eapply Inv_soft; [apply Softv|exact Ia|apply lmono_refl]|apply lmono_refl|].
      destruct (step_ok_sext _ _ _ A1) as (fa & ea & fa' & Ea1 & Ea2 & FEa & _).
      unfold sit, with_env in Ea1. cbn [s_env] in Ea1. inversion Ea1; subst fa ea.
      eapply loop_exposed_local; [exact Ea2|]. apply FEa. reflexivity. }
    destruct (Hex _ _ _ _ tb H2 (step_ok_sgood _ _ _ A1) Hnb Ib) as [B1 _]. fold O in B1.
    assert (L23 : lmono c s2 s3) by (eapply lmono_trans; [exact L2it|apply (step_ok_lmono _ _ _ A1)]).
    assert (Hs4 : loop_state n O s2 s4).
    { split; [eapply sext_trans; [exact Xit|]; eapply sext_trans; [apply A1|apply B1]|]. split; [apply B1|].
      eapply asks_in_trans; [exact X3|]. eapply asks_in_trans.
      - eapply asks_in_eq; [| |eapply asks_in_weaken; [|apply A1]]; try reflexivity.
        intros x. apply AP_weaken; [apply omono_refl|exact L2it].
      - eapply asks_in_weaken; [|apply B1]. intros x. apply AP_weaken; [apply omono_refl|exact L23]. }
    assert (Hrest4 : Forall (vgood (s_clos s4)) r).
    { eapply Forall_impl; [|apply Hrest]. intros w Hw. eapply vgood_step; [apply B1|]. eapply vgood_step; [apply A1|]. exact Hw. }
    destruct sg; [eapply IH; eauto| |eapply IH; eauto]. inversion H; subst. exact Hs4.
Qed.

(* ---- the induction on the fuel ---- *)
Ltac bst H p E := apply bind_ok in H as (p & E & H).

Lemma omono_nil o : omono [] o.
Proof. intros x H. discriminate. Qed.

Lemma eval1 ev s a x s1 t : eval_spec ev -> ev s a = Ok (x, s1) -> sgood s -> nonempty t -> Inv c t s ->
  step_ok c (t_out (visit_expr a t)) s s1 /\ vgood (s_clos s1) x /\ Inv c (visit_expr a t) s1 /\ nonempty (visit_expr a t) /\ sgood s1.
Proof.
  intros Hev H Hg Hn Hi. destruct (Hev _ _ _ _ t H Hg Hn Hi) as [A1 A2]. split; auto. split; auto. split.
  - eapply Inv_after_expr; [exact Hn|exact Hi|apply (step_ok_lmono _ _ _ A1)].
  - split; [apply visit_expr_nonempty, Hn|apply A1].
Qed.

Lemma eval2 ev s a b x y s1 s2 t : eval_spec ev -> ev s a = Ok (x, s1) -> ev s1 b = Ok (y, s2) -> sgood s -> nonempty t -> Inv c t s ->
  step_ok c (t_out (visit_expr b (visit_expr a t))) s s2 /\ vgood (s_clos s2) x /\ vgood (s_clos s2) y /\
  Inv c (visit_expr b (visit_expr a t)) s2 /\ nonempty (visit_expr b (visit_expr a t)) /\ sgood s2.
Proof.
  intros Hev H1 H2 Hg Hn Hi.
  destruct (eval1 _ _ _ _ _ t Hev H1 Hg Hn Hi) as (A1 & A2 & A3 & A4 & A5).
  destruct (eval1 _ _ _ _ _ _ Hev H2 A5 A4 A3) as (B1 & B2 & B3 & B4 & B5).
  split; [eapply step_ok_trans; [apply A1|apply B1|apply visit_expr_omono, A4]|]. split; [eapply vgood_step; eauto|]. auto.
Qed.

Definition all_specs (fuel : nat) : Prop :=
  (forall esc, eval_spec (eval c fuel esc)) /\ (forall esc, call_spec (call_macro c fuel esc)) /\
  (forall esc, exec_spec (exec c fuel esc)) /\ (forall esc, exec_list_spec (exec_list c fuel esc)).

Lemma eval_step fuel : all_specs fuel -> forall esc, eval_spec (eval c (S fuel) esc).
Proof.
  intros (IHe & IHm & _ & _) esc s e v s' t H Hg Hn Hi. assert (He := IHe esc).
  rewrite visit_expr_eq. cbn [eval] in H. destruct e.
  - (* const *) assert (s' = s /\ vgood (s_clos s) v) as [-> Hv] by (destruct l; inversion H; subst; split; auto; exact I).
    split; [apply step_ok_refl, Hg|exact Hv].
  - (* var *) destruct (lookup c s x) as [v0 s1] eqn:E. inversion H; subst. clear H.
    destruct (lookup_ok (t_out (t_lookup x t)) s x v0 s' E Hg) as (A1 & A2 & _).
    { intros Hl. eapply lookup_late; [exact Hi|apply lmono_refl|exact Hl]. }
    split; auto. destruct v0; [apply A2; reflexivity|exact I].
  - (* list *) bst H p1 E1. destruct p1 as [vs s1]. inversion H; subst. clear H.
    destruct (map_eval_ok _ He _ _ _ _ t E1 Hg Hn Hi) as [A1 A2]. split; auto. apply vgood_list, A2.
  - (* neg *) bst H p1 E1. destruct p1 as [x s1]. destruct (eval1 _ _ _ _ _ t He E1 Hg Hn Hi) as (A1 & _).
    destruct x; inversion H; subst. split; [exact A1|exact I].
  - (* not *) bst H p1 E1. destruct p1 as [x s1]. bst H b E2. inversion H; subst. destruct (eval1 _ _ _ _ _ t He E1 Hg Hn Hi) as (A1 & _).
    split; [exact A1|exact I].
  - (* bin *) bst H p1 E1. destruct p1 as [x s1]. bst H p2 E2. destruct p2 as [y s2]. bst H u E3. bst H r E4. inversion H; subst.
    destruct (eval2 _ _ _ _ _ _ _ _ t He E1 E2 Hg Hn Hi) as (A1 & _). split; [exact A1|]. eapply do_bin_good; eauto.
  - (* cmp *) bst H p1 E1. destruct p1 as [x s1]. destruct (eval1 _ _ _ _ _ t He E1 Hg Hn Hi) as (A1 & A2 & A3 & A4 & A5).
    destruct (cmp_chain_ok _ He _ _ _ _ _ _ H A5 A4 A3) as [B1 B2]. split; auto.
    eapply step_ok_trans; [apply A1|apply B1|apply tsoft_omono, visit_kw_soft', A4].
  - (* and *) bst H p1 E1. destruct p1 as [x s1]. bst H b E2. destruct (eval1 _ _ _ _ _ t He E1 Hg Hn Hi) as (A1 & A2 & A3 & A4 & A5).
    destruct b.
    + destruct (He _ _ _ _ _ H A5 A4 A3) as [B1 B2]. split; auto. eapply step_ok_trans; [apply A1|apply B1|apply visit_expr_omono, A4].
    + inversion H; subst. split; auto. eapply step_ok_weaken; [apply A1|apply visit_expr_omono, A4].
  - (* or *) bst H p1 E1. destruct p1 as [x s1]. bst H b E2. destruct (eval1 _ _ _ _ _ t He E1 Hg Hn Hi) as (A1 & A2 & A3 & A4 & A5).
    destruct b.
    + inversion H; subst. split; auto. eapply step_ok_weaken; [apply A1|apply visit_expr_omono, A4].
    + destruct (He _ _ _ _ _ H A5 A4 A3) as [B1 B2]. split; auto. eapply step_ok_trans; [apply A1|apply B1|apply visit_expr_omono, A4].
  - (* if-expression *) bst H p1 E1. destruct p1 as [x s1]. bst H b E2. destruct (eval1 _ _ _ _ _ t He E1 Hg Hn Hi) as (A1 & A2 & A3 & A4 & A5).
    cbn zeta. set (t1 := visit_expr e1 t) in *. set (t2 := visit_expr e2 t1).
    assert (Hn2 : nonempty t2) by (apply visit_expr_nonempty, A4).
    assert (O12 : omono (t_out t1) (t_out t2)) by (apply visit_expr_omono, A4).
    assert (OT : omono (t_out t2) (t_out (match f with Some f0 => visit_expr f0 t2 | None => t2 end))).
    { destruct f; [apply visit_expr_omono, Hn2|apply omono_refl]. }
    destruct b.
    + destruct (He _ _ _ _ _ H A5 A4 A3) as [B1 B2]. split; auto.
      eapply step_ok_weaken; [|exact OT]. eapply step_ok_trans; [apply A1|apply B1|exact O12].
    + destruct f as [f0|].
      * assert (I2 : Inv c t2 s1) by (eapply Inv_after_expr; [exact A4|exact A3|apply lmono_refl]).
        destruct (He _ _ _ _ _ H A5 Hn2 I2) as [B1 B2]. split; auto.
        eapply step_ok_trans; [apply A1|apply B1|]. eapply omono_trans; [exact O12|apply visit_expr_omono, Hn2].
      * inversion H; subst. split; [|exact I]. eapply step_ok_weaken; [apply A1|exact O12].
  - (* item *) bst H p1 E1. destruct p1 as [x s1]. bst H p2 E2. destruct p2 as [k s2].
    destruct (eval2 _ _ _ _ _ _ _ _ t He E1 E2 Hg Hn Hi) as (A1 & A2 & A3 & _).
    destruct (match x, k with VList l, VInt z => idx_list l z | _, _ => None end) eqn:Ei.
    + inversion H; subst. split; auto. destruct x; try discriminate. destruct k; try discriminate.
      eapply idx_list_good; [apply vgood_list, A2|exact Ei].
    + bst H u E3. inversion H; subst. split; auto. unfold u_handle_undefined in E3.
      destruct (c_mode c); destruct (is_undef x); inversion E3; exact I.
  - (* attr *) bst H p1 E1. destruct p1 as [x s1]. destruct (eval1 _ _ _ _ _ t He E1 Hg Hn Hi) as (A1 & A2 & _).
    destruct (match x with VLoop i n => loop_attr i n a | _ => None end) eqn:Ei.
    + inversion H; subst. split; auto. destruct x; try discriminate. eapply loop_attr_good; eauto.
    + bst H u E3. inversion H; subst. split; auto. unfold u_handle_undefined in E3.
      destruct (c_mode c); destruct (is_undef x); inversion E3; exact I.
  - (* filter *) bst H p1 E1. destruct p1 as [x s1]. bst H p2 E2. destruct p2 as [vs s2]. bst H r E3. inversion H; subst.
    destruct (eval1 _ _ _ _ _ t He E1 Hg Hn Hi) as (A1 & A2 & A3 & A4 & A5).
    destruct (map_eval_ok _ He _ _ _ _ _ E2 A5 A4 A3) as [B1 B2]. split.
    + eapply step_ok_trans; [apply A1|apply B1|apply tsoft_omono, visit_list_soft', A4].
    + eapply do_filter_good; [exact E3| |exact B2]. eapply vgood_step; eauto.
  - (* test *) bst H p1 E1. destruct p1 as [x s1]. bst H p2 E2. destruct p2 as [vs s2]. bst H r E3. inversion H; subst.
    destruct (eval1 _ _ _ _ _ t He E1 Hg Hn Hi) as (A1 & A2 & A3 & A4 & A5).
    destruct (map_eval_ok _ He _ _ _ _ _ E2 A5 A4 A3) as [B1 B2]. split; [|exact I].
    eapply step_ok_trans; [apply A1|apply B1|apply tsoft_omono, visit_list_soft', A4].
  - (* call *) bst H p1 E1. destruct p1 as [vs s1]. bst H p2 E2. destruct p2 as [kvs s2].
    destruct (lookup c s2 f) as [fv s3] eqn:El.
    set (t1 := t_lookup f t). assert (S1 : tsoft t t1) by (apply tsoft_lookup, Hn).
    assert (Hn1 : nonempty t1) by (eapply tsoft_nonempty, S1).
    assert (I1 : Inv c t1 s) by (eapply Inv_soft; [apply S1|exact Hi|apply lmono_refl]).
    destruct (map_eval_ok _ He _ _ _ _ _ E1 Hg Hn1 I1) as [A1 A2].
    set (t2 := visit_list args t1) in *. assert (S2 : tsoft t1 t2) by (apply visit_list_soft', Hn1).
    assert (Hn2 : nonempty t2) by (eapply tsoft_nonempty, S2).
    assert (I2 : Inv c t2 s1) by (eapply Inv_soft; [apply S2|exact I1|apply (step_ok_lmono _ _ _ A1)]).
    destruct (map_eval_kw_ok _ He _ _ _ _ _ E2 (step_ok_sgood _ _ _ A1) Hn2 I2) as [B1 B2].
    set (T := visit_kw kwargs t2) in *. assert (S3 : tsoft t2 T) by (apply visit_kw_soft', Hn2).
    assert (AB : step_ok c (t_out T) s s2) by (eapply step_ok_trans; [apply A1|apply B1|apply tsoft_omono, S3]).
    destruct (lookup_ok (t_out T) s2 f fv s3 El (step_ok_sgood _ _ _ AB)) as (C1 & C2 & C3 & C4 & _).
    { intros Hl. apply (tsoft_omono _ _ S3), (tsoft_omono _ _ S2). eapply lookup_late; [exact Hi|apply (step_ok_lmono _ _ _ AB)|exact Hl]. }
    assert (ABC : step_ok c (t_out T) s s3) by (eapply step_ok_trans; [apply AB|apply C1|apply omono_refl]).
    destruct fv as [fv|]; [|discriminate]. destruct fv; try discriminate.
    + (* a macro *)
      assert (Gm : mgood (s_clos s3) m0 closure) by (apply (C2 _ eq_refl)).
      assert (Gv : Forall (vgood (s_clos s3)) vs).
      { eapply Forall_impl; [|apply A2]. intros w Hw. rewrite C4. eapply vgood_step; [apply B1|exact Hw]. }
      assert (Gk : Forall (fun kv => vgood (s_clos s3) (snd kv)) kvs) by (rewrite C4; exact B2).
      destruct (IHm esc _ _ _ _ _ _ _ H (step_ok_sgood _ _ _ ABC) Gm Gv Gk) as [D1 D2]. split; auto.
      eapply step_ok_trans; [apply ABC| |apply omono_refl]. eapply step_ok_weaken; [apply D1|apply omono_nil].
    + (* range *)
      destruct (f0 =? N_range); [|discriminate]. destruct vs as [|v1 vs']; [discriminate|]. destruct v1; try discriminate.
      destruct vs'; [|discriminate]. destruct kvs; [|discriminate]. inversion H; subst. split; auto.
      apply vgood_list, range_list_good.
Qed.

Lemma assoc_good C (kw : list (name * value)) p v : Forall (fun kv => vgood C (snd kv)) kw -> assoc p kw = Some v -> vgood C v.
Proof.
  induction 1 as [|[k w] r Hw Hr IH]; cbn [assoc]; [discriminate|]. destruct (p =? k); auto. intros E. inversion E; subst. exact Hw.
Qed.

Lemma call_step fuel : all_specs fuel -> forall esc, call_spec (call_macro c (S fuel) esc).
Proof.
  intros (IHe & _ & _ & IHl) esc s mc cl args kwargs v s' H Hg Hm Ha Hk.
  cbn [call_macro] in H.
  destruct (Nat.ltb _ _); [discriminate|]. bst H bound E1.
  match type of H with context [if ?b then _ else _] => destruct b end; [discriminate|].
  bst H s1 E2. bst H p3 E3. destruct p3 as [sg s2]. inversion H; subst. clear H.
  set (caller_v := match assoc N_caller kwargs with Some v => v | None => VUndef end) in *.
  set (top := mkFrame (if m_caller mc then [(N_caller, caller_v)] else []) None None cl false) in *.
  set (s0 := mkSt [top; base_frame] (s_clos s) [] (s_asks s)) in *.
  set (ps := m_params mc) in *. set (ds := m_defaults mc) in *. set (body := m_body mc) in *.
  assert (Gcv : vgood (s_clos s) caller_v).
  { unfold caller_v. destruct (assoc N_caller kwargs) eqn:Ea; [eapply assoc_good; eauto|exact I]. }
  assert (G0 : sgood s0).
  { destruct Hg as (G1 & G2 & G3). unfold sgood, s0. cbn [s_env s_clos]. split; [discriminate|]. split; auto.
    constructor; [|constructor; [|constructor]].
    - split; [|cbn; intros; discriminate]. unfold top. cbn [f_locals]. intros x w. destruct (m_caller mc); cbn [assoc]; [|discriminate].
      destruct (x =? N_caller); [|discriminate]. intros E. inversion E; subst. exact Gcv.
    - split; cbn; intros; discriminate. }
  set (tm0 := mkT [] [[]]).
  assert (Hn0 : nonempty tm0) by (unfold nonempty; cbn; discriminate).
  assert (I0 : Inv c tm0 s0) by (intros x Hx; cbn in Hx; discriminate).
  destruct (bind_params_good (s_clos s) kwargs Hk _ _ _ E1 Ha) as [Gb Eb].
  assert (Gr : Forall (fun kv => vgood (s_clos s0) (snd kv)) (rev bound)) by (apply Forall_rev, Gb).
  destruct (store_args_ok _ ds (IHe esc) _ _ _ tm0 E2 G0 Hn0 I0 Gr) as [A1 A2].
  rewrite map_rev, Eb in A1, A2.
  change (visit_params_l ds (rev ps) tm0) with (visit_params ps ds tm0) in A1, A2.
  set (tm1 := visit_params ps ds tm0) in *.
  assert (Hn1 : nonempty tm1) by (eapply tstep_nonempty, visit_params_step, Hn0).
  destruct (IHl esc _ _ _ _ tm1 E3 (step_ok_sgood _ _ _ A1) Hn1 A2) as [B1 _].
  change (t_out (walk_list body tm1)) with (closure_raw ps ds body) in B1.
  assert (AB : step_ok c (closure_raw ps ds body) s0 s2).
  { eapply step_ok_trans; [apply A1|apply B1|]. apply (walk_list_omono body tm1 Hn1). }
  (* every name the macro can ask for is in its closure (or is `caller`): nothing is asked *)
  assert (Loc : forall x, mem x (closure_raw ps ds body) = true -> localb c s0 x = true).
  { intros x Hx. unfold localb, s0. cbn [s_env s_clos]. rewrite load_cons. unfold frame_find, top. cbn [f_locals f_loop f_closure_ctx].
    destruct Hm as [Hm1 Hm2]. fold ps ds body in Hm1, Hm2.
    destruct (x =? N_caller) eqn:Ec.
    - apply Z.eqb_eq in Ec. subst x. unfold uses_caller in Hm1. rewrite Hx in Hm1. rewrite Hm1. cbn [assoc]. rewrite Z.eqb_refl. reflexivity.
    - destruct (assoc x (if m_caller mc then [(N_caller, caller_v)] else [])); [reflexivity|].
      assert (Hin : In x (macro_closure ps ds body)).
      { unfold macro_closure. apply filter_In. split; [apply mem_In, Hx|rewrite Ec; reflexivity]. }
      destruct (Hm2 x Hin) as (id & -> & Hc). destruct (cget (s_clos s) id x); [reflexivity|congruence]. }
  destruct AB as (X1 & X2 & (l & El & Hl)).
  assert (l = []) as ->.
  { destruct l as [|x l']; [reflexivity|]. exfalso. destruct (Hl x (or_introl eq_refl)) as [H1 H2]. rewrite (Loc x H1) in H2. discriminate. }
  cbn [app] in El. unfold s0 in El. cbn [s_asks] in El.
  assert (CE : clos_ext (s_clos s) (s_clos s2)) by (apply (sext_clos _ _ X1)).
  split; [|exact I]. split; [|split].
  - apply eext_sext; [apply Hg|]. split; [reflexivity|exact CE].
  - destruct Hg as (G1 & G2 & G3). unfold sgood. cbn [s_env s_clos]. split; auto. split; [|apply X2].
    eapply Forall_impl; [|apply G2]. intros fr. apply frame_good_mono, CE.
  - apply asks_in_refl. cbn [s_asks]. exact El.
Qed.

Lemma same_ctx_lmono s s' : same_ctx s s' -> lmono c s s'.
Proof. intros E x. rewrite (same_ctx_localb c s s' x E). auto. Qed.
Lemma same_ctx_sym s s' : same_ctx s s' -> same_ctx s' s.
Proof. intros (A & B & D). repeat split; auto. Qed.
Lemma emit_same s chunk : same_ctx s (emit s chunk).
Proof. repeat split. Qed.
Lemma with_out_same s o : same_ctx s (with_out s o).
Proof. repeat split. Qed.

Lemma t_assign_out x t : t_out (t_assign x t) = t_out t.
Proof. unfold t_assign. destruct (t_assigned t); reflexivity. Qed.
Lemma t_pop_out t : t_out (t_pop t) = t_out t.
Proof. reflexivity. Qed.

(* the names Enclose asks the context for are reported by the walk over the macro *)
Lemma enclose_asks_reported ps ds body t s y : Inv c t s ->
  In y (macro_closure ps ds body) -> localb c s y = false ->
  mem y (t_out (t_pop (visit_macro true ps ds body (t_push t)))) = true.
Proof.
  intros Hi Hy Hl. unfold macro_closure in Hy. apply filter_In in Hy as [Hy1 Hy2].
  assert (Hc : y <> N_caller) by (intros ->; rewrite Z.eqb_refl in Hy2; discriminate).
  apply mem_In in Hy1. rewrite t_pop_out.
  destruct (asgl (t_assigned t) y) eqn:Ea.
  - destruct (Hi y Ea) as [H|H]; [|congruence].
    assert (S : tstep (t_push t) (visit_macro true ps ds body (t_push t))).
    { apply visit_macro_step; [|apply push_nonempty]. apply Forall_forall. intros st _. apply walk_step. }
    apply (tstep_omono _ _ S). exact H.
  - apply closure_in_context; auto.
Qed.

Lemma visit_macro_step' dc ps ds body t : nonempty t -> tstep t (visit_macro dc ps ds body t).
Proof. intros Hn. apply visit_macro_step; auto. apply Forall_forall. intros st _. apply walk_step. Qed.

Lemma exec_step fuel : all_specs fuel -> forall esc, exec_spec (exec c (S fuel) esc).
Proof.
  intros (IHe & IHm & _ & IHl) esc s st sg s' t H Hg Hn Hi. assert (He := IHe esc).
  rewrite walk_eq. cbn [exec] in H. destruct st.
  - (* raw *) inversion H; subst. split; [apply step_ok_same; [exact Hg|apply emit_same]|].
    intros _. eapply Inv_lmono; [exact Hi|apply same_ctx_lmono, emit_same].
  - (* emit *) bst H p1 E1. destruct p1 as [v s1]. destruct (_ && _); [discriminate|]. inversion H; subst.
    destruct (eval1 _ _ _ _ _ t He E1 Hg Hn Hi) as (A1 & A2 & A3 & A4 & A5). split.
    + eapply step_ok_trans; [apply A1|apply step_ok_same; [exact A5|apply emit_same]|apply omono_refl].
    + intros _. eapply Inv_lmono; [exact A3|apply same_ctx_lmono, emit_same].
  - (* if *) eapply if_arms_ok; eauto.
  - (* for *)
    bst H p1 E1. destruct p1 as [iv s1]. bst H items0 E2. bst H p3 E3. destruct p3 as [items s2]. bst H s5 E4.
    destruct (eval1 _ _ _ _ _ t He E1 Hg Hn Hi) as (A1 & A2 & A3 & A4 & A5).
    cbn zeta. set (t1 := visit_expr iter t) in *.
    set (ta := assign_target t0 (t_push t1)).
    set (tfv := match filter with Some f => visit_expr f ta | None => ta end).
    set (tb := t_assign N_loop tfv).
    set (t6 := t_pop (walk_list body tb)).
    set (T := t_pop (match els with Some b => walk_list b (t_push t6) | None => t_push t6 end)).
    assert (Sa : tstep (t_push t1) ta) by (apply assign_target_step, push_nonempty).
    assert (Hna : nonempty ta) by (eapply tstep_nonempty, Sa).
    assert (Sv : tsoft ta tfv) by (unfold tfv; destruct filter; [apply visit_expr_soft, Hna|apply tsoft_refl, Hna]).
    assert (Hnv : nonempty tfv) by (eapply tsoft_nonempty, Sv).
    assert (Sb : tstep tfv tb) by (apply tstep_assign, Hnv).
    assert (Hnb : nonempty tb) by (eapply tstep_nonempty, Sb).
    assert (Sw : tstep tb (walk_list body tb)) by (apply walk_list_step', Hnb).
    assert (Sall : tstep (t_push t1) (walk_list body tb)).
    { eapply tstep_trans; [apply Sa|]. eapply tstep_trans; [apply tsoft_step, Sv|]. eapply tstep_trans; [apply Sb|apply Sw]. }
    assert (S16 : tsoft t1 t6) by (apply tstep_push_pop; auto).
    assert (Hn6 : nonempty t6) by (eapply tsoft_nonempty, S16).
    assert (S6T : tsoft t6 T).
    { unfold T. apply tstep_push_pop; auto. destruct els; [apply walk_list_step', push_nonempty|apply tstep_refl, push_nonempty]. }
    assert (Ofv : omono (t_out tfv) (t_out t6)).
    { unfold t6. rewrite t_pop_out. eapply omono_trans; [apply tstep_omono, Sb|apply tstep_omono, Sw]. }
    assert (O6T := tsoft_omono _ _ S6T).
    (* the items *)
    assert (G0 : Forall (vgood (s_clos s1)) items0).
    { destruct iv; try discriminate; try (destruct (u_strictish _); try discriminate); injection E2 as <-; first [apply vgood_list; exact A2 | constructor]. }
    assert (F : step_ok c (t_out tfv) s1 s2 /\ Forall (vgood (s_clos s2)) items).
    { unfold tfv. destruct filter as [fe|].
      - eapply (filter_items_ok _ t0 fe t1 s1 He A4 A3); eauto. apply lmono_refl.
      - inversion E3; subst. split; [apply step_ok_refl, A5|exact G0]. }
    destruct F as [F1 F2].
    assert (I12 : Inv c t1 s2) by (eapply Inv_lmono; [exact A3|apply (step_ok_lmono _ _ _ F1)]).
    assert (G2 := step_ok_sgood _ _ _ F1).
    (* the iterations *)
    set (n := lenZ items) in *. set (O := t_out (walk_list body tb)).
    assert (L0 : loop_state n O s2 (push_frame s2 (loop_frame0 n true))).
    { split; [apply sext_refl; cbn; discriminate|]. split; [apply push_sgood; [exact G2|apply fresh_frame_good]|]. apply asks_in_refl. reflexivity. }
    destruct (loop_items_ok _ t0 body n filter t1 s2 (IHl esc) A4 I12 G2 _ _ _ _ E4 L0 F2) as (X1 & X2 & X3).
    fold ta tfv tb O in X3.
    destruct (pop_sext s2 _ s5 (proj1 G2) X1) as [Y1 Y2].
    assert (G6 : sgood (pop_frame s5)) by (eapply pop_sgood; eauto; apply G2).
    set (s6 := pop_frame s5) in *.
    assert (L26 : step_ok c (t_out t6) s2 s6).
    { split; [exact Y1|]. split; [exact G6|]. eapply asks_in_eq; [| |apply X3]; reflexivity. }
    assert (I6 : Inv c t6 s6) by (eapply Inv_soft; [apply S16|exact I12|apply (step_ok_lmono _ _ _ L26)]).
    assert (Pre : step_ok c (t_out t6) s s6).
    { eapply step_ok_trans; [|apply L26|apply omono_refl].
      eapply step_ok_trans; [apply A1| |apply (tsoft_omono _ _ S16)]. eapply step_ok_weaken; [apply F1|exact Ofv]. }
    assert (NoElse : Ok (SigNormal, s6) = Ok (sg, s') -> step_ok c (t_out T) s s' /\ (sg = SigNormal -> Inv c T s')).
    { intros E. inversion E; subst. split; [eapply step_ok_weaken; [apply Pre|exact O6T]|].
      intros _. eapply Inv_soft; [apply S6T|exact I6|apply lmono_refl]. }
    destruct items as [|i0 items']; [|apply NoElse, H]. destruct els as [eb|]; [|apply NoElse, H].
    assert (Ip : Inv c (t_push t6) s6) by (eapply Inv_push; [exact I6|apply lmono_refl]).
    destruct (IHl esc _ _ _ _ (t_push t6) H G6 (push_nonempty t6) Ip) as [B1 _]. split.
    + eapply step_ok_trans; [apply Pre| |exact O6T]. eapply step_ok_weaken; [apply B1|]. unfold T. rewrite t_pop_out. apply omono_refl.
    + intros _. eapply Inv_soft; [apply S6T|exact I6|apply (step_ok_lmono _ _ _ B1)].
  - (* set *) bst H p1 E1. destruct p1 as [v s1]. inversion H; subst.
    destruct (eval1 _ _ _ _ _ t He E1 Hg Hn Hi) as (A1 & A2 & A3 & A4 & A5).
    assert (S1 := store_step_ok c (t_out (t_assign x (visit_expr e t))) s1 x v A5 A2). split.
    + eapply step_ok_trans; [apply A1|apply S1|]. rewrite t_assign_out. apply omono_refl.
    + intros _. eapply Inv_assign; [exact A4|exact A3|apply (step_ok_lmono _ _ _ S1)|apply store_local, A5].
  - (* set block *)
    bst H p1 E1. destruct p1 as [[sg0 txt] s1]. bst E1 p2 E2. destruct p2 as [sg1 s1']. inversion E1; subst. clear E1.
    set (t2 := t_pop (walk_list body (t_push t))).
    assert (S2 : tsoft t t2) by (apply scoped_body_soft', Hn).
    assert (Hn2 : nonempty t2) by (eapply tsoft_nonempty, S2).
    assert (G0 : sgood (with_out s [])) by (eapply same_ctx_sgood; [apply with_out_same|exact Hg]).
    assert (Ip : Inv c (t_push t) (with_out s [])) by (eapply Inv_push; [exact Hi|apply same_ctx_lmono, with_out_same]).
    destruct (IHl esc _ _ _ _ (t_push t) E2 G0 (push_nonempty t) Ip) as [B1 _].
    set (sa := with_out s1' (s_out s)) in *.
    assert (Sa : step_ok c (t_out t2) s sa).
    { eapply step_ok_trans; [apply step_ok_same; [exact Hg|apply (with_out_same s [])]| |apply omono_refl].
      eapply step_ok_trans; [apply B1|apply step_ok_same; [apply B1|apply with_out_same]|]. unfold t2. rewrite t_pop_out. apply omono_refl. }
    destruct sg0.
    + bst H v E3. inversion H; subst.
      assert (Gv : vgood (s_clos sa) v).
      { destruct filter; [eapply do_filter_good; [exact E3|exact I|constructor]|inversion E3; exact I]. }
      assert (S1 := store_step_ok c (t_out (t_assign x t2)) sa x v (step_ok_sgood _ _ _ Sa) Gv). split.
      * eapply step_ok_trans; [apply Sa|apply S1|]. rewrite t_assign_out. apply omono_refl.
      * intros _. eapply Inv_assign; [exact Hn2| |apply (step_ok_lmono _ _ _ S1)|apply store_local, (step_ok_sgood _ _ _ Sa)].
        eapply Inv_soft; [apply S2|exact Hi|apply (step_ok_lmono _ _ _ Sa)].
    + inversion H; subst. split; [|intros; discriminate]. eapply step_ok_weaken; [apply Sa|]. rewrite t_assign_out. apply omono_refl.
    + inversion H; subst. split; [|intros; discriminate]. eapply step_ok_weaken; [apply Sa|]. rewrite t_assign_out. apply omono_refl.
  - (* with *)
    bst H s1 E1. bst H p2 E2. destruct p2 as [sg0 s2]. inversion H; subst. clear H.
    set (sp := push_frame s empty_frame) in *.
    assert (Gp : sgood sp) by (apply push_sgood; [exact Hg|apply fresh_frame_good]).
    assert (Ip : Inv c (t_push t) sp) by (eapply Inv_push; [exact Hi|apply push_lmono; reflexivity]).
    destruct (with_binds_ok _ He _ _ _ (t_push t) E1 Gp (push_nonempty t) Ip) as [A1 A2].
    set (tw := visit_binds binds (t_push t)) in *.
    assert (Sw : tstep (t_push t) tw) by (apply visit_binds_step, push_nonempty).
    assert (Hnw : nonempty tw) by (eapply tstep_nonempty, Sw).
    destruct (IHl esc _ _ _ _ tw E2 (step_ok_sgood _ _ _ A1) Hnw A2) as [B1 _].
    assert (AB : step_ok c (t_out (walk_list body tw)) sp s2).
    { eapply step_ok_trans; [apply A1|apply B1|apply walk_list_omono, Hnw]. }
    assert (P := scoped_step _ s empty_frame s2 Hg eq_refl AB). split; [exact P|].
    intros _. eapply Inv_scoped; [|exact Hi|apply (step_ok_lmono _ _ _ P)].
    eapply tstep_trans; [apply Sw|apply walk_list_step', Hnw].
  - (* macro *)
    destruct (enclose c s _) as [s1 cl] eqn:E. inversion H; subst. clear H.
    destruct (enclose_spec c Hroot _ _ _ _ E Hg) as (X1 & X2 & X3 & X4 & _).
    set (t2 := t_pop (visit_macro true params defaults body (t_push t))).
    assert (S2 : tsoft t t2) by (apply tstep_push_pop; [exact Hn|apply visit_macro_step', push_nonempty]).
    assert (Hn2 : nonempty t2) by (eapply tsoft_nonempty, S2).
    set (mc := mkMacro m0 params defaults body (uses_caller params defaults body)).
    assert (Gm : vgood (s_clos s1) (VMacro mc cl)) by (split; [reflexivity|exact X4]).
    assert (E1 : step_ok c (t_out (t_assign m0 t2)) s s1).
    { split; [exact X1|]. split; [exact X2|]. eapply asks_in_weaken; [|apply X3]. intros y [Hy1 Hy2]. split; [|exact Hy2].
      rewrite t_assign_out. eapply enclose_asks_reported; eauto. }
    assert (S1 := store_step_ok c (t_out (t_assign m0 t2)) s1 m0 (VMacro mc cl) X2 Gm). split.
    + eapply step_ok_trans; [apply E1|apply S1|apply omono_refl].
    + intros _. eapply Inv_assign; [exact Hn2| |apply (step_ok_lmono _ _ _ S1)|apply store_local, X2].
      eapply Inv_soft; [apply S2|exact Hi|apply sext_lmono, X1].
  - (* call block *)
    bst H p1 E1. destruct p1 as [vs s1].
    destruct (enclose c s1 _) as [s2 cl] eqn:E. destruct (lookup c s2 m0) as [fv s3] eqn:El.
    set (t1 := t_lookup m0 t). assert (S1 : tsoft t t1) by (apply tsoft_lookup, Hn).
    assert (Hn1 : nonempty t1) by (eapply tsoft_nonempty, S1).
    assert (I1 : Inv c t1 s) by (eapply Inv_soft; [apply S1|exact Hi|apply lmono_refl]).
    destruct (map_eval_ok _ He _ _ _ _ _ E1 Hg Hn1 I1) as [A1 A2].
    set (t2 := visit_list args t1) in *. assert (S2 : tsoft t1 t2) by (apply visit_list_soft', Hn1).
    assert (Hn2 : nonempty t2) by (eapply tsoft_nonempty, S2).
    assert (I2 : Inv c t2 s1) by (eapply Inv_soft; [apply S2|exact I1|apply (step_ok_lmono _ _ _ A1)]).
    set (T := t_pop (visit_macro true [] [] body (t_push t2))).
    assert (S3 : tsoft t2 T) by (apply tstep_push_pop; [exact Hn2|apply visit_macro_step', push_nonempty]).
    assert (O2T := tsoft_omono _ _ S3).
    destruct (enclose_spec c Hroot _ _ _ _ E (step_ok_sgood _ _ _ A1)) as (X1 & X2 & X3 & X4 & _).
    assert (E2 : step_ok c (t_out T) s1 s2).
    { split; [exact X1|]. split; [exact X2|]. eapply asks_in_weaken; [|apply X3]. intros y [Hy1 Hy2]. split; [|exact Hy2].
      eapply enclose_asks_reported; eauto. }
    assert (A12 : step_ok c (t_out T) s s2) by (eapply step_ok_trans; [apply A1|apply E2|exact O2T]).
    destruct (lookup_ok (t_out T) s2 m0 fv s3 El X2) as (C1 & C2 & C3 & C4 & _).
    { intros Hl. apply O2T, (tsoft_omono _ _ S2). eapply lookup_late; [exact Hi|apply (step_ok_lmono _ _ _ A12)|exact Hl]. }
    assert (A13 : step_ok c (t_out T) s s3) by (eapply step_ok_trans; [apply A12|apply C1|apply omono_refl]).
    destruct fv as [fv|]; [|discriminate]. destruct fv; try discriminate.
    bst H p4 E4. destruct p4 as [v s4]. inversion H; subst. clear H.
    assert (Gm : mgood (s_clos s3) m1 closure) by (apply (C2 _ eq_refl)).
    assert (Gv : Forall (vgood (s_clos s3)) vs).
    { eapply Forall_impl; [|apply A2]. intros w Hw. rewrite C4. eapply vgood_step; [apply E2|exact Hw]. }
    assert (Gk : Forall (fun kv => vgood (s_clos s3) (snd kv)) [(N_caller, VMacro (mkMacro N_caller [] [] body (uses_caller [] [] body)) cl)]).
    { constructor; [|constructor]. cbn [snd]. rewrite C4. split; [reflexivity|exact X4]. }
    destruct (IHm esc _ _ _ _ _ _ _ E4 (step_ok_sgood _ _ _ A13) Gm Gv Gk) as [D1 D2].
    assert (A14 : step_ok c (t_out T) s s4).
    { eapply step_ok_trans; [apply A13| |apply omono_refl]. eapply step_ok_weaken; [apply D1|apply omono_nil]. }
    split.
    + eapply step_ok_trans; [apply A14|apply step_ok_same; [apply A14|apply emit_same]|apply omono_refl].
    + intros _. eapply Inv_soft; [eapply tsoft_trans; [apply S1|]; eapply tsoft_trans; [apply S2|apply S3]|exact Hi|].
      eapply lmono_trans; [apply (step_ok_lmono _ _ _ A14)|apply same_ctx_lmono, emit_same].
  - (* filter block *)
    bst H p1 E1. destruct p1 as [[sg0 txt] s1]. bst E1 p2 E2. destruct p2 as [sg1 s1']. inversion E1; subst. clear E1.
    set (t2 := t_pop (walk_list body (t_push t))).
    assert (S2 : tsoft t t2) by (apply scoped_body_soft', Hn).
    assert (G0 : sgood (with_out s [])) by (eapply same_ctx_sgood; [apply with_out_same|exact Hg]).
    assert (Ip : Inv c (t_push t) (with_out s [])) by (eapply Inv_push; [exact Hi|apply same_ctx_lmono, with_out_same]).
    destruct (IHl esc _ _ _ _ (t_push t) E2 G0 (push_nonempty t) Ip) as [B1 _].
    set (sa := with_out s1' (s_out s)) in *.
    assert (Sa : step_ok c (t_out t2) s sa).
    { eapply step_ok_trans; [apply step_ok_same; [exact Hg|apply (with_out_same s [])]| |apply omono_refl].
      eapply step_ok_trans; [apply B1|apply step_ok_same; [apply B1|apply with_out_same]|]. unfold t2. rewrite t_pop_out. apply omono_refl. }
    assert (Ia : Inv c t2 sa) by (eapply Inv_soft; [apply S2|exact Hi|apply (step_ok_lmono _ _ _ Sa)]).
    destruct sg0.
    + bst H v E3. inversion H; subst. split.
      * eapply step_ok_trans; [apply Sa|apply step_ok_same; [apply Sa|apply emit_same]|apply omono_refl].
      * intros _. eapply Inv_lmono; [exact Ia|apply same_ctx_lmono, emit_same].
    + inversion H; subst. split; [exact Sa|intros; discriminate].
    + inversion H; subst. split; [exact Sa|intros; discriminate].
  - (* autoescape *)
    bst H p1 E1. destruct p1 as [v0 s1]. bst H esc' E2.
    destruct (eval1 _ _ _ _ _ t He E1 Hg Hn Hi) as (A1 & A2 & A3 & A4 & A5).
    set (t1 := visit_expr v t) in *. set (T := t_pop (walk_list body (t_push t1))).
    assert (S1 : tsoft t1 T) by (apply scoped_body_soft', A4).
    assert (Ip : Inv c (t_push t1) s1) by (eapply Inv_push; [exact A3|apply lmono_refl]).
    destruct (IHl esc' _ _ _ _ (t_push t1) H A5 (push_nonempty t1) Ip) as [B1 _]. split.
    + eapply step_ok_trans; [apply A1| |apply (tsoft_omono _ _ S1)]. eapply step_ok_weaken; [apply B1|]. unfold T. rewrite t_pop_out. apply omono_refl.
    + intros _. eapply Inv_soft; [apply S1|exact A3|apply (step_ok_lmono _ _ _ B1)].
  - (* break *) inversion H; subst. split; [apply step_ok_refl, Hg|intros; discriminate].
  - (* continue *) inversion H; subst. split; [apply step_ok_refl, Hg|intros; discriminate].
Qed.

Lemma exec_list_step fuel : all_specs fuel -> forall esc, exec_list_spec (exec_list c (S fuel) esc).
Proof.
  intros (_ & _ & IHx & IHl) esc s l sg s' t H Hg Hn Hi. cbn [exec_list] in H. destruct l as [|st r].
  - inversion H; subst. split; [apply step_ok_refl, Hg|intros _; exact Hi].
  - bst H p1 E1. destruct p1 as [sg0 s1].
    destruct (IHx esc _ _ _ _ t E1 Hg Hn Hi) as [A1 A2].
    change (walk_list (st :: r) t) with (walk_list r (walk st t)).
    assert (Hn1 : nonempty (walk st t)) by (eapply tstep_nonempty, walk_step, Hn).
    assert (Om : omono (t_out (walk st t)) (t_out (walk_list r (walk st t)))) by (apply walk_list_omono, Hn1).
    destruct sg0; try (inversion H; subst; split; [eapply step_ok_weaken; eauto|intros; discriminate]).
    destruct (IHl esc _ _ _ _ (walk st t) H (step_ok_sgood _ _ _ A1) Hn1 (A2 eq_refl)) as [B1 B2]. split; auto.
    eapply step_ok_trans; eauto.
Qed.

Theorem all_specs_hold : forall fuel, all_specs fuel.
Proof.
  induction fuel as [|fuel IH].
  - repeat split; intros; discriminate.
  - split; [apply eval_step, IH|]. split; [apply call_step, IH|]. split; [apply exec_step, IH|apply exec_list_step, IH].
Qed.
End Main.

(* ---- the theorem ---- *)
Definition plain_context (c : cfg) : bool := forallb (fun kv => vplain (snd kv)) (c_root c).

Lemma plain_root_good c : plain_context c = true -> root_good c.
Proof.
  unfold plain_context, root_good. intros H C x v. induction (c_root c) as [|[k w] r IH]; cbn [assoc]; [discriminate|].
  cbn [forallb snd] in H. apply andb_prop in H as [H1 H2]. destruct (x =? k); [|apply IH, H2].
  intros E. inversion E; subst. apply vplain_good, H1.
Qed.

Lemma init_good c : sgood (init_state) /\ Inv c (mkT [] [[]]) init_state /\ nonempty (mkT [] [[]]).
Proof.
  split; [|split].
  - unfold sgood, init_state. cbn [s_env s_clos]. split; [discriminate|]. split.
    + constructor; [|constructor]. split; cbn; intros; discriminate.
    + intros id x v. unfold cget. destruct id; cbn; discriminate.
  - intros x Hx. cbn in Hx. discriminate.
  - unfold nonempty. cbn. discriminate.
Qed.

Lemma undeclared_sound_proof (c : cfg) (fuel : nat) (body : list stmt) (s : st) :
  plain_context c = true -> Interp.run c fuel body = Ok s ->
  forall x, In x (s_asks s) -> In x (find_undeclared body).
Proof.
  intros Hp Hr x Hx. assert (Hroot := plain_root_good c Hp).
  unfold Interp.run in Hr. apply bind_ok in Hr as ([sg s1] & H1 & Hr). inversion Hr; subst. clear Hr.
  destruct (all_specs_hold c Hroot fuel) as (_ & _ & _ & Hl).
  destruct (init_good c) as (G & I0 & N0).
  destruct (Hl (c_escape c) _ _ _ _ (mkT [] [[]]) H1 G N0 I0) as [(_ & _ & (l & El & Hin)) _].
  unfold init_state in El. cbn [s_asks] in El. rewrite app_nil_r in El. rewrite El in Hx.
  apply mem_In. apply (Hin x Hx).
Qed.

(* a render that fails inside its k-th top-level statement: what the completed statements before it
   asked for is in the report of the whole template *)
Lemma undeclared_sound_prefix_proof (c : cfg) (fuel : nat) (done rest : list stmt) (s : st) :
  plain_context c = true -> Interp.run c fuel done = Ok s ->
  forall x, In x (s_asks s) -> In x (find_undeclared (done ++ rest)).
Proof.
  intros Hp Hr x Hx. assert (H := undeclared_sound_proof c fuel done s Hp Hr x Hx).
  unfold find_undeclared in *. unfold walk_list in *. rewrite fold_left_app.
  apply mem_In. apply mem_In in H.
  assert (N : nonempty (fold_left (fun t s0 => walk s0 t) done (mkT [] [[]]))).
  { eapply tstep_nonempty. apply (walk_list_step' done). unfold nonempty. cbn. discriminate. }
  apply (tstep_omono _ _ (walk_list_step' rest _ N)). exact H.
Qed.

(* calling a well-formed macro never asks the render context for anything: every free name of the
   macro is in its closure *)
Lemma macro_call_asks_nothing_proof (c : cfg) fuel esc s mc cl args kwargs v s' :
  plain_context c = true -> sgood s -> mgood (s_clos s) mc cl ->
  Forall (vgood (s_clos s)) args -> Forall (fun kv => vgood (s_clos s) (snd kv)) kwargs ->
  call_macro c fuel esc s mc cl args kwargs = Ok (v, s') -> s_asks s' = s_asks s.
Proof.
  intros Hp Hg Hm Ha Hk H. assert (Hroot := plain_root_good c Hp).
  destruct (all_specs_hold c Hroot fuel) as (_ & Hc & _ & _).
  destruct (Hc esc _ _ _ _ _ _ _ H Hg Hm Ha Hk) as [(_ & _ & (l & El & Hin)) _].
  destruct l as [|x l']; [exact El|]. destruct (Hin x (or_introl eq_refl)) as [Hx _]. discriminate.
Qed.

(* ---- the tracker before the fix: refuted on each construct whose visit order was wrong ---- *)
Definition asked_not_reported (report : list stmt -> list name) (c : cfg) (fuel : nat) (body : list stmt) : bool :=
  match Interp.run c fuel body with
  | Ok s => existsb (fun x => negb (mem x (report body))) (s_asks s)
  | _ => false
  end.

Definition X : name := 100.
Definition M : name := 101.
Definition Y : name := 102.
Definition cfg0 := mkCfg Lenient [] false.
Definition p_set := [SSet X (EVar X)].                                              (* {% set x = x %} *)
Definition p_with := [SWith [(X, EVar X)] []].                                      (* {% with x = x %}{% endwith %} *)
Definition p_setblock := [SSetBlock X [SEmit (EVar X)] None].                       (* {% set x %}{{ x }}{% endset %} *)
Definition p_macro_default := [SMacro M [X] [(X, EVar X)] [SEmit (EVar X)]; SEmit (ECall M [] [])].   (* {% macro m(x=x) %}{{ x }}{% endmacro %}{{ m() }} *)
Definition p_macro_default2 := [SMacro M [Y; X] [(X, EVar Y)] [SEmit (EVar X)]; SEmit (ECall M [EConst (LInt 1)] [])]. (* {% macro m(y, x=y) %} *)
Definition p_macro_rec := [SMacro M [] [] [SEmit (EVar M)]].                        (* {% macro m() %}{{ m }}{% endmacro %} *)
Definition p_loop_iter := [SFor (TVar X) (EVar N_loop) None [] None false].          (* {% for x in loop %}{% endfor %} *)
Definition p_loop_filter := [SFor (TVar X) (EList [EConst (LInt 1)]) (Some (EVar N_loop)) [] None false]. (* {% for x in [1] if loop %} *)
Definition p_autoescape := [SAutoEscape (EVar X) []].                               (* {% autoescape x %}{% endautoescape %} *)
Definition refutation_programs := [p_set; p_with; p_setblock; p_macro_default; p_macro_default2; p_macro_rec; p_loop_iter; p_loop_filter; p_autoescape].

Lemma refuted_before_fix_proof :
  forallb (asked_not_reported find_undeclared_old cfg0 50) refutation_programs = true /\
  forallb (fun p => negb (asked_not_reported find_undeclared cfg0 50 p)) refutation_programs = true.
Proof. split; vm_compute; reflexivity. Qed.

(* non-vacuity: a program with a set, a macro with a default that reads the context, a filtered loop and
   a call block, rendered with a context of plain values: renders "8182", asks the context five times
   (y at the macro declaration, x, y twice in the loop filter, an undefined name at the end) *)
Definition demo_ctx := mkCfg Lenient [(X, VList [VInt 1; VInt 2]); (Y, VInt 5)] false.
Definition demo_body : list stmt :=
  [ SSet 104 (EConst (LInt 3));
    SMacro M [103] [(103, EVar Y)] [SEmit (EBin OAdd (EVar 103) (EVar 104)); SEmit (ECall N_caller [] [])];
    SFor (TVar 105) (EVar X) (Some (ECmp (EVar 105) [(CLt, EVar Y)])) [SCallBlock M [] [SEmit (EVar 105)]] None false;
    SEmit (EVar 106) ].
Lemma demo_runs : exists s, Interp.run demo_ctx 60 demo_body = Ok s /\ plain_context demo_ctx = true /\ length (s_asks s) = 5%nat.
Proof. eexists. split; [vm_compute; reflexivity|]. split; reflexivity. Qed.
