(* C18 runner: the lookups the error-carrying interpreter records, whatever the outcome of the render,
   next to the static reports.
   output: [0; nout; rendered text..; <asks>; <reports>]    render finished
         | [1; code; <asks>; <reports>]                     render failed (asks up to the failure)
         | [8] out of gas | [9] undecodable
   <asks>    = nasks; asks..
   <reports> = nund; undeclared..; nold; undeclared by the pre-fix tracker..; nnested; (var; nattrs; attrs..).. *)
From Coq Require Import String.
From MJ Require Import Common.Base Lang.Syntax Lang.Meta Lang.Interp Lang.Codec C18.XInterp C18.Old C18.NMeta.

Definition FUEL := 400%nat.

Definition enc_path (p : path) : list Z := fst p :: lenZ (snd p) :: snd p.

Definition asks (inp : list Z) : list Z :=
  match drequest inp with
  | None => [9]
  | Some (md, esc, ctx, body) =>
      let und := find_undeclared body in
      let old := find_undeclared_old body in
      let nst := find_undeclared_nested body in
      let tail := lenZ und :: und ++ lenZ old :: old ++ lenZ nst :: flat_map enc_path nst in
      match run_asks (mkCfg md ctx esc) FUEL body with
      | OkE s => let o := output_of s in 0 :: lenZ o :: o ++ lenZ (s_asks s) :: s_asks s ++ tail
      | ErrE code a => 1 :: code :: lenZ a :: a ++ tail
      | PanicE => [2]
      | GasE => [8]
      end
  end.

Open Scope string_scope.
Definition runners : list (string * (list Z -> list Z)) := [ ("c18", asks) ].
