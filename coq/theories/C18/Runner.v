(* C18 runner: the reference interpreter's recorded context lookups next to the static report.
   output: [0; nout; rendered text..; nasks; asks..; nund; undeclared..; nold; undeclared by the pre-fix tracker..]
         | [1; code; nund; undeclared..; nold; ..] render error | [8] out of gas | [9] undecodable *)
From Coq Require Import String.
From MJ Require Import Common.Base Lang.Syntax Lang.Meta Lang.Interp Lang.Codec C18.Old.

Definition FUEL := 400%nat.

Definition asks (inp : list Z) : list Z :=
  match drequest inp with
  | None => [9]
  | Some (md, esc, ctx, body) =>
      let und := find_undeclared body in
      let old := find_undeclared_old body in
      let tail := lenZ und :: und ++ lenZ old :: old in
      match Interp.run (mkCfg md ctx esc) FUEL body with
      | Ok s => let o := output_of s in 0 :: lenZ o :: o ++ lenZ (s_asks s) :: s_asks s ++ tail
      | Err c => 1 :: c :: tail
      | Panic => [2]
      | OutOfGas => [8]
      end
  end.

Open Scope string_scope.
Definition runners : list (string * (list Z -> list Z)) := [ ("c18", asks) ].
