(* C18: facts about the run-time side (Lang/Interp.v): name resolution, stores, closures, and the
   well-formedness of macro values (a macro's closure holds every free name of the macro). *)
From MJ Require Import Common.Base Lang.Syntax Lang.Meta Lang.Interp Lang.Facts C18.Tracker.

Lemma bind_ok {A B} (o : outcome A) (f : A -> outcome B) r : bind o f = Ok r -> exists a, o = Ok a /\ f a = Ok r.
Proof. destruct o; cbn; try discriminate. intros H. eauto. Qed.

(* the strong induction principle for nested values (lists, maps) is Lang/Facts.v's *)
Notation value_ind' := value_ind_nested.

Definition closures := list (list (name * value)).

Definition cget (C : closures) (id : nat) (x : name) : option value :=
  match nth_error C id with Some cl => assoc x cl | None => None end.

Definition clos_ext (C C' : closures) : Prop :=
  (forall id, nth_error C id <> None -> nth_error C' id <> None) /\
  (forall id x, cget C id x <> None -> cget C' id x <> None).

Lemma clos_ext_refl C : clos_ext C C.
Proof. split; auto. Qed.
Lemma clos_ext_trans A B C : clos_ext A B -> clos_ext B C -> clos_ext A C.
Proof. intros [a1 a2] [b1 b2]. split; auto. Qed.

(* a macro value is well formed: its caller flag is the analysis' and its closure holds every
   name the analysis found free in it *)
Definition mgood (C : closures) (mc : macro) (cl : option nat) : Prop :=
  m_caller mc = uses_caller (m_params mc) (m_defaults mc) (m_body mc) /\
  forall x, In x (macro_closure (m_params mc) (m_defaults mc) (m_body mc)) -> exists id, cl = Some id /\ cget C id x <> None.

Fixpoint vgood (C : closures) (v : value) : Prop :=
  match v with
  | VMacro mc cl => mgood C mc cl
  | VList l => (fix go (l : list value) : Prop := match l with [] => True | x :: r => vgood C x /\ go r end) l
  | VMap m => (fix go (m : list (value * value)) : Prop :=
                 match m with [] => True | (k, x) :: r => (vgood C k /\ vgood C x) /\ go r end) m
  | _ => True
  end.

Lemma vgood_list C l : vgood C (VList l) <-> Forall (vgood C) l.
Proof.
  cbn [vgood]. induction l as [|x r IH].
  - split; auto.
  - split.
    + intros [H1 H2]. constructor; auto. apply IH, H2.
    + intros H. inversion H; subst. split; auto. apply IH. auto.
Qed.

(* a map is well formed when all its keys and values are *)
Lemma vgood_map C m : vgood C (VMap m) <-> entries_all (vgood C) m.
Proof.
  cbn [vgood]. unfold entries_all. induction m as [|[k x] r IH].
  - split; auto.
  - split.
    + intros [H1 H2]. constructor; [exact H1|]. apply IH, H2.
    + intros H. inversion H as [|? ? H1 H2]; subst. split; [exact H1|]. apply IH, H2.
Qed.

Lemma mgood_mono C C' mc cl : clos_ext C C' -> mgood C mc cl -> mgood C' mc cl.
Proof. intros [_ E] [H1 H2]. split; auto. intros x Hx. destruct (H2 x Hx) as (id & -> & Hg). exists id. split; auto. Qed.

Lemma vgood_mono C C' v : clos_ext C C' -> vgood C v -> vgood C' v.
Proof.
  intros E. induction v using value_ind'; cbn [vgood]; auto.
  - change (vgood C (VList l) -> vgood C' (VList l)). rewrite !vgood_list. intros Hl.
    rewrite Forall_forall in *. intros x Hx. apply H; auto.
  - change (vgood C (VMap m) -> vgood C' (VMap m)). rewrite !vgood_map. unfold entries_all. intros Hm.
    rewrite Forall_forall in *. intros p Hp. destruct (H p Hp) as [IHk IHx]. destruct (Hm p Hp) as [Gk Gx]. split; auto.
  - intros Hm. eapply mgood_mono; eauto.
Qed.

(* values without macro objects are well formed whatever the closures are *)
Fixpoint vplain (v : value) : bool :=
  match v with
  | VMacro _ _ => false
  | VList l => (fix go (l : list value) : bool := match l with [] => true | x :: r => vplain x && go r end) l
  | VMap m => (fix go (m : list (value * value)) : bool :=
                 match m with [] => true | (k, x) :: r => (vplain k && vplain x) && go r end) m
  | _ => true
  end.
Lemma vplain_list l : vplain (VList l) = forallb vplain l.
Proof. cbn [vplain]. induction l; cbn; auto; try (rewrite IHl; reflexivity). Qed.
Lemma vplain_map m : vplain (VMap m) = forallb (fun p => vplain (fst p) && vplain (snd p)) m.
Proof. cbn [vplain]. induction m as [|[k x] r IH]; cbn [forallb fst snd]; [reflexivity|]. rewrite IH. reflexivity. Qed.
Lemma vplain_good C v : vplain v = true -> vgood C v.
Proof.
  induction v using value_ind'; cbn [vgood]; auto; try discriminate.
  - change (vplain (VList l) = true -> vgood C (VList l)). rewrite vplain_list, vgood_list, forallb_forall.
    intros Hl. rewrite Forall_forall in *. intros x Hx. apply H; auto.
  - change (vplain (VMap m) = true -> vgood C (VMap m)). rewrite vplain_map, vgood_map, forallb_forall. unfold entries_all.
    intros Hm. rewrite Forall_forall in *. intros p Hp. destruct (H p Hp) as [IHk IHx].
    specialize (Hm p Hp). apply andb_prop in Hm as [Pk Px]. split; auto.
Qed.

(* ---- association lists ---- *)
Lemma assoc_set_same {A} k (v : A) l : assoc k (assoc_set k v l) = Some v.
Proof.
  induction l as [|[k' v'] r IH]; cbn.
  - rewrite Z.eqb_refl. reflexivity.
  - destruct (k =? k') eqn:E; cbn; rewrite ?Z.eqb_refl; auto. rewrite E. exact IH.
Qed.
Lemma assoc_set_other {A} k (v : A) l x : x <> k -> assoc x (assoc_set k v l) = assoc x l.
Proof.
  intros Hx. induction l as [|[k' v'] r IH]; cbn.
  - destruct (x =? k) eqn:E; auto. apply Z.eqb_eq in E. congruence.
  - destruct (k =? k') eqn:E; cbn.
    + apply Z.eqb_eq in E. subst k'. destruct (x =? k) eqn:E2; auto. apply Z.eqb_eq in E2. congruence.
    + destruct (x =? k'); auto.
Qed.
Lemma assoc_set_cases {A} k (v : A) l x : assoc x (assoc_set k v l) = if x =? k then Some v else assoc x l.
Proof.
  destruct (x =? k) eqn:E.
  - apply Z.eqb_eq in E. subst. apply assoc_set_same.
  - apply assoc_set_other. intros ->. rewrite Z.eqb_refl in E. discriminate.
Qed.

Lemma nth_set_nth_clos id f (C : closures) j :
  nth_error (set_nth_clos id f C) j = if Nat.eqb j id then option_map f (nth_error C id) else nth_error C j.
Proof.
  revert id j. induction C as [|c r IH]; intros id j; cbn.
  - destruct (Nat.eqb j id); destruct id, j; cbn; auto.
  - destruct id as [|id]; cbn.
    + destruct j; cbn; auto.
    + destruct j as [|j]; cbn; auto.
Qed.

Lemma cget_set C id k v i x :
  cget (set_nth_clos id (assoc_set k v) C) i x =
  if Nat.eqb i id then (match nth_error C id with Some cl => if x =? k then Some v else assoc x cl | None => None end) else cget C i x.
Proof.
  unfold cget. rewrite nth_set_nth_clos. destruct (Nat.eqb i id) eqn:E; auto.
  destruct (nth_error C id); cbn; auto. apply assoc_set_cases.
Qed.

Lemma clos_ext_set C id k v : clos_ext C (set_nth_clos id (assoc_set k v) C).
Proof.
  split.
  - intros i H. rewrite nth_set_nth_clos. destruct (Nat.eqb i id) eqn:E; auto.
    apply Nat.eqb_eq in E. subst. destruct (nth_error C id); cbn; congruence.
  - intros i x H. rewrite cget_set. destruct (Nat.eqb i id) eqn:E; auto.
    apply Nat.eqb_eq in E. subst. unfold cget in H. destruct (nth_error C id); auto. destruct (x =? k); auto. discriminate.
Qed.

Lemma clos_ext_app C : clos_ext C (C ++ [[]]).
Proof.
  split.
  - intros i H. apply nth_error_Some in H. apply nth_error_Some. rewrite app_length. cbn. lia.
  - intros i x H. unfold cget in *. destruct (nth_error C i) eqn:E; [|congruence].
    rewrite nth_error_app1; [rewrite E; auto|]. apply nth_error_Some. congruence.
Qed.

(* ---- name resolution ---- *)
Section Run.
Variable c : cfg.

Definition localb (s : st) (x : name) : bool := negb (snd (load c (s_clos s) (s_env s) x)).

(* one frame of Context::load *)
Definition frame_find (C : closures) (f : frame) (x : name) : option value :=
  match assoc x (f_locals f) with
  | Some v => Some v
  | None =>
      match (match f_loop f with Some (i, n, true) => if x =? N_loop then Some (VLoop i n) else None | _ => None end) with
      | Some v => Some v
      | None => match f_closure_ctx f with Some id => cget C id x | None => None end
      end
  end.

Lemma load_cons C f r x : load c C (f :: r) x =
  match frame_find C f x with
  | Some v => (Some v, false)
  | None => if f_base f then (match assoc x (c_root c) with Some v => (Some v, true) | None => (fst (load c C r x), true) end)
            else load c C r x
  end.
Proof.
  unfold frame_find, cget. cbn [load]. destruct (assoc x (f_locals f)); auto.
  destruct (match f_loop f with Some (i, n, true) => if x =? N_loop then Some (VLoop i n) else None | _ => None end); auto.
  destruct (f_closure_ctx f) as [id|].
  - destruct (nth_error C id) as [cl|]; [destruct (assoc x cl); auto|];
    destruct (f_base f); auto; destruct (assoc x (c_root c)); auto; destruct (load c C r x); auto.
  - destruct (f_base f); auto; destruct (assoc x (c_root c)); auto; destruct (load c C r x); auto.
Qed.

Definition loop_exposed (f : frame) : bool := match f_loop f with Some (_, _, true) => true | _ => false end.

Definition frame_ext (f f' : frame) : Prop :=
  (forall x, assoc x (f_locals f) <> None -> assoc x (f_locals f') <> None) /\
  (loop_exposed f = true -> loop_exposed f' = true) /\ f_closure_ctx f' = f_closure_ctx f /\ f_base f' = f_base f.

Lemma frame_ext_refl f : frame_ext f f.
Proof. repeat split; auto. Qed.
Lemma frame_ext_trans a b d : frame_ext a b -> frame_ext b d -> frame_ext a d.
Proof. intros (a1 & a2 & a3 & a4) (b1 & b2 & b3 & b4). repeat split; auto; congruence. Qed.

Lemma frame_find_mono C C' f f' x : clos_ext C C' -> frame_ext f f' -> frame_find C f x <> None -> frame_find C' f' x <> None.
Proof.
  intros [_ E] (F1 & F2 & F3 & F4). unfold frame_find. rewrite F3. unfold loop_exposed in F2.
  destruct (assoc x (f_locals f)) eqn:A1.
  - intros _. specialize (F1 x). rewrite A1 in F1. destruct (assoc x (f_locals f')); [discriminate|]. exfalso. apply F1; congruence.
  - destruct (assoc x (f_locals f')); [discriminate|].
    destruct (f_loop f) as [[[i n] [|]]|].
    + specialize (F2 eq_refl). destruct (f_loop f') as [[[i' n'] [|]]|]; try discriminate.
      destruct (x =? N_loop); [discriminate|]. destruct (f_closure_ctx f); auto.
    + destruct (f_loop f') as [[[i' n'] [|]]|]; try (destruct (x =? N_loop); [discriminate|]); destruct (f_closure_ctx f); auto.
    + destruct (f_loop f') as [[[i' n'] [|]]|]; try (destruct (x =? N_loop); [discriminate|]); destruct (f_closure_ctx f); auto.
Qed.

Lemma load_local_clos_mono C C' env x : clos_ext C C' -> snd (load c C env x) = false -> snd (load c C' env x) = false.
Proof.
  intros E. induction env as [|f r IH]; [auto|]. rewrite !load_cons.
  destruct (frame_find C f x) eqn:F1.
  - intros _. assert (H : frame_find C' f x <> None) by (eapply frame_find_mono; eauto using frame_ext_refl; congruence).
    destruct (frame_find C' f x); [reflexivity|congruence].
  - destruct (frame_find C' f x); [reflexivity|]. destruct (f_base f); auto.
    destruct (assoc x (c_root c)); auto.
Qed.

Lemma load_local_mono C C' f f' e x : clos_ext C C' -> frame_ext f f' ->
  snd (load c C (f :: e) x) = false -> snd (load c C' (f' :: e) x) = false.
Proof.
  intros E F. rewrite !load_cons. destruct (frame_find C f x) eqn:F1.
  - intros _. assert (H : frame_find C' f' x <> None) by (eapply frame_find_mono; eauto; congruence).
    destruct (frame_find C' f' x); [reflexivity|congruence].
  - destruct (frame_find C' f' x); [reflexivity|]. destruct F as (_ & _ & _ & ->). destruct (f_base f).
    + destruct (assoc x (c_root c)); auto.
    + apply load_local_clos_mono, E.
Qed.

(* a frame that is not the base frame only adds bindings *)
Lemma load_push_local C f e x : f_base f = false -> snd (load c C e x) = false -> snd (load c C (f :: e) x) = false.
Proof. intros Hb H. rewrite load_cons, Hb. destruct (frame_find C f x); auto. Qed.

(* ---- well-formed states ---- *)
Definition frame_good (C : closures) (f : frame) : Prop :=
  (forall x v, assoc x (f_locals f) = Some v -> vgood C v) /\
  (forall id, f_closure f = Some id -> nth_error C id <> None).
Definition clos_good (C : closures) : Prop := forall id x v, cget C id x = Some v -> vgood C v.
Definition root_good : Prop := forall C x v, assoc x (c_root c) = Some v -> vgood C v.
Definition sgood (s : st) : Prop :=
  s_env s <> [] /\ Forall (frame_good (s_clos s)) (s_env s) /\ clos_good (s_clos s).

Lemma frame_good_mono C C' f : clos_ext C C' -> frame_good C f -> frame_good C' f.
Proof.
  intros E [H1 H2]. split.
  - intros x v Hx. eapply vgood_mono; eauto.
  - intros id Hid. apply E, H2, Hid.
Qed.

Lemma frame_find_good C f x v : frame_good C f -> clos_good C -> frame_find C f x = Some v -> vgood C v.
Proof.
  intros [H1 _] H2. unfold frame_find. destruct (assoc x (f_locals f)) eqn:A1.
  - intros E. inversion E; subst. eapply H1; eauto.
  - destruct (f_loop f) as [[[i n] [|]]|].
    + destruct (x =? N_loop); [intros E; inversion E; exact I|]. destruct (f_closure_ctx f); [apply H2|discriminate].
    + destruct (f_closure_ctx f); [apply H2|discriminate].
    + destruct (f_closure_ctx f); [apply H2|discriminate].
Qed.

Hypothesis Hroot : root_good.

Lemma load_good C env x v : Forall (frame_good C) env -> clos_good C -> fst (load c C env x) = Some v -> vgood C v.
Proof.
  intros Hf Hc. induction Hf as [|f r Hf Hr IH].
  - cbn. destruct (x =? N_range); [intros E; inversion E; exact I|discriminate].
  - rewrite load_cons. destruct (frame_find C f x) eqn:F1.
    + cbn. intros E. inversion E; subst. eapply frame_find_good; eauto.
    + destruct (f_base f); auto. destruct (assoc x (c_root c)) eqn:A1; cbn; auto.
      intros E. inversion E; subst. eapply Hroot; eauto.
Qed.

(* ---- lookup ---- *)
Lemma lookup_spec s x : exists v, lookup c s x = (v, mkSt (s_env s) (s_clos s) (s_out s) (if localb s x then s_asks s else x :: s_asks s))
  /\ v = fst (load c (s_clos s) (s_env s) x).
Proof.
  unfold lookup, localb. destruct (load c (s_clos s) (s_env s) x) as [v asked]. exists v. cbn. split; auto.
  destruct asked; cbn; auto. destruct s; reflexivity.
Qed.
End Run.

Section Run2.
Variable c : cfg.
Hypothesis Hroot : root_good c.

(* the environment keeps its frames below the top one, the top frame only gains bindings, closures only grow *)
Definition sext (s s' : st) : Prop :=
  exists f e f', s_env s = f :: e /\ s_env s' = f' :: e /\ frame_ext f f' /\ clos_ext (s_clos s) (s_clos s').

Definition lmono (s s' : st) : Prop := forall x, localb c s x = true -> localb c s' x = true.

Lemma lmono_refl s : lmono s s.
Proof. intros x H. exact H. Qed.
Lemma lmono_trans a b d : lmono a b -> lmono b d -> lmono a d.
Proof. intros H1 H2 x H. apply H2, H1, H. Qed.

Lemma sext_refl s : s_env s <> [] -> sext s s.
Proof.
  destruct (s_env s) as [|f e] eqn:E; [congruence|]. intros _. exists f, e, f.
  split; [exact E|]. split; [exact E|]. split; [apply frame_ext_refl|apply clos_ext_refl].
Qed.
Lemma sext_trans a b d : sext a b -> sext b d -> sext a d.
Proof.
  intros (f1 & e1 & f1' & A1 & A2 & A3 & A4) (f2 & e2 & f2' & B1 & B2 & B3 & B4).
  rewrite A2 in B1. inversion B1; subst. exists f1, e2, f2'. split; [auto|]. split; [auto|].
  split; [eapply frame_ext_trans; eauto|eapply clos_ext_trans; eauto].
Qed.
Lemma sext_lmono s s' : sext s s' -> lmono s s'.
Proof.
  intros (f & e & f' & A1 & A2 & A3 & A4) x. unfold localb. rewrite A1, A2. rewrite !negb_true_iff.
  apply load_local_mono; auto.
Qed.
Lemma sext_nonempty s s' : sext s s' -> s_env s' <> [].
Proof. intros (f & e & f' & A1 & A2 & _). rewrite A2. discriminate. Qed.

(* states that differ in output only *)
Definition same_ctx (s s' : st) : Prop := s_env s' = s_env s /\ s_clos s' = s_clos s /\ s_asks s' = s_asks s.
Lemma same_ctx_sext s s' : s_env s <> [] -> same_ctx s s' -> sext s s'.
Proof.
  intros Hn (E1 & E2 & E3). destruct (s_env s) as [|f e] eqn:E; [congruence|]. exists f, e, f. rewrite E1, E2.
  split; [exact E|]. split; [reflexivity|]. split; [apply frame_ext_refl|apply clos_ext_refl].
Qed.
Lemma same_ctx_localb s s' x : same_ctx s s' -> localb c s' x = localb c s x.
Proof. intros (E1 & E2 & E3). unfold localb. rewrite E1, E2. reflexivity. Qed.
Lemma same_ctx_sgood s s' : same_ctx s s' -> sgood s -> sgood s'.
Proof. intros (E1 & E2 & E3) (H1 & H2 & H3). unfold sgood. rewrite E1, E2. auto. Qed.

(* ---- asks ---- *)
Definition asks_in (P : name -> Prop) (s s' : st) : Prop := exists l, s_asks s' = l ++ s_asks s /\ forall x, In x l -> P x.
Lemma asks_in_refl P s s' : s_asks s' = s_asks s -> asks_in P s s'.
Proof. intros E. exists []. split; auto. intros x []. Qed.
Lemma asks_in_trans P a b d : asks_in P a b -> asks_in P b d -> asks_in P a d.
Proof.
  intros (l1 & E1 & H1) (l2 & E2 & H2). exists (l2 ++ l1). rewrite E2, E1, app_assoc. split; auto.
  intros x Hx. apply in_app_or in Hx as [Hx|Hx]; auto.
Qed.
Lemma asks_in_weaken (P Q : name -> Prop) s s' : (forall x, P x -> Q x) -> asks_in P s s' -> asks_in Q s s'.
Proof. intros H (l & E & Hl). exists l. split; auto. Qed.

Definition AP (out : list name) (s : st) : name -> Prop := fun x => mem x out = true /\ localb c s x = false.
Definition omono (o o' : list name) : Prop := forall x, mem x o = true -> mem x o' = true.

Lemma AP_weaken o o' s s' x : omono o o' -> lmono s s' -> AP o s' x -> AP o' s x.
Proof.
  intros Ho Hl [H1 H2]. split; auto. destruct (localb c s x) eqn:E; auto. apply Hl in E. congruence.
Qed.

(* what a statement does to the state *)
Definition step_ok (out : list name) (s s' : st) : Prop := sext s s' /\ sgood s' /\ asks_in (AP out s) s s'.

Lemma step_ok_trans o1 o2 a b d : step_ok o1 a b -> step_ok o2 b d -> omono o1 o2 -> step_ok o2 a d.
Proof.
  intros (A1 & A2 & A3) (B1 & B2 & B3) Ho. split; [eapply sext_trans; eauto|]. split; auto.
  eapply asks_in_trans.
  - eapply asks_in_weaken; [|apply A3]. intros x. apply AP_weaken; auto. apply lmono_refl.
  - eapply asks_in_weaken; [|apply B3]. intros x. apply AP_weaken; [intros y Hy; exact Hy|]. apply sext_lmono, A1.
Qed.
Lemma step_ok_weaken o1 o2 a b : step_ok o1 a b -> omono o1 o2 -> step_ok o2 a b.
Proof.
  intros (A1 & A2 & A3) Ho. split; auto. split; auto. eapply asks_in_weaken; [|apply A3].
  intros x. apply AP_weaken; auto. apply lmono_refl.
Qed.
Lemma step_ok_refl o s : sgood s -> step_ok o s s.
Proof. intros H. split; [apply sext_refl, H|]. split; auto. apply asks_in_refl. reflexivity. Qed.
Lemma step_ok_same o s s' : sgood s -> same_ctx s s' -> step_ok o s s'.
Proof.
  intros H E. split; [apply same_ctx_sext; auto; apply H|]. split; [eapply same_ctx_sgood; eauto|].
  apply asks_in_refl. apply E.
Qed.

(* ---- store ---- *)
Lemma store_spec s x v f e : s_env s = f :: e ->
  store s x v = mkSt (mkFrame (assoc_set x v (f_locals f)) (f_loop f) (f_closure f) (f_closure_ctx f) (f_base f) :: e)
                     (match f_closure f with Some id => set_nth_clos id (assoc_set x v) (s_clos s) | None => s_clos s end)
                     (s_out s) (s_asks s).
Proof. intros E. unfold store. rewrite E. reflexivity. Qed.

Lemma store_clos_ext s x v : clos_ext (s_clos s) (s_clos (store s x v)).
Proof.
  unfold store. destruct (s_env s) as [|f e]; [apply clos_ext_refl|]. cbn [s_clos].
  destruct (f_closure f); [apply clos_ext_set|apply clos_ext_refl].
Qed.

Lemma store_sext s x v : s_env s <> [] -> sext s (store s x v).
Proof.
  intros Hn. destruct (s_env s) as [|f e] eqn:E; [congruence|]. exists f, e. eexists. rewrite (store_spec s x v f e E). cbn [s_env s_clos].
  split; [exact E|]. split; [reflexivity|]. split.
  - split; [|cbn; auto]. cbn [f_locals]. intros y Hy. rewrite assoc_set_cases. destruct (y =? x); [discriminate|exact Hy].
  - destruct (f_closure f); [apply clos_ext_set|apply clos_ext_refl].
Qed.

Lemma store_local s x v : s_env s <> [] -> localb c (store s x v) x = true.
Proof.
  intros Hn. destruct (s_env s) as [|f e] eqn:E; [congruence|]. unfold localb. rewrite (store_spec s x v f e E). cbn [s_env s_clos].
  rewrite load_cons. unfold frame_find. cbn [f_locals]. rewrite assoc_set_same. reflexivity.
Qed.

Lemma store_asks s x v : s_asks (store s x v) = s_asks s.
Proof. unfold store. destruct (s_env s); reflexivity. Qed.

Lemma clos_good_set C id k v : clos_good C -> vgood C v -> clos_good (set_nth_clos id (assoc_set k v) C).
Proof.
  intros Hc Hv i x w. rewrite cget_set. assert (E := clos_ext_set C id k v).
  destruct (Nat.eqb i id).
  - destruct (nth_error C id) eqn:En; [|discriminate]. destruct (x =? k) eqn:Ex.
    + intros H. inversion H; subst. eapply vgood_mono; eauto.
    + intros H. eapply vgood_mono; eauto. apply (Hc id x w). unfold cget. rewrite En. exact H.
  - intros H. eapply vgood_mono; eauto.
Qed.

Lemma store_sgood s x v : sgood s -> vgood (s_clos s) v -> sgood (store s x v).
Proof.
  intros (Hn & Hf & Hc) Hv. destruct (s_env s) as [|f e] eqn:E; [congruence|].
  assert (CE := store_clos_ext s x v). rewrite (store_spec s x v f e E) in *. cbn [s_clos] in CE.
  unfold sgood. cbn [s_env s_clos]. split; [discriminate|]. inversion Hf as [|? ? Hf1 Hf2]; subst. split.
  - constructor.
    + destruct Hf1 as [G1 G2]. split; cbn [f_locals f_closure].
      * intros y w. rewrite assoc_set_cases. destruct (y =? x).
        -- intros H. inversion H; subst. eapply vgood_mono; eauto.
        -- intros H. eapply vgood_mono; eauto.
      * intros id Hid. apply CE, G2, Hid.
    + eapply Forall_impl; [|apply Hf2]. intros fr. apply frame_good_mono, CE.
  - destruct (f_closure f); auto. apply clos_good_set; auto.
Qed.

Lemma store_step_ok o s x v : sgood s -> vgood (s_clos s) v -> step_ok o s (store s x v).
Proof.
  intros Hg Hv. split; [apply store_sext, Hg|]. split; [apply store_sgood; auto|]. apply asks_in_refl, store_asks.
Qed.

(* ---- frames ---- *)
Lemma push_lmono s f : f_base f = false -> lmono s (push_frame s f).
Proof. intros Hb x. unfold localb, push_frame. cbn [s_env s_clos]. rewrite !negb_true_iff. apply load_push_local, Hb. Qed.

Lemma push_sgood s f : sgood s -> frame_good (s_clos s) f -> sgood (push_frame s f).
Proof. intros (H1 & H2 & H3) Hf. unfold sgood, push_frame. cbn [s_env s_clos]. split; [discriminate|]. split; auto. Qed.

Lemma fresh_frame_good C lp : frame_good C (mkFrame [] lp None None false).
Proof. split; cbn; intros; discriminate. Qed.

(* leaving a scope: the state after the pop extends the state before the push *)
Lemma pop_sext s f sb : s_env s <> [] -> sext (push_frame s f) sb -> sext s (pop_frame sb) /\ s_env (pop_frame sb) = s_env s.
Proof.
  intros Hn (f0 & e0 & f' & A1 & A2 & A3 & A4). cbn in A1. inversion A1; subst.
  unfold pop_frame. cbn [s_env s_clos]. rewrite A2. cbn [tl]. split; auto.
  destruct (s_env s) as [|g e] eqn:E; [congruence|]. exists g, e, g.
  split; [exact E|]. split; [reflexivity|]. split; [apply frame_ext_refl|exact A4].
Qed.

Lemma pop_sgood s f sb : s_env s <> [] -> sext (push_frame s f) sb -> sgood sb -> sgood (pop_frame sb).
Proof.
  intros Hn Hx (H1 & H2 & H3). destruct (pop_sext s f sb Hn Hx) as [_ E].
  unfold sgood. rewrite E. split; auto. unfold pop_frame in *. cbn [s_env s_clos] in *. split; auto.
  destruct (s_env sb); [cbn in E; congruence|]. inversion H2; subst. cbn [tl] in E. rewrite <- E. auto.
Qed.

Lemma pop_asks sb : s_asks (pop_frame sb) = s_asks sb.
Proof. reflexivity. Qed.
End Run2.

Section Run3.
Variable c : cfg.
Hypothesis Hroot : root_good c.

Definition eext (s s' : st) : Prop := s_env s' = s_env s /\ clos_ext (s_clos s) (s_clos s').
Lemma eext_sext s s' : s_env s <> [] -> eext s s' -> sext s s'.
Proof.
  intros Hn [E1 E2]. destruct (s_env s) as [|f e] eqn:E; [congruence|]. exists f, e, f.
  split; [exact E|]. split; [exact E1|]. split; [apply frame_ext_refl|exact E2].
Qed.
Lemma eext_lmono s s' : eext s s' -> lmono c s s'.
Proof.
  intros [E1 E2] x. unfold localb. rewrite E1, !negb_true_iff. apply load_local_clos_mono, E2.
Qed.
Lemma eext_refl s : eext s s.
Proof. split; auto using clos_ext_refl. Qed.
Lemma eext_trans a b d : eext a b -> eext b d -> eext a d.
Proof. intros [A1 A2] [B1 B2]. split; [congruence|eapply clos_ext_trans; eauto]. Qed.

(* ---- Enclose ---- *)
Definition enc_step (id : nat) (s : st) (x : name) : st :=
  match nth_error (s_clos s) id with
  | Some cl =>
      match assoc x cl with
      | Some _ => s
      | None => let '(v, s') := lookup c s x in
                mkSt (s_env s') (set_nth_clos id (assoc_set x (match v with Some v => v | None => VUndef end)) (s_clos s'))
                     (s_out s') (s_asks s')
      end
  | None => s
  end.

Lemma enc_step_spec id s x : nth_error (s_clos s) id <> None -> sgood s ->
  let s' := enc_step id s x in
  eext s s' /\ cget (s_clos s') id x <> None /\ sgood s' /\ asks_in (fun y => y = x /\ localb c s y = false) s s'.
Proof.
  intros Hid Hg. unfold enc_step. destruct (nth_error (s_clos s) id) as [cl|] eqn:En; [|congruence].
  destruct (assoc x cl) eqn:Ea.
  - cbn zeta. split; [apply eext_refl|]. split; [unfold cget; rewrite En, Ea; discriminate|]. split; auto. apply asks_in_refl. reflexivity.
  - destruct (lookup_spec c s x) as (v & -> & Hv). cbn zeta. cbn [s_env s_clos s_out s_asks].
    set (w := match v with Some v0 => v0 | None => VUndef end).
    assert (CE := clos_ext_set (s_clos s) id x w).
    assert (Hw : vgood (s_clos s) w).
    { unfold w. destruct v as [v0|]; [|exact I]. destruct Hg as (_ & Hf & Hc). eapply load_good; eauto. }
    split; [split; [reflexivity|exact CE]|]. split.
    + rewrite cget_set, Nat.eqb_refl, En, Z.eqb_refl. discriminate.
    + split.
      * destruct Hg as (H1 & H2 & H3). unfold sgood. cbn [s_env s_clos]. split; auto. split.
        -- eapply Forall_impl; [|apply H2]. intros fr. apply frame_good_mono, CE.
        -- apply clos_good_set; auto.
      * cbn [s_asks]. destruct (localb c s x) eqn:El.
        -- apply asks_in_refl. reflexivity.
        -- exists [x]. split; [reflexivity|]. intros y [<-|[]]. auto.
Qed.

Lemma enc_fold_spec id names : forall s, nth_error (s_clos s) id <> None -> sgood s ->
  let s' := fold_left (enc_step id) names s in
  eext s s' /\ (forall x, In x names -> cget (s_clos s') id x <> None) /\ sgood s' /\
  asks_in (fun y => In y names /\ localb c s y = false) s s'.
Proof.
  induction names as [|x r IH]; intros s Hid Hg; cbn [fold_left].
  - cbn zeta. split; [apply eext_refl|]. split; [intros x []|]. split; auto. apply asks_in_refl. reflexivity.
  - destruct (enc_step_spec id s x Hid Hg) as (A1 & A2 & A3 & A4).
    assert (Hid' : nth_error (s_clos (enc_step id s x)) id <> None) by (apply A1, Hid).
    destruct (IH (enc_step id s x) Hid' A3) as (B1 & B2 & B3 & B4). cbn zeta in *.
    split; [eapply eext_trans; eauto|]. split.
    + intros y [<-|Hy]; auto. apply B1, A2.
    + split; auto. eapply asks_in_trans.
      * eapply asks_in_weaken; [|apply A4]. intros y [-> Hy]. split; auto. left. reflexivity.
      * eapply asks_in_weaken; [|apply B4]. intros y [Hy1 Hy2]. split; [right; exact Hy1|].
        destruct (localb c s y) eqn:El; auto. apply (eext_lmono _ _ A1) in El. congruence.
Qed.

Lemma enc_fold_out id names : forall s, s_out (fold_left (enc_step id) names s) = s_out s.
Proof.
  induction names as [|x r IH]; intros s; cbn [fold_left]; auto. rewrite IH.
  unfold enc_step. destruct (nth_error (s_clos s) id); auto. destruct (assoc x l); auto.
  destruct (lookup_spec c s x) as (v & -> & _). reflexivity.
Qed.

Definition enclose_post (names : list name) (s s' : st) (cl : option nat) : Prop :=
  sext s s' /\ sgood s' /\ asks_in (fun y => In y names /\ localb c s y = false) s s' /\
  (forall x, In x names -> exists id, cl = Some id /\ cget (s_clos s') id x <> None) /\
  s_out s' = s_out s.

Lemma enclose_fold names s id s1 : nth_error (s_clos s1) id <> None -> sgood s1 -> sext s s1 ->
  s_asks s1 = s_asks s -> s_out s1 = s_out s ->
  enclose_post names s (fold_left (enc_step id) names s1) (Some id).
Proof.
  intros Hid Hg1 Hx Hasks Hout.
  destruct (enc_fold_spec id names s1 Hid Hg1) as (B1 & B2 & B3 & B4). cbn zeta in *.
  split; [eapply sext_trans; [apply Hx|apply eext_sext; [apply Hg1|exact B1]]|]. split; auto. split.
  - destruct B4 as (l & El & Hl). exists l. rewrite El, Hasks. split; auto. intros y Hy. destruct (Hl y Hy) as [H1 H2]. split; auto.
    destruct (localb c s y) eqn:E; auto. apply (sext_lmono c _ _ Hx) in E. congruence.
  - split; [intros x Hx'; exists id; split; auto|]. rewrite enc_fold_out. exact Hout.
Qed.

Lemma enclose_spec s names s' cl : enclose c s names = (s', cl) -> sgood s -> enclose_post names s s' cl.
Proof.
  intros He Hg. unfold enclose in He. destruct names as [|n0 names0].
  - inversion He; subst. split; [apply sext_refl, Hg|]. split; auto. split; [apply asks_in_refl; reflexivity|]. split; [intros x []|reflexivity].
  - set (names := n0 :: names0) in *. assert (Hg0 := Hg). destruct Hg as (Hn & Hf & Hc). destruct (s_env s) as [|f r] eqn:Ee; [congruence|].
    inversion Hf as [|? ? Hf1 Hf2]; subst.
    destruct (f_closure f) as [id|] eqn:Ecl.
    + assert (He' : (fold_left (enc_step id) names s, Some id) = (s', cl)) by exact He.
      clear He. assert (Es : s' = fold_left (enc_step id) names s) by (inversion He'; reflexivity).
      assert (Ec : cl = Some id) by (inversion He'; reflexivity). rewrite Es, Ec. clear He' Es Ec. apply enclose_fold; auto.
      * apply Hf1, Ecl.
      * apply sext_refl. rewrite Ee. discriminate.
    + set (id := length (s_clos s)) in *.
      set (s1 := mkSt (mkFrame (f_locals f) (f_loop f) (Some id) (f_closure_ctx f) (f_base f) :: r) (s_clos s ++ [[]]) (s_out s) (s_asks s)) in *.
      assert (He' : (fold_left (enc_step id) names s1, Some id) = (s', cl)) by exact He.
      clear He. assert (Es : s' = fold_left (enc_step id) names s1) by (inversion He'; reflexivity).
      assert (Ec : cl = Some id) by (inversion He'; reflexivity). rewrite Es, Ec. clear He' Es Ec.
      unfold s1, id. apply enclose_fold; cbn [s_clos s_env s_asks s_out]; auto.
      * rewrite nth_error_app2, Nat.sub_diag; [discriminate|lia].
      * assert (CE := clos_ext_app (s_clos s)). unfold sgood. cbn [s_env s_clos]. split; [discriminate|]. split.
        -- constructor.
           ++ destruct Hf1 as [G1 G2]. split; cbn [f_locals f_closure].
              ** intros y w Hy. eapply vgood_mono; eauto.
              ** intros id' Hid. inversion Hid; subst. rewrite nth_error_app2, Nat.sub_diag; [discriminate|lia].
           ++ eapply Forall_impl; [|apply Hf2]. intros fr. apply frame_good_mono, CE.
        -- intros i x v. unfold cget. destruct (Nat.lt_ge_cases i (length (s_clos s))) as [Hlt|Hge].
           ++ rewrite nth_error_app1; auto. intros H. eapply vgood_mono; eauto.
           ++ rewrite nth_error_app2; auto. destruct (i - length (s_clos s))%nat as [|k]; cbn; [discriminate|]. destruct k; discriminate.
      * eexists f, r, _. rewrite Ee. cbn [s_env s_clos]. split; [reflexivity|]. split; [reflexivity|].
        split; [split; [auto|cbn; auto]|apply clos_ext_app].
Qed.
End Run3.

(* ---- the invariant between tracker and run-time state ---- *)
Section InvSec.
Variable c : cfg.

(* every name the tracker regards as assigned is already reported or bound locally right now *)
Definition Inv (t : tstate) (s : st) : Prop :=
  forall x, asgl (t_assigned t) x = true -> mem x (t_out t) = true \/ localb c s x = true.

Lemma Inv_soft t t' s s' : tsoft t t' -> Inv t s -> lmono c s s' -> Inv t' s'.
Proof.
  intros (top & rest & top' & E1 & E2 & H1 & H2 & H3) Hi Hl x. rewrite E2, asgl_cons. intros Hx.
  apply orb_prop in Hx as [Hx|Hx].
  - destruct (H3 x Hx) as [H|H]; auto.
    destruct (Hi x) as [G|G]; auto. rewrite E1, asgl_cons, H. reflexivity.
  - destruct (Hi x) as [G|G]; auto. rewrite E1, asgl_cons, Hx. apply orb_true_r.
Qed.

Lemma Inv_assign x t s s' : nonempty t -> Inv t s -> lmono c s s' -> localb c s' x = true -> Inv (t_assign x t) s'.
Proof.
  unfold nonempty, t_assign. intros Hn Hi Hl Hx y. destruct (t_assigned t) as [|a b] eqn:E; [congruence|].
  cbn [t_assigned t_out]. rewrite asgl_cons, mem_cons. destruct (y =? x) eqn:Ey; cbn [orb].
  - apply Z.eqb_eq in Ey. subst y. auto.
  - intros Hy. destruct (Hi y) as [G|G]; auto. rewrite E, asgl_cons. exact Hy.
Qed.

Lemma Inv_push t s s' : Inv t s -> lmono c s s' -> Inv (t_push t) s'.
Proof. intros Hi Hl x Hx. destruct (Hi x) as [G|G]; auto. Qed.

Lemma Inv_scoped t tb s s' : tstep (t_push t) tb -> Inv t s -> lmono c s s' -> Inv (t_pop tb) s'.
Proof.
  intros Hs Hi Hl x. destruct (scoped_assigned _ _ Hs) as [E O]. rewrite E. intros Hx.
  destruct (Hi x Hx) as [G|G]; auto.
Qed.

Lemma Inv_lmono t s s' : Inv t s -> lmono c s s' -> Inv t s'.
Proof. intros Hi Hl x Hx. destruct (Hi x Hx) as [G|G]; auto. Qed.

(* a name that is looked up (at any later point of the same scope) without being local is reported *)
Lemma lookup_late t s s2 x : Inv t s -> lmono c s s2 -> localb c s2 x = false -> mem x (t_out (t_lookup x t)) = true.
Proof.
  intros Hi Hl Hx. destruct (lookup_reported x t) as [H|H]; auto.
  rewrite is_assigned_asgl in H. destruct (Hi x H) as [G|G].
  - unfold t_lookup. rewrite is_assigned_asgl, H. exact G.
  - apply Hl in G. congruence.
Qed.

Lemma tstep_omono t t' : tstep t t' -> omono (t_out t) (t_out t').
Proof. intros (a & b & d & _ & _ & _ & H). exact H. Qed.
Lemma tsoft_omono t t' : tsoft t t' -> omono (t_out t) (t_out t').
Proof. intros H. apply tstep_omono, tsoft_step, H. Qed.
Lemma omono_refl o : omono o o.
Proof. intros x H. exact H. Qed.
Lemma omono_trans a b d : omono a b -> omono b d -> omono a d.
Proof. intros H1 H2 x H. apply H2, H1, H. Qed.
End InvSec.
