(* C18: facts about the assignment tracker (Lang/Meta.v) alone.
   - every visit only touches the top scope of the tracker's scope stack and only adds to [t_out];
   - an expression visit only adds names to the top scope that it also put into [t_out];
   - simulation: a walk from the fresh tracker (find_macro_closure) and the same walk inside the
     surrounding template report the same names, up to the names assigned outside. *)
From MJ Require Import Common.Base Lang.Syntax Lang.Meta.

(* ---- induction principles for the nested syntax ---- *)
Section ExprInd.
Variable P : expr -> Prop.
Hypothesis HConst : forall l, P (EConst l).
Hypothesis HVar : forall x, P (EVar x).
Hypothesis HList : forall items, Forall P items -> P (EList items).
Hypothesis HMap : forall pairs, Forall (fun p => P (fst p) /\ P (snd p)) pairs -> P (EMap pairs).
Hypothesis HNeg : forall e, P e -> P (ENeg e).
Hypothesis HNot : forall e, P e -> P (ENot e).
Hypothesis HBin : forall op a b, P a -> P b -> P (EBin op a b).
Hypothesis HCmp : forall a rest, P a -> Forall (fun p => P (snd p)) rest -> P (ECmp a rest).
Hypothesis HAnd : forall a b, P a -> P b -> P (EAnd a b).
Hypothesis HOr : forall a b, P a -> P b -> P (EOr a b).
Hypothesis HIf : forall c t f, P c -> P t -> (forall f', f = Some f' -> P f') -> P (EIf c t f).
Hypothesis HItem : forall a i, P a -> P i -> P (EItem a i).
Hypothesis HAttr : forall a n, P a -> P (EAttr a n).
Hypothesis HFilter : forall f a args, P a -> Forall P args -> P (EFilter f a args).
Hypothesis HTest : forall f a args n, P a -> Forall P args -> P (ETest f a args n).
Hypothesis HCall : forall f args kw, Forall P args -> Forall (fun p => P (snd p)) kw -> P (ECall f args kw).

Fixpoint expr_ind' (e : expr) : P e :=
  let all := fix go (l : list expr) : Forall P l :=
    match l with [] => Forall_nil _ | x :: r => Forall_cons _ (expr_ind' x) (go r) end in
  match e with
  | EConst l => HConst l
  | EVar x => HVar x
  | EList items => HList items (all items)
  | EMap pairs => HMap pairs
      ((fix go (l : list (expr * expr)) : Forall (fun p => P (fst p) /\ P (snd p)) l :=
          match l with [] => Forall_nil _ | x :: r => Forall_cons x (conj (expr_ind' (fst x)) (expr_ind' (snd x))) (go r) end) pairs)
  | ENeg a => HNeg a (expr_ind' a)
  | ENot a => HNot a (expr_ind' a)
  | EBin op a b => HBin op a b (expr_ind' a) (expr_ind' b)
  | ECmp a rest => HCmp a rest (expr_ind' a)
      ((fix go (l : list (cmpop * expr)) : Forall (fun p => P (snd p)) l :=
          match l with [] => Forall_nil _ | x :: r => Forall_cons _ (expr_ind' (snd x)) (go r) end) rest)
  | EAnd a b => HAnd a b (expr_ind' a) (expr_ind' b)
  | EOr a b => HOr a b (expr_ind' a) (expr_ind' b)
  | EIf c t f => HIf c t f (expr_ind' c) (expr_ind' t)
      (match f as f0 return (forall f', f0 = Some f' -> P f') with
       | Some f1 => fun f' (H : Some f1 = Some f') => match H in (_ = o) return (match o with Some z => P z | None => True end) with eq_refl => expr_ind' f1 end
       | None => fun f' (H : None = Some f') => match H in (_ = o) return (match o with Some z => P z | None => True end) with eq_refl => I end
       end)
  | EItem a i => HItem a i (expr_ind' a) (expr_ind' i)
  | EAttr a n => HAttr a n (expr_ind' a)
  | EFilter f a args => HFilter f a args (expr_ind' a) (all args)
  | ETest f a args n => HTest f a args n (expr_ind' a) (all args)
  | ECall f args kw => HCall f args kw (all args)
      ((fix go (l : list (name * expr)) : Forall (fun p => P (snd p)) l :=
          match l with [] => Forall_nil _ | x :: r => Forall_cons _ (expr_ind' (snd x)) (go r) end) kw)
  end.
End ExprInd.

Section StmtInd.
Variable P : stmt -> Prop.
Hypothesis HRaw : forall t, P (SRaw t).
Hypothesis HEmit : forall e, P (SEmit e).
Hypothesis HIfS : forall arms els, Forall (fun a => Forall P (snd a)) arms -> (forall b, els = Some b -> Forall P b) -> P (SIf arms els).
Hypothesis HFor : forall tg it flt body els r, Forall P body -> (forall b, els = Some b -> Forall P b) -> P (SFor tg it flt body els r).
Hypothesis HSet : forall x e, P (SSet x e).
Hypothesis HSetBlock : forall x body f, Forall P body -> P (SSetBlock x body f).
Hypothesis HWith : forall binds body, Forall P body -> P (SWith binds body).
Hypothesis HMacro : forall nm ps ds body, Forall P body -> P (SMacro nm ps ds body).
Hypothesis HCallBlock : forall nm args body, Forall P body -> P (SCallBlock nm args body).
Hypothesis HFilterBlock : forall f body, Forall P body -> P (SFilterBlock f body).
Hypothesis HAutoEscape : forall v body, Forall P body -> P (SAutoEscape v body).
Hypothesis HBreak : P SBreak.
Hypothesis HContinue : P SContinue.

Fixpoint stmt_ind' (s : stmt) : P s :=
  let all := fix go (l : list stmt) : Forall P l :=
    match l with [] => Forall_nil _ | x :: r => Forall_cons _ (stmt_ind' x) (go r) end in
  let allo := fun (o : option (list stmt)) =>
    match o as o0 return (forall b, o0 = Some b -> Forall P b) with
    | Some b1 => fun b (H : Some b1 = Some b) => match H in (_ = o) return (match o with Some z => Forall P z | None => True end) with eq_refl => all b1 end
    | None => fun b (H : None = Some b) => match H in (_ = o) return (match o with Some z => Forall P z | None => True end) with eq_refl => I end
    end in
  match s with
  | SRaw t => HRaw t
  | SEmit e => HEmit e
  | SIf arms els => HIfS arms els
      ((fix go (l : list (expr * list stmt)) : Forall (fun a => Forall P (snd a)) l :=
          match l with [] => Forall_nil _ | x :: r => Forall_cons _ (all (snd x)) (go r) end) arms) (allo els)
  | SFor tg it flt body els r => HFor tg it flt body els r (all body) (allo els)
  | SSet x e => HSet x e
  | SSetBlock x body f => HSetBlock x body f (all body)
  | SWith binds body => HWith binds body (all body)
  | SMacro nm ps ds body => HMacro nm ps ds body (all body)
  | SCallBlock nm args body => HCallBlock nm args body (all body)
  | SFilterBlock f body => HFilterBlock f body (all body)
  | SAutoEscape v body => HAutoEscape v body (all body)
  | SBreak => HBreak
  | SContinue => HContinue
  end.
End StmtInd.

Definition asgl (st : list (list name)) (x : name) : bool := existsb (mem x) st.
Lemma is_assigned_asgl x t : t_is_assigned x t = asgl (t_assigned t) x.
Proof. reflexivity. Qed.
Lemma mem_cons x y l : mem x (y :: l) = (x =? y) || mem x l.
Proof. reflexivity. Qed.
Lemma mem_cons_same x l : mem x (x :: l) = true.
Proof. rewrite mem_cons, Z.eqb_refl. reflexivity. Qed.
Lemma mem_cons_other x y l : mem x l = true -> mem x (y :: l) = true.
Proof. intros H. rewrite mem_cons, H. apply orb_true_r. Qed.
Lemma mem_In x l : mem x l = true <-> In x l.
Proof.
  unfold mem. rewrite existsb_exists. split.
  - intros (y & Hy & E). apply Z.eqb_eq in E. subst. exact Hy.
  - intros H. exists x. split; auto. apply Z.eqb_refl.
Qed.

Definition tsoft (t t' : tstate) : Prop :=
  exists top rest top', t_assigned t = top :: rest /\ t_assigned t' = top' :: rest /\
    (forall x, mem x top = true -> mem x top' = true) /\
    (forall x, mem x (t_out t) = true -> mem x (t_out t') = true) /\
    (forall x, mem x top' = true -> mem x top = true \/ mem x (t_out t') = true).

Definition tstep (t t' : tstate) : Prop :=
  exists top rest top', t_assigned t = top :: rest /\ t_assigned t' = top' :: rest /\
    (forall x, mem x top = true -> mem x top' = true) /\
    (forall x, mem x (t_out t) = true -> mem x (t_out t') = true).

Definition nonempty (t : tstate) : Prop := t_assigned t <> [].

Lemma tsoft_step t t' : tsoft t t' -> tstep t t'.
Proof. intros (a & b & c & H1 & H2 & H3 & H4 & _). exists a, b, c. auto. Qed.
Lemma tsoft_refl t : nonempty t -> tsoft t t.
Proof. unfold nonempty. destruct (t_assigned t) as [|a b] eqn:E; [congruence|]. intros _. exists a, b, a. rewrite E. repeat split; auto. Qed.
Lemma tstep_refl t : nonempty t -> tstep t t.
Proof. intros H. apply tsoft_step, tsoft_refl, H. Qed.
Lemma tsoft_trans a b c : tsoft a b -> tsoft b c -> tsoft a c.
Proof.
  intros (t1 & r1 & t1' & A1 & A2 & A3 & A4 & A5) (t2 & r2 & t2' & B1 & B2 & B3 & B4 & B5).
  rewrite A2 in B1. inversion B1; subst. exists t1, r2, t2'. repeat split; auto.
  intros x Hx. destruct (B5 x Hx) as [H|H]; auto. destruct (A5 x H) as [H'|H']; auto.
Qed.
Lemma tstep_trans a b c : tstep a b -> tstep b c -> tstep a c.
Proof.
  intros (t1 & r1 & t1' & A1 & A2 & A3 & A4) (t2 & r2 & t2' & B1 & B2 & B3 & B4).
  rewrite A2 in B1. inversion B1; subst. exists t1, r2, t2'. repeat split; auto.
Qed.
Lemma tstep_nonempty a b : tstep a b -> nonempty b.
Proof. intros (t1 & r1 & t1' & A1 & A2 & _). unfold nonempty. rewrite A2. discriminate. Qed.
Lemma tsoft_nonempty a b : tsoft a b -> nonempty b.
Proof. intros H. eapply tstep_nonempty, tsoft_step, H. Qed.
Lemma tstep_nonempty_l a b : tstep a b -> nonempty a.
Proof. intros (t1 & r1 & t1' & A1 & A2 & _). unfold nonempty. rewrite A1. discriminate. Qed.

Lemma tstep_assign x t : nonempty t -> tstep t (t_assign x t).
Proof.
  unfold nonempty, t_assign. destruct (t_assigned t) as [|a b] eqn:E; [congruence|]. intros _.
  exists a, b, (x :: a). cbn. rewrite E. repeat split; auto. intros y Hy. apply mem_cons_other, Hy.
Qed.

Lemma tsoft_lookup x t : nonempty t -> tsoft t (t_lookup x t).
Proof.
  intros Hn. unfold t_lookup. destruct (t_is_assigned x t) eqn:Ea; [apply tsoft_refl, Hn|].
  unfold nonempty in Hn. unfold t_assign. cbn [t_assigned t_out]. destruct (t_assigned t) as [|a b] eqn:E; [congruence|].
  exists a, b, (x :: a). cbn [t_assigned t_out]. rewrite E. repeat split; auto.
  - intros y Hy. apply mem_cons_other, Hy.
  - intros y Hy. destruct (mem x (t_out t)); auto. apply mem_cons_other, Hy.
  - intros y Hy. rewrite mem_cons in Hy. apply orb_prop in Hy as [Hy|Hy]; auto.
    apply Z.eqb_eq in Hy. subst y. right. destruct (mem x (t_out t)) eqn:Em; auto. apply mem_cons_same.
Qed.

(* after a lookup the name is reported or was assigned before *)
Lemma lookup_reported x t : mem x (t_out (t_lookup x t)) = true \/ t_is_assigned x t = true.
Proof.
  unfold t_lookup. destruct (t_is_assigned x t) eqn:Ea; auto. left.
  unfold t_assign. cbn [t_assigned t_out]. destruct (t_assigned t); cbn [t_out]; destruct (mem x (t_out t)) eqn:Em; auto; apply mem_cons_same.
Qed.

Definition visit_list (l : list expr) (t : tstate) : tstate := fold_left (fun t e => visit_expr e t) l t.
Definition visit_kw {K} (l : list (K * expr)) (t : tstate) : tstate := fold_left (fun t p => visit_expr (snd p) t) l t.

Definition visit_pairs (l : list (expr * expr)) (t : tstate) : tstate :=
  fold_left (fun t p => visit_expr (snd p) (visit_expr (fst p) t)) l t.

Lemma visit_pairs_fix (l : list (expr * expr)) : forall t,
  (fix go (l : list (expr * expr)) (t : tstate) := match l with [] => t | (k, v) :: r => go r (visit_expr v (visit_expr k t)) end) l t = visit_pairs l t.
Proof. induction l as [|[k v] l IH]; intros t; [reflexivity|]. unfold visit_pairs. cbn [fold_left fst snd]. apply IH. Qed.

Lemma visit_list_fix l : forall t,
  (fix go (l : list expr) (t : tstate) := match l with [] => t | x :: r => go r (visit_expr x t) end) l t = visit_list l t.
Proof. induction l; intros t; cbn; auto. Qed.
Lemma visit_cmp_fix (l : list (cmpop * expr)) : forall t,
  (fix go (l : list (cmpop * expr)) (t : tstate) := match l with [] => t | (_, x) :: r => go r (visit_expr x t) end) l t = visit_kw l t.
Proof. induction l as [|[o e] l IH]; intros t; [reflexivity|]. unfold visit_kw. cbn [fold_left snd]. apply IH. Qed.
Lemma visit_kw_fix (l : list (name * expr)) : forall t,
  (fix go (l : list (name * expr)) (t : tstate) := match l with [] => t | (_, x) :: r => go r (visit_expr x t) end) l t = visit_kw l t.
Proof. induction l as [|[o e] l IH]; intros t; [reflexivity|]. unfold visit_kw. cbn [fold_left snd]. apply IH. Qed.

(* visit_expr, with the nested fixes replaced by folds *)
Lemma visit_expr_eq e t : visit_expr e t =
  match e with
  | EConst _ => t
  | EVar x => t_lookup x t
  | EList items => visit_list items t
  | EMap pairs => visit_pairs pairs t
  | ENeg a | ENot a => visit_expr a t
  | EBin _ a b | EAnd a b | EOr a b => visit_expr b (visit_expr a t)
  | ECmp a rest => visit_kw rest (visit_expr a t)
  | EIf c a f => let t := visit_expr a (visit_expr c t) in match f with Some f => visit_expr f t | None => t end
  | EItem a i => visit_expr i (visit_expr a t)
  | EAttr a _ => visit_expr a t
  | EFilter _ a args | ETest _ a args _ => visit_list args (visit_expr a t)
  | ECall f args kwargs => visit_kw kwargs (visit_list args (t_lookup f t))
  end.
Proof.
  destruct e; cbn [visit_expr]; auto; try apply visit_list_fix; try apply visit_cmp_fix; try apply visit_pairs_fix.
  rewrite visit_list_fix. apply visit_kw_fix.
Qed.

Lemma visit_list_soft l : Forall (fun e => forall t, nonempty t -> tsoft t (visit_expr e t)) l ->
  forall t, nonempty t -> tsoft t (visit_list l t).
Proof.
  induction 1 as [|e l He Hl IH]; intros t Hn; cbn.
  - apply tsoft_refl, Hn.
  - eapply tsoft_trans; [apply He, Hn|]. apply IH. eapply tsoft_nonempty, He, Hn.
Qed.
Lemma visit_kw_soft {K} (l : list (K * expr)) : Forall (fun p => forall t, nonempty t -> tsoft t (visit_expr (snd p) t)) l ->
  forall t, nonempty t -> tsoft t (visit_kw l t).
Proof.
  induction 1 as [|e l He Hl IH]; intros t Hn; cbn.
  - apply tsoft_refl, Hn.
  - eapply tsoft_trans; [apply He, Hn|]. apply IH. eapply tsoft_nonempty, He, Hn.
Qed.

Lemma visit_pairs_soft (l : list (expr * expr)) :
  Forall (fun p => (forall t, nonempty t -> tsoft t (visit_expr (fst p) t)) /\ (forall t, nonempty t -> tsoft t (visit_expr (snd p) t))) l ->
  forall t, nonempty t -> tsoft t (visit_pairs l t).
Proof.
  induction 1 as [|p l [Hk Hv] Hl IH]; intros t Hn; cbn.
  - apply tsoft_refl, Hn.
  - assert (S1 := Hk t Hn). assert (S2 := Hv _ (tsoft_nonempty _ _ S1)).
    eapply tsoft_trans; [apply S1|]. eapply tsoft_trans; [apply S2|]. apply IH. eapply tsoft_nonempty, S2.
Qed.

Lemma visit_expr_soft e : forall t, nonempty t -> tsoft t (visit_expr e t).
Proof.
  induction e using expr_ind'; intros t Hn; rewrite visit_expr_eq.
  - apply tsoft_refl, Hn.
  - apply tsoft_lookup, Hn.
  - apply visit_list_soft; auto.
  - apply visit_pairs_soft; auto.
  - auto.
  - auto.
  - eapply tsoft_trans; [apply IHe1, Hn|]. apply IHe2. eapply tsoft_nonempty, IHe1, Hn.
  - eapply tsoft_trans; [apply IHe, Hn|]. apply visit_kw_soft; auto. eapply tsoft_nonempty, IHe, Hn.
  - eapply tsoft_trans; [apply IHe1, Hn|]. apply IHe2. eapply tsoft_nonempty, IHe1, Hn.
  - eapply tsoft_trans; [apply IHe1, Hn|]. apply IHe2. eapply tsoft_nonempty, IHe1, Hn.
  - cbn zeta. assert (S2 : tsoft t (visit_expr e2 (visit_expr e1 t))).
    { eapply tsoft_trans; [apply IHe1, Hn|]. apply IHe2. eapply tsoft_nonempty, IHe1, Hn. }
    destruct f as [f'|]; auto. eapply tsoft_trans; [apply S2|]. apply (H f' eq_refl). eapply tsoft_nonempty, S2.
  - eapply tsoft_trans; [apply IHe1, Hn|]. apply IHe2. eapply tsoft_nonempty, IHe1, Hn.
  - auto.
  - eapply tsoft_trans; [apply IHe, Hn|]. apply visit_list_soft; auto. eapply tsoft_nonempty, IHe, Hn.
  - eapply tsoft_trans; [apply IHe, Hn|]. apply visit_list_soft; auto. eapply tsoft_nonempty, IHe, Hn.
  - assert (S1 : tsoft t (t_lookup f t)) by (apply tsoft_lookup, Hn).
    assert (S2 : tsoft (t_lookup f t) (visit_list args (t_lookup f t))) by (apply visit_list_soft; auto; eapply tsoft_nonempty, S1).
    eapply tsoft_trans; [apply S1|]. eapply tsoft_trans; [apply S2|]. apply visit_kw_soft; auto. eapply tsoft_nonempty, S2.
Qed.

(* ---- statements ---- *)
Lemma walk_list_fix l : forall t,
  (fix go (l : list stmt) (t : tstate) : tstate := match l with [] => t | x :: r => go r (walk x t) end) l t = walk_list l t.
Proof. induction l; intros t; cbn; auto. Qed.

Fixpoint walk_arms (els : option (list stmt)) (arms : list (expr * list stmt)) (t : tstate) : tstate :=
  match arms with
  | [] => match els with Some b => walk_list b t | None => t end
  | (c, b) :: r =>
      let t := visit_expr c t in
      let t := t_pop (walk_list b (t_push t)) in
      match r, els with
      | [], None => t_pop (t_push t)
      | _, _ => t_pop (walk_arms els r (t_push t))
      end
  end.

Definition visit_macro (dc : bool) (params : list name) (defaults : list (name * expr)) (body : list stmt) (t : tstate) : tstate :=
  walk_list body (visit_params params defaults (if dc then t_assign N_caller t else t)).

Definition visit_binds (binds : list (target * expr)) (t : tstate) : tstate :=
  fold_left (fun t b => assign_target (fst b) (visit_expr (snd b) t)) binds t.

Lemma walk_eq st t : walk st t =
  match st with
  | SRaw _ | SBreak | SContinue => t
  | SEmit e => visit_expr e t
  | SIf arms els => walk_arms els arms t
  | SFor tg iter flt body els _ =>
      let t := visit_expr iter t in
      let t := assign_target tg (t_push t) in
      let t := match flt with Some f => visit_expr f t | None => t end in
      let t := t_assign N_loop t in
      let t := t_pop (walk_list body t) in
      t_pop (match els with Some b => walk_list b (t_push t) | None => t_push t end)
  | SSet tg e => assign_target tg (visit_expr e t)
  | SSetBlock x body _ => t_assign x (t_pop (walk_list body (t_push t)))
  | SWith binds body => t_pop (walk_list body (visit_binds binds (t_push t)))
  | SMacro nm ps ds body => t_assign nm (t_pop (visit_macro true ps ds body (t_push t)))
  | SCallBlock mn args body => t_pop (visit_macro true [] [] body (t_push (visit_list args (t_lookup mn t))))
  | SFilterBlock _ body => t_pop (walk_list body (t_push t))
  | SAutoEscape v body => t_pop (walk_list body (t_push (visit_expr v t)))
  end.
Proof.
  destruct st; cbn [walk]; rewrite ?walk_list_fix; auto.
  - revert t. induction arms as [|[c b] r IH]; intros t; cbn [walk_arms].
    + destruct els; auto.
    + rewrite walk_list_fix. cbn zeta. destruct r as [|a r'].
      * destruct els as [e|]; reflexivity.
      * f_equal. apply IH.
Qed.

Lemma push_nonempty t : nonempty (t_push t).
Proof. unfold nonempty, t_push. cbn. discriminate. Qed.

Lemma scoped_assigned t tb : tstep (t_push t) tb ->
  t_assigned (t_pop tb) = t_assigned t /\ (forall x, mem x (t_out t) = true -> mem x (t_out (t_pop tb)) = true).
Proof.
  intros (top & rest & top' & A1 & A2 & A3 & A4). cbn in A1. inversion A1; subst.
  unfold t_pop. cbn [t_assigned t_out]. rewrite A2. cbn [tl]. split; auto.
Qed.

Lemma tstep_push_pop t tb : nonempty t -> tstep (t_push t) tb -> tsoft t (t_pop tb).
Proof.
  intros Hn Hs. destruct (scoped_assigned _ _ Hs) as [E O]. unfold nonempty in Hn.
  destruct (t_assigned t) as [|a b] eqn:Ea; [congruence|]. exists a, b, a. repeat split; auto.
Qed.

Definition wstep (st : stmt) : Prop := forall t, nonempty t -> tstep t (walk st t).

Lemma walk_list_step l : Forall wstep l -> forall t, nonempty t -> tstep t (walk_list l t).
Proof.
  unfold walk_list. induction 1 as [|s l Hs Hl IH]; intros t Hn; cbn [fold_left].
  - apply tstep_refl, Hn.
  - eapply tstep_trans; [apply Hs, Hn|]. apply IH. eapply tstep_nonempty, Hs, Hn.
Qed.

Lemma visit_expr_step e t : nonempty t -> tstep t (visit_expr e t).
Proof. intros H. apply tsoft_step, visit_expr_soft, H. Qed.

Lemma visit_list_soft' l t : nonempty t -> tsoft t (visit_list l t).
Proof. intros H. apply visit_list_soft; auto. apply Forall_forall. intros e _. apply visit_expr_soft. Qed.

Lemma scoped_body_soft body t : Forall wstep body -> nonempty t -> tsoft t (t_pop (walk_list body (t_push t))).
Proof. intros Hb Hn. apply tstep_push_pop; auto. apply walk_list_step; auto. apply push_nonempty. Qed.

Lemma walk_arms_step els arms :
  Forall (fun a => Forall wstep (snd a)) arms -> (forall b, els = Some b -> Forall wstep b) ->
  forall t, nonempty t -> tstep t (walk_arms els arms t).
Proof.
  intros Ha He. induction Ha as [|[c b] r Hb Hr IH]; intros t Hn; cbn [walk_arms].
  - destruct els as [b|]; [apply walk_list_step; auto|apply tstep_refl, Hn].
  - cbn [snd] in Hb. cbn zeta.
    assert (S1 : tstep t (visit_expr c t)) by (apply visit_expr_step, Hn).
    assert (S2 : tstep (visit_expr c t) (t_pop (walk_list b (t_push (visit_expr c t))))).
    { apply tsoft_step, scoped_body_soft; auto. eapply tstep_nonempty, S1. }
    eapply tstep_trans; [apply S1|]. eapply tstep_trans; [apply S2|].
    set (t2 := t_pop (walk_list b (t_push (visit_expr c t)))) in *.
    assert (Hn2 : nonempty t2) by (eapply tstep_nonempty, S2).
    assert (G : tstep t2 (t_pop (walk_arms els r (t_push t2)))).
    { apply tsoft_step, tstep_push_pop; auto. apply IH, push_nonempty. }
    destruct r; [destruct els|]; auto.
Qed.

Lemma assign_target_step tg t : nonempty t -> tstep t (assign_target tg t).
Proof.
  intros Hn. destruct tg; cbn [assign_target]; [apply tstep_assign, Hn|].
  eapply tstep_trans; [apply tstep_assign, Hn|]. apply tstep_assign. eapply tstep_nonempty, tstep_assign, Hn.
Qed.

Lemma visit_params_step ps ds t : nonempty t -> tstep t (visit_params ps ds t).
Proof.
  unfold visit_params. generalize (rev ps) as l. intros l. revert t. induction l as [|p l IH]; intros t Hn; cbn [fold_left].
  - apply tstep_refl, Hn.
  - assert (S1 : tstep t (match default_of p ds with Some d => visit_expr d t | None => t end)).
    { destruct (default_of p ds); [apply visit_expr_step, Hn|apply tstep_refl, Hn]. }
    assert (S2 := tstep_assign p _ (tstep_nonempty _ _ S1)).
    eapply tstep_trans; [apply S1|]. eapply tstep_trans; [apply S2|]. apply IH. eapply tstep_nonempty, S2.
Qed.

Lemma visit_macro_step dc ps ds body t : Forall wstep body -> nonempty t -> tstep t (visit_macro dc ps ds body t).
Proof.
  intros Hb Hn. unfold visit_macro.
  assert (S1 : tstep t (if dc then t_assign N_caller t else t)) by (destruct dc; [apply tstep_assign, Hn|apply tstep_refl, Hn]).
  assert (S2 := visit_params_step ps ds _ (tstep_nonempty _ _ S1)).
  eapply tstep_trans; [apply S1|]. eapply tstep_trans; [apply S2|]. apply walk_list_step; auto. eapply tstep_nonempty, S2.
Qed.

Lemma visit_binds_step binds t : nonempty t -> tstep t (visit_binds binds t).
Proof.
  unfold visit_binds. revert t. induction binds as [|[x e] l IH]; intros t Hn; cbn [fold_left fst snd].
  - apply tstep_refl, Hn.
  - assert (S1 := visit_expr_step e t Hn). assert (S2 := assign_target_step x _ (tstep_nonempty _ _ S1)).
    eapply tstep_trans; [apply S1|]. eapply tstep_trans; [apply S2|]. apply IH. eapply tstep_nonempty, S2.
Qed.

Lemma walk_step st : wstep st.
Proof.
  induction st using stmt_ind'; intros tr Hn; rewrite walk_eq; try (apply tstep_refl, Hn).
  - apply visit_expr_step, Hn.
  - apply walk_arms_step; auto.
  - cbn zeta.
    assert (S1 := visit_expr_step it tr Hn).
    set (t1 := visit_expr it tr) in *. assert (Hn1 := tstep_nonempty _ _ S1).
    assert (Sb : tstep (t_push t1) (walk_list body (t_assign N_loop (match flt with Some f => visit_expr f (assign_target tg (t_push t1)) | None => assign_target tg (t_push t1) end)))).
    { assert (A1 := assign_target_step tg _ (push_nonempty t1)).
      assert (A2 : tstep (assign_target tg (t_push t1)) (match flt with Some f => visit_expr f (assign_target tg (t_push t1)) | None => assign_target tg (t_push t1) end)).
      { destruct flt; [apply visit_expr_step|apply tstep_refl]; eapply tstep_nonempty, A1. }
      assert (A3 := tstep_assign N_loop _ (tstep_nonempty _ _ A2)).
      eapply tstep_trans; [apply A1|]. eapply tstep_trans; [apply A2|]. eapply tstep_trans; [apply A3|].
      apply walk_list_step; auto. eapply tstep_nonempty, A3. }
    assert (S2 := tsoft_step _ _ (tstep_push_pop _ _ Hn1 Sb)).
    eapply tstep_trans; [apply S1|]. eapply tstep_trans; [apply S2|].
    assert (Hn2 := tstep_nonempty _ _ S2).
    apply tsoft_step, tstep_push_pop; auto.
    destruct els as [b|]; [apply walk_list_step; auto; apply push_nonempty|apply tstep_refl, push_nonempty].
  - assert (S1 := visit_expr_step e tr Hn). eapply tstep_trans; [apply S1|]. apply assign_target_step. eapply tstep_nonempty, S1.
  - assert (S1 := tsoft_step _ _ (scoped_body_soft body tr H Hn)). eapply tstep_trans; [apply S1|]. apply tstep_assign. eapply tstep_nonempty, S1.
  - apply tsoft_step, tstep_push_pop; auto.
    assert (S1 := visit_binds_step binds _ (push_nonempty tr)). eapply tstep_trans; [apply S1|].
    apply walk_list_step; auto. eapply tstep_nonempty, S1.
  - assert (S1 : tstep tr (t_pop (visit_macro true ps ds body (t_push tr)))).
    { apply tsoft_step, tstep_push_pop; auto. apply visit_macro_step; auto. apply push_nonempty. }
    eapply tstep_trans; [apply S1|]. apply tstep_assign. eapply tstep_nonempty, S1.
  - assert (S1 := tsoft_step _ _ (tsoft_lookup nm tr Hn)).
    assert (S2 := tsoft_step _ _ (visit_list_soft' args _ (tstep_nonempty _ _ S1))).
    eapply tstep_trans; [apply S1|]. eapply tstep_trans; [apply S2|].
    apply tsoft_step, tstep_push_pop; [eapply tstep_nonempty, S2|]. apply visit_macro_step; auto. apply push_nonempty.
  - apply tsoft_step, scoped_body_soft; auto.
  - assert (S1 := visit_expr_step v tr Hn). eapply tstep_trans; [apply S1|].
    apply tsoft_step, scoped_body_soft; auto. eapply tstep_nonempty, S1.
Qed.

Lemma walk_list_step' l t : nonempty t -> tstep t (walk_list l t).
Proof. intros. apply walk_list_step; auto. apply Forall_forall. intros s _. apply walk_step. Qed.

(* ---- simulation: the same walk from two trackers whose assigned sets agree up to the set [A]
   of names assigned outside; what the first reports, the second reports too, up to [A] ---- *)
Lemma asgl_cons m ms x : asgl (m :: ms) x = mem x m || asgl ms x.
Proof. reflexivity. Qed.

Section Sim.
Variable A : name -> Prop.

Definition Eq2 (ms cs : list (list name)) : Prop := forall x, (asgl ms x = true \/ A x) <-> (asgl cs x = true \/ A x).
Definition Orel (tm tc : tstate) : Prop := forall x, mem x (t_out tm) = true -> mem x (t_out tc) = true \/ A x.
Definition G (ms cs : list (list name)) (tm tc : tstate) : Prop :=
  exists m c, t_assigned tm = m :: ms /\ t_assigned tc = c :: cs /\ Eq2 (m :: ms) (c :: cs) /\ Orel tm tc.
Definition Gpres (f : tstate -> tstate) : Prop := forall ms cs tm tc, G ms cs tm tc -> G ms cs (f tm) (f tc).

Lemma Gpres_id : Gpres (fun t => t).
Proof. intros ms cs tm tc H. exact H. Qed.
Lemma Gpres_comp f g : Gpres f -> Gpres g -> Gpres (fun t => g (f t)).
Proof. intros Hf Hg ms cs tm tc H. apply Hg, Hf, H. Qed.

Lemma Gpres_assign x : Gpres (t_assign x).
Proof.
  intros ms cs [om am] [oc ac] (m & c & E1 & E2 & HE & HO). cbn [t_assigned] in E1, E2. subst am ac. unfold t_assign. cbn [t_assigned t_out].
  exists (x :: m), (x :: c). cbn [t_assigned t_out]. repeat split; auto.
  - rewrite !asgl_cons, !mem_cons. specialize (HE x0). rewrite !asgl_cons in HE.
    destruct (x0 =? x); cbn [orb]; auto. apply HE.
  - rewrite !asgl_cons, !mem_cons. specialize (HE x0). rewrite !asgl_cons in HE.
    destruct (x0 =? x); cbn [orb]; auto. apply HE.
Qed.

Lemma lookup_cons x o m ms : t_lookup x (mkT o (m :: ms)) =
  if asgl (m :: ms) x then mkT o (m :: ms) else mkT (if mem x o then o else x :: o) ((x :: m) :: ms).
Proof. reflexivity. Qed.

Lemma mem_add y x o : mem y (if mem x o then o else x :: o) = true <-> (y = x \/ mem y o = true).
Proof.
  destruct (mem x o) eqn:Em.
  - split; auto. intros [->|H]; auto.
  - rewrite mem_cons. split.
    + intros H. apply orb_prop in H as [H|H]; auto. left. apply Z.eqb_eq, H.
    + intros [->|H]; [rewrite Z.eqb_refl; reflexivity|rewrite H; apply orb_true_r].
Qed.

Lemma asgl_add y x m ms : asgl ((x :: m) :: ms) y = true <-> (y = x \/ asgl (m :: ms) y = true).
Proof.
  rewrite !asgl_cons, mem_cons. split.
  - intros H. destruct (y =? x) eqn:E; [left; apply Z.eqb_eq, E|right; exact H].
  - intros [->|H]; [rewrite Z.eqb_refl; reflexivity|]. rewrite <- orb_assoc, H. apply orb_true_r.
Qed.

Lemma Gpres_lookup x : Gpres (t_lookup x).
Proof.
  intros ms cs [om am] [oc ac] (m & c & E1 & E2 & HE & HO). cbn [t_assigned] in E1, E2. subst am ac.
  unfold Orel in HO. cbn [t_out] in HO. rewrite !lookup_cons.
  assert (HEx := HE x).
  destruct (asgl (m :: ms) x) eqn:Am; destruct (asgl (c :: cs) x) eqn:Ac.
  - exists m, c. auto.
  - (* only the second tracker reports *)
    exists m, (x :: c). cbn [t_assigned t_out]. repeat split; auto.
    + intros H. destruct (HE x0) as [H1 _]. destruct (H1 H) as [H2|H2]; auto. left. apply asgl_add. auto.
    + intros [H|H]; auto. apply asgl_add in H as [->|H]; auto. apply HE. auto.
    + intros y Hy. destruct (HO y Hy) as [H|H]; auto. left. apply mem_add. auto.
  - (* only the first tracker reports: the name is assigned outside *)
    assert (Ax : A x) by (destruct HEx as [_ H]; destruct (H (or_introl eq_refl)) as [H'|H']; [discriminate|exact H']).
    exists (x :: m), c. cbn [t_assigned t_out]. repeat split; auto.
    + intros [H|H]; auto. apply asgl_add in H as [->|H]; auto. apply HE. auto.
    + intros H. destruct (HE x0) as [_ H1]. destruct (H1 H) as [H2|H2]; auto. left. apply asgl_add. auto.
    + intros y Hy. apply mem_add in Hy as [->|Hy]; auto.
  - exists (x :: m), (x :: c). cbn [t_assigned t_out]. repeat split; auto.
    + intros [H|H]; auto. apply asgl_add in H as [->|H]; [left; apply asgl_add; auto|].
      destruct (HE x0) as [H1 _]. destruct (H1 (or_introl H)) as [H2|H2]; auto. left. apply asgl_add. auto.
    + intros [H|H]; auto. apply asgl_add in H as [->|H]; [left; apply asgl_add; auto|].
      destruct (HE x0) as [_ H1]. destruct (H1 (or_introl H)) as [H2|H2]; auto. left. apply asgl_add. auto.
    + intros y Hy. apply mem_add in Hy as [->|Hy]; [left; apply mem_add; auto|].
      destruct (HO y Hy) as [H|H]; auto. left. apply mem_add. auto.
Qed.

Lemma Gpres_scoped f : Gpres f -> Gpres (fun t => t_pop (f (t_push t))).
Proof.
  intros Hf ms cs tm tc (m & c & E1 & E2 & HE & HO).
  assert (G0 : G (m :: ms) (c :: cs) (t_push tm) (t_push tc)).
  { exists [], []. unfold t_push. cbn [t_assigned t_out]. rewrite E1, E2. split; [reflexivity|]. split; [reflexivity|]. split; [|exact HO].
    intros x. change (asgl ([] :: m :: ms) x) with (asgl (m :: ms) x). change (asgl ([] :: c :: cs) x) with (asgl (c :: cs) x). apply HE. }
  destruct (Hf _ _ _ _ G0) as (m1 & c1 & F1 & F2 & FE & FO).
  exists m, c. unfold t_pop. cbn [t_assigned t_out]. rewrite F1, F2. cbn [tl]. split; [reflexivity|]. split; [reflexivity|]. split; [exact HE|exact FO].
Qed.

Lemma Gpres_fold {X} (f : X -> tstate -> tstate) (l : list X) :
  Forall (fun x => Gpres (f x)) l -> Gpres (fun t => fold_left (fun t x => f x t) l t).
Proof.
  induction 1 as [|x l Hx Hl IH]; cbn [fold_left]; [apply Gpres_id|].
  apply (Gpres_comp (f x) _ Hx IH).
Qed.

Lemma Gpres_visit_list l : Forall (fun e => Gpres (visit_expr e)) l -> Gpres (visit_list l).
Proof. intros H. apply (Gpres_fold (fun e t => visit_expr e t) l H). Qed.
Lemma Gpres_visit_kw {K} (l : list (K * expr)) : Forall (fun p => Gpres (visit_expr (snd p))) l -> Gpres (visit_kw l).
Proof. intros H. apply (Gpres_fold (fun p t => visit_expr (snd p) t) l H). Qed.

Lemma Gpres_visit_pairs (l : list (expr * expr)) :
  Forall (fun p => Gpres (visit_expr (fst p)) /\ Gpres (visit_expr (snd p))) l -> Gpres (visit_pairs l).
Proof.
  intros H. apply (Gpres_fold (fun p t => visit_expr (snd p) (visit_expr (fst p) t)) l).
  eapply Forall_impl; [|exact H]. intros p [Hk Hv]. apply (Gpres_comp _ _ Hk Hv).
Qed.

Lemma Gpres_ext f g : (forall t, f t = g t) -> Gpres g -> Gpres f.
Proof. intros E Hg ms cs tm tc H. rewrite !E. apply Hg, H. Qed.

Lemma Gpres_visit_expr e : Gpres (visit_expr e).
Proof.
  induction e using expr_ind'; (eapply Gpres_ext; [intros t; apply visit_expr_eq|]); cbn beta iota.
  - apply Gpres_id.
  - apply Gpres_lookup.
  - apply Gpres_visit_list; auto.
  - apply Gpres_visit_pairs; auto.
  - auto.
  - auto.
  - apply (Gpres_comp _ _ IHe1 IHe2).
  - apply (Gpres_comp _ _ IHe). apply Gpres_visit_kw; auto.
  - apply (Gpres_comp _ _ IHe1 IHe2).
  - apply (Gpres_comp _ _ IHe1 IHe2).
  - cbn zeta. destruct f as [f'|].
    + apply (Gpres_comp (fun t => visit_expr e2 (visit_expr e1 t)) _ (Gpres_comp _ _ IHe1 IHe2) (H f' eq_refl)).
    + apply (Gpres_comp _ _ IHe1 IHe2).
  - apply (Gpres_comp _ _ IHe1 IHe2).
  - auto.
  - apply (Gpres_comp _ _ IHe). apply Gpres_visit_list; auto.
  - apply (Gpres_comp _ _ IHe). apply Gpres_visit_list; auto.
  - apply (Gpres_comp (fun t => visit_list args (t_lookup f t)) (visit_kw kw)).
    + apply (Gpres_comp _ _ (Gpres_lookup f)). apply Gpres_visit_list; auto.
    + apply Gpres_visit_kw; auto.
Qed.

Lemma Gpres_walk_list l : Forall (fun s => Gpres (walk s)) l -> Gpres (walk_list l).
Proof. intros H. apply (Gpres_fold (fun s t => walk s t) l H). Qed.

Lemma Gpres_scoped_body body : Forall (fun s => Gpres (walk s)) body -> Gpres (fun t => t_pop (walk_list body (t_push t))).
Proof. intros H. apply Gpres_scoped, Gpres_walk_list, H. Qed.

Lemma Gpres_walk_arms els arms :
  Forall (fun a => Forall (fun s => Gpres (walk s)) (snd a)) arms -> (forall b, els = Some b -> Forall (fun s => Gpres (walk s)) b) ->
  Gpres (walk_arms els arms).
Proof.
  intros Ha He. induction Ha as [|[c b] r Hb Hr IH].
  - cbn [walk_arms]. destruct els as [b|]; [apply Gpres_walk_list; auto|apply Gpres_id].
  - cbn [snd] in Hb.
    assert (P1 : Gpres (fun t => t_pop (walk_list b (t_push (visit_expr c t))))).
    { apply (Gpres_comp _ _ (Gpres_visit_expr c) (Gpres_scoped_body b Hb)). }
    assert (P2 : Gpres (fun t => t_pop (walk_arms els r (t_push t)))) by (apply Gpres_scoped, IH).
    eapply Gpres_ext; [|apply (Gpres_comp _ _ P1 P2)].
    intros t. cbn [walk_arms]. cbn zeta. destruct r; [destruct els|]; reflexivity.
Qed.

Lemma Gpres_assign_target tg : Gpres (assign_target tg).
Proof. destruct tg; cbn [assign_target]; [apply Gpres_assign|]. apply (Gpres_comp _ _ (Gpres_assign x) (Gpres_assign y)). Qed.

Lemma Gpres_visit_params ps ds : Gpres (visit_params ps ds).
Proof.
  unfold visit_params.
  apply (Gpres_fold (fun p t => t_assign p (match default_of p ds with Some d => visit_expr d t | None => t end)) (rev ps)).
  apply Forall_forall. intros p _. destruct (default_of p ds).
  - apply (Gpres_comp _ _ (Gpres_visit_expr e) (Gpres_assign p)).
  - apply Gpres_assign.
Qed.

Lemma Gpres_visit_macro dc ps ds body : Forall (fun s => Gpres (walk s)) body -> Gpres (visit_macro dc ps ds body).
Proof.
  intros Hb. unfold visit_macro.
  apply (Gpres_comp (fun t => visit_params ps ds (if dc then t_assign N_caller t else t)) (walk_list body)); [|apply Gpres_walk_list, Hb].
  apply (Gpres_comp (fun t => if dc then t_assign N_caller t else t) _); [|apply Gpres_visit_params].
  destruct dc; [apply Gpres_assign|apply Gpres_id].
Qed.

Lemma Gpres_visit_binds binds : Gpres (visit_binds binds).
Proof.
  unfold visit_binds. apply (Gpres_fold (fun b t => assign_target (fst b) (visit_expr (snd b) t)) binds).
  apply Forall_forall. intros b _. apply (Gpres_comp _ _ (Gpres_visit_expr (snd b)) (Gpres_assign_target (fst b))).
Qed.

Lemma Gpres_walk st : Gpres (walk st).
Proof.
  induction st using stmt_ind'; (eapply Gpres_ext; [intros tr; apply walk_eq|]); cbn beta iota; try apply Gpres_id.
  - apply Gpres_visit_expr.
  - apply Gpres_walk_arms; auto.
  - cbn zeta.
    set (inner := fun t1 => walk_list body (t_assign N_loop (match flt with Some f => visit_expr f (assign_target tg t1) | None => assign_target tg t1 end))).
    assert (P1 : Gpres inner).
    { unfold inner. apply (Gpres_comp (fun t1 => t_assign N_loop (match flt with Some f => visit_expr f (assign_target tg t1) | None => assign_target tg t1 end)) (walk_list body)); [|apply Gpres_walk_list; auto].
      apply (Gpres_comp (fun t1 => match flt with Some f => visit_expr f (assign_target tg t1) | None => assign_target tg t1 end) _); [|apply Gpres_assign].
      destruct flt; [apply (Gpres_comp _ _ (Gpres_assign_target tg) (Gpres_visit_expr e))|apply Gpres_assign_target]. }
    assert (P2 : Gpres (fun t => t_pop (match els with Some b => walk_list b (t_push t) | None => t_push t end))).
    { destruct els as [b|]; [apply Gpres_scoped_body; auto|apply (Gpres_scoped _ Gpres_id)]. }
    apply (Gpres_ext _ (fun t => (fun t6 => t_pop (match els with Some b => walk_list b (t_push t6) | None => t_push t6 end)) (t_pop (inner (t_push (visit_expr it t)))))).
    { intros tr. reflexivity. }
    apply (Gpres_comp (fun t => t_pop (inner (t_push (visit_expr it t)))) (fun t6 => t_pop (match els with Some b => walk_list b (t_push t6) | None => t_push t6 end))); [|exact P2].
    apply (Gpres_comp (visit_expr it) (fun t => t_pop (inner (t_push t))) (Gpres_visit_expr it) (Gpres_scoped _ P1)).
  - apply (Gpres_comp _ _ (Gpres_visit_expr e) (Gpres_assign_target x)).
  - apply (Gpres_comp _ _ (Gpres_scoped_body body H) (Gpres_assign x)).
  - apply (Gpres_scoped (fun t => walk_list body (visit_binds binds t))).
    apply (Gpres_comp _ _ (Gpres_visit_binds binds)). apply Gpres_walk_list; auto.
  - apply (Gpres_comp (fun t => t_pop (visit_macro true ps ds body (t_push t))) _); [|apply Gpres_assign].
    apply Gpres_scoped, Gpres_visit_macro; auto.
  - apply (Gpres_comp (fun t => visit_list args (t_lookup nm t)) (fun t => t_pop (visit_macro true [] [] body (t_push t)))).
    + apply (Gpres_comp _ _ (Gpres_lookup nm)). apply Gpres_visit_list. apply Forall_forall. intros e _. apply Gpres_visit_expr.
    + apply Gpres_scoped, Gpres_visit_macro; auto.
  - apply Gpres_scoped_body; auto.
  - apply (Gpres_comp _ _ (Gpres_visit_expr v) (Gpres_scoped_body body H)).
Qed.
End Sim.

(* a name that the fresh tracker of find_macro_closure reports is reported by the surrounding walk
   as well, unless it is assigned outside (or is `caller`, which macro_closure filters out) *)
Lemma closure_in_context ps ds body t x :
  mem x (closure_raw ps ds body) = true -> x <> N_caller -> asgl (t_assigned t) x = false ->
  mem x (t_out (visit_macro true ps ds body (t_push t))) = true.
Proof.
  intros Hx Hc Ha.
  set (A := fun y : name => asgl (t_assigned t) y = true \/ y = N_caller).
  assert (G0 : G A [] (t_assigned t) (mkT [] [[]]) (t_assign N_caller (t_push t))).
  { exists [], [N_caller]. cbn. split; [reflexivity|]. split; [reflexivity|]. split.
    - intros y. split; [intros [H|H]; [discriminate|right; exact H]|].
      intros [H|H]; [|right; exact H]. right. rewrite asgl_cons, mem_cons in H. unfold A.
      destruct (y =? N_caller) eqn:E; [right; apply Z.eqb_eq, E|left]. cbn in H. exact H.
    - intros y H. discriminate. }
  assert (P : Gpres A (fun t0 => walk_list body (visit_params ps ds t0))).
  { apply (Gpres_comp A _ _ (Gpres_visit_params A ps ds)). apply Gpres_walk_list, Forall_forall. intros s _. apply Gpres_walk. }
  destruct (P _ _ _ _ G0) as (m & c & _ & _ & _ & HO).
  destruct (HO x Hx) as [H|[H|H]]; [exact H|congruence|contradiction].
Qed.
