(* C18: whenever the shared interpreter (Lang/Interp.v) succeeds, the error-carrying interpreter of
   C18/XInterp.v returns the very same result: it only adds information to failures (and gives the
   two reserved filter names a meaning, which the shared interpreter rejects as unknown filters). *)
From MJ Require Import Common.Base Lang.Syntax Lang.Meta Lang.Interp C18.XInterp.

Lemma bind_ok' {A B} (o : outcome A) (f : A -> outcome B) r : bind o f = Ok r -> exists a, o = Ok a /\ f a = Ok r.
Proof. destruct o; cbn; try discriminate. intros H. eauto. Qed.
Ltac bs H p E := apply bind_ok' in H as (p & E & H).

Lemma xdo_filter_agree m esc f v args r : do_filter m esc f v args = Ok r -> xdo_filter m esc f v args = Ok r.
Proof.
  intros H. unfold xdo_filter. destruct (f =? F_slice) eqn:E1.
  - apply Z.eqb_eq in E1. subst f. cbn in H. discriminate.
  - destruct (f =? F_setattr) eqn:E2; [|exact H]. apply Z.eqb_eq in E2. subst f. cbn in H. discriminate.
Qed.

Section Comb.
Variable ev : st -> expr -> outcome (value * st).
Variable xev : st -> expr -> outE (value * st).
Hypothesis Hev : forall s e r, ev s e = Ok r -> xev s e = OkE r.

Lemma map_eval_agree : forall l s r, map_eval ev s l = Ok r -> xmap_eval xev s l = OkE r.
Proof.
  induction l as [|x l IH]; intros s r H; cbn [map_eval xmap_eval] in *.
  - inversion H; reflexivity.
  - bs H p1 E1. destruct p1 as [v s1]. bs H p2 E2. destruct p2 as [vs s2]. inversion H; subst.
    rewrite (Hev _ _ _ E1). cbn [bindE]. rewrite (IH _ _ E2). reflexivity.
Qed.

Lemma map_eval_kw_agree : forall l s r, map_eval_kw ev s l = Ok r -> xmap_eval_kw xev s l = OkE r.
Proof.
  induction l as [|[k x] l IH]; intros s r H; cbn [map_eval_kw xmap_eval_kw] in *.
  - inversion H; reflexivity.
  - bs H p1 E1. destruct p1 as [v s1]. bs H p2 E2. destruct p2 as [vs s2]. inversion H; subst.
    rewrite (Hev _ _ _ E1). cbn [bindE]. rewrite (IH _ _ E2). reflexivity.
Qed.

Lemma cmp_chain_agree m : forall l left s r, cmp_chain m ev left s l = Ok r -> xcmp_chain m xev left s l = OkE r.
Proof.
  induction l as [|[op x] l IH]; intros left s r H; cbn [cmp_chain xcmp_chain] in *.
  - inversion H; reflexivity.
  - bs H p1 E1. destruct p1 as [y s2]. bs H b E2.
    rewrite (Hev _ _ _ E1). cbn [bindE]. rewrite E2. cbn [lift bindE].
    destruct l; [inversion H; reflexivity|]. destruct b; [apply IH, H|inversion H; reflexivity].
Qed.

Lemma store_args_agree ds : forall l s r, store_args ev ds s l = Ok r -> xstore_args xev ds s l = OkE r.
Proof.
  induction l as [|[p v] l IH]; intros s r H; cbn [store_args xstore_args] in *.
  - inversion H; reflexivity.
  - destruct (is_undef v); [|apply IH, H]. destruct (assoc p ds); [|apply IH, H].
    bs H p1 E1. destruct p1 as [dv s1]. rewrite (Hev _ _ _ E1). cbn [bindE]. apply IH, H.
Qed.

Lemma with_binds_agree : forall l s r, with_binds ev s l = Ok r -> xwith_binds xev s l = OkE r.
Proof.
  induction l as [|[x e] l IH]; intros s r H; cbn [with_binds xwith_binds] in *.
  - inversion H; reflexivity.
  - bs H p1 E1. destruct p1 as [v s1]. bs H s2 E2. rewrite (Hev _ _ _ E1). cbn [bindE]. rewrite E2. cbn [lift bindE]. apply IH, H.
Qed.

Lemma map_eval_pairs_agree : forall l s r, map_eval_pairs ev s l = Ok r -> xmap_eval_pairs xev s l = OkE r.
Proof.
  induction l as [|[ke ve] l IH]; intros s r H; cbn [map_eval_pairs xmap_eval_pairs] in *.
  - inversion H; reflexivity.
  - bs H p1 E1. destruct p1 as [k s1]. bs H p2 E2. destruct p2 as [v s2]. bs H p3 E3. destruct p3 as [kvs s3]. inversion H; subst.
    rewrite (Hev _ _ _ E1). cbn [bindE]. rewrite (Hev _ _ _ E2). cbn [bindE]. rewrite (IH _ _ E3). reflexivity.
Qed.

Lemma filter_items_agree m tg fe : forall l s r, filter_items m ev tg fe s l = Ok r -> xfilter_items m xev tg fe s l = OkE r.
Proof.
  induction l as [|item l IH]; intros s r H; cbn [filter_items xfilter_items] in *.
  - inversion H; reflexivity.
  - cbn zeta in *. bs H sf1 E1. bs H p2 E2. destruct p2 as [v sf2]. bs H keep E3. bs H p4 E4. destruct p4 as [rest s3]. inversion H; subst.
    rewrite E1. cbn [lift bindE]. rewrite (Hev _ _ _ E2). cbn [bindE]. rewrite E3. cbn [lift bindE]. rewrite (IH _ _ E4). reflexivity.
Qed.

Variable ex : st -> list stmt -> outcome (signal * st).
Variable xex : st -> list stmt -> outE (signal * st).
Hypothesis Hex : forall s l r, ex s l = Ok r -> xex s l = OkE r.

Lemma if_arms_agree m els : forall l s r, if_arms m ev ex els s l = Ok r -> xif_arms m xev xex els s l = OkE r.
Proof.
  induction l as [|[cnd body] l IH]; intros s r H; cbn [if_arms xif_arms] in *.
  - destruct els; [apply Hex, H|inversion H; reflexivity].
  - bs H p1 E1. destruct p1 as [v s1]. bs H b E2. rewrite (Hev _ _ _ E1). cbn [bindE]. rewrite E2. cbn [lift bindE].
    destruct b; [apply Hex, H|apply IH, H].
Qed.

Lemma loop_items_agree tg body n : forall l s i r, loop_items ex tg body n s i l = Ok r -> xloop_items xex tg body n s i l = OkE r.
Proof.
  induction l as [|item l IH]; intros s i r H; cbn [loop_items xloop_items] in *.
  - inversion H; reflexivity.
  - cbn zeta in *. bs H s3 E1. bs H p2 E2. destruct p2 as [sg s4].
    rewrite E1. cbn [lift bindE]. rewrite (Hex _ _ _ E2). cbn [bindE].
    destruct sg; [apply IH, H|inversion H; reflexivity|apply IH, H].
Qed.
End Comb.

Lemma lift_ok {A} s (o : outcome A) a : o = Ok a -> lift s o = OkE a.
Proof. intros ->. reflexivity. Qed.

Lemma agree_all c : forall fuel,
  (forall esc s e r, eval c fuel esc s e = Ok r -> xeval c fuel esc s e = OkE r) /\
  (forall esc s mc cl args kw r, call_macro c fuel esc s mc cl args kw = Ok r -> xcall_macro c fuel esc s mc cl args kw = OkE r) /\
  (forall esc s t r, exec c fuel esc s t = Ok r -> xexec c fuel esc s t = OkE r) /\
  (forall esc s l r, exec_list c fuel esc s l = Ok r -> xexec_list c fuel esc s l = OkE r).
Proof.
  induction fuel as [|fuel (IHe & IHm & IHx & IHl)].
  - repeat split; intros; discriminate.
  - split; [|split; [|split]].
    + (* eval *)
      intros esc s e r H. cbn [eval] in H. cbn [xeval]. fold (xcall_macro c). destruct e.
      * destruct l; inversion H; reflexivity.
      * destruct (lookup c s x) as [v0 s1]. inversion H; reflexivity.
      * bs H p1 E1. destruct p1 as [vs s1]. inversion H; subst.
        rewrite (map_eval_agree _ _ (IHe esc) _ _ _ E1). reflexivity.
      * bs H p1 E1. destruct p1 as [kvs s1]. inversion H; subst.
        rewrite (map_eval_pairs_agree _ _ (IHe esc) _ _ _ E1). reflexivity.
      * bs H p1 E1. destruct p1 as [v0 s1]. rewrite (IHe _ _ _ _ E1). cbn [bindE]. destruct v0; inversion H; reflexivity.
      * bs H p1 E1. destruct p1 as [v0 s1]. bs H b E2. inversion H; subst. rewrite (IHe _ _ _ _ E1). cbn [bindE]. rewrite E2. reflexivity.
      * bs H p1 E1. destruct p1 as [x s1]. bs H p2 E2. destruct p2 as [y s2]. bs H u E3. bs H r0 E4. inversion H; subst.
        rewrite (IHe _ _ _ _ E1). cbn [bindE]. rewrite (IHe _ _ _ _ E2). cbn [bindE]. rewrite E3. cbn [lift bindE]. rewrite E4. reflexivity.
      * bs H p1 E1. destruct p1 as [x s1]. rewrite (IHe _ _ _ _ E1). cbn [bindE]. apply (cmp_chain_agree _ _ (IHe esc)), H.
      * bs H p1 E1. destruct p1 as [x s1]. bs H b E2. rewrite (IHe _ _ _ _ E1). cbn [bindE]. rewrite E2. cbn [lift bindE].
        destruct b; [apply IHe, H|inversion H; reflexivity].
      * bs H p1 E1. destruct p1 as [x s1]. bs H b E2. rewrite (IHe _ _ _ _ E1). cbn [bindE]. rewrite E2. cbn [lift bindE].
        destruct b; [inversion H; reflexivity|apply IHe, H].
      * bs H p1 E1. destruct p1 as [x s1]. bs H b E2. rewrite (IHe _ _ _ _ E1). cbn [bindE]. rewrite E2. cbn [lift bindE].
        destruct b; [apply IHe, H|]. destruct f; [apply IHe, H|inversion H; reflexivity].
      * bs H p1 E1. destruct p1 as [x s1]. bs H p2 E2. destruct p2 as [k s2].
        rewrite (IHe _ _ _ _ E1). cbn [bindE]. rewrite (IHe _ _ _ _ E2). cbn [bindE].
        destruct (get_item_opt x k); [inversion H; reflexivity|].
        bs H u E3. inversion H; subst. rewrite E3. reflexivity.
      * bs H p1 E1. destruct p1 as [x s1]. rewrite (IHe _ _ _ _ E1). cbn [bindE].
        destruct (get_attr_opt x a); [inversion H; reflexivity|].
        bs H u E3. inversion H; subst. rewrite E3. reflexivity.
      * bs H p1 E1. destruct p1 as [x s1]. bs H p2 E2. destruct p2 as [vs s2]. bs H r0 E3. inversion H; subst.
        rewrite (IHe _ _ _ _ E1). cbn [bindE]. rewrite (map_eval_agree _ _ (IHe esc) _ _ _ E2). cbn [bindE].
        rewrite (xdo_filter_agree _ _ _ _ _ _ E3). reflexivity.
      * bs H p1 E1. destruct p1 as [x s1]. bs H p2 E2. destruct p2 as [vs s2]. bs H r0 E3. inversion H; subst.
        rewrite (IHe _ _ _ _ E1). cbn [bindE]. rewrite (map_eval_agree _ _ (IHe esc) _ _ _ E2). cbn [bindE]. rewrite E3. reflexivity.
      * bs H p1 E1. destruct p1 as [vs s1]. bs H p2 E2. destruct p2 as [kvs s2].
        rewrite (map_eval_agree _ _ (IHe esc) _ _ _ E1). cbn [bindE]. rewrite (map_eval_kw_agree _ _ (IHe esc) _ _ _ E2). cbn [bindE].
        destruct (lookup c s2 f) as [fv s3]. destruct fv as [fv|]; [|discriminate]. destruct fv; try discriminate.
        -- apply IHm, H.
        -- destruct (f0 =? N_range); [|discriminate]. destruct vs as [|v1 vs']; [discriminate|]. destruct v1; try discriminate.
           destruct vs'; [|discriminate]. destruct kvs; [|discriminate]. inversion H; reflexivity.
    + (* call_macro *)
      intros esc s mc cl args kw r H. cbn [call_macro] in H. cbn [xcall_macro]. fold (xeval c) (xexec_list c).
      destruct (Nat.ltb _ _); [discriminate|]. bs H bound E1. rewrite E1. cbn [lift bindE].
      match type of H with context [if ?b then _ else _] => destruct b end; [discriminate|].
      bs H s1 E2. bs H p3 E3. destruct p3 as [sg s2]. inversion H; subst.
      rewrite (store_args_agree _ _ (IHe esc) _ _ _ _ E2). cbn [bindE]. rewrite (IHl _ _ _ _ E3). reflexivity.
    + (* exec *)
      intros esc s t r H. cbn [exec] in H. cbn [xexec]. fold (xeval c) (xexec_list c) (xcall_macro c). destruct t.
      * inversion H; reflexivity.
      * bs H p1 E1. destruct p1 as [v s1]. rewrite (IHe _ _ _ _ E1). cbn [bindE]. destruct (_ && _); [discriminate|]. inversion H; reflexivity.
      * apply (if_arms_agree _ _ (IHe esc) _ _ (IHl esc)), H.
      * bs H p1 E1. destruct p1 as [iv s1]. bs H items0 E2. bs H p3 E3. destruct p3 as [items s2]. bs H s5 E4.
        rewrite (IHe _ _ _ _ E1). cbn [bindE]. rewrite E2. cbn [lift bindE].
        assert (F : (match filter with None => OkE (items0, s1) | Some fe => xfilter_items (c_mode c) (xeval c fuel esc) t fe s1 items0 end) = OkE (items, s2)).
        { destruct filter; [apply (filter_items_agree _ _ (IHe esc)), E3|inversion E3; reflexivity]. }
        rewrite F. cbn [bindE]. rewrite (loop_items_agree _ _ (IHl esc) _ _ _ _ _ _ _ E4). cbn [bindE].
        destruct items; [destruct els|]; try (inversion H; reflexivity). apply IHl, H.
      * bs H p1 E1. destruct p1 as [v s1]. bs H s2 E2. inversion H; subst. rewrite (IHe _ _ _ _ E1). cbn [bindE]. rewrite E2. reflexivity.
      * bs H p1 E1. destruct p1 as [[sg0 txt] s1]. bs E1 p2 E2. destruct p2 as [sg1 s1']. inversion E1; subst.
        rewrite (IHl _ _ _ _ E2). cbn [bindE]. destruct sg0; try (inversion H; reflexivity).
        bs H v E3. inversion H; subst.
        assert (F : (match filter with None => Ok (VStr esc (output_of s1')) | Some f => xdo_filter (c_mode c) esc f (VStr esc (output_of s1')) [] end) = Ok v).
        { destruct filter; [apply xdo_filter_agree, E3|exact E3]. }
        rewrite F. reflexivity.
      * bs H s1 E1. bs H p2 E2. destruct p2 as [sg0 s2]. inversion H; subst.
        rewrite (with_binds_agree _ _ (IHe esc) _ _ _ E1). cbn [bindE]. rewrite (IHl _ _ _ _ E2). reflexivity.
      * destruct (enclose c s _) as [s1 cl]. inversion H; reflexivity.
      * bs H p1 E1. destruct p1 as [vs s1]. rewrite (map_eval_agree _ _ (IHe esc) _ _ _ E1). cbn [bindE].
        destruct (enclose c s1 _) as [s2 cl]. destruct (lookup c s2 m) as [fv s3].
        destruct fv as [fv|]; [|discriminate]. destruct fv; try discriminate.
        bs H p4 E4. destruct p4 as [v s4]. inversion H; subst. rewrite (IHm _ _ _ _ _ _ _ E4). reflexivity.
      * bs H p1 E1. destruct p1 as [[sg0 txt] s1]. bs E1 p2 E2. destruct p2 as [sg1 s1']. inversion E1; subst.
        rewrite (IHl _ _ _ _ E2). cbn [bindE]. destruct sg0; try (inversion H; reflexivity).
        bs H v E3. inversion H; subst. rewrite (xdo_filter_agree _ _ _ _ _ _ E3). reflexivity.
      * bs H p1 E1. destruct p1 as [v0 s1]. bs H esc' E2. rewrite (IHe _ _ _ _ E1). cbn [bindE]. rewrite E2. cbn [lift bindE]. apply IHl, H.
      * inversion H; reflexivity.
      * inversion H; reflexivity.
    + (* exec_list *)
      intros esc s l r H. cbn [exec_list] in H. cbn [xexec_list]. fold (xexec c). destruct l as [|t l'].
      * inversion H; reflexivity.
      * bs H p1 E1. destruct p1 as [sg0 s1]. rewrite (IHx _ _ _ _ E1). cbn [bindE].
        destruct sg0; try (inversion H; reflexivity). apply IHl, H.
Qed.

(* the error-carrying run agrees with the shared interpreter on success *)
Lemma xrun_agrees_proof c fuel body s : Interp.run c fuel body = Ok s -> run_asks c fuel body = OkE s.
Proof.
  unfold Interp.run, run_asks. intros H. bs H p E. destruct p as [sg s1]. inversion H; subst.
  rewrite (proj2 (proj2 (proj2 (agree_all c fuel))) _ _ _ _ E). reflexivity.
Qed.
