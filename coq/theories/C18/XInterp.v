(* C18: the reference interpreter of Lang/Interp.v once more, with two differences that the property
   needs and the shared interpreter does not have:
   - an outcome that carries, on failure, the context lookups recorded up to the failure
     ([ErrE code asks]); the shared interpreter drops its state when a render fails;
   - two constructs of compiler/ast.rs that the core syntax has no constructor for, written with the
     constructors it has (the tracker of Lang/Meta.v then visits their sub-terms exactly in the order
     meta.rs and codegen.rs do):
       slice       e[a:b:c]              :=  EFilter F_slice e [a; b; c]     (absent bound = none)
       assignment  {% set x.attr = e %}  :=  SEmit (EFilter F_setattr e [EVar x])
     (codegen: value, then the namespace, then SetAttr; the model has no namespace objects, so SetAttr
     fails with InvalidOperation after both operands were evaluated - as the engine does for every
     value that is not a namespace).
   Everything else - state, name resolution, stores, closures, operators - is Lang/Interp.v's own.
   [xrun_agrees] (C18/XAgree.v): whenever Interp.run succeeds, this interpreter returns the same state. *)
From MJ Require Import Common.Base Lang.Syntax Lang.Meta Lang.Interp C09.Spec.

Inductive outE (A : Type) : Type :=
| OkE (a : A)
| ErrE (code : Z) (asks : list name)
| PanicE
| GasE.
Arguments OkE {A} a.
Arguments ErrE {A} code asks.
Arguments PanicE {A}.
Arguments GasE {A}.

Definition bindE {A B} (o : outE A) (f : A -> outE B) : outE B :=
  match o with
  | OkE a => f a
  | ErrE c a => ErrE c a
  | PanicE => PanicE
  | GasE => GasE
  end.

(* a state-free operation that fails, fails with the lookups recorded so far *)
Definition lift {A} (s : st) (o : outcome A) : outE A :=
  match o with
  | Ok a => OkE a
  | Err c => ErrE c (s_asks s)
  | Panic => PanicE
  | OutOfGas => GasE
  end.

Definition erase {A} (o : outE A) : outcome A :=
  match o with
  | OkE a => Ok a
  | ErrE c _ => Err c
  | PanicE => Panic
  | GasE => OutOfGas
  end.

(* ---- the two extra constructs ---- *)
Definition F_slice : name := 100.
Definition F_setattr : name := 101.
Definition ESlice (e a b c : expr) : expr := EFilter F_slice e [a; b; c].
Definition SSetAttr (x : name) (e : expr) : stmt := SEmit (EFilter F_setattr e [EVar x]).

Definition select {A} (l : list A) (idx : list Z) : list A :=
  flat_map (fun i => match nth_error l (Z.to_nat i) with Some x => [x] | None => [] end) idx.

(* value/ops.rs::slice: bounds are none or integers, step 0 is an error; strings by characters,
   undefined and none give the empty list, sequences give the selected items (Python's selection,
   C09) *)
Definition slice_bound (v : value) : outcome (option Z) :=
  match v with VNone => Ok None | VInt z => Ok (Some z) | _ => Err E_InvalidOperation end.
Definition slice_value (v : value) (args : list value) : outcome value :=
  match args with
  | [a; b; c] =>
      bind (slice_bound a) (fun start => bind (slice_bound b) (fun stop => bind (slice_bound c) (fun stp =>
      let step := match stp with Some z => z | None => 1 end in
      if step =? 0 then Err E_InvalidOperation else
      match v with
      | VStr _ s => Ok (VStr false (select s (py_indices (lenZ s) start stop step)))
      | VUndef | VSilent | VNone => Ok (VList [])
      | VList l => Ok (VList (select l (py_indices (lenZ l) start stop step)))
      | _ => Err E_InvalidOperation
      end)))
  | _ => Err E_InvalidOperation
  end.

Definition xdo_filter (m : ubehav) (esc : bool) (f : name) (v : value) (args : list value) : outcome value :=
  if f =? F_slice then slice_value v args
  else if f =? F_setattr then Err E_InvalidOperation
  else do_filter m esc f v args.

(* ---- list-walking combinators (Lang/Interp.v's, over outE) ---- *)
Definition xmap_eval {X} (ev : st -> X -> outE (value * st)) : st -> list X -> outE (list value * st) :=
  fix go (s : st) (l : list X) : outE (list value * st) :=
    match l with
    | [] => OkE ([], s)
    | x :: r => bindE (ev s x) (fun '(v, s1) => bindE (go s1 r) (fun '(vs, s2) => OkE (v :: vs, s2)))
    end.

Definition xmap_eval_kw (ev : st -> expr -> outE (value * st)) : st -> list (name * expr) -> outE (list (name * value) * st) :=
  fix go (s : st) (l : list (name * expr)) : outE (list (name * value) * st) :=
    match l with
    | [] => OkE ([], s)
    | (k, x) :: r => bindE (ev s x) (fun '(v, s1) => bindE (go s1 r) (fun '(kv, s2) => OkE ((k, v) :: kv, s2)))
    end.

Definition xcmp_chain (m : ubehav) (ev : st -> expr -> outE (value * st)) : value -> st -> list (cmpop * expr) -> outE (value * st) :=
  fix chain (left : value) (s : st) (l : list (cmpop * expr)) : outE (value * st) :=
    match l with
    | [] => OkE (VBool true, s)
    | (op, r) :: l' =>
        bindE (ev s r) (fun '(y, s2) =>
        bindE (lift s2 (do_cmp m op left y)) (fun b =>
          match l' with
          | [] => OkE (VBool b, s2)
          | _ => if b then chain y s2 l' else OkE (VBool false, s2)
          end))
    end.

Definition xstore_args (ev : st -> expr -> outE (value * st)) (defaults : list (name * expr)) : st -> list (name * value) -> outE st :=
  fix go (s : st) (l : list (name * value)) : outE st :=
    match l with
    | [] => OkE s
    | (p, v) :: r =>
        match is_undef v, assoc p defaults with
        | true, Some d => bindE (ev s d) (fun '(dv, s1) => go (store s1 p dv) r)
        | _, _ => go (store s p v) r
        end
    end.

Definition xif_arms (m : ubehav) (ev : st -> expr -> outE (value * st)) (ex : st -> list stmt -> outE (signal * st))
    (els : option (list stmt)) : st -> list (expr * list stmt) -> outE (signal * st) :=
  fix go (s : st) (l : list (expr * list stmt)) : outE (signal * st) :=
    match l with
    | [] => match els with Some b => ex s b | None => OkE (SigNormal, s) end
    | (cnd, body) :: r =>
        bindE (ev s cnd) (fun '(v, s1) => bindE (lift s1 (u_is_true m v)) (fun b =>
        if b then ex s1 body else go s1 r))
    end.

Definition xfilter_items (m : ubehav) (ev : st -> expr -> outE (value * st)) (tgt : target) (fe : expr) : st -> list value -> outE (list value * st) :=
  fix go (s : st) (l : list value) : outE (list value * st) :=
    match l with
    | [] => OkE ([], s)
    | item :: r =>
        let sf := push_frame s (mkFrame [] (Some (0, 0, false)) None None false) in
        bindE (lift sf (bind_target tgt sf item)) (fun sf1 =>
        bindE (ev sf1 fe) (fun '(v, sf2) => bindE (lift sf2 (u_is_true m v)) (fun keep =>
        bindE (go (pop_frame sf2) r) (fun '(rest, s3) =>
        OkE (if keep then item :: rest else rest, s3)))))
    end.

Definition xloop_items (ex : st -> list stmt -> outE (signal * st)) (tgt : target) (body : list stmt) (n : Z) : st -> Z -> list value -> outE st :=
  fix go (s : st) (i : Z) (l : list value) : outE st :=
    match l with
    | [] => OkE s
    | item :: r =>
        let s' := match s_env s with
                  | f :: e => with_env s (mkFrame [] (Some (i, n, true)) (f_closure f) (f_closure_ctx f) false :: e)
                  | [] => s end in
        bindE (lift s' (bind_target tgt s' item)) (fun s3 =>
        bindE (ex s3 body) (fun '(sg, s4) =>
        match sg with
        | SigBreak => OkE s4
        | _ => go s4 (i + 1) r
        end))
    end.

Definition xmap_eval_pairs (ev : st -> expr -> outE (value * st)) : st -> list (expr * expr) -> outE (list (value * value) * st) :=
  fix go (s : st) (l : list (expr * expr)) : outE (list (value * value) * st) :=
    match l with
    | [] => OkE ([], s)
    | (ke, ve) :: r =>
        bindE (ev s ke) (fun '(k, s1) => bindE (ev s1 ve) (fun '(v, s2) =>
        bindE (go s2 r) (fun '(kvs, s3) => OkE ((k, v) :: kvs, s3))))
    end.

Definition xwith_binds (ev : st -> expr -> outE (value * st)) : st -> list (target * expr) -> outE st :=
  fix go (s : st) (l : list (target * expr)) : outE st :=
    match l with
    | [] => OkE s
    | (t, e) :: r => bindE (ev s e) (fun '(v, s1) => bindE (lift s1 (bind_target t s1 v)) (fun s2 => go s2 r))
    end.

(* ---- the interpreter ---- *)
Section XInterp.
Variable c : cfg.
Let m := c_mode c.

Fixpoint xeval (fuel : nat) (esc : bool) (s : st) (e : expr) {struct fuel} : outE (value * st) :=
  match fuel with
  | O => GasE
  | S fuel =>
    let eval_list := xmap_eval (xeval fuel esc) in
    match e with
    | EConst (LInt z) => OkE (VInt z, s)
    | EConst (LStr t) => OkE (VStr false t, s)
    | EConst (LBool b) => OkE (VBool b, s)
    | EConst LNone => OkE (VNone, s)
    | EVar x => let '(v, s1) := lookup c s x in OkE (match v with Some v => v | None => VUndef end, s1)
    | EList items => bindE (eval_list s items) (fun '(vs, s1) => OkE (VList vs, s1))
    | EMap pairs => bindE (xmap_eval_pairs (xeval fuel esc) s pairs) (fun '(kvs, s1) => OkE (VMap (map_of_pairs kvs), s1))
    | ENeg a => bindE (xeval fuel esc s a) (fun '(v, s1) =>
                  match v with VInt z => OkE (VInt (- z), s1) | _ => ErrE E_InvalidOperation (s_asks s1) end)
    | ENot a => bindE (xeval fuel esc s a) (fun '(v, s1) => bindE (lift s1 (u_is_true m v)) (fun b => OkE (VBool (negb b), s1)))
    | EBin op a b =>
        bindE (xeval fuel esc s a) (fun '(x, s1) => bindE (xeval fuel esc s1 b) (fun '(y, s2) =>
        bindE (lift s2 (match op with
              | OConcat => bind (u_not_undef m x) (fun _ => u_not_undef m y)
              | _ => Ok tt end)) (fun _ =>
        bindE (lift s2 (do_bin op x y)) (fun r => OkE (r, s2)))))
    | ECmp a rest =>
        bindE (xeval fuel esc s a) (fun '(x, s1) =>
          xcmp_chain m (xeval fuel esc) x s1 rest)
    | EAnd a b => bindE (xeval fuel esc s a) (fun '(x, s1) => bindE (lift s1 (u_is_true m x)) (fun t =>
                    if t then xeval fuel esc s1 b else OkE (x, s1)))
    | EOr a b => bindE (xeval fuel esc s a) (fun '(x, s1) => bindE (lift s1 (u_is_true m x)) (fun t =>
                    if t then OkE (x, s1) else xeval fuel esc s1 b))
    | EIf cnd t f => bindE (xeval fuel esc s cnd) (fun '(x, s1) => bindE (lift s1 (u_is_true m x)) (fun b =>
                    if b then xeval fuel esc s1 t
                    else match f with Some f => xeval fuel esc s1 f | None => OkE (VSilent, s1) end))
    | EItem a i =>
        bindE (xeval fuel esc s a) (fun '(x, s1) => bindE (xeval fuel esc s1 i) (fun '(k, s2) =>
          match get_item_opt x k with
          | Some v => OkE (v, s2)
          | None => bindE (lift s2 (u_handle_undefined m (is_undef x))) (fun v => OkE (v, s2))
          end))
    | EAttr a attr =>
        bindE (xeval fuel esc s a) (fun '(x, s1) =>
          match get_attr_opt x attr with
          | Some v => OkE (v, s1)
          | None => bindE (lift s1 (u_handle_undefined m (is_undef x))) (fun v => OkE (v, s1))
          end)
    | EFilter f a args =>
        bindE (xeval fuel esc s a) (fun '(x, s1) => bindE (eval_list s1 args) (fun '(vs, s2) =>
        bindE (lift s2 (xdo_filter m esc f x vs)) (fun r => OkE (r, s2))))
    | ETest t a args neg =>
        bindE (xeval fuel esc s a) (fun '(x, s1) => bindE (eval_list s1 args) (fun '(_, s2) =>
        bindE (lift s2 (do_test t x)) (fun r => OkE (VBool (if neg then negb r else r), s2))))
    | ECall f args kwargs =>
        bindE (eval_list s args) (fun '(vs, s1) =>
        bindE (xmap_eval_kw (xeval fuel esc) s1 kwargs) (fun '(kvs, s2) =>
        let '(fv, s3) := lookup c s2 f in
        match fv with
        | Some (VMacro mc cl) => xcall_macro fuel esc s3 mc cl vs kvs
        | Some (VFunc g) =>
            if g =? N_range then
              match vs, kvs with
              | [VInt n], [] => OkE (VList (range_list (Z.to_nat (Z.min (Z.max n 0) 100000)) 0 n), s3)
              | _, _ => ErrE E_InvalidOperation (s_asks s3)
              end
            else ErrE E_UnknownFunction (s_asks s3)
        | Some _ => ErrE E_InvalidOperation (s_asks s3)
        | None => ErrE E_UnknownFunction (s_asks s3)
        end))
    end
  end

with xcall_macro (fuel : nat) (esc : bool) (s : st) (mc : macro) (cl : option nat)
                 (args : list value) (kwargs : list (name * value)) {struct fuel} : outE (value * st) :=
  match fuel with
  | O => GasE
  | S fuel =>
    if Nat.ltb (length (m_params mc)) (length args) then ErrE E_TooManyArguments (s_asks s) else
    bindE (lift s (bind_params kwargs (m_params mc) args)) (fun bound =>
    if existsb (fun '(k, _) => negb (existsb (Z.eqb k) (m_params mc)) && negb (m_caller mc && (k =? N_caller))) kwargs
    then ErrE E_TooManyArguments (s_asks s) else
    let caller_v := match assoc N_caller kwargs with Some v => v | None => VUndef end in
    let top := mkFrame (if m_caller mc then [(N_caller, caller_v)] else []) None None cl false in
    let s0 := mkSt [top; base_frame] (s_clos s) [] (s_asks s) in
    bindE (xstore_args (xeval fuel esc) (m_defaults mc) s0 (rev bound)) (fun s1 =>
    bindE (xexec_list fuel esc s1 (m_body mc)) (fun '(_, s2) =>
    OkE (VStr esc (output_of s2), mkSt (s_env s) (s_clos s2) (s_out s) (s_asks s2)))))
  end

with xexec (fuel : nat) (esc : bool) (s : st) (t : stmt) {struct fuel} : outE (signal * st) :=
  match fuel with
  | O => GasE
  | S fuel =>
    let capture (esc : bool) (s : st) (body : list stmt) : outE (signal * list Z * st) :=
        bindE (xexec_list fuel esc (with_out s []) body) (fun '(sg, s1) =>
        OkE (sg, output_of s1, with_out s1 (s_out s))) in
    match t with
    | SRaw text => OkE (SigNormal, emit s text)
    | SEmit e =>
        bindE (xeval fuel esc s e) (fun '(v, s1) =>
        if u_strictish m && is_strict_undef v then ErrE E_UndefinedError (s_asks s1)
        else OkE (SigNormal, emit s1 (render_value esc v)))
    | SIf arms els =>
        xif_arms m (xeval fuel esc) (xexec_list fuel esc) els s arms
    | SFor tgt iter flt body els _ =>
        bindE (xeval fuel esc s iter) (fun '(iv, s1) =>
        bindE (lift s1 (match iv with
              | VList l => Ok l
              | VStr _ t => Ok (map (fun ch => VStr false [ch]) t)     (* a string iterates over its characters *)
              | VMap kvs => Ok (map fst kvs)                           (* a map iterates over its keys, in map order *)
              | VUndef => if u_strictish m then Err E_UndefinedError else Ok []
              | VSilent => Ok []
              | _ => Err E_InvalidOperation end)) (fun items =>
        bindE (match flt with
              | None => OkE (items, s1)
              | Some fe => xfilter_items m (xeval fuel esc) tgt fe s1 items
              end) (fun '(items, s2) =>
        let n := lenZ items in
        bindE (xloop_items (xexec_list fuel esc) tgt body n (push_frame s2 (mkFrame [] (Some (0, n, true)) None None false)) 0 items) (fun s5 =>
        let s6 := pop_frame s5 in
        match items, els with
        | [], Some eb => xexec_list fuel esc s6 eb
        | _, _ => OkE (SigNormal, s6)
        end))))
    | SSet tgt e =>
        bindE (xeval fuel esc s e) (fun '(v, s1) => bindE (lift s1 (bind_target tgt s1 v)) (fun s2 => OkE (SigNormal, s2)))
    | SSetBlock x body flt =>
        bindE (capture esc s body) (fun '(sg, txt, s1) =>
        match sg with
        | SigNormal =>
            bindE (lift s1 (match flt with
                  | None => Ok (VStr esc txt)
                  | Some f => xdo_filter m esc f (VStr esc txt) []
                  end)) (fun v => OkE (SigNormal, store s1 x v))
        | _ => OkE (sg, s1)
        end)
    | SWith binds body =>
        bindE (xwith_binds (xeval fuel esc) (push_frame s empty_frame) binds) (fun s1 =>
        bindE (xexec_list fuel esc s1 body) (fun '(sg, s2) => OkE (sg, pop_frame s2)))
    | SMacro nm params defaults body =>
        let mc := mkMacro nm params defaults body (uses_caller params defaults body) in
        let '(s1, cl) := enclose c s (macro_closure params defaults body) in
        OkE (SigNormal, store s1 nm (VMacro mc cl))
    | SCallBlock mn args body =>
        bindE (xmap_eval (xeval fuel esc) s args) (fun '(vs, s1) =>
        let cm := mkMacro N_caller [] [] body (uses_caller [] [] body) in
        let '(s2, cl) := enclose c s1 (macro_closure [] [] body) in
        let '(fv, s3) := lookup c s2 mn in
        match fv with
        | Some (VMacro mc mcl) =>
            bindE (xcall_macro fuel esc s3 mc mcl vs [(N_caller, VMacro cm cl)]) (fun '(v, s4) =>
            OkE (SigNormal, emit s4 (render_value esc v)))
        | Some _ => ErrE E_InvalidOperation (s_asks s3)
        | None => ErrE E_UnknownFunction (s_asks s3)
        end)
    | SFilterBlock f body =>
        bindE (capture esc s body) (fun '(sg, txt, s1) =>
        match sg with
        | SigNormal => bindE (lift s1 (xdo_filter m esc f (VStr esc txt) [])) (fun v => OkE (SigNormal, emit s1 (render_value esc v)))
        | _ => OkE (sg, s1)
        end)
    | SAutoEscape ve body =>
        bindE (xeval fuel esc s ve) (fun '(v, s1) =>
        bindE (lift s1 (match v with
              | VStr _ [104; 116; 109; 108] => Ok true
              | VStr _ [110; 111; 110; 101] => Ok false
              | VBool true => Ok true
              | VBool false => Ok false
              | VStr _ _ => Err E_InvalidOperation
              | _ => Ok false end)) (fun esc' =>
        xexec_list fuel esc' s1 body))
    | SBreak => OkE (SigBreak, s)
    | SContinue => OkE (SigContinue, s)
    end
  end

with xexec_list (fuel : nat) (esc : bool) (s : st) (l : list stmt) {struct fuel} : outE (signal * st) :=
  match fuel with
  | O => GasE
  | S fuel =>
    match l with
    | [] => OkE (SigNormal, s)
    | t :: r =>
        bindE (xexec fuel esc s t) (fun '(sg, s1) =>
        match sg with
        | SigNormal => xexec_list fuel esc s1 r
        | _ => OkE (sg, s1)
        end)
    end
  end.

(* a whole template: the final state, or the error with the lookups recorded up to it *)
Definition run_asks (fuel : nat) (body : list stmt) : outE st :=
  bindE (xexec_list fuel (c_escape c) init_state body) (fun '(_, s) => OkE s).

(* the lookups of a render, whatever its outcome *)
Definition asks_of (o : outE st) : list name :=
  match o with OkE s => s_asks s | ErrE _ a => a | _ => [] end.

End XInterp.
