(* C19 model: rendering into an io::Write.

   What is modelled (code as it is):
   * std::io::Write::write_all (the only way WriteWrapper talks to the sink): loops over `write`,
     retries ErrorKind::Interrupted, advances after a short write, turns Ok(0) into
     ErrorKind::WriteZero, returns every other error;
   * output.rs::WriteWrapper::{write_str, write_char}: write_all of the chunk; on error the
     io::Error is stored in `err` and fmt::Error is reported;
   * every emit site of the VM turns the fmt::Error into Error(WriteFailure) (error.rs
     From<fmt::Error>) and leaves the render with `?`; callers on the way out may wrap it
     (BadInclude around an include, EvalBlock around super()/block calls);
   * template.rs::render_captured_to / state.rs::render_block_to_write: on Err, take_err
     replaces whatever error arrives by Error(WriteFailure).with_source(stored io::Error).

   The engine is modelled as the deterministic sequence of chunks it hands to
   Output::write_str while the capture stack is empty.  Output produced inside a capture
   (macro body, call block, set-block, filter block) goes to a String (Output::target is the
   top of the capture stack) and never reaches the sink directly: it reaches it as part of the
   value printed later by a top-level emit.  The reference interpreter has exactly this shape
   (Lang/Interp.v: `capture` / call_macro run the body on a fresh [s_out] and restore the
   previous one), so the chunk list of a whole-template run, [rev (s_out s)], is the sequence
   of top-level writes.  One interpreter chunk may be handed over in several pieces
   (HtmlEscape writes the text between metacharacters and the entities one by one; integer
   formatting writes the sign separately): a [split] function with [concat (split ch) = ch]
   stands for that.

   A sink is a script: the answer to the n-th call of `write`; after the script every call is
   answered "accept everything". *)
From MJ Require Import Common.Base.

(* io::ErrorKind of an injected error (numbers shared with tools/props/C19.py) *)
Definition K_BrokenPipe := 1.
Definition K_Other := 2.
Definition K_WouldBlock := 3.
Definition K_TimedOut := 4.
Definition K_UnexpectedEof := 5.
Definition K_WriteZero := 6.       (* produced by write_all itself when the sink answers Ok(0) *)

Inductive answer :=
| AFull                      (* Ok(buf.len()) *)
| AAccept (n : Z)            (* Ok(min n buf.len()) *)
| AFail (kind : Z)           (* Err(kind), kind <> Interrupted *)
| AInterrupted.              (* Err(ErrorKind::Interrupted): retried by write_all *)

(* one call of io::Write::write: the buffer offered and the answer given *)
Record call := mkCall { c_buf : list Z; c_ans : answer }.

(* the bytes the sink took in that call *)
Definition taken (c : call) : list Z :=
  match c_ans c with
  | AFull => c_buf c
  | AAccept n => takeZ n (c_buf c)
  | AFail _ | AInterrupted => []
  end.

(* does this call make write_all fail, and with which kind *)
Definition call_fails (c : call) : option Z :=
  match c_ans c with
  | AFail k => Some k
  | AAccept n => if n <=? 0 then Some K_WriteZero else None
  | AFull | AInterrupted => None
  end.

(* std::io::Write::write_all.  Returns the calls made, the rest of the script and the error. *)
Fixpoint write_all (sc : list answer) (buf : list Z) {struct sc} : list call * list answer * option Z :=
  match buf with
  | [] => ([], sc, None)                     (* `while !buf.is_empty()`: no call at all *)
  | _ :: _ =>
      match sc with
      | [] => ([mkCall buf AFull], [], None)
      | a :: sc' =>
          match a with
          | AFull => ([mkCall buf a], sc', None)
          | AFail k => ([mkCall buf a], sc', Some k)
          | AInterrupted => let '(l, sc2, r) := write_all sc' buf in (mkCall buf a :: l, sc2, r)
          | AAccept n =>
              if n <=? 0 then ([mkCall buf a], sc', Some K_WriteZero)
              else if lenZ buf <=? n then ([mkCall buf a], sc', None)
              else let '(l, sc2, r) := write_all sc' (skipZ n buf) in (mkCall buf a :: l, sc2, r)
          end
      end
  end.

(* the render: chunk after chunk through WriteWrapper::write_str; the first fmt::Error ends it *)
Fixpoint drive (sc : list answer) (chunks : list (list Z)) : list call * option Z :=
  match chunks with
  | [] => ([], None)
  | ch :: r =>
      let '(l, sc', res) := write_all sc ch in
      match res with
      | Some k => (l, Some k)                 (* WriteWrapper.err = Some(io error); fmt::Error propagates *)
      | None => let '(l2, res2) := drive sc' r in (l ++ l2, res2)
      end
  end.

Definition delivered (log : list call) : list Z := flat_map taken log.

(* ---- errors (error.rs) ---- *)
Inductive err := MkErr (code : Z) (src : esrc)
with esrc := NoSrc | IoSrc (kind : Z) | ErrSrc (e : err).

Definition from_fmt_error : err := MkErr E_WriteFailure NoSrc.         (* impl From<fmt::Error> for Error *)
Definition wrap (code : Z) (e : err) : err := MkErr code (ErrSrc e).    (* Error::new(code, ..).with_source(e) *)

(* WriteWrapper::take_err *)
Definition take_err (stored : option Z) (original : err) : err :=
  match stored with
  | Some k => MkErr E_WriteFailure (IoSrc k)
  | None => original
  end.

(* render_captured_to over a given chunk sequence.  [wrappers]: the error kinds wrapped around the
   failure on its way out of nested evaluations (BadInclude, EvalBlock), innermost first. *)
Definition render_chunks_to (sc : list answer) (wrappers : list Z) (chunks : list (list Z)) : list call * option err :=
  let '(log, res) := drive sc chunks in
  (log, match res with
        | None => None
        | Some k => Some (take_err (Some k) (fold_left (fun e w => wrap w e) wrappers from_fmt_error))
        end).

(* ---- the generic monitor: any deterministic sequence of writes, sink = call number -> verdict ---- *)
Section Monitor.
  Context {W : Type}.
  Variable sink : nat -> option Z.           (* None: accepted; Some kind: refused *)

  Fixpoint monitor (n : nat) (ws : list W) : list W * option (nat * Z) :=
    match ws with
    | [] => ([], None)
    | w :: r =>
        match sink n with
        | Some k => ([], Some (n, k))
        | None => let '(d, res) := monitor (S n) r in (w :: d, res)
        end
    end.
End Monitor.
