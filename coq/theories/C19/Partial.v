(* C19: a variant of the statement interpreter that keeps the output produced before an error.

   Lang/Interp.v returns [Err code] without a state, so the chunks emitted before a render error are
   lost.  Expressions never write to the current buffer (C02: eval_does_not_write), so only the
   statement level has to be redone: [exec_p] / [exec_list_p] mirror Interp.exec / exec_list clause by
   clause, call the ORIGINAL eval / call_macro / combinators for everything below statements, and
   return [PErr code out] where [out] is the top-level chunk list at the moment of the failure.
   A failure inside a capture (set-block, filter block; macro and call-block bodies run inside
   call_macro) discards the capture buffer - it never reached the sink - and reports the buffer of
   the enclosing level.  [forget] maps the result back to Interp's outcome; C19/Proofs.v proves
   forget (exec_p ..) = exec .. for every input, so the two agree on success, on the error code and
   on the final state. *)
From MJ Require Import Common.Base Lang.Syntax Lang.Meta Lang.Interp.

Inductive pres (A : Type) : Type :=
| POk (a : A)
| PErr (code : Z) (out : list (list Z))      (* out: chunks written so far, most recent first *)
| PPanic
| PGas.
Arguments POk {A} a.
Arguments PErr {A} code out.
Arguments PPanic {A}.
Arguments PGas {A}.

Definition pbind {A B} (o : pres A) (f : A -> pres B) : pres B :=
  match o with
  | POk a => f a
  | PErr c out => PErr c out
  | PPanic => PPanic
  | PGas => PGas
  end.

Definition forget {A} (o : pres A) : outcome A :=
  match o with POk a => Ok a | PErr c _ => Err c | PPanic => Panic | PGas => OutOfGas end.

(* a computation that does not write (expressions, argument binding, macro calls): on failure the
   output so far is the buffer of the state it started from *)
Definition lift {A} (s : st) (o : outcome A) : pres A :=
  match o with Ok a => POk a | Err c => PErr c (s_out s) | Panic => PPanic | OutOfGas => PGas end.

(* a failure inside a capture reports the enclosing buffer *)
Definition recapture {A} (outer : list (list Z)) (o : pres A) : pres A :=
  match o with PErr c _ => PErr c outer | _ => o end.

Definition if_arms_p (m : ubehav) (ev : st -> expr -> outcome (value * st)) (ex : st -> list stmt -> pres (signal * st))
    (els : option (list stmt)) : st -> list (expr * list stmt) -> pres (signal * st) :=
  fix go (s : st) (l : list (expr * list stmt)) : pres (signal * st) :=
    match l with
    | [] => match els with Some b => ex s b | None => POk (SigNormal, s) end
    | (cnd, body) :: r =>
        pbind (lift s (ev s cnd)) (fun '(v, s1) => pbind (lift s1 (u_is_true m v)) (fun b =>
        if b then ex s1 body else go s1 r))
    end.

Definition loop_items_p (ex : st -> list stmt -> pres (signal * st)) (tgt : target) (body : list stmt) (n : Z) : st -> Z -> list value -> pres st :=
  fix go (s : st) (i : Z) (l : list value) : pres st :=
    match l with
    | [] => POk s
    | item :: r =>
        let s' := match s_env s with
                  | f :: e => with_env s (mkFrame [] (Some (i, n, true)) (f_closure f) (f_closure_ctx f) false :: e)
                  | [] => s end in
        pbind (lift s (bind_target tgt s' item)) (fun s3 =>
        pbind (ex s3 body) (fun '(sg, s4) =>
        match sg with
        | SigBreak => POk s4
        | _ => go s4 (i + 1) r
        end))
    end.

Section Partial.
Variable c : cfg.
Let m := c_mode c.

Fixpoint exec_p (fuel : nat) (esc : bool) (s : st) (t : stmt) {struct fuel} : pres (signal * st) :=
  match fuel with
  | O => PGas
  | S fuel =>
    let capture (esc : bool) (s : st) (body : list stmt) : pres (signal * list Z * st) :=
        pbind (recapture (s_out s) (exec_list_p fuel esc (with_out s []) body)) (fun '(sg, s1) =>
        POk (sg, output_of s1, with_out s1 (s_out s))) in
    match t with
    | SRaw text => POk (SigNormal, emit s text)
    | SEmit e =>
        pbind (lift s (eval c fuel esc s e)) (fun '(v, s1) =>
        if u_strictish m && is_strict_undef v then PErr E_UndefinedError (s_out s1)
        else POk (SigNormal, emit s1 (render_value esc v)))
    | SIf arms els =>
        if_arms_p m (eval c fuel esc) (exec_list_p fuel esc) els s arms
    | SFor tgt iter flt body els _ =>
        pbind (lift s (eval c fuel esc s iter)) (fun '(iv, s1) =>
        pbind (lift s1 (match iv with
              | VList l => Ok l
              | VStr _ t => Ok (map (fun ch => VStr false [ch]) t)     (* a string iterates over its characters *)
              | VMap kvs => Ok (map fst kvs)                           (* a map iterates over its keys, in map order *)
              | VUndef => if u_strictish m then Err E_UndefinedError else Ok []
              | VSilent => Ok []
              | _ => Err E_InvalidOperation end)) (fun items =>
        pbind (lift s1 (match flt with
              | None => Ok (items, s1)
              | Some fe => filter_items m (eval c fuel esc) tgt fe s1 items
              end)) (fun '(items, s2) =>
        let n := lenZ items in
        pbind (loop_items_p (exec_list_p fuel esc) tgt body n (push_frame s2 (mkFrame [] (Some (0, n, true)) None None false)) 0 items) (fun s5 =>
        let s6 := pop_frame s5 in
        match items, els with
        | [], Some eb => exec_list_p fuel esc s6 eb
        | _, _ => POk (SigNormal, s6)
        end))))
    | SSet tgt e =>
        (* the right-hand side is evaluated completely before any target is bound; binding does not write *)
        pbind (lift s (eval c fuel esc s e)) (fun '(v, s1) =>
        pbind (lift s1 (bind_target tgt s1 v)) (fun s2 => POk (SigNormal, s2)))
    | SSetBlock x body flt =>
        pbind (capture esc s body) (fun '(sg, txt, s1) =>
        match sg with
        | SigNormal =>
            pbind (lift s1 (match flt with
                  | None => Ok (VStr esc txt)
                  | Some f => do_filter m esc f (VStr esc txt) []
                  end)) (fun v => POk (SigNormal, store s1 x v))
        | _ => POk (sg, s1)
        end)
    | SWith binds body =>
        pbind (lift s (with_binds (eval c fuel esc) (push_frame s empty_frame) binds)) (fun s1 =>
        pbind (exec_list_p fuel esc s1 body) (fun '(sg, s2) => POk (sg, pop_frame s2)))
    | SMacro nm params defaults body =>
        let mc := mkMacro nm params defaults body (uses_caller params defaults body) in
        let '(s1, cl) := enclose c s (macro_closure params defaults body) in
        POk (SigNormal, store s1 nm (VMacro mc cl))
    | SCallBlock mn args body =>
        pbind (lift s (map_eval (eval c fuel esc) s args)) (fun '(vs, s1) =>
        let cm := mkMacro N_caller [] [] body (uses_caller [] [] body) in
        let '(s2, cl) := enclose c s1 (macro_closure [] [] body) in
        let '(fv, s3) := lookup c s2 mn in
        match fv with
        | Some (VMacro mc mcl) =>
            pbind (lift s3 (call_macro c fuel esc s3 mc mcl vs [(N_caller, VMacro cm cl)])) (fun '(v, s4) =>
            POk (SigNormal, emit s4 (render_value esc v)))
        | Some _ => PErr E_InvalidOperation (s_out s3)
        | None => PErr E_UnknownFunction (s_out s3)
        end)
    | SFilterBlock f body =>
        pbind (capture esc s body) (fun '(sg, txt, s1) =>
        match sg with
        | SigNormal => pbind (lift s1 (do_filter m esc f (VStr esc txt) [])) (fun v => POk (SigNormal, emit s1 (render_value esc v)))
        | _ => POk (sg, s1)
        end)
    | SAutoEscape ve body =>
        pbind (lift s (eval c fuel esc s ve)) (fun '(v, s1) =>
        pbind (lift s1 (match v with
              | VStr _ [104; 116; 109; 108] => Ok true
              | VStr _ [110; 111; 110; 101] => Ok false
              | VBool true => Ok true
              | VBool false => Ok false
              | VStr _ _ => Err E_InvalidOperation
              | _ => Ok false end)) (fun esc' =>
        exec_list_p fuel esc' s1 body))
    | SBreak => POk (SigBreak, s)
    | SContinue => POk (SigContinue, s)
    end
  end

with exec_list_p (fuel : nat) (esc : bool) (s : st) (l : list stmt) {struct fuel} : pres (signal * st) :=
  match fuel with
  | O => PGas
  | S fuel =>
    match l with
    | [] => POk (SigNormal, s)
    | t :: r =>
        pbind (exec_p fuel esc s t) (fun '(sg, s1) =>
        match sg with
        | SigNormal => exec_list_p fuel esc s1 r
        | _ => POk (sg, s1)
        end)
    end
  end.

(* a whole template; on a render error: the code and the top-level chunks written before it *)
Definition run_partial (fuel : nat) (body : list stmt) : pres st :=
  pbind (exec_list_p fuel (c_escape c) init_state body) (fun '(_, s) => POk s).

End Partial.

(* the bytes a sink that never fails has received when the render stops *)
Definition bytes_before_error {A} (o : pres A) : list Z :=
  match o with PErr _ out => concat (rev out) | _ => [] end.
