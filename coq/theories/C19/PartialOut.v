(* C19: the output-keeping interpreter only ever ADDS chunks to the buffer it started with - on success
   and on failure.  So the bytes reported before an error contain everything written earlier, in
   order: nothing is dropped or rewritten when a render fails. *)
From MJ Require Import Common.Base Lang.Syntax Lang.Meta Lang.Interp C02.Out C19.Partial.

Definition extends (o' o : list (list Z)) : Prop := exists new, o' = new ++ o.

Lemma ext_refl o : extends o o.
Proof. now exists []. Qed.
Lemma ext_trans a b c : extends a b -> extends b c -> extends a c.
Proof. intros [n1 ->] [n2 ->]. exists (n1 ++ n2). now rewrite app_assoc. Qed.
Lemma ext_cons ch o' o : extends o' o -> extends (ch :: o') o.
Proof. intros [n ->]. now exists (ch :: n). Qed.
Lemma ext_eq o' o : o' = o -> extends o' o.
Proof. intros ->. apply ext_refl. Qed.

(* what a statement-level result says about the buffer *)
Definition grows {A} (proj : A -> st) (s : st) (o : pres A) : Prop :=
  match o with
  | POk a => extends (s_out (proj a)) (s_out s)
  | PErr _ out => extends out (s_out s)
  | _ => True
  end.

Lemma grows_pbind {A B} (pa : A -> st) (pb : B -> st) s (o : pres A) (f : A -> pres B) :
  grows pa s o -> (forall a, o = POk a -> grows pb (pa a) (f a)) -> grows pb s (pbind o f).
Proof.
  destruct o as [a|code out| |]; cbn; auto. intros H Hf. specialize (Hf a eq_refl).
  destruct (f a) as [b|code out| |]; cbn in *; auto; eapply ext_trans; eauto.
Qed.

(* a non-writing computation lifted at state s: on success the buffer is unchanged *)
Lemma grows_lift {A} (pa : A -> st) s s0 (o : outcome A) :
  s_out s = s_out s0 -> (forall a, o = Ok a -> s_out (pa a) = s_out s0) -> grows pa s0 (lift s o).
Proof.
  intros Hs H. destruct o as [a|code| |]; cbn; auto; [apply ext_eq; auto|apply ext_eq; auto].
Qed.

Section Grows.
Variable c : cfg.

Definition exl_grows (exp : st -> list stmt -> pres (signal * st)) : Prop := forall s l, grows snd s (exp s l).

Lemma if_arms_p_grows ev exp els : ev_out ev -> exl_grows exp ->
  forall arms s, grows snd s (if_arms_p (c_mode c) ev exp els s arms).
Proof.
  intros Hev Hex. induction arms as [|[cnd body] r IH]; intros s.
  - cbn. destruct els; [apply Hex|cbn; apply ext_refl].
  - change (if_arms_p (c_mode c) ev exp els s ((cnd, body) :: r)) with
      (pbind (lift s (ev s cnd)) (fun '(v, s1) => pbind (lift s1 (u_is_true (c_mode c) v)) (fun b =>
         if b then exp s1 body else if_arms_p (c_mode c) ev exp els s1 r))).
    apply (grows_pbind snd snd).
    + apply grows_lift; auto. intros [v s1] E. eapply Hev; eauto.
    + intros [v s1] _. cbn [snd]. apply (grows_pbind (fun _ => s1) snd).
      * apply grows_lift; auto.
      * intros b _. destruct b; [apply Hex|apply IH].
Qed.

Lemma loop_items_p_grows exp tgt body n : exl_grows exp ->
  forall l s i, grows (fun s' => s') s (loop_items_p exp tgt body n s i l).
Proof.
  intros Hex. induction l as [|item r IH]; intros s i; [cbn; apply ext_refl|].
  change (loop_items_p exp tgt body n s i (item :: r)) with
    (let s0 := match s_env s with
               | f :: e => with_env s (mkFrame [] (Some (i, n, true)) (f_closure f) (f_closure_ctx f) false :: e)
               | [] => s end in
     pbind (lift s (bind_target tgt s0 item)) (fun s3 => pbind (exp s3 body) (fun '(sg, s4) =>
       match sg with SigBreak => POk s4 | _ => loop_items_p exp tgt body n s4 (i + 1) r end))).
  cbn zeta. apply (grows_pbind (fun s' => s') (fun s' => s')).
  - apply grows_lift; auto. intros s3 E. rewrite (bind_target_out _ _ _ _ E). destruct (s_env s); reflexivity.
  - intros s3 _. apply (grows_pbind snd (fun s' => s')); [apply Hex|].
    intros [sg s4] _. cbn [snd]. destruct sg; [apply IH|cbn; apply ext_refl|apply IH].
Qed.

Lemma exec_p_grows : forall fuel,
  (forall esc s t, grows snd s (exec_p c fuel esc s t)) /\ (forall esc, exl_grows (exec_list_p c fuel esc)).
Proof.
  induction fuel as [|fuel [IHx IHl]]; [split; [intros; exact I|intros esc s l; exact I]|].
  assert (Hev : forall esc, ev_out (eval c fuel esc)) by (intros esc; apply eval_out).
  assert (Hcap : forall esc s body, grows (fun p => snd p) s
            (pbind (recapture (s_out s) (exec_list_p c fuel esc (with_out s []) body)) (fun '(sg, s1) =>
               POk (sg, output_of s1, with_out s1 (s_out s))))).
  { intros esc s body. destruct (exec_list_p c fuel esc (with_out s []) body) as [[sg s1]|code out| |]; cbn; auto; apply ext_refl. }
  split.
  - intros esc s t.
    destruct t as [text|e|arms els|tgt iter flt body els rc|x e|x body flt|binds body|nm params defaults body|mn args body|f body|ve body| |]; simpl.
    + apply ext_cons, ext_refl.
    + apply (grows_pbind snd snd).
      * apply grows_lift; auto. intros [v s1] E. eapply Hev; eauto.
      * intros [v s1] _. cbn [snd]. destruct (_ && _); cbn; [apply ext_refl|apply ext_cons, ext_refl].
    + apply if_arms_p_grows; [apply Hev|apply IHl].
    + apply (grows_pbind snd snd).
      { apply grows_lift; auto. intros [v s1] E. eapply Hev; eauto. }
      intros [iv s1] _. cbn [snd]. apply (grows_pbind (fun _ => s1) snd).
      { apply grows_lift; auto. }
      intros items _. apply (grows_pbind snd snd).
      { apply grows_lift; auto. intros [items2 s2] E. cbn [snd]. destruct flt as [fe|]; [eapply filter_items_out; [apply Hev|exact E]|inversion E; auto]. }
      intros [items2 s2] _. cbn [snd]. apply (grows_pbind (fun s' => s') snd).
      { pose proof (loop_items_p_grows (exec_list_p c fuel esc) tgt body (lenZ items2) (IHl esc) items2
                      (push_frame s2 (mkFrame [] (Some (0, lenZ items2, true)) None None false)) 0) as G. exact G. }
      intros s5 _. destruct items2; [destruct els; [|cbn; apply ext_refl]|cbn; apply ext_refl].
      pose proof (IHl esc (pop_frame s5) l) as G. exact G.
    + apply (grows_pbind snd snd).
      * apply grows_lift; auto. intros [v s1] E. eapply Hev; eauto.
      * intros [v s1] _. cbn [snd]. apply (grows_pbind (fun s' => s') snd).
        -- apply grows_lift; auto. intros s2 E. eapply bind_target_out; eauto.
        -- intros s2 _. cbn. apply ext_refl.
    + apply (grows_pbind (fun p => snd p) snd); [apply Hcap|].
      intros [[sg txt] s1] _. cbn [snd]. destruct sg; [|cbn; apply ext_refl|cbn; apply ext_refl].
      apply (grows_pbind (fun _ => s1) snd); [apply grows_lift; auto|]. intros v _. cbn. rewrite store_out. apply ext_refl.
    + apply (grows_pbind (fun s' => s') snd).
      * apply grows_lift; auto. intros s1 E. rewrite (with_binds_out _ (Hev esc) _ _ _ E). reflexivity.
      * intros s1 _. apply (grows_pbind snd snd); [apply IHl|]. intros [sg s2] _. cbn. destruct (s_env s2); apply ext_refl.
    + destruct (enclose c s (macro_closure params defaults body)) as [s1 cl] eqn:Ee. cbn. rewrite store_out, (enclose_out _ _ _ _ _ Ee). apply ext_refl.
    + apply (grows_pbind snd snd).
      { apply grows_lift; auto. intros [vs s1] E. eapply map_eval_out; [apply Hev|exact E]. }
      intros [vs s1] _. cbn [snd].
      destruct (enclose c s1 (macro_closure [] [] body)) as [s2 cl] eqn:Ee. destruct (lookup c s2 mn) as [fv s3] eqn:El.
      assert (Ho : s_out s3 = s_out s1) by (rewrite (lookup_out _ _ _ _ _ El); eapply enclose_out; eauto).
      destruct fv as [[| | |b|z|sf t|l|kvs|mc mcl|i n|g]|]; try (cbn; apply ext_eq; exact Ho).
      apply (grows_pbind snd snd).
      { apply grows_lift; auto. intros [v s4] E. cbn [snd]. rewrite (call_macro_out _ _ _ _ _ _ _ _ _ _ E). exact Ho. }
      intros [v s4] _. cbn. apply ext_cons, ext_refl.
    + apply (grows_pbind (fun p => snd p) snd); [apply Hcap|].
      intros [[sg txt] s1] _. cbn [snd]. destruct sg; [|cbn; apply ext_refl|cbn; apply ext_refl].
      apply (grows_pbind (fun _ => s1) snd); [apply grows_lift; auto|]. intros v _. cbn. apply ext_cons, ext_refl.
    + apply (grows_pbind snd snd).
      { apply grows_lift; auto. intros [v s1] E. eapply Hev; eauto. }
      intros [v s1] _. cbn [snd]. apply (grows_pbind (fun _ => s1) snd); [apply grows_lift; auto|]. intros esc' _. apply IHl.
    + cbn. apply ext_refl.
    + cbn. apply ext_refl.
  - intros esc s l. destruct l as [|t r]; simpl; [apply ext_refl|].
    apply (grows_pbind snd snd); [apply IHx|]. intros [sg s1] _. cbn [snd]. destruct sg; [apply IHl|cbn; apply ext_refl|cbn; apply ext_refl].
Qed.

(* whatever a prefix of the program wrote is still there, in front, when a later statement fails *)
Lemma partial_out_extends_proof fuel esc s l code out :
  exec_list_p c fuel esc s l = PErr code out -> extends out (s_out s).
Proof. intros H. pose proof (proj2 (exec_p_grows fuel) esc s l) as G. rewrite H in G. exact G. Qed.

Lemma exec_list_p_ok_extends_proof fuel esc s l sg s' :
  exec_list_p c fuel esc s l = POk (sg, s') -> extends (s_out s') (s_out s).
Proof. intros H. pose proof (proj2 (exec_p_grows fuel) esc s l) as G. rewrite H in G. exact G. Qed.
End Grows.
