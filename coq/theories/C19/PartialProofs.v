(* C19: the output-keeping statement interpreter agrees with Lang/Interp.v. *)
From MJ Require Import Common.Base Lang.Syntax Lang.Meta Lang.Interp C19.Partial.

Lemma forget_pbind {A B} (o : pres A) (f : A -> pres B) : forget (pbind o f) = bind (forget o) (fun a => forget (f a)).
Proof. destruct o; reflexivity. Qed.

Lemma forget_lift {A} s (o : outcome A) : forget (lift s o) = o.
Proof. destruct o; reflexivity. Qed.

Lemma forget_recapture {A} out (o : pres A) : forget (recapture out o) = forget o.
Proof. destruct o; reflexivity. Qed.

Lemma bind_ext {A B} (o : outcome A) (f g : A -> outcome B) : (forall a, f a = g a) -> bind o f = bind o g.
Proof. intros H. destruct o; cbn; auto. Qed.

Section Agree.
Variable c : cfg.

Lemma if_arms_p_forget ev exp ex els : (forall s l, forget (exp s l) = ex s l) ->
  forall arms s, forget (if_arms_p (c_mode c) ev exp els s arms) = if_arms (c_mode c) ev ex els s arms.
Proof.
  intros Hex. induction arms as [|[cnd body] r IH]; intros s.
  - cbn. destruct els; auto.
  - change (if_arms_p (c_mode c) ev exp els s ((cnd, body) :: r)) with
      (pbind (lift s (ev s cnd)) (fun '(v, s1) => pbind (lift s1 (u_is_true (c_mode c) v)) (fun b =>
         if b then exp s1 body else if_arms_p (c_mode c) ev exp els s1 r))).
    change (if_arms (c_mode c) ev ex els s ((cnd, body) :: r)) with
      (bind (ev s cnd) (fun '(v, s1) => bind (u_is_true (c_mode c) v) (fun b => if b then ex s1 body else if_arms (c_mode c) ev ex els s1 r))).
    rewrite forget_pbind, forget_lift. apply bind_ext. intros [v s1]. rewrite forget_pbind, forget_lift. apply bind_ext. intros [|]; auto.
Qed.

Lemma loop_items_p_forget exp ex tgt body n : (forall s l, forget (exp s l) = ex s l) ->
  forall l s i, forget (loop_items_p exp tgt body n s i l) = loop_items ex tgt body n s i l.
Proof.
  intros Hex. induction l as [|item r IH]; intros s i; [reflexivity|].
  change (loop_items_p exp tgt body n s i (item :: r)) with
    (let s0 := match s_env s with
               | f :: e => with_env s (mkFrame [] (Some (i, n, true)) (f_closure f) (f_closure_ctx f) false :: e)
               | [] => s end in
     pbind (lift s (bind_target tgt s0 item)) (fun s3 => pbind (exp s3 body) (fun '(sg, s4) =>
       match sg with SigBreak => POk s4 | _ => loop_items_p exp tgt body n s4 (i + 1) r end))).
  change (loop_items ex tgt body n s i (item :: r)) with
    (let s0 := match s_env s with
               | f :: e => with_env s (mkFrame [] (Some (i, n, true)) (f_closure f) (f_closure_ctx f) false :: e)
               | [] => s end in
     bind (bind_target tgt s0 item) (fun s3 => bind (ex s3 body) (fun '(sg, s4) =>
       match sg with SigBreak => Ok s4 | _ => loop_items ex tgt body n s4 (i + 1) r end))).
  cbn zeta. rewrite forget_pbind, forget_lift. apply bind_ext. intros s3. rewrite forget_pbind, Hex. apply bind_ext.
  intros [[| |] s4]; auto.
Qed.

Lemma exec_p_agrees : forall fuel,
  (forall esc s t, forget (exec_p c fuel esc s t) = exec c fuel esc s t) /\
  (forall esc s l, forget (exec_list_p c fuel esc s l) = exec_list c fuel esc s l).
Proof.
  induction fuel as [|fuel [IHx IHl]]; [split; reflexivity|].
  split.
  - intros esc s t.
    destruct t as [text|e|arms els|tgt iter flt body els rc|x e|x body flt|binds body|nm params defaults body|mn args body|f body|ve body| |]; simpl.
    + reflexivity.
    + rewrite forget_pbind, forget_lift. apply bind_ext. intros [v s1]. destruct (_ && _); reflexivity.
    + apply if_arms_p_forget. apply IHl.
    + rewrite forget_pbind, forget_lift. apply bind_ext. intros [iv s1]. rewrite forget_pbind, forget_lift. apply bind_ext. intros items.
      rewrite forget_pbind, forget_lift. apply bind_ext. intros [items2 s2]. rewrite forget_pbind.
      rewrite (loop_items_p_forget _ (exec_list c fuel esc)) by apply IHl. apply bind_ext. intros s5.
      destruct items2; [destruct els; [apply IHl|reflexivity]|reflexivity].
    + rewrite forget_pbind, forget_lift. apply bind_ext. intros [v s1]. rewrite forget_pbind, forget_lift. apply bind_ext. reflexivity.
    + rewrite forget_pbind, forget_pbind, forget_recapture, IHl. unfold bind at 2 4.
      destruct (exec_list c fuel esc (with_out s []) body) as [[sg s1]| | |]; cbn [bind forget]; try reflexivity.
      destruct sg; try reflexivity. rewrite forget_pbind, forget_lift. apply bind_ext. reflexivity.
    + rewrite forget_pbind, forget_lift. apply bind_ext. intros s1. rewrite forget_pbind, IHl. apply bind_ext. intros [sg s2]. reflexivity.
    + destruct (enclose c s (macro_closure params defaults body)). reflexivity.
    + rewrite forget_pbind, forget_lift. apply bind_ext. intros [vs s1].
      destruct (enclose c s1 (macro_closure [] [] body)) as [s2 cl]. destruct (lookup c s2 mn) as [fv s3].
      destruct fv as [[| | |b|z|sf t|l|kvs|mc mcl|i n|g]|]; try reflexivity.
      rewrite forget_pbind, forget_lift. apply bind_ext. intros [v s4]. reflexivity.
    + rewrite forget_pbind, forget_pbind, forget_recapture, IHl. unfold bind at 2 4.
      destruct (exec_list c fuel esc (with_out s []) body) as [[sg s1]| | |]; cbn [bind forget]; try reflexivity.
      destruct sg; try reflexivity. rewrite forget_pbind, forget_lift. apply bind_ext. reflexivity.
    + rewrite forget_pbind, forget_lift. apply bind_ext. intros [v s1]. rewrite forget_pbind, forget_lift. apply bind_ext. intros esc'. apply IHl.
    + reflexivity.
    + reflexivity.
  - intros esc s l. destruct l as [|t r]; simpl; [reflexivity|].
    rewrite forget_pbind, IHx. apply bind_ext. intros [[| |] s1]; auto.
Qed.

Lemma run_partial_agrees_proof fuel body : forget (run_partial c fuel body) = run c fuel body.
Proof.
  unfold run_partial, run. rewrite forget_pbind, (proj2 (exec_p_agrees fuel)). apply bind_ext. intros [sg s]. reflexivity.
Qed.
End Agree.
