(* C19 proofs. *)
From MJ Require Import Common.Base Lang.Syntax Lang.Interp C19.Model C19.Partial C19.PartialProofs C19.Spec.

(* ---- takeZ / skipZ ---- *)
Lemma takeZ_skipZ {A} (l : list A) : forall n, takeZ n l ++ skipZ n l = l.
Proof.
  induction l as [|x r IH]; intros n; cbn [takeZ skipZ]; [reflexivity|].
  destruct (n <=? 0); [reflexivity|]. cbn [app]. now rewrite IH.
Qed.

Lemma takeZ_all {A} (l : list A) : forall n, lenZ l <= n -> takeZ n l = l.
Proof.
  unfold lenZ. induction l as [|x r IH]; intros n H; cbn [takeZ]; [reflexivity|].
  cbn [length] in H. destruct (n <=? 0) eqn:E; [lia|]. f_equal. apply IH. lia.
Qed.

(* ---- the generic monitor ---- *)
Section MonitorFacts.
  Context {W : Type}.

  (* the delivered sequence is a prefix of the free run, cut exactly at the first refusal *)
  Lemma monitor_prefix_proof (sink : nat -> option Z) (ws : list W) : forall n d res,
    monitor sink n ws = (d, res) ->
    exists rest, ws = d ++ rest /\
      (forall i, (i < length d)%nat -> sink (n + i)%nat = None) /\
      match res with
      | None => rest = []
      | Some (j, k) => j = (n + length d)%nat /\ sink j = Some k /\ rest <> []
      end.
  Proof.
    induction ws as [|w r IH]; intros n d res H; cbn [monitor] in H.
    - inversion H; subst. exists []. repeat split; auto. intros i Hi; cbn in Hi; lia.
    - destruct (sink n) as [k|] eqn:E.
      + inversion H; subst. exists (w :: r). cbn [app length]. rewrite Nat.add_0_r.
        split; [reflexivity|]. split; [intros i Hi; lia|]. split; [reflexivity|]. split; [exact E|discriminate].
      + destruct (monitor sink (S n) r) as [d' res'] eqn:E2. inversion H; subst.
        destruct (IH _ _ _ E2) as (rest & Hr & Hall & Hres). exists rest. split; [cbn; now rewrite Hr|]. split.
        * intros [|i] Hi; [now rewrite Nat.add_0_r|]. cbn [length] in Hi.
          replace (n + S i)%nat with (S n + i)%nat by lia. apply Hall. lia.
        * destruct res as [[j k]|]; auto. cbn [length]. replace (n + S (length d'))%nat with (S n + length d')%nat by lia. exact Hres.
  Qed.

  Lemma monitor_shift (sink : nat -> option Z) (ws : list W) : forall n,
    monitor sink (S n) ws =
    let '(d, res) := monitor (fun i => sink (S i)) n ws in (d, match res with Some (j, k) => Some (S j, k) | None => None end).
  Proof.
    induction ws as [|w r IH]; intros n; cbn [monitor]; [reflexivity|].
    destruct (sink (S n)); [reflexivity|]. rewrite IH. destruct (monitor _ (S n) r) as [d res]. reflexivity.
  Qed.

  Lemma monitor_ext (f g : nat -> option Z) (ws : list W) : (forall i, f i = g i) -> forall n, monitor f n ws = monitor g n ws.
  Proof.
    intros Hfg. induction ws as [|w r IH]; intros n; cbn [monitor]; [reflexivity|]. rewrite Hfg, IH. reflexivity.
  Qed.
End MonitorFacts.

(* ---- write_all ---- *)
Inductive log_ok : list call -> option Z -> Prop :=
| lo_nil : log_ok [] None
| lo_fail c k : call_fails c = Some k -> log_ok [c] (Some k)
| lo_cons c l r : call_fails c = None -> log_ok l r -> log_ok (c :: l) r.

Lemma log_ok_app l1 l2 r : log_ok l1 None -> log_ok l2 r -> log_ok (l1 ++ l2) r.
Proof.
  intros H1 H2. remember None as n eqn:En. induction H1; cbn [app]; auto; try discriminate.
  apply lo_cons; auto.
Qed.

Lemma log_ok_stops l r : log_ok l r ->
  forall l1 c l2 k, l = l1 ++ c :: l2 -> call_fails c = Some k -> l2 = [] /\ r = Some k.
Proof.
  induction 1 as [|c0 k0 Hf|c0 l r Hn Hl IH]; intros l1 c l2 k Heq Hc.
  - destruct l1; discriminate.
  - destruct l1 as [|x l1]; cbn in Heq.
    + inversion Heq; subst. split; auto. congruence.
    + inversion Heq. destruct l1; discriminate.
  - destruct l1 as [|x l1]; cbn in Heq.
    + inversion Heq; subst. congruence.
    + inversion Heq; subst. eapply IH; eauto.
Qed.

Lemma log_ok_some l k : log_ok l (Some k) -> exists l1 c, l = l1 ++ [c] /\ call_fails c = Some k.
Proof.
  intros H. remember (Some k) as r eqn:Er. induction H as [|c0 k0 Hf|c0 l r Hn Hl IH]; try discriminate.
  - inversion Er; subst. exists [], c0. auto.
  - destruct (IH Er) as (l1 & c & -> & Hc). exists (c0 :: l1), c. auto.
Qed.

Lemma log_ok_none l : log_ok l None -> forall c, In c l -> call_fails c = None.
Proof.
  intros H. remember None as r eqn:Er. induction H as [|c0 k0 Hf|c0 l r Hn Hl IH]; intros c Hin.
  - destruct Hin.
  - discriminate.
  - subst r. destruct Hin as [<-|Hin]; auto.
Qed.

Lemma write_all_log_ok sc : forall buf l sc' r, write_all sc buf = (l, sc', r) -> log_ok l r.
Proof.
  induction sc as [|a sc IH]; intros buf l sc' r H; destruct buf as [|b buf]; cbn [write_all] in H.
  - inversion H; constructor.
  - inversion H; subst. apply lo_cons; [reflexivity|constructor].
  - inversion H; constructor.
  - destruct a as [|n|k|].
    + inversion H; subst. apply lo_cons; [reflexivity|constructor].
    + destruct (n <=? 0) eqn:E0.
      * inversion H; subst. apply lo_fail. unfold call_fails; cbn. now rewrite E0.
      * destruct (lenZ (b :: buf) <=? n) eqn:E1.
        -- inversion H; subst. apply lo_cons; [|constructor]. unfold call_fails; cbn. now rewrite E0.
        -- destruct (write_all sc (skipZ n (b :: buf))) as [[l0 sc2] r0] eqn:E2. inversion H; subst.
           apply lo_cons; [unfold call_fails; cbn; now rewrite E0|]. eapply IH; eauto.
    + inversion H; subst. apply lo_fail. reflexivity.
    + destruct (write_all sc (b :: buf)) as [[l0 sc2] r0] eqn:E2. inversion H; subst.
      apply lo_cons; [reflexivity|]. eapply IH; eauto.
Qed.

(* what the sink took is a prefix of the buffer; all of it when write_all succeeds *)
Lemma write_all_taken sc : forall buf l sc' r, write_all sc buf = (l, sc', r) ->
  exists rest, delivered l ++ rest = buf /\ (r = None -> rest = []).
Proof.
  unfold delivered.
  induction sc as [|a sc IH]; intros buf l sc' r H; destruct buf as [|b buf]; cbn [write_all] in H.
  - inversion H; subst. exists []. auto.
  - inversion H; subst. exists []. cbn. rewrite !app_nil_r. auto.
  - inversion H; subst. exists []. auto.
  - destruct a as [|n|k|].
    + inversion H; subst. exists []. cbn. rewrite !app_nil_r. auto.
    + destruct (n <=? 0) eqn:E0.
      * inversion H; subst. exists (b :: buf). cbn [flat_map taken c_ans c_buf app]. split; [|discriminate].
        rewrite app_nil_r. cbn [takeZ]. now rewrite E0.
      * destruct (lenZ (b :: buf) <=? n) eqn:E1.
        -- inversion H; subst. exists []. cbn [flat_map taken c_ans c_buf]. rewrite !app_nil_r. split; auto.
           apply takeZ_all. lia.
        -- destruct (write_all sc (skipZ n (b :: buf))) as [[l0 sc2] r0] eqn:E2. inversion H; subst.
           destruct (IH _ _ _ _ E2) as (rest & Hr & Hn). exists rest. split; auto.
           cbn [flat_map taken c_ans c_buf]. rewrite <- app_assoc, Hr. apply takeZ_skipZ.
    + inversion H; subst. exists (b :: buf). cbn. split; [reflexivity|discriminate].
    + destruct (write_all sc (b :: buf)) as [[l0 sc2] r0] eqn:E2. inversion H; subst.
      destruct (IH _ _ _ _ E2) as (rest & Hr & Hn). exists rest. split; auto.
Qed.

(* the i-th call was answered by the i-th entry of the script (a used-up script answers "full"),
   and exactly one entry is consumed per call *)
Lemma write_all_script sc : forall buf l sc' r, write_all sc buf = (l, sc', r) ->
  sc' = skipn (length l) sc /\ forall i c, nth_error l i = Some c -> c_ans c = nth i sc AFull.
Proof.
  induction sc as [|a sc IH]; intros buf l sc' r H; destruct buf as [|b buf]; cbn [write_all] in H.
  - inversion H; subst. split; auto. intros [|i] c Hc; discriminate.
  - inversion H; subst. split; auto. intros [|[|i]] c Hc; cbn in Hc; try discriminate. now inversion Hc.
  - inversion H; subst. split; auto. intros [|i] c Hc; discriminate.
  - assert (Hone : forall r0, ([mkCall (b :: buf) a], sc, r0) = (l, sc', r) ->
              sc' = skipn (length l) (a :: sc) /\ forall i c, nth_error l i = Some c -> c_ans c = nth i (a :: sc) AFull).
    { intros r0 Hx. inversion Hx; subst l sc' r. split; auto. intros [|[|i]] c Hc; cbn in Hc; try discriminate. now inversion Hc. }
    assert (Hrec : forall buf' l0 sc2 r0, write_all sc buf' = (l0, sc2, r0) ->
              (mkCall (b :: buf) a :: l0, sc2, r0) = (l, sc', r) ->
              sc' = skipn (length l) (a :: sc) /\ forall i c, nth_error l i = Some c -> c_ans c = nth i (a :: sc) AFull).
    { intros buf' l0 sc2 r0 E2 Hx. inversion Hx; subst l sc' r. destruct (IH _ _ _ _ E2) as [Hs Hn]. split; auto.
      intros [|i] c Hc; cbn in Hc; [now inversion Hc|]. cbn [nth]. auto. }
    destruct a as [|n|k|].
    + eapply Hone; eauto.
    + destruct (n <=? 0).
      * eapply Hone; eauto.
      * destruct (lenZ (b :: buf) <=? n).
        -- eapply Hone; eauto.
        -- destruct (write_all sc (skipZ n (b :: buf))) as [[l0 sc2] r0] eqn:E2. eapply Hrec; eauto.
    + eapply Hone; eauto.
    + destruct (write_all sc (b :: buf)) as [[l0 sc2] r0] eqn:E2. eapply Hrec; eauto.
Qed.

(* ---- drive ---- *)
Lemma delivered_app l1 l2 : delivered (l1 ++ l2) = delivered l1 ++ delivered l2.
Proof. unfold delivered. apply flat_map_app. Qed.

Lemma drive_log_ok ws : forall sc log r, drive sc ws = (log, r) -> log_ok log r.
Proof.
  induction ws as [|w ws IH]; intros sc log r H; cbn [drive] in H.
  - inversion H; constructor.
  - destruct (write_all sc w) as [[l sc'] res] eqn:E. pose proof (write_all_log_ok _ _ _ _ _ E) as Hl.
    destruct res as [k|].
    + inversion H; subst; auto.
    + destruct (drive sc' ws) as [l2 r2] eqn:E2. inversion H; subst. apply log_ok_app; auto. eapply IH; eauto.
Qed.

Lemma drive_prefix ws : forall sc log r, drive sc ws = (log, r) ->
  exists rest, delivered log ++ rest = concat ws /\ (r = None -> rest = []).
Proof.
  induction ws as [|w ws IH]; intros sc log r H; cbn [drive] in H.
  - inversion H; subst. exists []. auto.
  - destruct (write_all sc w) as [[l sc'] res] eqn:E. destruct (write_all_taken _ _ _ _ _ E) as (rest & Hr & Hn).
    destruct res as [k|].
    + inversion H; subst log r. exists (rest ++ concat ws). cbn [concat]. rewrite app_assoc, Hr. split; auto. discriminate.
    + destruct (drive sc' ws) as [l2 r2] eqn:E2. inversion H; subst log r. destruct (IH _ _ _ E2) as (rest2 & Hr2 & Hn2).
      rewrite (Hn eq_refl), app_nil_r in Hr. exists rest2. rewrite delivered_app, <- app_assoc, Hr2, Hr. auto.
Qed.

Lemma drive_script ws : forall sc log r, drive sc ws = (log, r) ->
  forall i c, nth_error log i = Some c -> c_ans c = nth i sc AFull.
Proof.
  induction ws as [|w ws IH]; intros sc log r H i c Hc; cbn [drive] in H.
  - inversion H; subst. destruct i; discriminate.
  - destruct (write_all sc w) as [[l sc'] res] eqn:E. destruct (write_all_script _ _ _ _ _ E) as [Hs Hn].
    destruct res as [k|].
    + inversion H; subst; auto.
    + destruct (drive sc' ws) as [l2 r2] eqn:E2. inversion H; subst.
      destruct (Nat.lt_ge_cases i (length l)) as [Hlt|Hge].
      * rewrite nth_error_app1 in Hc by auto. auto.
      * rewrite nth_error_app2 in Hc by auto. rewrite (IH _ _ _ E2 _ _ Hc).
        rewrite <- (firstn_skipn (length l) sc) at 2.
        destruct (Nat.le_gt_cases (length l) (length sc)) as [Hle|Hgt].
        -- rewrite app_nth2; rewrite firstn_length_le by auto; auto.
        -- rewrite skipn_all2 by lia. rewrite app_nil_r, firstn_all2 by lia.
           rewrite (nth_overflow sc) by lia. now destruct (i - length l)%nat.
Qed.

(* a sink that only ever answers "accept n > 0 bytes", "accept all" or "interrupted" *)
Definition answer_ok (a : answer) : Prop :=
  match a with AFail _ => False | AAccept n => 0 < n | AFull | AInterrupted => True end.

Lemma drive_success ws sc log r : (forall a, In a sc -> answer_ok a) -> drive sc ws = (log, r) ->
  r = None /\ delivered log = concat ws.
Proof.
  intros Hok H. assert (r = None).
  { destruct r as [k|]; auto. exfalso.
    destruct (log_ok_some _ _ (drive_log_ok _ _ _ _ H)) as (l1 & c & -> & Hc).
    assert (Hn : nth_error (l1 ++ [c]) (length l1) = Some c) by (rewrite nth_error_app2, Nat.sub_diag by auto; reflexivity).
    pose proof (drive_script _ _ _ _ H _ _ Hn) as Ha.
    destruct (Nat.lt_ge_cases (length l1) (length sc)) as [Hlt|Hge].
    - specialize (Hok _ (nth_In sc AFull Hlt)). rewrite <- Ha in Hok. unfold call_fails in Hc.
      destruct (c_ans c) as [|n|k'|]; try discriminate; cbn in Hok; [|contradiction].
      destruct (n <=? 0) eqn:E; [lia|discriminate].
    - rewrite nth_overflow in Ha by auto. unfold call_fails in Hc. rewrite Ha in Hc. discriminate. }
  split; auto. subst. destruct (drive_prefix _ _ _ _ H) as (rest & Hr & Hn). rewrite (Hn eq_refl), app_nil_r in Hr. auto.
Qed.

(* scripts without short writes: the run is the generic monitor, cut at write boundaries *)
Definition simple (sc : list answer) : Prop := forall a, In a sc -> a = AFull \/ exists k, a = AFail k.
Definition sinkf (sc : list answer) (n : nat) : option Z := match nth n sc AFull with AFail k => Some k | _ => None end.

Lemma drive_monitor ws : forall sc log r, simple sc -> Forall (fun w => w <> []) ws -> drive sc ws = (log, r) ->
  let '(d, res) := monitor (sinkf sc) 0 ws in
  delivered log = concat d /\ r = match res with Some (_, k) => Some k | None => None end /\
  length log = match res with Some _ => S (length d) | None => length d end.
Proof.
  induction ws as [|w ws IH]; intros sc log r Hs Hne H; cbn [drive monitor] in *.
  - inversion H; subst. auto.
  - inversion Hne as [|? ? Hw Hne']; subst. destruct w as [|b w]; [congruence|].
    destruct sc as [|a sc].
    + cbn [write_all] in H. destruct (drive [] ws) as [l2 r2] eqn:E2. inversion H; subst log r.
      unfold sinkf at 1. cbn [nth]. rewrite monitor_shift.
      specialize (IH [] l2 r2 ltac:(intros ? []) Hne' E2).
      rewrite (monitor_ext (fun i => sinkf [] (S i)) (sinkf [])) by (intros [|i]; reflexivity).
      destruct (monitor (sinkf []) 0 ws) as [d res]. destruct IH as (Hd & Hr & Hl).
      cbn [app delivered flat_map taken c_ans c_buf concat length]. unfold delivered in Hd. rewrite Hd.
      destruct res as [[j k]|]; auto.
    + assert (Hs' : simple sc) by (intros x Hx; apply Hs; now right).
      destruct (Hs a (or_introl eq_refl)) as [->|[k ->]]; cbn [write_all] in H.
      * destruct (drive sc ws) as [l2 r2] eqn:E2. inversion H; subst log r.
        unfold sinkf at 1. cbn [nth]. rewrite monitor_shift.
        specialize (IH sc l2 r2 Hs' Hne' E2).
        rewrite (monitor_ext (fun i => sinkf (AFull :: sc) (S i)) (sinkf sc)) by (intros i; reflexivity).
        destruct (monitor (sinkf sc) 0 ws) as [d res]. destruct IH as (Hd & Hr & Hl).
        cbn [app delivered flat_map taken c_ans c_buf concat length]. unfold delivered in Hd. rewrite Hd.
        destruct res as [[j k]|]; auto.
      * inversion H; subst log r. unfold sinkf at 1. cbn [nth]. cbn. auto.
Qed.

(* ---- splitting and the interpreter instance ---- *)
Lemma concat_flat_map_split split (chunks : list (list Z)) : split_ok split -> concat (flat_map split chunks) = concat chunks.
Proof.
  intros Hs. induction chunks as [|ch r IH]; cbn [flat_map concat]; [reflexivity|].
  now rewrite concat_app, Hs, IH.
Qed.

Lemma writes_concat split s : split_ok split -> concat (writes_of split s) = output_of s.
Proof. intros Hs. unfold writes_of, output_of. now apply concat_flat_map_split. Qed.

Lemma render_to_sink_inv c fuel body split wr sc log e :
  render_to_sink c fuel body split wr sc = Ok (log, e) ->
  exists s r, run c fuel body = Ok s /\ drive sc (writes_of split s) = (log, r) /\
    e = match r with None => None | Some k => Some (MkErr E_WriteFailure (IoSrc k)) end.
Proof.
  unfold render_to_sink, render_chunks_to. destruct (run c fuel body) as [s| | |]; cbn [bind]; try discriminate.
  destruct (drive sc (writes_of split s)) as [l r] eqn:E. intros H. exists s, r.
  assert (l = log /\ e = match r with None => None | Some k => Some (MkErr E_WriteFailure (IoSrc k)) end) as [-> ->]
    by (destruct r; inversion H; auto).
  auto.
Qed.

Lemma sink_prefix_proof c fuel body split wr sc log e s :
  split_ok split -> run c fuel body = Ok s -> render_to_sink c fuel body split wr sc = Ok (log, e) ->
  exists rest, delivered log ++ rest = output_of s /\ (e = None -> rest = []).
Proof.
  intros Hs Hrun H. destruct (render_to_sink_inv _ _ _ _ _ _ _ _ H) as (s' & r & Hrun' & Hd & He).
  rewrite Hrun in Hrun'. inversion Hrun'; subst s'.
  destruct (drive_prefix _ _ _ _ Hd) as (rest & Hr & Hn). exists rest. rewrite writes_concat in Hr by auto. split; auto.
  intros He'. apply Hn. destruct r; [subst; discriminate|reflexivity].
Qed.

Lemma sink_stops_proof c fuel body split wr sc log e :
  render_to_sink c fuel body split wr sc = Ok (log, e) ->
  forall l1 cl l2 k, log = l1 ++ cl :: l2 -> call_fails cl = Some k ->
    l2 = [] /\ e = Some (MkErr E_WriteFailure (IoSrc k)).
Proof.
  intros H l1 cl l2 k Hl Hc. destruct (render_to_sink_inv _ _ _ _ _ _ _ _ H) as (s & r & _ & Hd & He).
  destruct (log_ok_stops _ _ (drive_log_ok _ _ _ _ Hd) _ _ _ _ Hl Hc) as [-> ->]. auto.
Qed.

Lemma sink_error_kind_proof c fuel body split wr sc log e0 :
  render_to_sink c fuel body split wr sc = Ok (log, Some e0) ->
  exists l1 cl k, log = l1 ++ [cl] /\ c_ans cl = nth (length l1) sc AFull /\ call_fails cl = Some k /\
    e0 = MkErr E_WriteFailure (IoSrc k).
Proof.
  intros H. destruct (render_to_sink_inv _ _ _ _ _ _ _ _ H) as (s & r & _ & Hd & He).
  destruct r as [k|]; [|discriminate]. inversion He; subst.
  destruct (log_ok_some _ _ (drive_log_ok _ _ _ _ Hd)) as (l1 & cl & -> & Hc). exists l1, cl, k. repeat split; auto.
  eapply drive_script; eauto. rewrite nth_error_app2, Nat.sub_diag by auto. reflexivity.
Qed.

Lemma sink_no_failure_proof c fuel body split wr sc log :
  render_to_sink c fuel body split wr sc = Ok (log, None) -> forall cl, In cl log -> call_fails cl = None.
Proof.
  intros H. destruct (render_to_sink_inv _ _ _ _ _ _ _ _ H) as (s & r & _ & Hd & He).
  destruct r; [discriminate|]. apply log_ok_none. eapply drive_log_ok; eauto.
Qed.

Lemma sink_success_proof c fuel body split wr sc s :
  split_ok split -> (forall a, In a sc -> answer_ok a) -> run c fuel body = Ok s ->
  exists log, render_to_sink c fuel body split wr sc = Ok (log, None) /\ delivered log = output_of s.
Proof.
  intros Hs Hok Hrun. unfold render_to_sink, render_chunks_to. rewrite Hrun. cbn [bind].
  destruct (drive sc (writes_of split s)) as [log r] eqn:E. destruct (drive_success _ _ _ _ Hok E) as [-> Hd].
  exists log. split; auto. rewrite Hd. now apply writes_concat.
Qed.

Definition nonempty (ws : list (list Z)) : list (list Z) :=
  filter (fun w => negb (match w with [] => true | _ => false end)) ws.

Lemma flat_map_no_split ws : flat_map no_split ws = ws.
Proof. induction ws as [|w r IH]; cbn; [|rewrite IH]; auto. Qed.

(* empty chunks make no call at all *)
Lemma drive_nonempty ws : forall sc, drive sc ws = drive sc (nonempty ws).
Proof.
  unfold nonempty. induction ws as [|w r IH]; intros sc; [reflexivity|]. cbn [filter]. destruct w as [|b w]; cbn [negb].
  - cbn [drive]. destruct sc; cbn [write_all]; rewrite IH; destruct (drive _ _); reflexivity.
  - cbn [drive]. destruct (write_all sc (b :: w)) as [[l sc'] res]. destruct res; auto. now rewrite IH.
Qed.

Lemma nonempty_Forall ws : Forall (fun w => w <> []) (nonempty ws).
Proof.
  apply Forall_forall. intros w Hw. apply filter_In in Hw. destruct Hw as [_ Hw]. destruct w; [discriminate|congruence].
Qed.

Lemma sink_prefix_chunks_proof c fuel body wr sc log e s :
  simple sc -> run c fuel body = Ok s -> render_to_sink c fuel body no_split wr sc = Ok (log, e) ->
  exists n, delivered log = concat (firstn n (nonempty (rev (s_out s)))).
Proof.
  intros Hsim Hrun H. destruct (render_to_sink_inv _ _ _ _ _ _ _ _ H) as (s' & r & Hrun' & Hd & He).
  rewrite Hrun in Hrun'. inversion Hrun'; subst s'. clear Hrun' H He.
  unfold writes_of in Hd. rewrite flat_map_no_split, drive_nonempty in Hd.
  pose proof (drive_monitor _ _ _ _ Hsim (nonempty_Forall _) Hd) as Hm.
  destruct (monitor (sinkf sc) 0 (nonempty (rev (s_out s)))) as [d res] eqn:Em. destruct Hm as (Hdel & _).
  destruct (monitor_prefix_proof _ _ _ _ _ Em) as (rest & Hr & _).
  exists (length d). rewrite Hdel, Hr, firstn_app, Nat.sub_diag, firstn_all. cbn. now rewrite app_nil_r.
Qed.

(* ---- renders that fail for a reason of their own ---- *)
Lemma render_to_sink_p_ok c fuel body split wr sc s :
  run c fuel body = Ok s -> render_to_sink_p c fuel body split wr sc = render_to_sink c fuel body split wr sc.
Proof.
  intros H. unfold render_to_sink_p, render_to_sink. pose proof (run_partial_agrees_proof c fuel body) as Ha. rewrite H in Ha.
  destruct (run_partial c fuel body) as [s'| | |]; cbn in Ha; try discriminate. inversion Ha; subst. rewrite H. reflexivity.
Qed.

Lemma run_partial_err c fuel body code out : run_partial c fuel body = PErr code out -> run c fuel body = Err code.
Proof. intros H. rewrite <- run_partial_agrees_proof, H. reflexivity. Qed.

Lemma sink_failing_render_proof c fuel body split wr sc code out log e :
  split_ok split -> run_partial c fuel body = PErr code out ->
  render_to_sink_p c fuel body split wr sc = Ok (log, e) ->
  (exists rest, delivered log ++ rest = concat (rev out) /\
     ((forall cl, In cl log -> call_fails cl = None) -> rest = [] /\ e = Some (MkErr code NoSrc))) /\
  (forall l1 cl l2 k, log = l1 ++ cl :: l2 -> call_fails cl = Some k ->
     l2 = [] /\ e = Some (MkErr E_WriteFailure (IoSrc k))).
Proof.
  intros Hs Hp H. unfold render_to_sink_p in H. rewrite Hp in H.
  destruct (drive sc (flat_map split (rev out))) as [l r] eqn:Ed. inversion H; subst. clear H.
  pose proof (drive_log_ok _ _ _ _ Ed) as Hlog. split.
  - destruct (drive_prefix _ _ _ _ Ed) as (rest & Hr & Hn). rewrite concat_flat_map_split in Hr by auto.
    exists rest. split; auto. intros Hnone. destruct r as [k|].
    + exfalso. destruct (log_ok_some _ _ Hlog) as (l1 & cl & El & Hc). subst log. rewrite Hnone in Hc; [discriminate|]. apply in_or_app. right. now left.
    + split; auto.
  - intros l1 cl l2 k Hl Hc. destruct (log_ok_stops _ _ Hlog _ _ _ _ Hl Hc) as [-> ->]. auto.
Qed.
