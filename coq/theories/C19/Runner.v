(* C19 runners.
   c19-drive : nscript answer.. nchunks [len byte..]..   ->  res ncalls [len byte.. acc]..
               answer: 0 full | 1 n accept | 2 k fail | 3 interrupted
               res: 0 | 1 kind code source_tag source_kind     (the error returned by render_captured_to)
               acc: bytes taken by the call, -1 for an error answer
   c19-chunks: an encoded request (Lang/Codec.v) -> 0 nchunks [len c..].. | 1 code | 8 | 9
   c19-partial: same input, output-keeping interpreter -> 0 nchunks [len c..].. | 1 code nchunks [len c..].. | 8 | 9
                (for an error: the top-level chunks written before it) *)
From Coq Require Import String.
From MJ Require Import Common.Base Lang.Syntax Lang.Interp Lang.Codec C19.Model C19.Partial C19.Spec.

Fixpoint dscript (n : nat) (l : list Z) : option (list answer * list Z) :=
  match n with
  | O => Some ([], l)
  | S n =>
      match l with
      | 0 :: r => obind (dscript n r) (fun '(a, r1) => Some (AFull :: a, r1))
      | 1 :: k :: r => obind (dscript n r) (fun '(a, r1) => Some (AAccept k :: a, r1))
      | 2 :: k :: r => obind (dscript n r) (fun '(a, r1) => Some (AFail k :: a, r1))
      | 3 :: r => obind (dscript n r) (fun '(a, r1) => Some (AInterrupted :: a, r1))
      | _ => None
      end
  end.

Fixpoint dchunks (n : nat) (l : list Z) : option (list (list Z) * list Z) :=
  match n with
  | O => Some ([], l)
  | S n =>
      match l with
      | k :: r => obind (take_n (Z.to_nat k) r) (fun '(ch, r1) => obind (dchunks n r1) (fun '(cs, r2) => Some (ch :: cs, r2)))
      | [] => None
      end
  end.

Definition enc_call (c : call) : list Z :=
  lenZ (c_buf c) :: c_buf c ++
  [match c_ans c with
   | AFull => lenZ (c_buf c)
   | AAccept n => lenZ (takeZ n (c_buf c))
   | AFail _ | AInterrupted => -1
   end].

Definition enc_err (e : option err) : list Z :=
  match e with
  | None => [0]
  | Some (MkErr code src) =>
      1 :: code :: match src with NoSrc => [0; 0] | IoSrc k => [1; k] | ErrSrc _ => [2; 0] end
  end.

Definition run_drive (inp : list Z) : list Z :=
  match inp with
  | ns :: r =>
      match dscript (Z.to_nat ns) r with
      | Some (sc, nc :: r1) =>
          match dchunks (Z.to_nat nc) r1 with
          | Some (chunks, _) =>
              let '(log, e) := render_chunks_to sc [E_BadInclude; E_EvalBlock] chunks in
              enc_err e ++ lenZ log :: flat_map enc_call log
          | None => [9]
          end
      | _ => [9]
      end
  | [] => [9]
  end.

Definition FUEL := 400%nat.

Definition run_chunks (inp : list Z) : list Z :=
  match drequest inp with
  | None => [9]
  | Some (md, esc, ctx, body) =>
      match Interp.run (mkCfg md ctx esc) FUEL body with
      | Ok s => let w := writes_of no_split s in 0 :: lenZ w :: flat_map (fun ch => lenZ ch :: ch) w
      | Err c => [1; c]
      | Panic => [2]
      | OutOfGas => [8]
      end
  end.

Definition enc_chunks (w : list (list Z)) : list Z := lenZ w :: flat_map (fun ch => lenZ ch :: ch) w.

Definition run_partial_chunks (inp : list Z) : list Z :=
  match drequest inp with
  | None => [9]
  | Some (md, esc, ctx, body) =>
      match run_partial (mkCfg md ctx esc) FUEL body with
      | POk s => 0 :: enc_chunks (writes_of no_split s)
      | PErr c out => 1 :: c :: enc_chunks (rev out)
      | PPanic => [2]
      | PGas => [8]
      end
  end.

Open Scope string_scope.
Definition runners : list (string * (list Z -> list Z)) := [ ("c19-drive", run_drive); ("c19-chunks", run_chunks); ("c19-partial", run_partial_chunks) ].
