(* C19: the sink-driven run of a core-fragment program, as a function over the chunk list of the
   plain run of the reference interpreter (see the header of Model.v for why this is adequate:
   captured output never reaches the sink, only the top-level chunks do, in order). *)
From MJ Require Import Common.Base Lang.Syntax Lang.Interp C19.Model C19.Partial.

(* CHUNKING GRANULARITY (assumption, stated once): the interpreter's chunk = what one emit site prints.  The engine may hand
   one chunk to the sink in SEVERAL write calls - a value's Display / HtmlEscape / JSON writer issues one write per piece
   (sign, digits, ".0" of a float; the text between metacharacters and each entity; brackets, separators and items of a
   list or map; the pieces of an Object::render) - and the sink can fail BETWEEN two pieces of one value.  [split] stands
   for that cutting; the only thing assumed about it is that the pieces, in order, make up the chunk ([split_ok]).
   Every theorem below holds for every such [split]; which cutting the engine really uses is observed by the check
   (the free run's call log) and never derived.  What the model does NOT allow is a piece written after an earlier piece
   of the same value failed, or pieces out of order: exactly what the call-log comparison and the oracle look for. *)
Definition split_ok (split : list Z -> list (list Z)) : Prop := forall ch, concat (split ch) = ch.

(* the sequence of top-level writes of a finished run *)
Definition writes_of (split : list Z -> list (list Z)) (s : st) : list (list Z) := flat_map split (rev (s_out s)).

(* Template::render_captured_to for a program of the core fragment.  A program whose plain run fails
   is outside the model (the interpreter does not expose the output produced before the error). *)
Definition render_to_sink (c : cfg) (fuel : nat) (body : list stmt) (split : list Z -> list (list Z))
    (wrappers : list Z) (sc : list answer) : outcome (list call * option err) :=
  bind (run c fuel body) (fun s => Ok (render_chunks_to sc wrappers (writes_of split s))).

Definition no_split (ch : list Z) : list (list Z) := [ch].

(* The same for every render, failing ones included (C19/Partial.v keeps the chunks written before a
   render error): the sink is driven over those chunks; if it fails first, the stored io error
   replaces everything (take_err), otherwise the render's own error comes back unchanged. *)
Definition render_to_sink_p (c : cfg) (fuel : nat) (body : list stmt) (split : list Z -> list (list Z))
    (wrappers : list Z) (sc : list answer) : outcome (list call * option err) :=
  match run_partial c fuel body with
  | POk s => Ok (render_chunks_to sc wrappers (writes_of split s))
  | PErr code out =>
      let '(log, res) := drive sc (flat_map split (rev out)) in
      Ok (log, Some (take_err res (MkErr code NoSrc)))
  | PPanic => Panic
  | PGas => OutOfGas
  end.
