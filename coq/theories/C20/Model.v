(* C20 model: minijinja-autoreload/src/lib.rs -- AutoReloader::acquire_env, Notifier::request_reload,
   should_reload, prepare_and_mark_reload, fast_reload, the guard -- as a labelled transition system
   at the granularity of the reloader's lock acquisitions (the yield points of hook H3).

   Any thread may perform any enabled action at any time: thread ids are arbitrary integers, the
   number of threads and of operations is unbounded.  Everything acquire_env does after taking the
   cache mutex is serialised by that mutex, so the shared state carries ONE holder automaton
   ([phase], tagged with the owner thread) next to the notifier state.

   Ghost state: [reqs] = number of completed flag-sets (request_reload's first lock section /
   the fs-watcher callback); [born] of an environment = [reqs] when its creator started or,
   with fast reload, when its template cache was cleared; [gen] = index of the creator call
   that built it.  No proofs in this file. *)
From MJ Require Import Common.Base.

Record env := { gen : Z; born : Z }.

(* why this acquire decided to reload *)
Inductive reason := WhyEmpty | WhyFlag | WhyFresh.

Inductive phase :=
| Idle                                    (* cache mutex free *)
| Locked (t r0 : Z)                       (* mutex taken, cache non-empty; r0 = reqs at that moment (ghost) *)
| Decided (t r0 : Z) (w : reason)         (* will reload: cache empty / flag seen / freshness callback *)
| Cleared (t r0 : Z) (w : reason)         (* prepare_and_mark_reload has reset the flag; cache non-empty *)
| PreCreate (t r0 : Z) (w : reason)       (* about to call the creator *)
| Creating (t r0 b : Z) (w : reason)      (* creator running; b = reqs when it started *)
| Failing (t r0 : Z)                      (* creator returned Err; flag restore pending (fixed code only) *)
| Holding (t r0 : Z).                     (* guard handed out *)

(* static configuration.  [restore] = the flag is set again when the creator fails
   (true = the code after the fix; false = the code before it, kept for the refutation example) *)
Record cfg := { fast : bool; fresh_cb : bool; on_cb : bool; restore : bool }.

Record st := {
  flag : bool;            (* NotifierImpl.should_reload *)
  reqs : Z;               (* ghost *)
  cached : option env;    (* AutoReloader.cached_env *)
  ph : phase;
  creator_calls : Z;
  clears : Z;             (* clear_templates calls (fast reload) *)
  notifies : Z            (* on_should_reload_callback invocations *)
}.

Definition init : st :=
  {| flag := false; reqs := 0; cached := None; ph := Idle; creator_calls := 0; clears := 0; notifies := 0 |}.

(* one step of one thread = what it does from one yield point to the next *)
Inductive label :=
| LReqSet (t : Z)                       (* request_reload: lock; should_reload = true *)
| LReqNotify (t : Z)                    (* request_reload: lock; on_should_reload callback; return *)
| LAcqCache (t : Z)                     (* acquire_env: cached_env.lock(); is_none() *)
| LAcqCheck (t : Z) (cb : option bool)  (* should_reload(): flag, else freshness callback (None = not polled) *)
| LAcqMark (t : Z)                      (* prepare_and_mark_reload: should_reload = false *)
| LAcqFast (t : Z)                      (* fast_reload(): read; if set clear_templates and return the guard *)
| LCreStart (t : Z)                     (* the creator starts *)
| LCreEnd (t : Z) (ok : bool)           (* the creator returned; Ok: store, return the guard *)
| LAcqRestore (t : Z)                   (* failed creator: should_reload = true; return Err *)
| LDrop (t : Z).                        (* guard dropped *)

(* what acquire_env returned during the step (for LDrop: what the guard still dereferences to) *)
Inductive ret := RNone | RErr | REnv (e : env).
Record event := { lab : label; obs : ret }.

Definition set_ph (s : st) (p : phase) : st :=
  {| flag := flag s; reqs := reqs s; cached := cached s; ph := p;
     creator_calls := creator_calls s; clears := clears s; notifies := notifies s |}.
Definition set_flag (s : st) (f : bool) (p : phase) : st :=
  {| flag := f; reqs := reqs s; cached := cached s; ph := p;
     creator_calls := creator_calls s; clears := clears s; notifies := notifies s |}.
Definition b2z (b : bool) : Z := if b then 1 else 0.

Inductive step (c : cfg) : st -> event -> st -> Prop :=
| S_req_set s t :
    step c s {| lab := LReqSet t; obs := RNone |}
         {| flag := true; reqs := reqs s + 1; cached := cached s; ph := ph s;
            creator_calls := creator_calls s; clears := clears s; notifies := notifies s |}
| S_req_notify s t :
    step c s {| lab := LReqNotify t; obs := RNone |}
         {| flag := flag s; reqs := reqs s; cached := cached s; ph := ph s;
            creator_calls := creator_calls s; clears := clears s; notifies := notifies s + b2z (on_cb c) |}
| S_lock_empty s t : ph s = Idle -> cached s = None ->
    step c s {| lab := LAcqCache t; obs := RNone |} (set_ph s (Decided t (reqs s) WhyEmpty))
| S_lock_some s t e : ph s = Idle -> cached s = Some e ->
    step c s {| lab := LAcqCache t; obs := RNone |} (set_ph s (Locked t (reqs s)))
| S_check_flag s t r0 : ph s = Locked t r0 -> flag s = true ->
    step c s {| lab := LAcqCheck t None; obs := RNone |} (set_ph s (Decided t r0 WhyFlag))
| S_check_keep s t r0 e : ph s = Locked t r0 -> flag s = false -> fresh_cb c = false -> cached s = Some e ->
    step c s {| lab := LAcqCheck t None; obs := REnv e |} (set_ph s (Holding t r0))
| S_check_fresh_no s t r0 e : ph s = Locked t r0 -> flag s = false -> fresh_cb c = true -> cached s = Some e ->
    step c s {| lab := LAcqCheck t (Some false); obs := REnv e |} (set_ph s (Holding t r0))
| S_check_fresh_yes s t r0 : ph s = Locked t r0 -> flag s = false -> fresh_cb c = true ->
    step c s {| lab := LAcqCheck t (Some true); obs := RNone |}
         {| flag := flag s; reqs := reqs s; cached := cached s; ph := Decided t r0 WhyFresh;
            creator_calls := creator_calls s; clears := clears s; notifies := notifies s + b2z (on_cb c) |}
| S_mark_empty s t r0 w : ph s = Decided t r0 w -> cached s = None ->
    step c s {| lab := LAcqMark t; obs := RNone |} (set_flag s false (PreCreate t r0 w))
| S_mark_some s t r0 w e : ph s = Decided t r0 w -> cached s = Some e ->
    step c s {| lab := LAcqMark t; obs := RNone |} (set_flag s false (Cleared t r0 w))
| S_fast_clear s t r0 w e : ph s = Cleared t r0 w -> fast c = true -> cached s = Some e ->
    step c s {| lab := LAcqFast t; obs := REnv {| gen := gen e; born := reqs s |} |}
         {| flag := flag s; reqs := reqs s; cached := Some {| gen := gen e; born := reqs s |}; ph := Holding t r0;
            creator_calls := creator_calls s; clears := clears s + 1; notifies := notifies s |}
| S_fast_off s t r0 w : ph s = Cleared t r0 w -> fast c = false ->
    step c s {| lab := LAcqFast t; obs := RNone |} (set_ph s (PreCreate t r0 w))
| S_cre_start s t r0 w : ph s = PreCreate t r0 w ->
    step c s {| lab := LCreStart t; obs := RNone |}
         {| flag := flag s; reqs := reqs s; cached := cached s; ph := Creating t r0 (reqs s) w;
            creator_calls := creator_calls s + 1; clears := clears s; notifies := notifies s |}
| S_cre_ok s t r0 b w : ph s = Creating t r0 b w ->
    step c s {| lab := LCreEnd t true; obs := REnv {| gen := creator_calls s; born := b |} |}
         {| flag := flag s; reqs := reqs s; cached := Some {| gen := creator_calls s; born := b |}; ph := Holding t r0;
            creator_calls := creator_calls s; clears := clears s; notifies := notifies s |}
| S_cre_err_fixed s t r0 b w : ph s = Creating t r0 b w -> restore c = true ->
    step c s {| lab := LCreEnd t false; obs := RNone |} (set_ph s (Failing t r0))
| S_cre_err_unfixed s t r0 b w : ph s = Creating t r0 b w -> restore c = false ->
    step c s {| lab := LCreEnd t false; obs := RErr |} (set_ph s Idle)
| S_restore s t r0 : ph s = Failing t r0 ->
    step c s {| lab := LAcqRestore t; obs := RErr |} (set_flag s true Idle)
| S_drop s t r0 e : ph s = Holding t r0 -> cached s = Some e ->
    step c s {| lab := LDrop t; obs := REnv e |} (set_ph s Idle).

Inductive run (c : cfg) : st -> list event -> st -> Prop :=
| run_nil s : run c s [] s
| run_cons s e s' tr s'' : step c s e s' -> run c s' tr s'' -> run c s (e :: tr) s''.

(* ---- the same transition system as a function (this is what is extracted and fed with the
        implementation's traces); Proofs.v shows exec = step ---- *)
Definition exec (c : cfg) (s : st) (l : label) : option (st * ret) :=
  match l with
  | LReqSet _ =>
      Some ({| flag := true; reqs := reqs s + 1; cached := cached s; ph := ph s;
               creator_calls := creator_calls s; clears := clears s; notifies := notifies s |}, RNone)
  | LReqNotify _ =>
      Some ({| flag := flag s; reqs := reqs s; cached := cached s; ph := ph s;
               creator_calls := creator_calls s; clears := clears s; notifies := notifies s + b2z (on_cb c) |}, RNone)
  | LAcqCache t =>
      match ph s with
      | Idle => match cached s with
                | None => Some (set_ph s (Decided t (reqs s) WhyEmpty), RNone)
                | Some _ => Some (set_ph s (Locked t (reqs s)), RNone)
                end
      | _ => None
      end
  | LAcqCheck t cb =>
      match ph s with
      | Locked t' r0 =>
          if negb (t =? t') then None else
          if flag s then
            match cb with None => Some (set_ph s (Decided t r0 WhyFlag), RNone) | Some _ => None end
          else if fresh_cb c then
            match cb with
            | None => None
            | Some true =>
                Some ({| flag := flag s; reqs := reqs s; cached := cached s; ph := Decided t r0 WhyFresh;
                         creator_calls := creator_calls s; clears := clears s;
                         notifies := notifies s + b2z (on_cb c) |}, RNone)
            | Some false =>
                match cached s with Some e => Some (set_ph s (Holding t r0), REnv e) | None => None end
            end
          else
            match cb with
            | None => match cached s with Some e => Some (set_ph s (Holding t r0), REnv e) | None => None end
            | Some _ => None
            end
      | _ => None
      end
  | LAcqMark t =>
      match ph s with
      | Decided t' r0 w =>
          if negb (t =? t') then None else
          match cached s with
          | None => Some (set_flag s false (PreCreate t r0 w), RNone)
          | Some _ => Some (set_flag s false (Cleared t r0 w), RNone)
          end
      | _ => None
      end
  | LAcqFast t =>
      match ph s with
      | Cleared t' r0 w =>
          if negb (t =? t') then None else
          if fast c then
            match cached s with
            | Some e =>
                let e' := {| gen := gen e; born := reqs s |} in
                Some ({| flag := flag s; reqs := reqs s; cached := Some e'; ph := Holding t r0;
                         creator_calls := creator_calls s; clears := clears s + 1; notifies := notifies s |}, REnv e')
            | None => None
            end
          else Some (set_ph s (PreCreate t r0 w), RNone)
      | _ => None
      end
  | LCreStart t =>
      match ph s with
      | PreCreate t' r0 w =>
          if negb (t =? t') then None else
          Some ({| flag := flag s; reqs := reqs s; cached := cached s; ph := Creating t r0 (reqs s) w;
                   creator_calls := creator_calls s + 1; clears := clears s; notifies := notifies s |}, RNone)
      | _ => None
      end
  | LCreEnd t ok =>
      match ph s with
      | Creating t' r0 b w =>
          if negb (t =? t') then None else
          if ok then
            let e := {| gen := creator_calls s; born := b |} in
            Some ({| flag := flag s; reqs := reqs s; cached := Some e; ph := Holding t r0;
                     creator_calls := creator_calls s; clears := clears s; notifies := notifies s |}, REnv e)
          else if restore c then Some (set_ph s (Failing t r0), RNone)
          else Some (set_ph s Idle, RErr)
      | _ => None
      end
  | LAcqRestore t =>
      match ph s with
      | Failing t' r0 => if negb (t =? t') then None else Some (set_flag s true Idle, RErr)
      | _ => None
      end
  | LDrop t =>
      match ph s with
      | Holding t' r0 =>
          if negb (t =? t') then None else
          match cached s with Some e => Some (set_ph s Idle, REnv e) | None => None end
      | _ => None
      end
  end.

Definition env_eqb (a b : env) : bool := (gen a =? gen b) && (born a =? born b).
Definition ret_eqb (a b : ret) : bool :=
  match a, b with
  | RNone, RNone | RErr, RErr => true
  | REnv x, REnv y => env_eqb x y
  | _, _ => false
  end.

(* replay of an observed trace: [inl s] = accepted, final state s; [inr (i, r)] = event number i is not a
   step of the model (r = what the model hands out at that step, RNone if the label itself is not enabled) *)
Fixpoint replay (c : cfg) (s : st) (i : Z) (tr : list event) : st + (Z * ret) :=
  match tr with
  | [] => inl s
  | e :: tr' =>
      match exec c s (lab e) with
      | None => inr (i, RNone)
      | Some (s', r) => if ret_eqb r (obs e) then replay c s' (i + 1) tr' else inr (i, r)
      end
  end.
