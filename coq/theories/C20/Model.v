(* C20 model: minijinja-autoreload/src/lib.rs -- AutoReloader::acquire_env, Notifier::request_reload,
   should_reload, prepare_and_mark_reload, fast_reload, restore_reload, the guard -- as a labelled
   transition system at the granularity of the reloader's lock acquisitions (the yield points of hook
   H3) and of the user callbacks, which run WITH THE NOTIFIER MUTEX HELD and may take arbitrarily
   long: the freshness callback (should_reload) and the on-should-reload callback (request_reload,
   should_reload) are states of their own ("lock held, inside callback"), during which every other
   thread that needs the notifier mutex can only block.

   Any thread may perform any enabled action at any time: thread ids are arbitrary integers, the
   number of threads and of operations is unbounded.  Everything acquire_env does after taking the
   cache mutex is serialised by that mutex, so the shared state carries ONE holder automaton
   ([phase], tagged with the owner thread) next to the notifier state ([flag], [nlk]).

   Panics: the creator and the callbacks are user code and may panic.  The unwinding drops the mutex
   guards the thread holds, which POISONS those std mutexes ([cpois]: cached_env, [npois]: the notifier);
   every later lock().unwrap() on a poisoned mutex panics in turn - such an operation hands out nothing
   and does not return ([RPanic]).  A panic does not restore the reload flag; it is the poisoning that
   keeps a stale environment from being handed out afterwards.

   Ghost state: [reqs] = number of completed flag-sets (request_reload's first lock section /
   the fs-watcher callback); [born] of an environment = [reqs] when its creator started or,
   with fast reload, when its template cache was cleared; [gen] = index of the creator call
   that built it.  No proofs in this file. *)
From MJ Require Import Common.Base.

Record env := { gen : Z; born : Z }.

(* why this acquire decided to reload *)
Inductive reason := WhyEmpty | WhyFlag | WhyFresh.

Inductive phase :=
| Idle                                    (* cache mutex free *)
| Locked (t r0 : Z)                       (* mutex taken, cache non-empty; r0 = reqs at that moment (ghost) *)
| Decided (t r0 : Z) (w : reason)         (* will reload: cache empty / flag seen / freshness callback *)
| Cleared (t r0 : Z) (w : reason)         (* prepare_and_mark_reload has reset the flag; cache non-empty *)
| PreCreate (t r0 : Z) (w : reason)       (* about to call the creator *)
| Creating (t r0 b : Z) (w : reason)      (* creator running; b = reqs when it started *)
| Failing (t r0 : Z)                      (* creator returned Err; flag restore pending (fixed code only) *)
| Holding (t r0 : Z).                     (* guard handed out *)

(* the notifier mutex: free between lock sections; held across a user callback *)
Inductive nholder :=
| NFree
| NFresh (t : Z)                          (* t is inside the freshness callback (should_reload) *)
| NOnCb (t : Z) (from_check : bool).      (* t is inside the on-should-reload callback, called from
                                             should_reload (true) or from request_reload (false) *)
Definition nlk_holder (n : nholder) : option Z :=
  match n with NFree => None | NFresh t | NOnCb t _ => Some t end.

(* static configuration.  [restore] = the flag is set again when the creator fails
   (true = the code after the fix; false = the code before it, kept for the refutation example) *)
Record cfg := { fast : bool; fresh_cb : bool; on_cb : bool; restore : bool }.

Record st := {
  flag : bool;            (* NotifierImpl.should_reload *)
  reqs : Z;               (* ghost *)
  cached : option env;    (* AutoReloader.cached_env *)
  ph : phase;
  nlk : nholder;
  cpois : bool;           (* cached_env mutex poisoned *)
  npois : bool;           (* notifier mutex poisoned *)
  creator_calls : Z;
  clears : Z;             (* clear_templates calls (fast reload) *)
  notifies : Z            (* on_should_reload_callback invocations *)
}.

Definition init : st :=
  {| flag := false; reqs := 0; cached := None; ph := Idle; nlk := NFree; cpois := false; npois := false;
     creator_calls := 0; clears := 0; notifies := 0 |}.

Inductive cbres := CbFalse | CbTrue | CbPanic.

(* one step of one thread = what it does from one yield point to the next *)
Inductive label :=
| LReqSet (t : Z)                       (* request_reload: lock; should_reload = true *)
| LReqNotify (t : Z) (entered : bool)   (* request_reload: lock; [entered]: on-should-reload callback entered, else return *)
| LAcqCache (t : Z)                     (* acquire_env: cached_env.lock(); is_none() *)
| LAcqCheck (t : Z)                     (* should_reload(): lock; flag; else enter the freshness callback / return *)
| LFreshEnd (t : Z) (ans : cbres)       (* the freshness callback returns / panics *)
| LOnCbEnd (t : Z) (panicked : bool)    (* the on-should-reload callback returns / panics *)
| LAcqMark (t : Z)                      (* prepare_and_mark_reload: should_reload = false *)
| LAcqFast (t : Z)                      (* fast_reload(): read; if set clear_templates and return the guard *)
| LCreStart (t : Z)                     (* the creator starts *)
| LCreEnd (t : Z) (ok : bool)           (* the creator returned; Ok: store, return the guard *)
| LCrePanic (t : Z)                     (* the creator panics *)
| LAcqRestore (t : Z)                   (* failed creator: should_reload = true; return Err *)
| LDrop (t : Z)                         (* guard dropped *)
| LBlocked (t : Z).                     (* t tries to take the notifier mutex while another thread is inside a callback: it sleeps *)

(* what returned during the step (for LDrop: what the guard still dereferences to) *)
Inductive ret := RNone | RErr | RReq | RPanic | REnv (e : env).
(* RErr/REnv: acquire_env returned; RReq: request_reload returned; RPanic: the operation ended in a panic *)
Record event := { lab : label; obs : ret }.

Definition with_ph (s : st) (p : phase) : st := {| flag := flag s; reqs := reqs s; cached := cached s; ph := p; nlk := nlk s; cpois := cpois s; npois := npois s; creator_calls := creator_calls s; clears := clears s; notifies := notifies s |}.
Definition with_flag (s : st) (f : bool) : st := {| flag := f; reqs := reqs s; cached := cached s; ph := ph s; nlk := nlk s; cpois := cpois s; npois := npois s; creator_calls := creator_calls s; clears := clears s; notifies := notifies s |}.
Definition with_nlk (s : st) (n : nholder) : st := {| flag := flag s; reqs := reqs s; cached := cached s; ph := ph s; nlk := n; cpois := cpois s; npois := npois s; creator_calls := creator_calls s; clears := clears s; notifies := notifies s |}.
Definition with_cached (s : st) (e : env) : st := {| flag := flag s; reqs := reqs s; cached := Some e; ph := ph s; nlk := nlk s; cpois := cpois s; npois := npois s; creator_calls := creator_calls s; clears := clears s; notifies := notifies s |}.
Definition poison_cache (s : st) : st := {| flag := flag s; reqs := reqs s; cached := cached s; ph := ph s; nlk := nlk s; cpois := true; npois := npois s; creator_calls := creator_calls s; clears := clears s; notifies := notifies s |}.
Definition poison_notifier (s : st) : st := {| flag := flag s; reqs := reqs s; cached := cached s; ph := ph s; nlk := nlk s; cpois := cpois s; npois := true; creator_calls := creator_calls s; clears := clears s; notifies := notifies s |}.
Definition count_request (s : st) : st := {| flag := true; reqs := reqs s + 1; cached := cached s; ph := ph s; nlk := nlk s; cpois := cpois s; npois := npois s; creator_calls := creator_calls s; clears := clears s; notifies := notifies s |}.
Definition count_notify (s : st) : st := {| flag := flag s; reqs := reqs s; cached := cached s; ph := ph s; nlk := nlk s; cpois := cpois s; npois := npois s; creator_calls := creator_calls s; clears := clears s; notifies := notifies s + 1 |}.
Definition count_creator (s : st) : st := {| flag := flag s; reqs := reqs s; cached := cached s; ph := ph s; nlk := nlk s; cpois := cpois s; npois := npois s; creator_calls := creator_calls s + 1; clears := clears s; notifies := notifies s |}.
Definition count_clear (s : st) : st := {| flag := flag s; reqs := reqs s; cached := cached s; ph := ph s; nlk := nlk s; cpois := cpois s; npois := npois s; creator_calls := creator_calls s; clears := clears s + 1; notifies := notifies s |}.
(* a panic inside acquire_env unwinds through it: the cache mutex is poisoned and released *)
Definition unwind_acq (s : st) : st := with_ph (poison_cache s) Idle.
(* a panic inside request_reload: if the request was issued from inside the creator (thread t is the one
   running it) the panic unwinds through the creator and acquire_env as well *)
Definition creator_unwind (s : st) (t : Z) : st :=
  match ph s with
  | Creating t' _ _ _ => if t =? t' then unwind_acq s else s
  | _ => s
  end.
Definition b2z (b : bool) : Z := if b then 1 else 0.
Definition ev (l : label) (o : ret) : event := {| lab := l; obs := o |}.

Inductive step (c : cfg) : st -> event -> st -> Prop :=
(* request_reload *)
| S_req_set s t : nlk s = NFree -> npois s = false ->
    step c s (ev (LReqSet t) RNone) (count_request s)
| S_req_notify_plain s t : nlk s = NFree -> npois s = false -> on_cb c = false ->
    step c s (ev (LReqNotify t false) RReq) s
| S_req_notify_cb s t : nlk s = NFree -> npois s = false -> on_cb c = true ->
    step c s (ev (LReqNotify t true) RNone) (count_notify (with_nlk s (NOnCb t false)))
| S_oncb_end_req s t : nlk s = NOnCb t false ->
    step c s (ev (LOnCbEnd t false) RReq) (with_nlk s NFree)
| S_oncb_panic_req s t : nlk s = NOnCb t false ->
    step c s (ev (LOnCbEnd t true) RPanic) (creator_unwind (poison_notifier (with_nlk s NFree)) t)
| S_req_set_poisoned s t : nlk s = NFree -> npois s = true ->
    step c s (ev (LReqSet t) RPanic) (creator_unwind s t)
| S_req_notify_poisoned s t : nlk s = NFree -> npois s = true ->
    step c s (ev (LReqNotify t false) RPanic) (creator_unwind s t)
(* acquire_env *)
| S_lock_empty s t : ph s = Idle -> cpois s = false -> cached s = None ->
    step c s (ev (LAcqCache t) RNone) (with_ph s (Decided t (reqs s) WhyEmpty))
| S_lock_some s t e : ph s = Idle -> cpois s = false -> cached s = Some e ->
    step c s (ev (LAcqCache t) RNone) (with_ph s (Locked t (reqs s)))
| S_lock_poisoned s t : ph s = Idle -> cpois s = true ->
    step c s (ev (LAcqCache t) RPanic) s
| S_check_flag s t r0 : ph s = Locked t r0 -> nlk s = NFree -> npois s = false -> flag s = true ->
    step c s (ev (LAcqCheck t) RNone) (with_ph s (Decided t r0 WhyFlag))
| S_check_keep s t r0 e : ph s = Locked t r0 -> nlk s = NFree -> npois s = false -> flag s = false -> fresh_cb c = false -> cached s = Some e ->
    step c s (ev (LAcqCheck t) (REnv e)) (with_ph s (Holding t r0))
| S_check_enter s t r0 : ph s = Locked t r0 -> nlk s = NFree -> npois s = false -> flag s = false -> fresh_cb c = true ->
    step c s (ev (LAcqCheck t) RNone) (with_nlk s (NFresh t))
| S_check_poisoned s t r0 : ph s = Locked t r0 -> nlk s = NFree -> npois s = true ->
    step c s (ev (LAcqCheck t) RPanic) (unwind_acq s)
| S_fresh_no s t r0 e : ph s = Locked t r0 -> nlk s = NFresh t -> cached s = Some e ->
    step c s (ev (LFreshEnd t CbFalse) (REnv e)) (with_ph (with_nlk s NFree) (Holding t r0))
| S_fresh_yes_plain s t r0 : ph s = Locked t r0 -> nlk s = NFresh t -> on_cb c = false ->
    step c s (ev (LFreshEnd t CbTrue) RNone) (with_ph (with_nlk s NFree) (Decided t r0 WhyFresh))
| S_fresh_yes_cb s t r0 : ph s = Locked t r0 -> nlk s = NFresh t -> on_cb c = true ->
    step c s (ev (LFreshEnd t CbTrue) RNone) (count_notify (with_nlk s (NOnCb t true)))
| S_fresh_panic s t r0 : ph s = Locked t r0 -> nlk s = NFresh t ->
    step c s (ev (LFreshEnd t CbPanic) RPanic) (unwind_acq (poison_notifier (with_nlk s NFree)))
| S_oncb_end_check s t r0 : ph s = Locked t r0 -> nlk s = NOnCb t true ->
    step c s (ev (LOnCbEnd t false) RNone) (with_ph (with_nlk s NFree) (Decided t r0 WhyFresh))
| S_oncb_panic_check s t r0 : ph s = Locked t r0 -> nlk s = NOnCb t true ->
    step c s (ev (LOnCbEnd t true) RPanic) (unwind_acq (poison_notifier (with_nlk s NFree)))
| S_mark_empty s t r0 w : ph s = Decided t r0 w -> nlk s = NFree -> npois s = false -> cached s = None ->
    step c s (ev (LAcqMark t) RNone) (with_ph (with_flag s false) (PreCreate t r0 w))
| S_mark_some s t r0 w e : ph s = Decided t r0 w -> nlk s = NFree -> npois s = false -> cached s = Some e ->
    step c s (ev (LAcqMark t) RNone) (with_ph (with_flag s false) (Cleared t r0 w))
| S_mark_poisoned s t r0 w : ph s = Decided t r0 w -> nlk s = NFree -> npois s = true ->
    step c s (ev (LAcqMark t) RPanic) (unwind_acq s)
| S_fast_clear s t r0 w e : ph s = Cleared t r0 w -> nlk s = NFree -> npois s = false -> fast c = true -> cached s = Some e ->
    step c s (ev (LAcqFast t) (REnv {| gen := gen e; born := reqs s |}))
         (count_clear (with_ph (with_cached s {| gen := gen e; born := reqs s |}) (Holding t r0)))
| S_fast_off s t r0 w : ph s = Cleared t r0 w -> nlk s = NFree -> npois s = false -> fast c = false ->
    step c s (ev (LAcqFast t) RNone) (with_ph s (PreCreate t r0 w))
| S_fast_poisoned s t r0 w : ph s = Cleared t r0 w -> nlk s = NFree -> npois s = true ->
    step c s (ev (LAcqFast t) RPanic) (unwind_acq s)
| S_cre_start s t r0 w : ph s = PreCreate t r0 w ->
    step c s (ev (LCreStart t) RNone) (count_creator (with_ph s (Creating t r0 (reqs s) w)))
| S_cre_ok s t r0 b w : ph s = Creating t r0 b w ->
    step c s (ev (LCreEnd t true) (REnv {| gen := creator_calls s; born := b |}))
         (with_ph (with_cached s {| gen := creator_calls s; born := b |}) (Holding t r0))
| S_cre_err_fixed s t r0 b w : ph s = Creating t r0 b w -> restore c = true ->
    step c s (ev (LCreEnd t false) RNone) (with_ph s (Failing t r0))
| S_cre_err_unfixed s t r0 b w : ph s = Creating t r0 b w -> restore c = false ->
    step c s (ev (LCreEnd t false) RErr) (with_ph s Idle)
| S_cre_panic s t r0 b w : ph s = Creating t r0 b w ->
    step c s (ev (LCrePanic t) RPanic) (unwind_acq s)
| S_restore s t r0 : ph s = Failing t r0 -> nlk s = NFree -> npois s = false ->
    step c s (ev (LAcqRestore t) RErr) (with_ph (with_flag s true) Idle)
| S_restore_poisoned s t r0 : ph s = Failing t r0 -> nlk s = NFree -> npois s = true ->
    step c s (ev (LAcqRestore t) RPanic) (unwind_acq s)
| S_drop s t r0 e : ph s = Holding t r0 -> cached s = Some e ->
    step c s (ev (LDrop t) (REnv e)) (with_ph s Idle)
(* any thread that wants the notifier mutex while another one is inside a callback goes to sleep *)
| S_blocked s t h : nlk_holder (nlk s) = Some h -> h <> t ->
    step c s (ev (LBlocked t) RNone) s.

Inductive run (c : cfg) : st -> list event -> st -> Prop :=
| run_nil s : run c s [] s
| run_cons s e s' tr s'' : step c s e s' -> run c s' tr s'' -> run c s (e :: tr) s''.

(* ---- the same transition system as a function (this is what is extracted and fed with the
        implementation's traces); Proofs.v shows exec = step ---- *)
Definition nfree (s : st) : bool := match nlk s with NFree => true | _ => false end.

Definition exec (c : cfg) (s : st) (l : label) : option (st * ret) :=
  match l with
  | LReqSet t =>
      if nfree s then (if npois s then Some (creator_unwind s t, RPanic) else Some (count_request s, RNone)) else None
  | LReqNotify t entered =>
      if nfree s then
        if npois s then (if entered then None else Some (creator_unwind s t, RPanic))
        else if on_cb c then (if entered then Some (count_notify (with_nlk s (NOnCb t false)), RNone) else None)
        else (if entered then None else Some (s, RReq))
      else None
  | LOnCbEnd t panicked =>
      match nlk s with
      | NOnCb t' false =>
          if t =? t' then
            (if panicked then Some (creator_unwind (poison_notifier (with_nlk s NFree)) t, RPanic)
             else Some (with_nlk s NFree, RReq))
          else None
      | NOnCb t' true =>
          match ph s with
          | Locked t'' r0 =>
              if (t =? t') && (t =? t'') then
                (if panicked then Some (unwind_acq (poison_notifier (with_nlk s NFree)), RPanic)
                 else Some (with_ph (with_nlk s NFree) (Decided t r0 WhyFresh), RNone))
              else None
          | _ => None
          end
      | _ => None
      end
  | LAcqCache t =>
      match ph s with
      | Idle =>
          if cpois s then Some (s, RPanic) else
          match cached s with
          | None => Some (with_ph s (Decided t (reqs s) WhyEmpty), RNone)
          | Some _ => Some (with_ph s (Locked t (reqs s)), RNone)
          end
      | _ => None
      end
  | LAcqCheck t =>
      match ph s with
      | Locked t' r0 =>
          if negb ((t =? t') && nfree s) then None else
          if npois s then Some (unwind_acq s, RPanic) else
          if flag s then Some (with_ph s (Decided t r0 WhyFlag), RNone)
          else if fresh_cb c then Some (with_nlk s (NFresh t), RNone)
          else match cached s with Some e => Some (with_ph s (Holding t r0), REnv e) | None => None end
      | _ => None
      end
  | LFreshEnd t ans =>
      match ph s, nlk s with
      | Locked t' r0, NFresh t'' =>
          if negb ((t =? t') && (t =? t'')) then None else
          match ans with
          | CbPanic => Some (unwind_acq (poison_notifier (with_nlk s NFree)), RPanic)
          | CbTrue =>
              if on_cb c then Some (count_notify (with_nlk s (NOnCb t true)), RNone)
              else Some (with_ph (with_nlk s NFree) (Decided t r0 WhyFresh), RNone)
          | CbFalse =>
              match cached s with Some e => Some (with_ph (with_nlk s NFree) (Holding t r0), REnv e) | None => None end
          end
      | _, _ => None
      end
  | LAcqMark t =>
      match ph s with
      | Decided t' r0 w =>
          if negb ((t =? t') && nfree s) then None else
          if npois s then Some (unwind_acq s, RPanic) else
          match cached s with
          | None => Some (with_ph (with_flag s false) (PreCreate t r0 w), RNone)
          | Some _ => Some (with_ph (with_flag s false) (Cleared t r0 w), RNone)
          end
      | _ => None
      end
  | LAcqFast t =>
      match ph s with
      | Cleared t' r0 w =>
          if negb ((t =? t') && nfree s) then None else
          if npois s then Some (unwind_acq s, RPanic) else
          if fast c then
            match cached s with
            | Some e =>
                let e' := {| gen := gen e; born := reqs s |} in
                Some (count_clear (with_ph (with_cached s e') (Holding t r0)), REnv e')
            | None => None
            end
          else Some (with_ph s (PreCreate t r0 w), RNone)
      | _ => None
      end
  | LCreStart t =>
      match ph s with
      | PreCreate t' r0 w =>
          if negb (t =? t') then None else
          Some (count_creator (with_ph s (Creating t r0 (reqs s) w)), RNone)
      | _ => None
      end
  | LCreEnd t ok =>
      match ph s with
      | Creating t' r0 b w =>
          if negb (t =? t') then None else
          if ok then
            let e := {| gen := creator_calls s; born := b |} in
            Some (with_ph (with_cached s e) (Holding t r0), REnv e)
          else if restore c then Some (with_ph s (Failing t r0), RNone)
          else Some (with_ph s Idle, RErr)
      | _ => None
      end
  | LCrePanic t =>
      match ph s with
      | Creating t' r0 b w => if negb (t =? t') then None else Some (unwind_acq s, RPanic)
      | _ => None
      end
  | LAcqRestore t =>
      match ph s with
      | Failing t' r0 =>
          if negb ((t =? t') && nfree s) then None else
          if npois s then Some (unwind_acq s, RPanic) else Some (with_ph (with_flag s true) Idle, RErr)
      | _ => None
      end
  | LDrop t =>
      match ph s with
      | Holding t' r0 =>
          if negb (t =? t') then None else
          match cached s with Some e => Some (with_ph s Idle, REnv e) | None => None end
      | _ => None
      end
  | LBlocked t =>
      match nlk_holder (nlk s) with
      | Some h => if h =? t then None else Some (s, RNone)
      | None => None
      end
  end.

Definition env_eqb (a b : env) : bool := (gen a =? gen b) && (born a =? born b).
Definition ret_eqb (a b : ret) : bool :=
  match a, b with
  | RNone, RNone | RErr, RErr | RReq, RReq | RPanic, RPanic => true
  | REnv x, REnv y => env_eqb x y
  | _, _ => false
  end.

(* replay of an observed trace: [inl s] = accepted, final state s; [inr (i, r)] = event number i is not a
   step of the model (r = what the model returns at that step, RNone if the label itself is not enabled) *)
Fixpoint replay (c : cfg) (s : st) (i : Z) (tr : list event) : st + (Z * ret) :=
  match tr with
  | [] => inl s
  | e :: tr' =>
      match exec c s (lab e) with
      | None => inr (i, RNone)
      | Some (s', r) => if ret_eqb r (obs e) then replay c s' (i + 1) tr' else inr (i, r)
      end
  end.
