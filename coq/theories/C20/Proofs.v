(* C20 proofs: exec = step; the invariant; the three guarantees at state level and at trace level. *)
From MJ Require Import Common.Base C20.Model C20.Spec.

Ltac simp := cbn [flag reqs cached ph nlk cpois npois creator_calls clears notifies with_ph with_flag with_nlk with_cached
                  poison_cache poison_notifier unwind_acq panicked
                  count_request count_notify count_creator count_clear lab obs ev gen born] in *.

Lemma creator_unwind_cases s t :
  creator_unwind s t = s \/ (exists r0 b w, ph s = Creating t r0 b w /\ creator_unwind s t = unwind_acq s).
Proof.
  unfold creator_unwind. destruct (ph s); auto. destruct (Z.eqb_spec t t0); [subst; right; eauto | auto].
Qed.
(* case analysis on every [creator_unwind] in the goal *)
Ltac cu :=
  repeat match goal with
  | |- context [creator_unwind ?s ?t] =>
      let E := fresh "E" in let Hc := fresh "Hcre" in
      destruct (creator_unwind_cases s t) as [E | (? & ? & ? & Hc & E)]; rewrite E in *; clear E
  | _ : context [creator_unwind ?s ?t] |- _ =>
      let E := fresh "E" in let Hc := fresh "Hcre" in
      destruct (creator_unwind_cases s t) as [E | (? & ? & ? & Hc & E)]; rewrite E in *; clear E
  end.

(* ------------------------------------------------------------------------------------------ *)
(* exec is the step relation                                                                    *)
(* ------------------------------------------------------------------------------------------ *)
Lemma nfree_true s : nfree s = true -> nlk s = NFree.
Proof. unfold nfree; destruct (nlk s); congruence. Qed.

Ltac brk H :=
  repeat match type of H with
  | context [match ?x with _ => _ end] => destruct x eqn:?; try discriminate
  end.
Ltac norm :=
  repeat match goal with
  | H : negb _ = false |- _ => apply negb_false_iff in H
  | H : _ && _ = true |- _ => apply andb_prop in H; destruct H
  | H : (_ =? _) = true |- _ => apply Z.eqb_eq in H; subst
  | H : (_ =? _) = false |- _ => apply Z.eqb_neq in H
  | H : nfree _ = true |- _ => apply nfree_true in H
  end.

Lemma exec_to_step c s e s' : exec c s (lab e) = Some (s', obs e) -> step c s e s'.
Proof.
  destruct e as [l o]; cbn [lab obs]. intros H.
  destruct l; cbn [exec] in H; brk H; inversion H; subst; clear H; norm;
    try solve [econstructor; eauto].
Qed.

Lemma step_to_exec c s e s' : step c s e s' -> exec c s (lab e) = Some (s', obs e).
Proof.
  intros H; destruct H; cbn [lab obs ev exec]; unfold nfree;
    repeat match goal with H : _ = _ |- _ => rewrite H end;
    rewrite ?Z.eqb_refl; cbn [negb andb]; try reflexivity.
  destruct (Z.eqb_spec h t); [congruence | reflexivity].
Qed.

Lemma exec_step_iff c s e s' : exec c s (lab e) = Some (s', obs e) <-> step c s e s'.
Proof. split; [apply exec_to_step | apply step_to_exec]. Qed.

Lemma env_eqb_eq a b : env_eqb a b = true <-> a = b.
Proof.
  destruct a as [g1 b1], b as [g2 b2]; unfold env_eqb; cbn [gen born]. split.
  - intros H. apply andb_prop in H as [H1 H2]. apply Z.eqb_eq in H1, H2. congruence.
  - intros H; inversion H; subst. rewrite !Z.eqb_refl. reflexivity.
Qed.
Lemma ret_eqb_eq a b : ret_eqb a b = true <-> a = b.
Proof.
  destruct a, b; cbn [ret_eqb]; split; intros H; try discriminate; try reflexivity.
  - apply env_eqb_eq in H. congruence.
  - apply env_eqb_eq. congruence.
Qed.

(* an accepted trace is a run of the model, and conversely *)
Lemma replay_run c : forall tr s i s', replay c s i tr = inl s' -> run c s tr s'.
Proof.
  induction tr as [|e tr IH]; intros s i s' H; cbn [replay] in H.
  - inversion H; constructor.
  - destruct (exec c s (lab e)) as [[s1 r]|] eqn:E; [|discriminate].
    destruct (ret_eqb r (obs e)) eqn:R; [|discriminate].
    apply ret_eqb_eq in R; subst r. econstructor; [apply exec_to_step; eassumption | eapply IH; eassumption].
Qed.
Lemma run_replay c : forall tr s i s', run c s tr s' -> replay c s i tr = inl s'.
Proof.
  induction tr as [|e tr IH]; intros s i s' H; inversion H; subst; cbn [replay]; [reflexivity|].
  match goal with H : step _ _ _ _ |- _ => apply step_to_exec in H; rewrite H end.
  replace (ret_eqb (obs e) (obs e)) with true by (symmetry; apply ret_eqb_eq; reflexivity).
  apply IH; assumption.
Qed.

Lemma run_app c : forall a b s s'', run c s (a ++ b) s'' <-> exists s', run c s a s' /\ run c s' b s''.
Proof.
  induction a as [|e a IH]; intros b s s''; cbn [app].
  - split; [intros H; exists s; split; [constructor | assumption] | intros (s' & H1 & H2); inversion H1; subst; assumption].
  - split.
    + intros H; inversion H; subst. apply IH in H5 as (s1 & Ha & Hb). exists s1; split; [econstructor; eassumption | assumption].
    + intros (s1 & Ha & Hb). inversion Ha; subst. econstructor; [eassumption|]. apply IH. eexists; split; eassumption.
Qed.

(* ------------------------------------------------------------------------------------------ *)
(* the invariant                                                                                *)
(* ------------------------------------------------------------------------------------------ *)
Definition quiescent_ok (s : st) : Prop :=
  flag s = false -> forall e, cached s = Some e -> born e = reqs s.

(* as long as the cache mutex is not poisoned ... (a panic leaves the flag cleared and the old
   environment cached: from then on it is the poison that keeps it from being handed out, Inv3) *)
Definition Inv (s : st) : Prop :=
  (forall e, cached s = Some e -> born e <= reqs s) /\
  (cpois s = false ->
   match ph s with
   | Idle => quiescent_ok s
   | Locked _ r0 => quiescent_ok s /\ r0 <= reqs s /\ cached s <> None
   | Holding _ r0 => quiescent_ok s /\ r0 <= reqs s /\ exists e, cached s = Some e /\ r0 <= born e
   | Decided _ r0 _ | PreCreate _ r0 _ | Failing _ r0 => r0 <= reqs s
   | Cleared _ r0 _ => r0 <= reqs s /\ cached s <> None
   | Creating _ r0 b _ => b <= reqs s /\ (flag s = false -> b = reqs s) /\ r0 <= b
   end).

Lemma inv_init : Inv init.
Proof. unfold Inv, quiescent_ok; cbn. split; intros; discriminate. Qed.

(* the flag is clear and nobody can set it while a thread is inside the freshness callback
   (the notifier mutex is held): needed to hand out the cached environment when the callback says "fresh" *)
Definition Inv2 (s : st) : Prop :=
  match nlk s with
  | NFresh t | NOnCb t true => flag s = false /\ exists r0, ph s = Locked t r0
  | _ => True
  end.

(* once the cache mutex is poisoned nobody holds it any more, and nobody ever will *)
Definition Inv3 (s : st) : Prop := cpois s = true -> ph s = Idle.

Lemma inv2_init : Inv2 init.
Proof. exact I. Qed.
Lemma inv3_init : Inv3 init.
Proof. intros H; discriminate. Qed.

Lemma inv3_step c s e s' : Inv3 s -> step c s e s' -> Inv3 s'.
Proof.
  intros Hi Hs; unfold Inv3 in *; destruct Hs; cu; simp; try reflexivity; try assumption; intros Hp;
    try (specialize (Hi Hp); congruence); try reflexivity; try discriminate.
Qed.

Lemma inv2_step c s e s' : Inv2 s -> step c s e s' -> Inv2 s'.
Proof.
  intros Hi Hs; destruct Hs; cu; unfold Inv2 in *; simp;
    repeat match goal with H : nlk _ = _ |- _ => rewrite H in *; clear H end; simp;
    try exact I.
  all: try (destruct (nlk s) as [|?|? []]; try exact I; destruct Hi as (Hf & r & Hp); try congruence).
  all: try (split; [assumption | eauto]).
Qed.

Lemma inv_step c s e s' : restore c = true -> Inv s -> Inv2 s -> Inv3 s -> step c s e s' -> Inv s'.
Proof.
  intros Hfix [Hle Hq] Hi2 Hi3 Hs. unfold Inv3 in Hi3.
  assert (Hnp : ph s <> Idle -> cpois s = false) by (destruct (cpois s); [intros Hn; elim Hn; auto | reflexivity]).
  destruct Hs; cu; unfold Inv, quiescent_ok in *; simp;
    try solve [split; [assumption | intros; discriminate]];
    (split; [| intros Hcp; specialize (Hq Hcp)]);
    repeat match goal with H : ph _ = _ |- _ => rewrite H in *; clear H end;
    try assumption; try lia; try tauto; try congruence.
  - (* request: flag set *) intros e He; specialize (Hle e He); lia.
  - destruct (ph s);
      repeat match goal with H : _ /\ _ |- _ => destruct H | H : exists _, _ |- _ => destruct H end;
      repeat split; try lia; try (intros; discriminate); eauto.
  - (* lock, cache full *) repeat split; try assumption; try lia. congruence.
  - (* keep *) destruct Hq as (Hq & Hr & Hc). repeat split; try assumption.
    match goal with Hf : flag s = false, Hc : cached s = Some ?e |- _ =>
      exists e; split; [assumption|]; rewrite (Hq Hf e Hc); assumption end.
  - (* freshness callback says fresh: the flag is still clear, the mutex was held all the time *)
    destruct Hq as (Hq & Hr & Hc).
    unfold Inv2 in Hi2. match goal with Hn : nlk s = NFresh _ |- _ => rewrite Hn in Hi2 end. destruct Hi2 as (Hf & _).
    repeat split; try assumption.
    match goal with Hc : cached s = Some ?e |- _ => exists e; split; [assumption|]; rewrite (Hq Hf e Hc); assumption end.
  - (* flag reset, cache full *) split; [assumption | congruence].
  - (* fast reload: clear *) intros e' He'; inversion He'; subst; cbn; lia.
  - destruct Hq as (Hr & Hc). repeat split; try assumption.
    + intros _ e' He'; inversion He'; subst; reflexivity.
    + eexists; split; [reflexivity | cbn; assumption].
  - (* creator ok *) intros e' He'; inversion He'; subst; cbn.
    assert (Hcp : cpois s = false) by (apply Hnp; discriminate). specialize (Hq Hcp). lia.
  - destruct Hq as (Hb & Hf & Hr). repeat split; try lia.
    + intros Hfl e' He'; inversion He'; subst; cbn. auto.
    + eexists; split; [reflexivity | cbn; assumption].
Qed.

Definition Invs (s : st) : Prop := Inv s /\ Inv2 s /\ Inv3 s.
Lemma invs_init : Invs init.
Proof. split; [exact inv_init | split; [exact inv2_init | exact inv3_init]]. Qed.
Lemma invs_step c s e s' : restore c = true -> Invs s -> step c s e s' -> Invs s'.
Proof.
  intros Hfix (H1 & H2 & H3) Hs.
  split; [eapply inv_step; eassumption | split; [eapply inv2_step; eassumption | eapply inv3_step; eassumption]].
Qed.
Lemma invs_run c : restore c = true -> forall tr s s', Invs s -> run c s tr s' -> Invs s'.
Proof.
  intros Hfix tr; induction tr as [|e tr IH]; intros s s' Hi Hr; inversion Hr; subst; [assumption|].
  eapply IH; [eapply invs_step; eassumption | eassumption].
Qed.
(* ------------------------------------------------------------------------------------------ *)
(* no lost request                                                                              *)
(* ------------------------------------------------------------------------------------------ *)
Lemma inv3_false s : Inv3 s -> ph s <> Idle -> cpois s = false.
Proof. unfold Inv3. destruct (cpois s); [intros H Hn; elim Hn; auto | reflexivity]. Qed.

Definition owner_r0 (p : phase) : option (Z * Z) :=
  match p with
  | Idle => None
  | Locked t r | Decided t r _ | Cleared t r _ | PreCreate t r _ | Creating t r _ _ | Failing t r | Holding t r => Some (t, r)
  end.
Lemma owner_none p : owner_r0 p = None -> p = Idle.
Proof. destruct p; cbn; congruence. Qed.

Definition is_cache (l : label) : bool := match l with LAcqCache _ => true | _ => false end.
Definition is_set (e : event) : bool := match lab e with LReqSet _ => negb (panicked e) | _ => false end.
Definition count_sets (tr : list event) : Z := lenZ (filter is_set tr).

(* state level: the environment handed out is at least as new as every request completed when
   this acquire took the cache mutex *)
Lemma handed_out_fresh c s e s' t r0 :
  restore c = true -> Invs s -> step c s e s' -> ph s' = Holding t r0 ->
  exists en, cached s' = Some en /\ r0 <= born en.
Proof.
  intros Hfix Hi Hs Hp. pose proof (invs_step _ _ _ _ Hfix Hi Hs) as ([_ Hq] & _ & H3).
  assert (Hcp : cpois s' = false) by (apply inv3_false; [assumption | congruence]).
  specialize (Hq Hcp). rewrite Hp in Hq. tauto.
Qed.

Lemma reqs_step c s e s' : step c s e s' -> reqs s' = reqs s + (if is_set e then 1 else 0).
Proof. intros H; destruct H; cu; unfold is_set; simp; cbn [negb]; lia. Qed.

Lemma reqs_run c : forall tr s s', run c s tr s' -> reqs s' = reqs s + count_sets tr.
Proof.
  induction tr as [|e tr IH]; intros s s' H; inversion H; subst.
  - unfold count_sets; cbn; lia.
  - apply IH in H5. apply reqs_step in H3. unfold count_sets, lenZ in *. cbn [filter].
    destruct (is_set e); cbn [length] in *; lia.
Qed.

Lemma keep_owner c s e s' : step c s e s' -> is_cache (lab e) = false ->
  owner_r0 (ph s') = owner_r0 (ph s) \/ ph s' = Idle.
Proof.
  intros H Hc; destruct H; cu; simp; cbn [is_cache] in Hc; try discriminate;
    repeat match goal with H : ph _ = _ |- _ => rewrite H end; cbn [owner_r0]; auto.
Qed.

Lemma keep_owner_run c : forall tr s s', run c s tr s' -> forallb (fun e => negb (is_cache (lab e))) tr = true ->
  owner_r0 (ph s') = owner_r0 (ph s) \/ ph s' = Idle.
Proof.
  induction tr as [|e tr IH]; intros s s' H Hf; inversion H; subst; [auto|].
  cbn [forallb] in Hf. apply andb_prop in Hf as [He Hf]. apply negb_true_iff in He.
  specialize (IH _ _ H5 Hf). destruct (keep_owner _ _ _ _ H3 He) as [E|E].
  - rewrite <- E. assumption.
  - rewrite E in IH. cbn in IH. destruct IH as [IH|IH]; [right; apply owner_none; assumption | auto].
Qed.

Lemma hand_out c s e s' en : step c s e s' -> obs e = REnv en -> is_drop (lab e) = false ->
  exists r0, ph s' = Holding (tid_of (lab e)) r0 /\ cached s' = Some en.
Proof.
  intros H Ho Hd; destruct H; cu; simp; cbn [is_drop] in *; try discriminate; inversion Ho; subst;
    cbn [tid_of]; eauto.
Qed.

Lemma no_lost_request_proof c tr1 t tr2 e en s :
  restore c = true ->
  run c init (tr1 ++ ev (LAcqCache t) RNone :: tr2 ++ [e]) s ->
  forallb (fun x => negb (is_cache (lab x))) (tr2 ++ [e]) = true ->
  is_drop (lab e) = false -> obs e = REnv en ->
  tid_of (lab e) = t /\ count_sets tr1 <= born en.
Proof.
  intros Hfix Hrun Hnc Hnd Hobs.
  apply run_app in Hrun as (s1 & R1 & Hrun). inversion Hrun as [|? ? s2 ? ? Hlock Hrest]; subst.
  pose proof (reqs_run _ _ _ _ R1) as Hreq. cbn in Hreq.
  assert (Ho2 : owner_r0 (ph s2) = Some (t, count_sets tr1)).
  { inversion Hlock; subst; simp; cbn [owner_r0]; rewrite Hreq; reflexivity. }
  pose proof (keep_owner_run _ _ _ _ Hrest Hnc) as Hown.
  assert (Hinv_end : Invs s).
  { eapply invs_run; [exact Hfix | | exact Hrest]. eapply invs_step; [exact Hfix | | exact Hlock].
    eapply invs_run; [exact Hfix | exact invs_init | exact R1]. }
  apply run_app in Hrest as (s3 & R2 & Rlast). inversion Rlast as [|? ? s4 ? ? Hstep Hnil]; subst. inversion Hnil; subst.
  destruct (hand_out _ _ _ _ _ Hstep Hobs Hnd) as (r0 & Hph & Hc).
  rewrite Hph, Ho2 in Hown. cbn [owner_r0] in Hown. destruct Hown as [E|E]; [|discriminate].
  inversion E; subst. split; [reflexivity|].
  destruct Hinv_end as ([_ Hq] & _ & H3).
  assert (Hcp : cpois s = false) by (apply inv3_false; [assumption | congruence]).
  specialize (Hq Hcp). rewrite Hph in Hq. destruct Hq as (_ & _ & en' & Hc' & Hb).
  rewrite Hc in Hc'. inversion Hc'; subst. assumption.
Qed.

(* trace checker of Spec.v: every run of the model passes it *)
Definition nlR (s : st) (x : Spec.nl) : Prop :=
  nset x = reqs s /\ retmax x <= nset x /\
  (forall t i, lookup t (pend x) = Some i -> i <= nset x) /\
  (forall t r0, owner_r0 (ph s) = Some (t, r0) -> exists r, lookup t (need x) = Some r /\ r <= r0).

Lemma nlR_init : nlR init nl_init.
Proof. unfold nlR; cbn. repeat split; try lia; intros; discriminate. Qed.

Lemma nl_sim c s e s' x : restore c = true -> Invs s -> nlR s x -> step c s e s' ->
  exists x', nl_step x e = Some x' /\ nlR s' x'.
Proof.
  intros Hfix Hi (Hn & Hm & Hp & Ho) Hs.
  assert (Hi' : forall t r0, ph s' = Holding t r0 -> exists en, cached s' = Some en /\ r0 <= born en)
    by (intros; eapply handed_out_fresh; eassumption).
  destruct Hs; cu; unfold nl_step, nl_lab; simp; cbn [tid_of is_drop];
    try (match goal with H : ph s = _ |- _ => rewrite H in Ho; cbn [owner_r0] in Ho end).
  all: try congruence.
  all: try solve [exists x; split; [reflexivity|]; unfold nlR; simp;
                  repeat match goal with H : ph _ = _ |- _ => rewrite H end; cbn [owner_r0];
                  repeat split; try assumption; try (intros; discriminate)].
  - (* set *) eexists; split; [reflexivity|]. unfold nlR; simp; cbn [nset pend retmax need].
    repeat split; try lia; [|assumption].
    intros t' i; cbn [lookup]. destruct (t =? t'); [intros E; inversion E; lia | intros E; apply Hp in E; lia].
  - (* request returns *) eexists; split; [reflexivity|]. unfold nlR; simp; cbn [nset pend retmax need].
    repeat split; try assumption.
    destruct (lookup t (pend x)) eqn:L; [apply Hp in L; lia | assumption].
  - (* request returns from the callback *) eexists; split; [reflexivity|]. unfold nlR; simp; cbn [nset pend retmax need].
    repeat split; try assumption.
    destruct (lookup t (pend x)) eqn:L; [apply Hp in L; lia | assumption].
  - (* lock empty *) eexists; split; [reflexivity|]. unfold nlR; simp; cbn [nset pend retmax need owner_r0].
    repeat split; try assumption. intros t' r0 E; inversion E; subst. exists (retmax x). cbn [lookup]. rewrite Z.eqb_refl. split; [reflexivity | lia].
  - (* lock some *) eexists; split; [reflexivity|]. unfold nlR; simp; cbn [nset pend retmax need owner_r0].
    repeat split; try assumption. intros t' r0 E; inversion E; subst. exists (retmax x). cbn [lookup]. rewrite Z.eqb_refl. split; [reflexivity | lia].
  - (* keep *) destruct (Ho t r0 eq_refl) as (r & Hl & Hr). rewrite Hl.
    destruct (Hi' t r0 eq_refl) as (e' & Hc & Hb). match goal with Hx : cached s = Some e |- _ => rewrite Hx in Hc end. inversion Hc; subst e'.
    replace (r <=? born e) with true by lia. exists x; split; [reflexivity|]. unfold nlR; simp; cbn [owner_r0]. auto.
  - (* callback says fresh *) destruct (Ho t r0 eq_refl) as (r & Hl & Hr). rewrite Hl.
    destruct (Hi' t r0 eq_refl) as (e' & Hc & Hb). match goal with Hx : cached s = Some e |- _ => rewrite Hx in Hc end. inversion Hc; subst e'.
    replace (r <=? born e) with true by lia. exists x; split; [reflexivity|]. unfold nlR; simp; cbn [owner_r0]. auto.
  - (* fast clear *) destruct (Ho t r0 eq_refl) as (r & Hl & Hr). rewrite Hl.
    destruct (Hi' t r0 eq_refl) as (e' & Hc & Hb). inversion Hc; subst e'. cbn [born] in *.
    replace (r <=? reqs s) with true by lia. exists x; split; [reflexivity|]. unfold nlR; simp; cbn [owner_r0]. auto.
  - (* creator ok *) destruct (Ho t r0 eq_refl) as (r & Hl & Hr). rewrite Hl.
    destruct (Hi' t r0 eq_refl) as (e' & Hc & Hb'). inversion Hc; subst e'. cbn [born] in *.
    replace (r <=? b) with true by lia. exists x; split; [reflexivity|]. unfold nlR; simp; cbn [owner_r0]. auto.
Qed.

Lemma nl_sound c : restore c = true -> forall tr s s' x, Invs s -> nlR s x -> run c s tr s' -> nl_check x tr = true.
Proof.
  intros Hfix tr; induction tr as [|e tr IH]; intros s s' x Hi Hr Hrun; [reflexivity|].
  inversion Hrun as [|? ? s1 ? ? H3 H5]; subst. destruct (nl_sim _ _ _ _ _ Hfix Hi Hr H3) as (x' & E & Hr').
  cbn [nl_check]. rewrite E. eapply IH; [eapply invs_step; eassumption | eassumption | eassumption].
Qed.

Lemma no_lost_trace_proof c tr s : restore c = true -> run c init tr s -> no_lost_ok tr = true.
Proof. intros Hfix H. eapply nl_sound; [exact Hfix | exact invs_init | exact nlR_init | exact H]. Qed.

(* ------------------------------------------------------------------------------------------ *)
(* guard excludes                                                                               *)
(* ------------------------------------------------------------------------------------------ *)
Lemma guard_excludes_proof c s e s' t r0 : step c s e s' -> ph s = Holding t r0 ->
  cached s' = cached s /\ creator_calls s' = creator_calls s /\ clears s' = clears s /\
  (ph s' = Holding t r0 \/ (lab e = LDrop t /\ ph s' = Idle)).
Proof.
  intros H Hp; destruct H; cu; simp; try congruence; auto 10.
  rewrite Hp in H. inversion H; subst. auto 10.
Qed.

Definition gR (s : st) (h : option (Z * env)) : Prop :=
  match h with
  | None => forall t r0, ph s <> Holding t r0
  | Some (t, en) => (exists r0, ph s = Holding t r0) /\ cached s = Some en
  end.

Lemma g_sim c s e s' h : gR s h -> step c s e s' -> exists h', g_step h e = Some h' /\ gR s' h'.
Proof.
  intros Hg Hs. destruct h as [[ht hen]|]; cbn [gR] in Hg.
  - destruct Hg as ((hr & Hp) & Hc).
    destruct Hs; cu; unfold g_step; simp; cbn [tid_of]; try congruence;
      try (eexists; split; [reflexivity|]; cbn [gR]; simp; split; [eexists; eassumption | assumption]).
    rewrite Hp in H; inversion H; subst. rewrite Hc in H0; inversion H0; subst.
    rewrite Z.eqb_refl. replace (env_eqb e e) with true by (symmetry; apply env_eqb_eq; reflexivity).
    eexists; split; [reflexivity|]. cbn [gR]; simp. intros; discriminate.
  - destruct Hs; cu; unfold g_step; simp; cbn [tid_of];
      try (eexists; split; [reflexivity|]; cbn [gR]; simp);
      try solve [assumption | intros; discriminate | intros ? ?; rewrite H; discriminate
                | split; [eexists; reflexivity | assumption]
                | split; [eexists; reflexivity | reflexivity]].
    exfalso. eapply Hg; eassumption.
Qed.

Lemma g_sound c : forall tr s s' h, gR s h -> run c s tr s' -> g_check h tr = true.
Proof.
  induction tr as [|e tr IH]; intros s s' h Hg Hrun; [reflexivity|].
  inversion Hrun as [|? ? s1 ? ? H3 H5]; subst. destruct (g_sim _ _ _ _ _ Hg H3) as (h' & E & Hg').
  cbn [g_check]. rewrite E. eapply IH; eassumption.
Qed.

Lemma guard_trace_proof c tr s : run c init tr s -> guard_ok tr = true.
Proof. intros H. eapply g_sound; [|exact H]. cbn. intros; discriminate. Qed.

(* ------------------------------------------------------------------------------------------ *)
(* the notifier mutex: callbacks are atomic for the notifier state                              *)
(* ------------------------------------------------------------------------------------------ *)
Lemma notifier_excludes_proof c s e s' h : step c s e s' -> nlk_holder (nlk s) = Some h ->
  (flag s' = flag s /\ reqs s' = reqs s /\ nlk s' = nlk s) \/
  (flag s' = flag s /\ reqs s' = reqs s /\ tid_of (lab e) = h /\
   ((exists p, lab e = LOnCbEnd h p) \/ exists a, lab e = LFreshEnd h a)).
Proof.
  intros H Hh; destruct H; cu; simp;
    repeat match goal with H : nlk _ = _ |- _ => rewrite H in Hh; clear H end;
    cbn [nlk_holder] in Hh; try discriminate; try (inversion Hh; subst); cbn [tid_of];
    try solve [left; repeat split; reflexivity]; right; repeat split; eauto.
Qed.

(* a request that is not blocked takes effect *)
Lemma request_takes_effect_proof c s e s' t : step c s e s' -> lab e = LReqSet t ->
  nlk s = NFree /\
  ((npois s = false /\ obs e = RNone /\ flag s' = true /\ reqs s' = reqs s + 1) \/ (npois s = true /\ obs e = RPanic)).
Proof. intros H Hl; destruct H; simp; try discriminate; auto 8. Qed.

(* a blocked attempt changes nothing, and only happens while another thread is inside a callback *)
Lemma blocked_is_stutter_proof c s e s' t : step c s e s' -> lab e = LBlocked t ->
  s' = s /\ exists h, nlk_holder (nlk s) = Some h /\ h <> t.
Proof. intros H Hl; destruct H; simp; try discriminate. inversion Hl; subst. eauto. Qed.

(* ------------------------------------------------------------------------------------------ *)
(* no spurious rebuild                                                                          *)
(* ------------------------------------------------------------------------------------------ *)
Lemma no_spurious_rebuild_proof c s e s' :
  step c s e s' -> creator_calls s' <> creator_calls s \/ clears s' <> clears s ->
  exists t r0 w, ph s = PreCreate t r0 w \/ ph s = Cleared t r0 w.
Proof.
  intros H Hd; destruct H; cu; simp; try (exfalso; lia); eauto.
Qed.

(* the reason recorded when an acquire decides to reload is true at that moment *)
Lemma decided_justified_proof c s e s' t r0 w :
  step c s e s' -> ph s' = Decided t r0 w -> (forall w', ph s <> Decided t r0 w') ->
  match w with
  | WhyEmpty => cached s = None
  | WhyFlag => flag s = true
  | WhyFresh => lab e = LFreshEnd t CbTrue \/ (lab e = LOnCbEnd t false /\ nlk s = NOnCb t true)
  end.
Proof.
  intros H Hp Hn; destruct H; cu; simp; try congruence;
    try (inversion Hp; subst; assumption); try (inversion Hp; subst; auto).
Qed.

(* the on-should-reload callback is only entered from should_reload after the freshness callback said "stale" *)
Lemma oncb_from_check_justified_proof c s e s' t :
  step c s e s' -> nlk s' = NOnCb t true -> nlk s <> NOnCb t true -> lab e = LFreshEnd t CbTrue.
Proof.
  intros H Hp Hn; destruct H; cu; simp; try congruence; try (inversion Hp; subst; reflexivity).
Qed.

(* a reload is only ever started from a decision *)
Lemma precreate_from_decision c s e s' t r0 w :
  step c s e s' -> (ph s' = PreCreate t r0 w \/ ph s' = Cleared t r0 w) ->
  ph s = PreCreate t r0 w \/ ph s = Cleared t r0 w \/ ph s = Decided t r0 w.
Proof.
  intros H Hp; destruct H; cu; simp; destruct Hp as [Hp|Hp]; try congruence;
    try (inversion Hp; subst; tauto); tauto.
Qed.

Definition spR (s : st) (x : sp) : Prop :=
  pending x = flag s /\ have_env x = (if cached s then true else false) /\
  match ph s with
  | Decided _ _ _ | Cleared _ _ _ | PreCreate _ _ _ => just x = true
  | _ => True
  end /\
  match nlk s with NOnCb _ true => just x = true | _ => True end.

Lemma sp_sim c s e s' x : Inv2 s -> spR s x -> step c s e s' -> exists x', sp_step x e = Some x' /\ spR s' x'.
Proof.
  intros Hi2 (Hp & Hh & Hj & Hk) Hs. unfold Inv2 in Hi2.
  destruct Hs; cu; unfold sp_step; simp;
    try (match goal with H : nlk s = _ |- _ => rewrite H in Hk, Hi2 end);
    try (match goal with H : ph s = _ |- _ => rewrite H in Hj end);
    try rewrite Hj; try rewrite Hk;
    (eexists; split; [reflexivity|]);
    unfold spR; simp; cbn [pending have_env just];
    repeat match goal with H : cached s = _ |- _ => rewrite H in * end;
    repeat match goal with H : ph s = _ |- _ => rewrite H in * end;
    repeat match goal with H : nlk s = _ |- _ => rewrite H in * end;
    try rewrite Hh; try rewrite Hp;
    repeat match goal with H : flag s = _ |- _ => rewrite H in * end;
    rewrite ?orb_true_r, ?orb_false_r; cbn [negb orb];
    try solve [repeat split; auto | destruct (ph s); repeat split; auto].
  all: destruct (nlk s) as [|?|? []]; repeat split; auto; destruct Hi2 as (_ & ? & Hc); discriminate.
Qed.

Lemma sp_sound c : forall tr s s' x, Inv2 s -> spR s x -> run c s tr s' -> sp_check x tr = true.
Proof.
  induction tr as [|e tr IH]; intros s s' x Hi Hg Hrun; [reflexivity|].
  inversion Hrun as [|? ? s1 ? ? H3 H5]; subst. destruct (sp_sim _ _ _ _ _ Hi Hg H3) as (x' & E & Hg').
  cbn [sp_check]. rewrite E. eapply IH; [eapply inv2_step; eassumption | eassumption | eassumption].
Qed.

Lemma no_spurious_trace_proof c tr s : run c init tr s -> no_spurious_ok tr = true.
Proof. intros H. eapply sp_sound; [exact inv2_init | | exact H]. unfold spR; cbn. auto. Qed.

Lemma spec_holds_proof c tr s : restore c = true -> run c init tr s -> spec_ok tr = true.
Proof.
  intros Hfix H. unfold spec_ok.
  rewrite (no_lost_trace_proof _ _ _ Hfix H), (guard_trace_proof _ _ _ H), (no_spurious_trace_proof _ _ _ H). reflexivity.
Qed.


(* ------------------------------------------------------------------------------------------ *)
(* panics and poisoning                                                                         *)
(* ------------------------------------------------------------------------------------------ *)
(* a panicking creator / callback inside acquire_env poisons the cache mutex *)
Lemma panic_poisons_proof c s e s' t :
  step c s e s' -> (lab e = LCrePanic t \/ lab e = LFreshEnd t CbPanic) -> cpois s' = true /\ ph s' = Idle /\ obs e = RPanic.
Proof. intros H Hl; destruct H; cu; simp; destruct Hl as [Hl|Hl]; try discriminate; auto. Qed.

(* a panic does not restore the reload flag *)
Lemma panic_keeps_flag_proof c s e s' : step c s e s' -> obs e = RPanic -> flag s' = flag s /\ cached s' = cached s /\ reqs s' = reqs s.
Proof. intros H Ho; destruct H; cu; simp; try discriminate; auto. Qed.

(* once the cache mutex is poisoned it stays poisoned and no step hands out an environment *)
Lemma poisoned_step c s e s' : Inv3 s -> cpois s = true -> step c s e s' ->
  cpois s' = true /\ forall en, obs e <> REnv en.
Proof.
  intros Hi Hp Hs. pose proof (Hi Hp) as Hidle.
  destruct Hs; cu; simp; try congruence; (split; [assumption || reflexivity | intros en; discriminate]).
Qed.

Lemma poisoned_run c : forall tr s s', Inv3 s -> cpois s = true -> run c s tr s' ->
  forall e en, In e tr -> obs e <> REnv en.
Proof.
  induction tr as [|e tr IH]; intros s s' Hi Hp Hrun x en Hin; [destruct Hin|].
  inversion Hrun as [|? ? s1 ? ? H3 H5]; subst.
  destruct (poisoned_step _ _ _ _ Hi Hp H3) as [Hp' Hne].
  destruct Hin as [<-|Hin]; [apply Hne|].
  eapply IH; [eapply inv3_step; eassumption | exact Hp' | exact H5 | exact Hin].
Qed.

Lemma inv3_run c : forall tr s s', Inv3 s -> run c s tr s' -> Inv3 s'.
Proof.
  induction tr as [|e tr IH]; intros s s' Hi Hr; inversion Hr; subst; [assumption|].
  eapply IH; [eapply inv3_step; eassumption | eassumption].
Qed.

(* after a creator (or freshness callback) panicked inside acquire_env, no environment - in particular
   no stale one - is ever handed out again, whatever the threads do *)
Lemma no_env_after_panic_proof c tr1 p tr2 s t :
  run c init (tr1 ++ p :: tr2) s -> (lab p = LCrePanic t \/ lab p = LFreshEnd t CbPanic) ->
  forall e en, In e tr2 -> obs e <> REnv en.
Proof.
  intros Hrun Hl. apply run_app in Hrun as (s1 & R1 & Hrun). inversion Hrun as [|? ? s2 ? ? Hstep Hrest]; subst.
  destruct (panic_poisons_proof _ _ _ _ _ Hstep Hl) as (Hp & _ & _).
  eapply poisoned_run; [| exact Hp | exact Hrest].
  eapply inv3_step; [| exact Hstep]. eapply inv3_run; [exact inv3_init | exact R1].
Qed.

(* ------------------------------------------------------------------------------------------ *)
(* concrete traces                                                                              *)
(* ------------------------------------------------------------------------------------------ *)
Definition mk_env (g b : Z) : ret := REnv {| gen := g; born := b |}.

Definition cfg_fixed : cfg := {| fast := false; fresh_cb := false; on_cb := false; restore := true |}.
Definition cfg_before_fix : cfg := {| fast := false; fresh_cb := false; on_cb := false; restore := false |}.
Definition cfg_fresh : cfg := {| fast := false; fresh_cb := true; on_cb := false; restore := true |}.

(* one thread: acquire; request_reload; acquire whose creator fails; acquire *)
Definition lost_trace : list event :=
  [ ev (LAcqCache 0) RNone; ev (LAcqMark 0) RNone; ev (LCreStart 0) RNone; ev (LCreEnd 0 true) (mk_env 1 0); ev (LDrop 0) (mk_env 1 0);
    ev (LReqSet 0) RNone; ev (LReqNotify 0 false) RReq;
    ev (LAcqCache 0) RNone; ev (LAcqCheck 0) RNone; ev (LAcqMark 0) RNone; ev (LAcqFast 0) RNone;
    ev (LCreStart 0) RNone; ev (LCreEnd 0 false) RErr;
    ev (LAcqCache 0) RNone; ev (LAcqCheck 0) (mk_env 1 0) ].

Lemma lost_request_refuted_before_fix_proof :
  exists tr s, run cfg_before_fix init tr s /\ no_lost_ok tr = false /\
               flag s = false /\ reqs s = 1 /\ cached s = Some {| gen := 1; born := 0 |}.
Proof.
  exists lost_trace.
  destruct (replay cfg_before_fix init 0 lost_trace) as [s|p] eqn:E; [|vm_compute in E; discriminate].
  exists s. split; [eapply replay_run; exact E|].
  vm_compute in E. inversion E; subst. vm_compute. auto.
Qed.

(* the same schedule on the fixed code: the failed acquire restores the flag, the next one rebuilds *)
Definition retry_trace : list event :=
  [ ev (LAcqCache 0) RNone; ev (LAcqMark 0) RNone; ev (LCreStart 0) RNone; ev (LCreEnd 0 true) (mk_env 1 0); ev (LDrop 0) (mk_env 1 0);
    ev (LReqSet 0) RNone; ev (LReqNotify 0 false) RReq;
    ev (LAcqCache 0) RNone; ev (LAcqCheck 0) RNone; ev (LAcqMark 0) RNone; ev (LAcqFast 0) RNone;
    ev (LCreStart 0) RNone; ev (LCreEnd 0 false) RNone; ev (LAcqRestore 0) RErr;
    ev (LAcqCache 0) RNone; ev (LAcqCheck 0) RNone; ev (LAcqMark 0) RNone; ev (LAcqFast 0) RNone;
    ev (LCreStart 0) RNone; ev (LCreEnd 0 true) (mk_env 3 1) ].

Lemma retry_after_failure_proof : exists s, run cfg_fixed init retry_trace s /\ cached s = Some {| gen := 3; born := 1 |}.
Proof.
  destruct (replay cfg_fixed init 0 retry_trace) as [s|p] eqn:E; [|vm_compute in E; discriminate].
  exists s. split; [eapply replay_run; exact E|]. vm_compute in E. inversion E; subst. reflexivity.
Qed.

(* two threads + a requester: the request lands while thread 1's creator is running; thread 2's
   acquire starts after the request returned and gets an environment born after it *)
Definition during_tr1 : list event :=
  [ ev (LAcqCache 1) RNone; ev (LAcqMark 1) RNone; ev (LCreStart 1) RNone;
    ev (LReqSet 0) RNone; ev (LReqNotify 0 false) RReq;
    ev (LCreEnd 1 true) (mk_env 1 0); ev (LDrop 1) (mk_env 1 0) ].
Definition during_tr2 : list event :=
  [ ev (LAcqCheck 2) RNone; ev (LAcqMark 2) RNone; ev (LAcqFast 2) RNone; ev (LCreStart 2) RNone ].
Definition during_last : event := ev (LCreEnd 2 true) (mk_env 2 1).

Lemma request_during_creator_proof :
  exists s, run cfg_fixed init (during_tr1 ++ ev (LAcqCache 2) RNone :: during_tr2 ++ [during_last]) s /\
            count_sets during_tr1 = 1 /\ obs during_last = mk_env 2 1.
Proof.
  destruct (replay cfg_fixed init 0 (during_tr1 ++ ev (LAcqCache 2) RNone :: during_tr2 ++ [during_last])) as [s|p] eqn:E;
    [|vm_compute in E; discriminate].
  exists s. split; [eapply replay_run; exact E|]. split; reflexivity.
Qed.

(* a request issued while thread 1 polls a (slow) freshness callback: the requester sleeps on the
   notifier mutex, its request takes effect as soon as the callback has returned, and the next
   acquire rebuilds *)
Definition poll_tr1 : list event :=
  [ ev (LAcqCache 1) RNone; ev (LAcqMark 1) RNone; ev (LCreStart 1) RNone; ev (LCreEnd 1 true) (mk_env 1 0); ev (LDrop 1) (mk_env 1 0);
    ev (LAcqCache 1) RNone; ev (LAcqCheck 1) RNone;          (* thread 1 is inside the freshness callback *)
    ev (LBlocked 0) RNone;                                     (* thread 0: request_reload, sleeps on the mutex *)
    ev (LFreshEnd 1 CbFalse) (mk_env 1 0);                       (* "fresh": thread 1 gets the cached environment (concurrent: fine) *)
    ev (LReqSet 0) RNone; ev (LReqNotify 0 false) RReq;        (* now the request takes effect and returns *)
    ev (LDrop 1) (mk_env 1 0) ].
Definition poll_tr2 : list event :=
  [ ev (LAcqCheck 2) RNone; ev (LAcqMark 2) RNone; ev (LAcqFast 2) RNone; ev (LCreStart 2) RNone ].
Definition poll_last : event := ev (LCreEnd 2 true) (mk_env 2 1).

Lemma request_during_freshness_poll_proof :
  exists s, run cfg_fresh init (poll_tr1 ++ ev (LAcqCache 2) RNone :: poll_tr2 ++ [poll_last]) s /\
            count_sets poll_tr1 = 1 /\ obs poll_last = mk_env 2 1.
Proof.
  destruct (replay cfg_fresh init 0 (poll_tr1 ++ ev (LAcqCache 2) RNone :: poll_tr2 ++ [poll_last])) as [s|p] eqn:E;
    [|vm_compute in E; discriminate].
  exists s. split; [eapply replay_run; exact E|]. split; reflexivity.
Qed.

(* the same schedule with a request_reload that does not wait for the mutex but returns at once
   (try_lock): event 7 is not a step of the model, and the trace violates no_lost_request *)
Definition skip_trace : list event :=
  [ ev (LAcqCache 1) RNone; ev (LAcqMark 1) RNone; ev (LCreStart 1) RNone; ev (LCreEnd 1 true) (mk_env 1 0); ev (LDrop 1) (mk_env 1 0);
    ev (LAcqCache 1) RNone; ev (LAcqCheck 1) RNone;
    ev (LReqSet 0) RReq;                                       (* request_reload returned although the mutex was held *)
    ev (LFreshEnd 1 CbFalse) (mk_env 1 0); ev (LDrop 1) (mk_env 1 0);
    ev (LAcqCache 2) RNone; ev (LAcqCheck 2) RNone; ev (LFreshEnd 2 CbFalse) (mk_env 1 0) ].

Lemma nonblocking_request_rejected_proof :
  replay cfg_fresh init 0 skip_trace = inr (7, RNone) /\ no_lost_ok skip_trace = false /\
  (forall s, ~ run cfg_fresh init skip_trace s).
Proof.
  split; [vm_compute; reflexivity|]. split; [vm_compute; reflexivity|].
  intros s H. apply (run_replay _ _ _ 0) in H. vm_compute in H. discriminate.
Qed.

(* acquire; request_reload; acquire whose creator PANICS (caught by the caller): the flag stays cleared and
   generation 1 stays cached, but the cache mutex is poisoned: every later acquire_env panics as well -
   nothing stale is handed out *)
Definition panic_trace : list event :=
  [ ev (LAcqCache 0) RNone; ev (LAcqMark 0) RNone; ev (LCreStart 0) RNone; ev (LCreEnd 0 true) (mk_env 1 0); ev (LDrop 0) (mk_env 1 0);
    ev (LReqSet 0) RNone; ev (LReqNotify 0 false) RReq;
    ev (LAcqCache 0) RNone; ev (LAcqCheck 0) RNone; ev (LAcqMark 0) RNone; ev (LAcqFast 0) RNone;
    ev (LCreStart 0) RNone; ev (LCrePanic 0) RPanic;
    ev (LAcqCache 0) RPanic; ev (LAcqCache 1) RPanic ].

Lemma panicking_rebuild_proof :
  exists s, run cfg_fixed init panic_trace s /\ flag s = false /\ reqs s = 1 /\
            cached s = Some {| gen := 1; born := 0 |} /\ cpois s = true /\ spec_ok panic_trace = true.
Proof.
  destruct (replay cfg_fixed init 0 panic_trace) as [s|p] eqn:E; [|vm_compute in E; discriminate].
  exists s. split; [eapply replay_run; exact E|]. vm_compute in E. inversion E; subst. vm_compute. auto 10.
Qed.

(* the same schedule on a reloader that recovers from the poisoned cache mutex (lock().unwrap_or_else(into_inner)):
   event 13 is not a step of the model, and the trace violates no_lost_request - the request is lost *)
Definition recover_trace : list event :=
  [ ev (LAcqCache 0) RNone; ev (LAcqMark 0) RNone; ev (LCreStart 0) RNone; ev (LCreEnd 0 true) (mk_env 1 0); ev (LDrop 0) (mk_env 1 0);
    ev (LReqSet 0) RNone; ev (LReqNotify 0 false) RReq;
    ev (LAcqCache 0) RNone; ev (LAcqCheck 0) RNone; ev (LAcqMark 0) RNone; ev (LAcqFast 0) RNone;
    ev (LCreStart 0) RNone; ev (LCrePanic 0) RPanic;
    ev (LAcqCache 0) RNone; ev (LAcqCheck 0) (mk_env 1 0) ].

Lemma poison_recovery_rejected_proof :
  replay cfg_fixed init 0 recover_trace = inr (13, RPanic) /\ no_lost_ok recover_trace = false /\
  (forall s, ~ run cfg_fixed init recover_trace s).
Proof.
  split; [vm_compute; reflexivity|]. split; [vm_compute; reflexivity|].
  intros s H. apply (run_replay _ _ _ 0) in H. vm_compute in H. discriminate.
Qed.
