(* Executable entry points of the C20 model in the integer-list protocol shared with
   harness/src/bin/c20.rs.  Input of both runners (the middle part of a harness run line):
     fast fresh oncb nev (tid point a g v w)*
   Decoders/encoders here are unverified glue of the correspondence check. *)
From Coq Require Import String.
From MJ Require Import Common.Base.
From MJ Require Import C20.Model C20.Spec.

Definition dec_ret (g v : Z) : ret :=
  if g =? 0 then RNone else if g =? -1 then RErr else if g =? -2 then RReq else if g =? -3 then RPanic
  else REnv {| gen := g; born := v |}.

Definition dec_label (t p a : Z) : option label :=
  match p with
  | 1 => Some (LReqSet t)
  | 2 => Some (LReqNotify t (4 <=? a))
  | 3 => Some (LAcqCache t)
  | 4 => Some (LAcqCheck t)
  | 5 => Some (LAcqMark t)
  | 6 => Some (LAcqFast t)
  | 7 => Some (LCreStart t)
  | 8 => Some (LCreEnd t (negb (a =? 0)))
  | 9 => Some (LAcqRestore t)
  | 10 => Some (LDrop t)
  | 11 => Some (LFreshEnd t (if a mod 4 =? 2 then CbTrue else if a mod 4 =? 3 then CbPanic else CbFalse))
  | 12 => Some (LOnCbEnd t (a =? 1))
  | 13 => Some (LBlocked t)
  | 14 => Some (LCrePanic t)
  | _ => None
  end.

(* events, and the generations the creator calls reported (a of the CRE_START steps);
   the sixth number of an event (source version shown by the environment) is for the check's direct evaluation only *)
Fixpoint dec_events (l : list Z) : option (list event * list Z) :=
  match l with
  | t :: p :: a :: g :: v :: _ :: r =>
      match dec_label t p a, dec_events r with
      | Some lb, Some (evs, gens) =>
          Some ({| lab := lb; obs := dec_ret g v |} :: evs, if p =? 7 then a :: gens else gens)
      | _, _ => None
      end
  | [] => Some ([], [])
  | _ => None
  end.

Fixpoint gens_sequential (k : Z) (gens : list Z) : bool :=
  match gens with
  | [] => true
  | g :: r => (g =? k) && gens_sequential (k + 1) r
  end.

Definition dec_cfg (fa fr oc : Z) : cfg :=
  {| fast := negb (fa =? 0); fresh_cb := negb (fr =? 0); on_cb := negb (oc =? 0); restore := true |}.

Definition enc_ret (r : ret) : list Z :=
  match r with RNone => [0; 0] | RErr => [-1; 0] | RReq => [-2; 0] | RPanic => [-3; 0] | REnv e => [gen e; born e] end.

(* is the observed trace a run of the model (the code as fixed)?
   0 creator_calls clears notifies reqs flag   accepted, with the model's final counters
   1 i g v                                     event number i is not a step of the model (g v: what the model returns there)
   2                                           creator generations are not 1,2,3,...
   9                                           undecodable *)
Definition run (inp : list Z) : list Z :=
  match inp with
  | fa :: fr :: oc :: n :: evs =>
      match dec_events evs with
      | Some (tr, gens) =>
          if negb (gens_sequential 1 gens) then [2] else
          match replay (dec_cfg fa fr oc) init 0 tr with
          | inl s => [0; creator_calls s; clears s; notifies s; reqs s; b2z (flag s)]
          | inr (i, r) => 1 :: i :: enc_ret r
          end
      | None => [9]
      end
  | _ => [9]
  end.

(* the specification on the same trace: no_lost_request guard_excludes no_spurious_rebuild (1 = holds) *)
Definition spec (inp : list Z) : list Z :=
  match inp with
  | fa :: fr :: oc :: n :: evs =>
      match dec_events evs with
      | Some (tr, _) => [b2z (no_lost_ok tr); b2z (guard_ok tr); b2z (no_spurious_ok tr)]
      | None => [9]
      end
  | _ => [9]
  end.

Open Scope string_scope.
Definition runners : list (string * (list Z -> list Z)) :=
  [ ("c20", run); ("c20-spec", spec) ].
