(* C20 specification: the three guarantees of the property text as executable checkers over an
   observed event trace (who passed which yield point, what acquire_env returned).  Written from the
   property statement; they look only at the events - never at the model's state.

   Vocabulary (shared with the model, Model.v): [LReqSet t] is the moment a request takes effect,
   [obs = RReq] marks the step in which request_reload returns, [LAcqCache t] the first step of an
   acquire_env, [obs = REnv e] on a non-drop step means "acquire_env returned a guard for e in this
   step", [born e] counts the requests that had taken effect when e was created / its templates were
   cleared.  Requests are numbered 1, 2, ... in the order in which they take effect. *)
From MJ Require Import Common.Base C20.Model.

Fixpoint lookup (t : Z) (l : list (Z * Z)) : option Z :=
  match l with
  | [] => None
  | (k, v) :: r => if k =? t then Some v else lookup t r
  end.

Definition tid_of (l : label) : Z :=
  match l with
  | LReqSet t | LReqNotify t _ | LAcqCache t | LAcqCheck t | LFreshEnd t _ | LOnCbEnd t _ | LAcqMark t | LAcqFast t
  | LCreStart t | LCreEnd t _ | LCrePanic t | LAcqRestore t | LDrop t | LBlocked t => t
  end.
Definition is_drop (l : label) : bool := match l with LDrop _ => true | _ => false end.
(* an operation that ended in a panic: it handed out nothing, it did not return, and the step in which it
   panicked took no effect (a request_reload that panics on the poisoned notifier mutex has not been made) *)
Definition panicked (e : event) : bool := match obs e with RPanic => true | _ => false end.

(* ---- 1. no lost request ------------------------------------------------------------------------
   "Once request_reload() has returned, the next acquire_env() hands out an environment that was
   created - or whose template cache was cleared - after that request."
   nset = requests that took effect so far; pend = for each thread the number of its request in flight;
   retmax = largest number of a request that has RETURNED; need = for each acquiring thread the value of
   retmax when its acquire_env started. *)
Record nl := { nset : Z; pend : list (Z * Z); retmax : Z; need : list (Z * Z) }.
Definition nl_init : nl := {| nset := 0; pend := []; retmax := 0; need := [] |}.

(* effect of the step itself ... *)
Definition nl_lab (x : nl) (l : label) : nl :=
  match l with
  | LReqSet t => {| nset := nset x + 1; pend := (t, nset x + 1) :: pend x; retmax := retmax x; need := need x |}
  | LAcqCache t => {| nset := nset x; pend := pend x; retmax := retmax x; need := (t, retmax x) :: need x |}
  | _ => x
  end.
(* ... then of what returned in it *)
Definition nl_step (x : nl) (e : event) : option nl :=      (* None = violated *)
  let x1 := if panicked e then x else nl_lab x (lab e) in
  match obs e with
  | RReq =>
      Some {| nset := nset x1; pend := pend x1;
              retmax := match lookup (tid_of (lab e)) (pend x1) with Some i => Z.max (retmax x1) i | None => retmax x1 end;
              need := need x1 |}
  | REnv en =>
      if is_drop (lab e) then Some x1 else
      match lookup (tid_of (lab e)) (need x1) with
      | Some r => if r <=? born en then Some x1 else None
      | None => Some x1
      end
  | _ => Some x1
  end.

Fixpoint nl_check (x : nl) (tr : list event) : bool :=
  match tr with
  | [] => true
  | e :: tr' => match nl_step x e with Some x' => nl_check x' tr' | None => false end
  end.
Definition no_lost_ok (tr : list event) : bool := nl_check nl_init tr.

(* ---- 2. the guard excludes reloads ---------------------------------------------------------------
   "While a guard is held the environment is not replaced": between the step in which acquire_env
   returned a guard and the drop of that guard no creator starts, no other acquire_env returns an
   environment, and at the drop the guard still dereferences to the same environment. *)
Definition g_step (held : option (Z * env)) (e : event) : option (option (Z * env)) :=
  match lab e with
  | LDrop t =>
      match held, obs e with
      | Some (t', en), REnv en' => if (t =? t') && env_eqb en en' then Some None else None
      | _, _ => None
      end
  | LCreStart _ => match held with None => Some None | Some _ => None end
  | l =>
      match obs e with
      | REnv en => match held with None => Some (Some (tid_of l, en)) | Some _ => None end
      | _ => Some held
      end
  end.
Fixpoint g_check (held : option (Z * env)) (tr : list event) : bool :=
  match tr with
  | [] => true
  | e :: tr' => match g_step held e with Some h => g_check h tr' | None => false end
  end.
Definition guard_ok (tr : list event) : bool := g_check None tr.

(* ---- 3. no spurious rebuild ----------------------------------------------------------------------
   "Without a request the creator function is not called again": a creator call (or, with fast
   reload, a cache clear) happens only in an acquire_env that found no environment, or saw a pending
   request, or was told by the freshness callback.  A request is pending from the moment it takes
   effect until the reloader takes note of it (LAcqMark); a failed rebuild leaves it pending
   (LAcqRestore). *)
Record sp := { pending : bool; have_env : bool; just : bool }.
Definition sp_init : sp := {| pending := false; have_env := false; just := false |}.
Definition sp_step (x : sp) (e : event) : option sp :=
  if panicked e then Some x else
  match lab e with
  | LReqSet _ | LAcqRestore _ => Some {| pending := true; have_env := have_env x; just := just x |}
  | LAcqMark _ => Some {| pending := false; have_env := have_env x; just := just x |}
  | LAcqCache _ => Some {| pending := pending x; have_env := have_env x; just := negb (have_env x) |}
  | LAcqCheck _ => Some {| pending := pending x; have_env := have_env x; just := just x || pending x |}
  | LFreshEnd _ ans => Some {| pending := pending x; have_env := have_env x;
                               just := just x || match ans with CbTrue => true | _ => false end |}
  | LCreStart _ => if just x then Some x else None
  | LAcqFast _ => match obs e with REnv _ => if just x then Some x else None | _ => Some x end
  | LCreEnd _ ok => Some {| pending := pending x; have_env := have_env x || ok; just := just x |}
  | _ => Some x
  end.
Fixpoint sp_check (x : sp) (tr : list event) : bool :=
  match tr with
  | [] => true
  | e :: tr' => match sp_step x e with Some x' => sp_check x' tr' | None => false end
  end.
Definition no_spurious_ok (tr : list event) : bool := sp_check sp_init tr.

Definition spec_ok (tr : list event) : bool := no_lost_ok tr && guard_ok tr && no_spurious_ok tr.
