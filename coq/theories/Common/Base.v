(* Common definitions shared by all models.  No proofs of properties here. *)
From Coq Require Export ZArith List Bool Lia ZifyBool.
Export ListNotations.
#[global] Open Scope Z_scope.

(* Outcome of running a piece of the implementation.  [Panic] stands for anything that
   would crash the host (a Rust panic, an overflow trap in a debug build, an index out of
   bounds); [OutOfGas] is the model's own fuel running out and is excluded by the
   statement of every theorem. *)
Inductive outcome (A : Type) : Type :=
| Ok (a : A)
| Err (code : Z)
| Panic
| OutOfGas.
Arguments Ok {A} a.
Arguments Err {A} code.
Arguments Panic {A}.
Arguments OutOfGas {A}.

Definition bind {A B} (o : outcome A) (f : A -> outcome B) : outcome B :=
  match o with
  | Ok a => f a
  | Err c => Err c
  | Panic => Panic
  | OutOfGas => OutOfGas
  end.

(* ErrorKind codes, shared with harness/src/lib.rs::err_code *)
Definition E_NonPrimitive := 1.
Definition E_NonKey := 2.
Definition E_InvalidOperation := 3.
Definition E_SyntaxError := 4.
Definition E_TemplateNotFound := 5.
Definition E_TooManyArguments := 6.
Definition E_MissingArgument := 7.
Definition E_UnknownFilter := 8.
Definition E_UnknownTest := 9.
Definition E_UnknownFunction := 10.
Definition E_UnknownMethod := 11.
Definition E_BadEscape := 12.
Definition E_UndefinedError := 13.
Definition E_BadSerialization := 14.
Definition E_CannotDeserialize := 15.
Definition E_BadInclude := 16.
Definition E_EvalBlock := 17.
Definition E_CannotUnpack := 18.
Definition E_WriteFailure := 19.
Definition E_UnknownBlock := 20.
Definition E_OutOfFuel := 21.
Definition E_InvalidDelimiter := 22.

(* machine integer ranges *)
Definition i64_min := - 2 ^ 63.
Definition i64_max := 2 ^ 63 - 1.
Definition u64_max := 2 ^ 64 - 1.
Definition i128_min := - 2 ^ 127.
Definition i128_max := 2 ^ 127 - 1.
Definition u128_max := 2 ^ 128 - 1.
Definition in_i64 (z : Z) : bool := (i64_min <=? z) && (z <=? i64_max).
Definition in_u64 (z : Z) : bool := (0 <=? z) && (z <=? u64_max).
Definition in_i128 (z : Z) : bool := (i128_min <=? z) && (z <=? i128_max).
Definition in_u128 (z : Z) : bool := (0 <=? z) && (z <=? u128_max).

(* list helpers with binary counters (never [Z.to_nat] of data) *)
Fixpoint skipZ {A} (n : Z) (l : list A) : list A :=
  match l with
  | [] => []
  | x :: r => if n <=? 0 then l else skipZ (n - 1) r
  end.

Fixpoint takeZ {A} (n : Z) (l : list A) : list A :=
  match l with
  | [] => []
  | x :: r => if n <=? 0 then [] else x :: takeZ (n - 1) r
  end.

(* [Iterator::step_by]: yields the first item, then every [stride]-th one.
   [skip] = number of items to drop before the next yield. *)
Fixpoint step_byZ {A} (stride skip : Z) (l : list A) : list A :=
  match l with
  | [] => []
  | x :: r => if skip <=? 0 then x :: step_byZ stride (stride - 1) r
              else step_byZ stride (skip - 1) r
  end.

Definition lenZ {A} (l : list A) : Z := Z.of_nat (length l).

(* option encodings used by the runners *)
Definition dec_opt (tag v : Z) : option Z := if tag =? 0 then None else Some v.
