(* Characterisation of the binary-counter list helpers by [nth_error]. *)
From MJ Require Import Common.Base.

Lemma nth_error_ext {A} (l1 l2 : list A) :
  (forall n, nth_error l1 n = nth_error l2 n) -> l1 = l2.
Proof.
  revert l2; induction l1 as [|x l1 IH]; intros [|y l2] H; auto.
  - specialize (H O); discriminate.
  - specialize (H O); discriminate.
  - f_equal.
    + specialize (H O); cbn in H; congruence.
    + apply IH; intros n; exact (H (S n)).
Qed.

Lemma nth_error_skipZ {A} (l : list A) : forall k n, 0 <= k ->
  nth_error (skipZ k l) n = nth_error l (Z.to_nat k + n).
Proof.
  induction l as [|x r IH]; intros k n Hk; cbn [skipZ].
  - destruct n, (Z.to_nat k); reflexivity.
  - destruct (k <=? 0) eqn:E.
    + assert (k = 0) by lia; subst; reflexivity.
    + rewrite IH by lia. replace (Z.to_nat k) with (S (Z.to_nat (k - 1))) by lia. reflexivity.
Qed.

Lemma nth_error_takeZ {A} (l : list A) : forall c n,
  nth_error (takeZ c l) n = if Z.of_nat n <? c then nth_error l n else None.
Proof.
  induction l as [|x r IH]; intros c n; cbn [takeZ].
  - destruct n; destruct (_ <? _); reflexivity.
  - destruct (c <=? 0) eqn:E.
    + destruct (Z.of_nat n <? c) eqn:E2; [lia|]. destruct n; reflexivity.
    + destruct n as [|n]; cbn [nth_error].
      * destruct (Z.of_nat 0 <? c) eqn:E2; [reflexivity|lia].
      * rewrite IH. destruct (Z.of_nat n <? c - 1) eqn:E1, (Z.of_nat (S n) <? c) eqn:E2; try reflexivity; lia.
Qed.

Lemma nth_error_step_byZ {A} (stride : Z) (l : list A) : 1 <= stride -> forall skip n, 0 <= skip ->
  nth_error (step_byZ stride skip l) n = nth_error l (Z.to_nat (skip + Z.of_nat n * stride)).
Proof.
  intros Hs. induction l as [|x r IH]; intros skip n Hk; cbn [step_byZ].
  - destruct n, (Z.to_nat _); reflexivity.
  - destruct (skip <=? 0) eqn:E.
    + assert (skip = 0) by lia; subst. destruct n as [|n]; cbn [nth_error].
      * reflexivity.
      * rewrite IH by lia.
        replace (Z.to_nat (0 + Z.of_nat (S n) * stride)) with (S (Z.to_nat (stride - 1 + Z.of_nat n * stride))) by nia.
        reflexivity.
    + rewrite IH by lia.
      replace (Z.to_nat (skip + Z.of_nat n * stride)) with (S (Z.to_nat (skip - 1 + Z.of_nat n * stride))) by nia.
      reflexivity.
Qed.

Lemma nth_error_map_seq {A} (f : nat -> A) (c n : nat) :
  nth_error (map f (seq 0 c)) n = if (n <? c)%nat then Some (f n) else None.
Proof.
  destruct (n <? c)%nat eqn:E.
  - apply Nat.ltb_lt in E. rewrite nth_error_map, nth_error_nth' with (d := O) by (rewrite seq_length; lia).
    rewrite seq_nth by lia. reflexivity.
  - apply Nat.ltb_ge in E. apply nth_error_None. rewrite map_length, seq_length. lia.
Qed.
