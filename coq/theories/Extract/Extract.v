(* Extraction of the executable models.  Directives used: those of ExtrOcamlBasic
   (bool, option, unit, list, prod, sumbool, sumor -> OCaml natives) and ExtrOcamlString
   (ascii -> char, string -> char list).  No Extract Constant of our own; Z, positive, N and
   nat stay the extracted inductive datatypes. *)
From Coq Require Import Extraction ExtrOcamlBasic ExtrOcamlString.
From MJ Require Import Extract.Runners.
Extraction Language OCaml.
Extraction "mjmodel_ex.ml" Runners.runners.
