(* L2: the code generator compiler/codegen.rs on the core-fragment syntax, construct by construct:
   same instruction order, same (absolute) jump targets, same constant folding ([as_const] of
   C04/Model.v = ast.rs::Expr::as_const, asked first at every node exactly like compile_expr does).
   No proofs in this file.

   Every function takes the index [base] its first instruction will get (CodeGenerator::
   next_instruction at that moment); back-patched targets (`!0` first, fixed when the block ends)
   are computed from the lengths of the parts.  Where a target lies behind code whose own targets
   depend on it (break -> loop end, chained comparison -> cleanup block) the part is generated
   once with a dummy target to learn its length (lengths do not depend on targets).

   How the parser maps source onto the real AST, and hence which Lang nodes stand for what:
     ECmp a [(op, b)]        BinOp(op, a, b);  `a not in b` = Not(BinOp(In, a, b))
     ECmp a (two or more)    Compare
     ETest .. negated=true   Not(Test ..)
     SIf (arm :: more) els   IfCond whose false_body is [IfCond more els] (elif)
     else-bodies [Some []]   same as no else (codegen tests `is_empty()`)
     negative literals       the parser yields Neg(Const n): the check rewrites EConst (LInt (-n))
                             into ENeg (EConst (LInt n)) before asking this model
   Not mirrored (not in the fragment): FastRecurse / FastSuper / CallBlock fast paths of
   compile_emit_expr, Slice, Tuple, method and object calls, splats, SetAttr targets, Do,
   blocks / extends / include / import, line and span bookkeeping, the LocalId cache slots of
   ApplyFilter / PerformTest. *)
From MJ Require Import Common.Base Lang.Syntax Lang.Meta Lang.Interp.
From MJ Require Import C04.Model.
From MJ Require Import L2.Instr.
Local Open Scope nat_scope.

(* ---- list-walking combinators (outside the big fixpoints, like those of Lang/Interp.v) ---- *)

(* code of x1 .. xn one after the other *)
Definition seq_code {X} (ce : X -> nat -> list instr) : list X -> nat -> list instr :=
  fix go (l : list X) (pc : nat) : list instr :=
    match l with
    | [] => []
    | x :: r => let cx := ce x pc in cx ++ go r (pc + length cx)
    end.

(* the pairs of a map literal: key code, value code, one pair after the other *)
Definition pairs_code (ce : expr -> nat -> list instr) : list (expr * expr) -> nat -> list instr :=
  fix go (l : list (expr * expr)) (pc : nat) : list instr :=
    match l with
    | [] => []
    | (k, v) :: r =>
        let ck := ce k pc in
        let cv := ce v (pc + length ck) in
        ck ++ cv ++ go r (pc + length ck + length cv)
    end.

(* emit_compare *)
Definition emit_compare (op : cmpop) : list instr :=
  match op with
  | CNotIn => [ICompare CIn; INot]
  | _ => [ICompare op]
  end.

(* the loop of compile_compare over Compare.ops: every comparison but the last keeps its right
   operand and leaves through [cleanup] when it fails *)
Definition chain_code (ce : expr -> nat -> list instr) : list (cmpop * expr) -> nat -> nat -> list instr :=
  fix go (l : list (cmpop * expr)) (pc cleanup : nat) : list instr :=
    match l with
    | [] => []
    | (op, r) :: l' =>
        let cr := ce r pc in
        match l' with
        | [] => cr ++ emit_compare op
        | _ :: _ => cr ++ [ICompareAndPreserve op; IJumpIfFalseOrPop cleanup] ++ go l' (pc + length cr + 2) cleanup
        end
    end.

(* compile_call_args: keyword arguments that are all Const nodes become one constant map *)
Fixpoint static_kwargs (kw : list (name * expr)) : option (list (name * value)) :=
  match kw with
  | [] => Some []
  | (k, EConst l) :: r => omap (cons (k, lit_value l)) (static_kwargs r)
  | _ :: _ => None
  end.

Definition kwargs_code (ce : expr -> nat -> list instr) : list (name * expr) -> nat -> list instr :=
  fix go (l : list (name * expr)) (pc : nat) : list instr :=
    match l with
    | [] => []
    | (k, v) :: r => let cv := ce v (pc + 1) in ILoadKey k :: cv ++ go r (pc + 1 + length cv)
    end.

(* ---- compile_expr ---- *)
Fixpoint compile_expr (e : expr) (base : nat) {struct e} : list instr :=
  match as_const e with
  | Some v => [ILoadConst v]                                 (* constant folding first *)
  | None =>
    match e with
    | EConst l => [ILoadConst (lit_value l)]                 (* unreachable: as_const answers *)
    | EVar x => [ILookup x]
    | EList items => seq_code compile_expr items base ++ [IBuildList (Some (length items))]
    | EMap pairs => pairs_code compile_expr pairs base ++ [IBuildMap (length pairs)]
    | ENeg a => compile_expr a base ++ [INeg]
    | ENot a => compile_expr a base ++ [INot]
    | EBin op a b =>
        let ca := compile_expr a base in
        let cb := compile_expr b (base + length ca) in
        ca ++ cb ++ [IBinOp op]
    | ECmp a rest =>
        let c0 := compile_expr a base in
        match rest with
        | [] => c0                                           (* not produced by the parser *)
        | [(op, b)] => c0 ++ compile_expr b (base + length c0) ++ emit_compare op
        | _ :: _ :: _ =>
            (* compile_compare: ... Jump(end); cleanup_start: Swap; DiscardTop; end: *)
            let start := base + length c0 in
            let n := length (chain_code compile_expr rest start 0) in
            let cleanup := start + n + 1 in
            c0 ++ chain_code compile_expr rest start cleanup ++ [IJump (cleanup + 2); ISwap; IDiscardTop]
        end
    | EAnd a b =>
        let ca := compile_expr a base in
        let cb := compile_expr b (base + length ca + 1) in
        ca ++ [IJumpIfFalseOrPop (base + length ca + 1 + length cb)] ++ cb
    | EOr a b =>
        let ca := compile_expr a base in
        let cb := compile_expr b (base + length ca + 1) in
        ca ++ [IJumpIfTrueOrPop (base + length ca + 1 + length cb)] ++ cb
    | EIf c t f =>
        let cc := compile_expr c base in
        let ct := compile_expr t (base + length cc + 1) in
        let els := base + length cc + 1 + length ct + 1 in
        let cf := match f with
                  | Some f => compile_expr f els
                  | None => [ILoadConst VSilent]
                  end in
        cc ++ [IJumpIfFalse els] ++ ct ++ [IJump (els + length cf)] ++ cf
    | EItem a i =>
        let ca := compile_expr a base in
        ca ++ compile_expr i (base + length ca) ++ [IGetItem]
    | EAttr a x => compile_expr a base ++ [IGetAttr x]
    | EFilter f a args =>
        let ca := compile_expr a base in
        ca ++ seq_code compile_expr args (base + length ca) ++ [IApplyFilter f (1 + length args)]
    | ETest t a args negated =>
        let ca := compile_expr a base in
        ca ++ seq_code compile_expr args (base + length ca) ++ [IPerformTest t (1 + length args)]
           ++ (if negated then [INot] else [])
    | ECall f args kwargs =>
        (* compile_call, CallType::Function *)
        let cargs := seq_code compile_expr args base in
        match kwargs with
        | [] => cargs ++ [ICallFunction f (length args)]
        | _ :: _ =>
            match static_kwargs kwargs with
            | Some kv => cargs ++ [ILoadKwargs kv; ICallFunction f (length args + 1)]
            | None => cargs ++ kwargs_code compile_expr kwargs (base + length cargs)
                            ++ [IBuildKwargs (length kwargs); ICallFunction f (length args + 1)]
            end
        end
    end
  end.

(* ---- statements ---- *)

(* PendingBlock::Scope(..) entries above the innermost PendingBlock::Loop, innermost first *)
Inductive cleanup := ClFrame | ClCapture | ClAutoEscape.

(* the innermost open loop: its Iterate instruction, its end, what a loop control has to undo *)
Record lctx := mkL { lc_iter : nat; lc_end : nat; lc_pending : list cleanup }.

(* leave_scopes_for_loop_control *)
Definition cleanup_code (p : list cleanup) : list instr :=
  flat_map (fun c => match c with
                     | ClFrame => [IPopFrame]
                     | ClCapture => [IEndCapture; IDiscardTop]
                     | ClAutoEscape => [IPopAutoEscape]
                     end) p.

Definition enter_scope (c : cleanup) (lc : option lctx) : option lctx :=
  match lc with
  | Some l => Some (mkL (lc_iter l) (lc_end l) (c :: lc_pending l))
  | None => None
  end.

(* compile_assignment for the targets of the fragment *)
Definition assign_code (t : target) : list instr :=
  match t with
  | TVar x => [IStoreLocal x]
  | TPair x y => [IUnpackList 2; IStoreLocal x; IStoreLocal y]
  end.

Definition nonempty_body (b : option (list stmt)) : option (list stmt) :=
  match b with Some (x :: r) => Some (x :: r) | _ => None end.

(* compile_if_stmt; an elif is an IfCond in the else branch *)
Definition if_code (cb : list stmt -> nat -> list instr) (els : option (list stmt))
    : list (expr * list stmt) -> nat -> list instr :=
  fix go (arms : list (expr * list stmt)) (pc : nat) : list instr :=
    match arms with
    | [] => match els with Some b => cb b pc | None => [] end
    | (c, body) :: r =>
        let cc := compile_expr c pc in
        let ct := cb body (pc + length cc + 1) in
        match r, nonempty_body els with
        | [], None => cc ++ [IJumpIfFalse (pc + length cc + 1 + length ct)] ++ ct
        | _, _ =>
            let l1 := pc + length cc + 1 + length ct + 1 in
            let cf := go r l1 in
            cc ++ [IJumpIfFalse l1] ++ ct ++ [IJump (l1 + length cf)] ++ cf
        end
    end.

(* `with` assignments: compile_expr(expr); compile_assignment(target) *)
Definition binds_code : list (target * expr) -> nat -> list instr :=
  fix go (l : list (target * expr)) (pc : nat) : list instr :=
    match l with
    | [] => []
    | (t, e) :: r =>
        let ce := compile_expr e pc in
        let ca := assign_code t in
        ce ++ ca ++ go r (pc + length ce + length ca)
    end.

(* compile_macro_expression, the argument part: parameters last to first, a default in front of the
   store of its parameter *)
Definition params_code (defaults : list (name * expr)) : list name -> nat -> list instr :=
  fix go (ps : list name) (pc : nat) : list instr :=
    match ps with
    | [] => []
    | p :: r =>
        match default_of p defaults with
        | Some d =>
            let cd := compile_expr d (pc + 4) in
            [IDupTop; IIsUndefined; IJumpIfFalse (pc + 4 + length cd); IDiscardTop] ++ cd
              ++ IStoreLocal p :: go r (pc + 4 + length cd + 1)
        | None => IStoreLocal p :: go r (pc + 1)
        end
    end.

(* compile_macro_expression given the code generator of the body *)
Definition macro_code (cb : list stmt -> nat -> list instr) (nm : name) (params : list name)
    (defaults : list (name * expr)) (body : list stmt) (base : nat) : list instr :=
  let cp := params_code defaults (rev params) (base + 1) in
  let cbody := cb body (base + 1 + length cp) in
  let macro_instr := base + 1 + length cp + length cbody + 1 in
  let uses := uses_caller params defaults body in
  [IJump macro_instr] ++ cp ++ cbody ++ [IReturn]
    ++ map IEnclose (macro_closure params defaults body)
    ++ [IGetClosure; ILoadNames params;
        IBuildMacro (mkMacro nm params defaults body uses) (base + 1) (if uses then MACRO_CALLER else 0)].

Fixpoint compile_stmt (s : stmt) (base : nat) (lc : option lctx) {struct s} : list instr :=
  let block := fun (lc : option lctx) => seq_code (fun s pc => compile_stmt s pc lc) in
  match s with
  | SRaw t => [IEmitRaw t]
  | SEmit e => compile_expr e base ++ [IEmit]
  | SIf arms els => if_code (block lc) els arms base
  | SFor tgt iter flt body els recursive =>
      let flags := LOOP_FLAG_WITH_LOOP_VAR + (if recursive then LOOP_FLAG_RECURSIVE else 0) in
      (* everything up to and including PushLoop(flags); Iterate *)
      let pre :=
        match flt with
        | None => compile_expr iter base ++ [IPushLoop flags]
        | Some fe =>
            (* the accumulate loop: LoadConst 0; iter; PushLoop 0; Iterate; DupTop; target; filter;
               JumpIfFalse; Swap; LoadConst 1; Add; Jump; DiscardTop; Jump; PopLoopFrame; BuildList *)
            let ci := compile_expr iter (base + 1) in
            let it1 := base + 1 + length ci + 1 in
            let ca := assign_code tgt in
            let cf := compile_expr fe (it1 + 1 + 1 + length ca) in
            let jf := it1 + 1 + 1 + length ca + length cf in
            [ILoadConst (VInt 0)] ++ ci ++ [IPushLoop 0; IIterate (jf + 7)] ++ [IDupTop] ++ ca ++ cf
              ++ [IJumpIfFalse (jf + 5); ISwap; ILoadConst (VInt 1); IBinOp OAdd; IJump (jf + 6); IDiscardTop;
                  IJump it1; IPopLoopFrame; IBuildList None; IPushLoop flags]
        end in
      let it := base + length pre in
      let ca := assign_code tgt in
      let body_at := it + 1 + length ca in
      let n := length (block (Some (mkL it 0 [])) body body_at) in
      let loop_end := body_at + n + 1 in
      let cbody := block (Some (mkL it loop_end [])) body body_at in
      match els with
      | None | Some [] => pre ++ [IIterate loop_end] ++ ca ++ cbody ++ [IJump it; IPopLoopFrame]
      | Some eb =>
          let ce := block lc eb (loop_end + 3) in
          pre ++ [IIterate loop_end] ++ ca ++ cbody
            ++ [IJump it; IPushDidNotIterate; IPopLoopFrame; IJumpIfFalse (loop_end + 3 + length ce)] ++ ce
      end
  | SSet tgt e => compile_expr e base ++ assign_code tgt
  | SSetBlock x body flt =>
      [IBeginCapture] ++ block (enter_scope ClCapture lc) body (base + 1) ++ [IEndCapture]
        ++ match flt with Some f => [IApplyFilter f 1] | None => [] end ++ [IStoreLocal x]
  | SWith binds body =>
      let cbn := binds_code binds (base + 1) in
      [IPushWith] ++ cbn ++ block (enter_scope ClFrame lc) body (base + 1 + length cbn) ++ [IPopFrame]
  | SMacro nm params defaults body =>
      macro_code (block None) nm params defaults body base ++ [IStoreLocal nm]
  | SCallBlock mn args body =>
      (* compile_call with a caller: positional arguments; "caller"; the caller macro; BuildKwargs(1) *)
      let cargs := seq_code compile_expr args base in
      cargs ++ [ILoadKey N_caller] ++ macro_code (block None) N_caller [] [] body (base + length cargs + 1)
        ++ [IBuildKwargs 1; ICallFunction mn (length args + 1); IEmit]
  | SFilterBlock f body =>
      [IBeginCapture] ++ block (enter_scope ClCapture lc) body (base + 1) ++ [IEndCapture; IApplyFilter f 1; IEmit]
  | SAutoEscape v body =>
      let cv := compile_expr v base in
      cv ++ [IPushAutoEscape] ++ block (enter_scope ClAutoEscape lc) body (base + length cv + 1) ++ [IPopAutoEscape]
  | SBreak =>
      match lc with
      | Some l => cleanup_code (lc_pending l) ++ [IJump (lc_end l)]
      | None => []                                            (* rejected by the parser *)
      end
  | SContinue =>
      match lc with
      | Some l => cleanup_code (lc_pending l) ++ [IJump (lc_iter l)]
      | None => []
      end
  end.

Definition compile_stmts (l : list stmt) (base : nat) (lc : option lctx) : list instr :=
  seq_code (fun s pc => compile_stmt s pc lc) l base.

(* a whole template (Stmt::Template) *)
Definition compile_template (body : list stmt) : list instr := compile_stmts body 0 None.
