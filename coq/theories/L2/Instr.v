(* L2: the instructions of compiler/instructions.rs used by the core fragment.
   Jump targets are absolute instruction indices (u32 in the code, [nat] here: code sizes, never data).
   Names (identifiers, filter / test / attribute names) are the interned integers of Lang/Syntax.v.

   Grouping (the canonical printer of C03/Runner.v maps each back to the real opcode):
     [IBinOp op]    = Add | Sub | Mul | IntDiv | Rem | StringConcat
     [ICompare op]  = Eq | Ne | Lt | Lte | Gt | Gte | In      ([CNotIn] is never emitted: In; Not)
   LoadConst is split by what the constant is, because the Lang value type has neither maps nor
   interned strings:
     [ILoadConst v]   a value of the fragment (literals, folded constants, 0/1 of the filtered loop,
                      the silent undefined of an if-expression without else)
     [ILoadKey k]     LoadConst(Value::from(key)): the name of a keyword argument, as a string
     [ILoadKwargs kv] LoadConst(Kwargs::wrap(map)): keyword arguments that are all literals
     [ILoadNames ps]  LoadConst(arg spec): the parameter names of a macro
   [IBuildMacro mc off flags]: BuildMacro(m_name mc, off, flags); the record [mc] is what the
   instruction builds (ghost for the printer, used by the model VM as the macro value).
   ApplyFilter / PerformTest: the LocalId cache slot is not part of the model instruction; it is a
   function of the stream (rank of the first occurrence of the name) and is recomputed by the check. *)
From MJ Require Import Common.Base Lang.Syntax.

Inductive instr :=
| IEmitRaw (t : list Z)
| IStoreLocal (x : name)
| ILookup (x : name)
| IGetAttr (a : name)
| IGetItem
| ILoadConst (v : value)
| ILoadKey (k : name)
| ILoadKwargs (kv : list (name * value))
| ILoadNames (ps : list name)
| IBuildKwargs (n : nat)
| IBuildList (n : option nat)
| IBuildMap (n : nat)
| IUnpackList (n : nat)
| IBinOp (op : binop)
| INeg
| ICompare (op : cmpop)
| INot
| ICompareAndPreserve (op : cmpop)
| IApplyFilter (f : name) (argc : nat)
| IPerformTest (t : name) (argc : nat)
| IEmit
| IPushLoop (flags : nat)
| IPushWith
| IIterate (t : nat)
| IPushDidNotIterate
| IPopFrame
| IPopLoopFrame
| IJump (t : nat)
| IJumpIfFalse (t : nat)
| IJumpIfFalseOrPop (t : nat)
| IJumpIfTrueOrPop (t : nat)
| IPushAutoEscape
| IPopAutoEscape
| IBeginCapture
| IEndCapture
| ICallFunction (f : name) (argc : nat)
| IDupTop
| IDiscardTop
| ISwap
| IBuildMacro (mc : macro) (off : nat) (flags : nat)
| IReturn
| IIsUndefined
| IEnclose (x : name)
| IGetClosure.

Definition LOOP_FLAG_WITH_LOOP_VAR := 1%nat.
Definition LOOP_FLAG_RECURSIVE := 2%nat.
Definition MACRO_CALLER := 2%nat.
