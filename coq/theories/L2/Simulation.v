(* L2: vocabulary of the simulation theorems (definitions only, no proofs): where a piece of code
   sits in a program, the reflexive-transitive closure of the VM's [step], and the fragment of
   the syntax the simulation proof covers. *)
From MJ Require Import Common.Base Lang.Syntax Lang.Meta Lang.Interp L2.Instr L2.Compile L2.Vm.
Local Open Scope nat_scope.

(* [code] occupies the instruction indices pc .. pc + length code - 1 of the program [C] *)
Definition code_at (C : list instr) (pc : nat) (code : list instr) : Prop :=
  exists pre post, C = pre ++ code ++ post /\ length pre = pc.

(* zero or more successful VM steps *)
Inductive star (c : cfg) (C : list instr) : vm -> vm -> Prop :=
| star_refl σ : star c C σ σ
| star_step σ1 σ2 σ3 : step c C σ1 = Ok σ2 -> star c C σ2 σ3 -> star c C σ1 σ3.

(* expressions covered: every constructor except calls (ECall: macro and function calls);
   comparisons are well formed (at least one operator, as the parser guarantees) *)
Fixpoint l2_expr (e : expr) {struct e} : bool :=
  match e with
  | EConst _ | EVar _ => true
  | EList items => forallb l2_expr items
  | ENeg a | ENot a | EAttr a _ => l2_expr a
  | EBin _ a b | EAnd a b | EOr a b | EItem a b => l2_expr a && l2_expr b
  | ECmp a rest => l2_expr a && negb (match rest with [] => true | _ => false end) && forallb (fun p => l2_expr (snd p)) rest
  | EIf c t f => l2_expr c && l2_expr t && match f with Some f => l2_expr f | None => true end
  | EFilter _ a args | ETest _ a args _ => l2_expr a && forallb l2_expr args
  | ECall _ _ _ => false
  end.

(* statements covered: raw text, emit, if / elif / else, set, set-block (with filter), with,
   filter block, autoescape; not covered: for, break, continue, macro, call block *)
Fixpoint l2_stmt (t : stmt) {struct t} : bool :=
  match t with
  | SRaw _ => true
  | SEmit e => l2_expr e
  | SIf arms els =>
      forallb (fun p => l2_expr (fst p) && forallb l2_stmt (snd p)) arms
      && match els with Some b => forallb l2_stmt b | None => true end
  | SSet _ e => l2_expr e
  | SSetBlock _ body _ => forallb l2_stmt body
  | SWith binds body => forallb (fun p => l2_expr (snd p)) binds && forallb l2_stmt body
  | SFilterBlock _ body => forallb l2_stmt body
  | SAutoEscape v body => l2_expr v && forallb l2_stmt body
  | SFor _ _ _ _ _ _ | SMacro _ _ _ _ | SCallBlock _ _ _ | SBreak | SContinue => false
  end.
