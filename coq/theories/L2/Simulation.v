(* L2: vocabulary of the simulation theorems (definitions only, no proofs): where a piece of code
   sits in a program, the reflexive-transitive closure of the VM's [step], and the fragment of
   the syntax the simulation proof covers. *)
From MJ Require Import Common.Base Lang.Syntax Lang.Meta Lang.Interp.
From MJ Require Import L2.Instr.
From MJ Require Import L2.Compile.
From MJ Require Import L2.Vm.
Local Open Scope nat_scope.

(* [code] occupies the instruction indices pc .. pc + length code - 1 of the program [C] *)
Definition code_at (C : list instr) (pc : nat) (code : list instr) : Prop :=
  exists pre post, C = pre ++ code ++ post /\ length pre = pc.

(* zero or more successful VM steps *)
Inductive star (c : cfg) (C : list instr) : vm -> vm -> Prop :=
| star_refl σ : star c C σ σ
| star_step σ1 σ2 σ3 : step c C σ1 = Ok σ2 -> star c C σ2 σ3 -> star c C σ1 σ3.

Fixpoint nodup_keys (l : list name) : bool :=
  match l with [] => true | x :: r => negb (existsb (Z.eqb x) r) && nodup_keys r end.

(* expressions covered: every constructor; comparisons are well formed (at least one operator) and a
   call does not repeat a keyword (as the parser guarantees) *)
Fixpoint l2_expr (e : expr) {struct e} : bool :=
  match e with
  | EConst _ | EVar _ => true
  | EList items => forallb l2_expr items
  | EMap pairs => forallb (fun p => l2_expr (fst p) && l2_expr (snd p)) pairs
  | ENeg a | ENot a | EAttr a _ => l2_expr a
  | EBin _ a b | EAnd a b | EOr a b | EItem a b => l2_expr a && l2_expr b
  | ECmp a rest => l2_expr a && negb (match rest with [] => true | _ => false end) && forallb (fun p => l2_expr (snd p)) rest
  | EIf c t f => l2_expr c && l2_expr t && match f with Some f => l2_expr f | None => true end
  | EFilter _ a args | ETest _ a args _ => l2_expr a && forallb l2_expr args
  | ECall _ args kwargs =>
      forallb l2_expr args && forallb (fun p => l2_expr (snd p)) kwargs && nodup_keys (map fst kwargs)
  end.

(* statements covered: raw text, emit, if / elif / else, set, set-block (with filter), with,
   filter block, autoescape, for loops (any target, filter, else, loop variable, recursive flag),
   break and continue ([inl]: inside a loop of the fragment, where loop controls are allowed),
   macro declarations and call blocks (no loop control reaches out of a macro body) *)
Fixpoint l2_stmt (inl : bool) (t : stmt) {struct t} : bool :=
  match t with
  | SRaw _ => true
  | SEmit e => l2_expr e
  | SIf arms els =>
      forallb (fun p => l2_expr (fst p) && forallb (l2_stmt inl) (snd p)) arms
      && match els with Some b => forallb (l2_stmt inl) b | None => true end
  | SSet _ e => l2_expr e
  | SSetBlock _ body _ => forallb (l2_stmt inl) body
  | SWith binds body => forallb (fun p => l2_expr (snd p)) binds && forallb (l2_stmt inl) body
  | SFilterBlock _ body => forallb (l2_stmt inl) body
  | SAutoEscape v body => l2_expr v && forallb (l2_stmt inl) body
  | SFor _ iter flt body els _ =>
      l2_expr iter && match flt with Some fe => l2_expr fe | None => true end
      && forallb (l2_stmt true) body
      && match els with Some b => forallb (l2_stmt inl) b | None => true end
  | SBreak | SContinue => inl
  | SMacro _ _ defaults body => forallb (fun p => l2_expr (snd p)) defaults && forallb (l2_stmt false) body
  | SCallBlock _ args body => forallb l2_expr args && forallb (l2_stmt false) body
  end.

(* the machine after a loop control has undone the scopes [p] (innermost first) and jumped to [pc] *)
Fixpoint unwound (pc : nat) (p : list cleanup) (stk : list value) (s : st) (esc : bool) (escs : list bool)
    (caps : list (list (list Z))) (its : list (list value)) (calls : list callframe) : vm :=
  match p with
  | [] => mkVm pc stk s esc escs caps its calls
  | ClFrame :: p' => unwound pc p' stk (pop_frame s) esc escs caps its calls
  | ClCapture :: p' =>
      match caps with
      | o :: cs => unwound pc p' stk (with_out s o) esc escs cs its calls
      | [] => mkVm pc stk s esc escs caps its calls
      end
  | ClAutoEscape :: p' =>
      match escs with
      | e :: es => unwound pc p' stk s e es caps its calls
      | [] => mkVm pc stk s esc escs caps its calls
      end
  end.

(* the scopes [p] are really open: enough frames / saved auto-escape flags / capture buffers *)
Fixpoint fits (p : list cleanup) (nenv nescs ncaps : nat) : Prop :=
  match p with
  | [] => True
  | ClFrame :: p' => 1 <= nenv /\ fits p' (nenv - 1) nescs ncaps
  | ClCapture :: p' => 1 <= ncaps /\ fits p' nenv nescs (ncaps - 1)
  | ClAutoEscape :: p' => 1 <= nescs /\ fits p' nenv (nescs - 1) ncaps
  end.

Definition lc_fits (lc : option lctx) (nenv nescs ncaps : nat) : Prop :=
  match lc with Some l => fits (lc_pending l) nenv nescs ncaps | None => True end.

(* where the VM is when the interpreter has finished a statement with signal [sg] in state [s'] *)
Definition post (sg : signal) (lc : option lctx) (endpc : nat) (stk : list value) (s' : st) (esc : bool)
    (escs : list bool) (caps : list (list (list Z))) (its : list (list value)) (calls : list callframe) (σ' : vm) : Prop :=
  match sg with
  | SigNormal => σ' = mkVm endpc stk s' esc escs caps its calls
  | SigBreak => exists l, lc = Some l /\ σ' = unwound (lc_end l) (lc_pending l) stk s' esc escs caps its calls
  | SigContinue => exists l, lc = Some l /\ σ' = unwound (lc_iter l) (lc_pending l) stk s' esc escs caps its calls
  end.

(* The accumulate loop of a filtered for counts the kept items with the VM's checked i128 addition
   (LoadConst 1; Add on the counter): the one place where the VM can fall behind the interpreter, when
   a sequence keeps 2^127 - 1 items or more.  [overflow C σ]: σ is about to execute such an Add. *)
Definition overflow (C : list instr) (σ : vm) : Prop :=
  nth_error C (v_pc σ) = Some (IBinOp OAdd) /\
  exists k r, v_stk σ = VInt 1 :: VInt k :: r /\ (i128_max <= k)%Z.

(* zero or more VM steps, or steps up to such an overflow (after which nothing is claimed) *)
Inductive starO (c : cfg) (C : list instr) : vm -> vm -> Prop :=
| starO_refl σ : starO c C σ σ
| starO_step σ1 σ2 σ3 : step c C σ1 = Ok σ2 -> starO c C σ2 σ3 -> starO c C σ1 σ3
| starO_ovf σ σ' : overflow C σ -> starO c C σ σ'.

(* ---- what the proof knows of the values in a reachable state ---- *)

(* the code of a macro body at offset [off]: compile_macro_expression between the Jump and the Enclose's *)
Definition mcode (mc : macro) (off : nat) : list instr :=
  let cp := params_code (m_defaults mc) (rev (m_params mc)) off in
  cp ++ compile_stmts (m_body mc) (off + length cp) None ++ [IReturn].

(* every BuildMacro of the program points at the code of the macro it builds (true of compile_template) *)
Definition wf_code (C : list instr) : Prop :=
  forall pc mc off fl, nth_error C pc = Some (IBuildMacro mc off fl) -> code_at C off (mcode mc off).

(* a macro value of a reachable state: its syntax is in the fragment and the program builds it somewhere *)
Definition mok (C : list instr) (mc : macro) : Prop :=
  forallb (fun p => l2_expr (snd p)) (m_defaults mc) = true /\ forallb (l2_stmt false) (m_body mc) = true /\
  exists pc off fl, nth_error C pc = Some (IBuildMacro mc off fl).

(* values: macros are [mok]; the only function value is `range` (so no value looks like the VM's
   representation of keyword arguments) *)
Fixpoint vok (C : list instr) (v : value) : Prop :=
  match v with
  | VList l => (fix all (l : list value) : Prop := match l with [] => True | x :: r => vok C x /\ all r end) l
  | VMap m => (fix all (m : list (value * value)) : Prop :=
                 match m with [] => True | (k, x) :: r => (vok C k /\ vok C x) /\ all r end) m
  | VMacro mc _ => mok C mc
  | VFunc g => g = N_range
  | _ => True
  end.

Definition kvok (C : list instr) (kv : list (name * value)) : Prop := Forall (fun p => vok C (snd p)) kv.

(* states: every local of every scope and every closure entry is [vok]; configurations: the context *)
Definition Inv (C : list instr) (s : st) : Prop :=
  Forall (fun f => kvok C (f_locals f)) (s_env s) /\ Forall (kvok C) (s_clos s).
Definition cfg_ok (C : list instr) (c : cfg) : Prop := kvok C (c_root c).

(* plain data (what a render context holds): no macros, functions or loop objects *)
Fixpoint data_value (v : value) : bool :=
  match v with
  | VList l => forallb data_value l
  | VMap m => forallb (fun '(k, x) => data_value k && data_value x) m
  | VMacro _ _ | VFunc _ | VLoop _ _ => false
  | _ => true
  end.

(* the VM fails with error kind k, or has reached the counter overflow *)
Definition errs (c : cfg) (C : list instr) (σ : vm) (k : Z) : Prop :=
  exists σ', starO c C σ σ' /\ (step c C σ' = Err k \/ overflow C σ').
