(* L2: the stack VM of vm/mod.rs (eval_impl) for the instructions of L2/Instr.v.  No proofs here.

   One [step] = one turn of the `loop { match instr { .. } pc += 1 }` of eval_impl.  The value
   operations are those of Lang/Interp.v (do_bin, do_cmp, u_is_true, do_filter, lookup, store, ...):
   both levels share the value semantics, what differs is control (jumps instead of recursion),
   the operand stack, and where scopes / captures / loop iterators live.

   State (mirrors State + Context + Output + the locals of eval_impl):
     v_pc, v_stk               pc and operand stack (head = top)
     v_st                      Interp's [st]: frame stack (Context.stack, innermost first), closures,
                               the output buffer currently written to, the recorded context look-ups
     v_esc, v_escs             state.auto_escape and auto_escape_stack
     v_caps                    Output's capture stack: the buffers set aside by BeginCapture
     v_iters                   the iterators of the active loop frames (LoopState.iter), innermost
                               first: the items not yet handed out
     v_calls                   macro calls in progress.  In the code Macro::call re-enters eval_impl
                               recursively with a fresh Context / Output / stack; here the caller's
                               registers are pushed on [v_calls] and restored by Return.
   Representation choices forced by the shared value type (which has no maps and no interned
   strings): a Kwargs value is [kwargs_val kv]; LoadKey pushes the name as VInt; the closure id
   pushed by GetClosure is VInt id; BuildMacro(name, offset, flags) carries the macro record it
   builds, and a call finds the body's offset by searching the code for the BuildMacro of an equal
   record ([macro_offset], decidable equality of the syntax).
   Not modelled: recursion limit / depth accounting, fuel, spans, loop recursion (FastRecurse,
   current_recursion_jump), loop.depth / previtem / nextitem / cycle / changed. *)
From MJ Require Import Common.Base Lang.Syntax Lang.Meta Lang.Interp.
From MJ Require Import C04.Model.
From MJ Require Import L2.Instr.

Record callframe := mkCall {
  k_pc : nat; k_stk : list value; k_env : list frame; k_out : list (list Z);
  k_esc : bool; k_escs : list bool; k_caps : list (list (list Z)); k_iters : list (list value)
}.

Record vm := mkVm {
  v_pc : nat;
  v_stk : list value;
  v_st : st;
  v_esc : bool;
  v_escs : list bool;
  v_caps : list (list (list Z));
  v_iters : list (list value);
  v_calls : list callframe
}.

(* the top [n] stack entries, deepest first (Stack::get_call_args), and the rest *)
Fixpoint pop_n (n : nat) (stk : list value) (acc : list value) : option (list value * list value) :=
  match n with
  | O => Some (acc, stk)
  | S n => match stk with
           | v :: r => pop_n n r (v :: acc)
           | [] => None
           end
  end.

(* ---- keyword arguments as a value ---- *)
Definition kwargs_val (kv : list (name * value)) : value :=
  VList (VFunc 0 :: map (fun p => VList [VInt (fst p); snd p]) kv).

Fixpoint kw_pairs (l : list value) : option (list (name * value)) :=
  match l with
  | [] => Some []
  | VList [VInt k; v] :: r => omap (cons (k, v)) (kw_pairs r)
  | _ :: _ => None
  end.

Definition as_kwargs (v : value) : option (list (name * value)) :=
  match v with
  | VList (VFunc 0 :: l) => kw_pairs l
  | _ => None
  end.

(* BuildKwargs: [vals] = k1 v1 .. kn vn, deepest first; a later key replaces an earlier one *)
Fixpoint kw_of_vals (l : list value) (acc : list (name * value)) : option (list (name * value)) :=
  match l with
  | [] => Some acc
  | VInt k :: v :: l' => kw_of_vals l' (assoc_set k v acc)
  | _ => None
  end.

(* BuildMap: [vals] = k1 v1 .. kn vn, deepest first *)
Fixpoint pairs_of_vals (l : list value) : option (list (value * value)) :=
  match l with
  | [] => Some []
  | k :: v :: l' => omap (cons (k, v)) (pairs_of_vals l')
  | _ => None
  end.

(* Kwargs::extract on the last argument *)
Definition split_kwargs (args : list value) : list value * list (name * value) :=
  match rev args with
  | last :: front => match as_kwargs last with
                     | Some kv => (rev front, kv)
                     | None => (args, [])
                     end
  | [] => (args, [])
  end.

(* ---- decidable equality of macro records (only used to find a macro's code) ---- *)
Definition lit_eq_dec (a b : lit) : {a = b} + {a <> b}.
Proof. decide equality; try apply Z.eq_dec; try apply bool_dec; apply (list_eq_dec Z.eq_dec). Defined.
Definition binop_eq_dec (a b : binop) : {a = b} + {a <> b}. Proof. decide equality. Defined.
Definition cmpop_eq_dec (a b : cmpop) : {a = b} + {a <> b}. Proof. decide equality. Defined.
Definition target_eq_dec (a b : target) : {a = b} + {a <> b}. Proof. decide equality; apply Z.eq_dec. Defined.
Definition pair_eq_dec {A B} (da : forall a b : A, {a = b} + {a <> b}) (db : forall a b : B, {a = b} + {a <> b})
  (p q : A * B) : {p = q} + {p <> q}.
Proof. decide equality. Defined.
Definition option_eq_dec {A} (da : forall a b : A, {a = b} + {a <> b}) (p q : option A) : {p = q} + {p <> q}.
Proof. decide equality. Defined.

Fixpoint expr_eq_dec (a b : expr) {struct a} : {a = b} + {a <> b}.
Proof.
  decide equality; try apply Z.eq_dec; try apply bool_dec; try apply lit_eq_dec; try apply binop_eq_dec;
    try (apply list_eq_dec; exact expr_eq_dec);
    try (apply option_eq_dec; exact expr_eq_dec);
    try (apply list_eq_dec; apply pair_eq_dec; [first [apply cmpop_eq_dec|apply Z.eq_dec|exact expr_eq_dec]|exact expr_eq_dec]).
Defined.

Fixpoint stmt_eq_dec (a b : stmt) {struct a} : {a = b} + {a <> b}.
Proof.
  decide equality; try apply Z.eq_dec; try apply bool_dec; try apply expr_eq_dec; try apply target_eq_dec;
    try (apply (list_eq_dec Z.eq_dec));
    try (apply list_eq_dec; exact stmt_eq_dec);
    try (apply list_eq_dec; exact expr_eq_dec);
    try (apply option_eq_dec; first [exact expr_eq_dec|apply Z.eq_dec|apply list_eq_dec; exact stmt_eq_dec]);
    try (apply list_eq_dec; apply pair_eq_dec; [first [apply Z.eq_dec|exact expr_eq_dec|apply target_eq_dec]|first [exact expr_eq_dec|apply list_eq_dec; exact stmt_eq_dec]]).
Defined.

Definition macro_eq_dec (a b : macro) : {a = b} + {a <> b}.
Proof.
  decide equality; try apply Z.eq_dec; try apply bool_dec; try (apply (list_eq_dec Z.eq_dec));
    try (apply list_eq_dec; exact stmt_eq_dec);
    try (apply list_eq_dec; apply pair_eq_dec; [apply Z.eq_dec|exact expr_eq_dec]).
Defined.

Fixpoint macro_offset (C : list instr) (mc : macro) : option nat :=
  match C with
  | [] => None
  | IBuildMacro mc' off _ :: r => if macro_eq_dec mc mc' then Some off else macro_offset r mc
  | _ :: r => macro_offset r mc
  end.

(* ---- pieces of eval_impl ---- *)

(* UndefinedBehavior::try_iter of the iterable of a for loop *)
Definition loop_items_of (m : ubehav) (v : value) : outcome (list value) :=
  match v with
  | VList l => Ok l
  | VStr _ t => Ok (map (fun ch => VStr false [ch]) t)
  | VMap kvs => Ok (map fst kvs)
  | VUndef => if u_strictish m then Err E_UndefinedError else Ok []
  | VSilent => Ok []
  | _ => Err E_InvalidOperation
  end.

(* Context::next_loop_item: the innermost frame with a loop advances; its locals are cleared *)
Fixpoint advance_loop (env : list frame) : option (list frame) :=
  match env with
  | [] => None
  | f :: r =>
      match f_loop f with
      | Some (i, n, w) => Some (mkFrame [] (Some (i + 1, n, w)) (f_closure f) (f_closure_ctx f) false :: r)
      | None => match advance_loop r with Some r' => Some (f :: r') | None => None end
      end
  end.

(* Context::current_loop *)
Fixpoint current_loop (env : list frame) : option (Z * Z * bool) :=
  match env with
  | [] => None
  | f :: r => match f_loop f with Some l => Some l | None => current_loop r end
  end.

(* derive_auto_escape *)
Definition derive_auto_escape (v : value) : outcome bool :=
  match v with
  | VStr _ [104; 116; 109; 108] => Ok true
  | VStr _ [110; 111; 110; 101] => Ok false
  | VBool true => Ok true
  | VBool false => Ok false
  | VStr _ _ => Err E_InvalidOperation
  | _ => Ok false
  end.

(* GetAttr / GetItem *)
Definition get_attr (m : ubehav) (x : value) (a : name) : outcome value :=
  match get_attr_opt x a with
  | Some v => Ok v
  | None => u_handle_undefined m (is_undef x)
  end.
Definition get_item (m : ubehav) (x k : value) : outcome value :=
  match get_item_opt x k with
  | Some v => Ok v
  | None => u_handle_undefined m (is_undef x)
  end.

Definition enclose1 (c : cfg) (s : st) (x : name) : st := fst (enclose c s [x]).

Section Step.
Variable c : cfg.
Variable C : list instr.
Let m := c_mode c.

Definition next (σ : vm) (stk : list value) (s : st) : outcome vm :=
  Ok (mkVm (S (v_pc σ)) stk s (v_esc σ) (v_escs σ) (v_caps σ) (v_iters σ) (v_calls σ)).
Definition goto (σ : vm) (t : nat) (stk : list value) : outcome vm :=
  Ok (mkVm t stk (v_st σ) (v_esc σ) (v_escs σ) (v_caps σ) (v_iters σ) (v_calls σ)).

(* Macro::call + eval_macro: bind the arguments, fresh context [closure frame; base frame], fresh
   output, the argument values as the stack, continue at the macro's offset *)
Definition call_macro_vm (σ : vm) (s : st) (rest : list value) (mc : macro) (cl : option nat)
    (args : list value) (kwargs : list (name * value)) : outcome vm :=
  if Nat.ltb (length (m_params mc)) (length args) then Err E_TooManyArguments else
  bind (bind_params kwargs (m_params mc) args) (fun bound =>
  if existsb (fun '(k, _) => negb (existsb (Z.eqb k) (m_params mc)) && negb (m_caller mc && (k =? N_caller))) kwargs
  then Err E_TooManyArguments else
  match macro_offset C mc with
  | None => Err E_InvalidOperation
  | Some off =>
      let caller_v := match assoc N_caller kwargs with Some v => v | None => VUndef end in
      let top := mkFrame (if m_caller mc then [(N_caller, caller_v)] else []) None None cl false in
      let saved := mkCall (S (v_pc σ)) rest (s_env s) (s_out s) (v_esc σ) (v_escs σ) (v_caps σ) (v_iters σ) in
      Ok (mkVm off (rev (map snd bound)) (mkSt [top; base_frame] (s_clos s) [] (s_asks s))
               (v_esc σ) [] [] [] (saved :: v_calls σ))
  end).

Definition exec_instr (i : instr) (σ : vm) : outcome vm :=
  let s := v_st σ in
  let stk := v_stk σ in
  match i with
  | IEmitRaw t => next σ stk (emit s t)
  | IEmit =>
      match stk with
      | v :: r => if u_strictish m && is_strict_undef v then Err E_UndefinedError
                  else next σ r (emit s (render_value (v_esc σ) v))
      | _ => Panic
      end
  | IStoreLocal x => match stk with v :: r => next σ r (store s x v) | _ => Panic end
  | ILookup x => let '(v, s1) := lookup c s x in next σ (match v with Some v => v | None => VUndef end :: stk) s1
  | IGetAttr a => match stk with x :: r => bind (get_attr m x a) (fun v => next σ (v :: r) s) | _ => Panic end
  | IGetItem => match stk with k :: x :: r => bind (get_item m x k) (fun v => next σ (v :: r) s) | _ => Panic end
  | ILoadConst v => next σ (v :: stk) s
  | ILoadKey k => next σ (VInt k :: stk) s
  | ILoadKwargs kv => next σ (kwargs_val (fold_left (fun acc p => assoc_set (fst p) (snd p) acc) kv []) :: stk) s
  | ILoadNames ps => next σ (VList (map VInt ps) :: stk) s
  | IBuildKwargs n =>
      match pop_n (2 * n) stk [] with
      | Some (vals, r) =>
          match kw_of_vals vals [] with
          | Some kv => next σ (kwargs_val kv :: r) s
          | None => Panic
          end
      | None => Panic
      end
  | IBuildList (Some n) => match pop_n n stk [] with Some (vs, r) => next σ (VList vs :: r) s | None => Panic end
  | IBuildList None =>
      match stk with
      | VInt n :: r0 => match pop_n (Z.to_nat n) r0 [] with Some (vs, r) => next σ (VList vs :: r) s | None => Panic end
      | _ => Panic
      end
  | IBuildMap n =>
      match pop_n (2 * n) stk [] with
      | Some (vals, r) =>
          match pairs_of_vals vals with
          | Some kvs => next σ (VMap (map_of_pairs kvs) :: r) s
          | None => Panic
          end
      | None => Panic
      end
  | IUnpackList n =>
      match stk with
      | v :: r =>
          match unpack_items v with
          | Some l => if Nat.eqb (length l) n then next σ (l ++ r) s else Err E_CannotUnpack
          | None => Err E_CannotUnpack
          end
      | [] => Panic
      end
  | IBinOp op =>
      match stk with
      | b :: a :: r =>
          bind (match op with
                | OConcat => bind (u_not_undef m a) (fun _ => u_not_undef m b)
                | _ => Ok tt end) (fun _ =>
          bind (do_bin op a b) (fun v => next σ (v :: r) s))
      | _ => Panic
      end
  | INeg => match stk with a :: r => bind (do_neg a) (fun v => next σ (v :: r) s) | _ => Panic end
  | ICompare op =>
      match stk with
      | b :: a :: r => bind (do_cmp m op a b) (fun t => next σ (VBool t :: r) s)
      | _ => Panic
      end
  | INot => match stk with a :: r => bind (u_is_true m a) (fun t => next σ (VBool (negb t) :: r) s) | _ => Panic end
  | ICompareAndPreserve op =>
      match stk with
      | b :: a :: r => bind (do_cmp m op a b) (fun t => next σ (VBool t :: b :: r) s)
      | _ => Panic
      end
  | IApplyFilter f n =>
      match pop_n n stk [] with
      | Some (x :: vs, r) => bind (do_filter m (v_esc σ) f x vs) (fun v => next σ (v :: r) s)
      | _ => Panic
      end
  | IPerformTest t n =>
      match pop_n n stk [] with
      | Some (x :: _, r) => bind (do_test t x) (fun b => next σ (VBool b :: r) s)
      | _ => Panic
      end
  | IPushLoop flags =>
      match stk with
      | a :: r =>
          bind (loop_items_of m a) (fun items =>
          let f := mkFrame [] (Some (-1, lenZ items, Nat.odd flags)) None None false in
          Ok (mkVm (S (v_pc σ)) r (push_frame s f) (v_esc σ) (v_escs σ) (v_caps σ) (items :: v_iters σ) (v_calls σ)))
      | _ => Panic
      end
  | IPushWith => next σ stk (push_frame s empty_frame)
  | IIterate t =>
      match v_iters σ with
      | (item :: rest) :: its =>
          match advance_loop (s_env s) with
          | Some env' => Ok (mkVm (S (v_pc σ)) (item :: stk) (with_env s env') (v_esc σ) (v_escs σ) (v_caps σ)
                                  (rest :: its) (v_calls σ))
          | None => Panic
          end
      | [] :: _ => goto σ t stk
      | [] => Panic
      end
  | IPushDidNotIterate =>
      (* LoopState::did_not_iterate: no item was handed out, i.e. the sequence was empty *)
      match current_loop (s_env s) with
      | Some (_, n, _) => next σ (VBool (n =? 0) :: stk) s
      | None => Panic
      end
  | IPopFrame => match s_env s with _ :: _ => next σ stk (pop_frame s) | [] => Panic end
  | IPopLoopFrame =>
      match s_env s, v_iters σ with
      | f :: _, _ :: its =>
          match f_loop f with
          | Some _ => Ok (mkVm (S (v_pc σ)) stk (pop_frame s) (v_esc σ) (v_escs σ) (v_caps σ) its (v_calls σ))
          | None => Panic
          end
      | _, _ => Panic
      end
  | IJump t => goto σ t stk
  | IJumpIfFalse t =>
      match stk with
      | a :: r => bind (u_is_true m a) (fun b => if b then next σ r s else goto σ t r)
      | _ => Panic
      end
  | IJumpIfFalseOrPop t =>
      match stk with
      | a :: r => bind (u_is_true m a) (fun b => if b then next σ r s else goto σ t stk)
      | _ => Panic
      end
  | IJumpIfTrueOrPop t =>
      match stk with
      | a :: r => bind (u_is_true m a) (fun b => if b then goto σ t stk else next σ r s)
      | _ => Panic
      end
  | IPushAutoEscape =>
      match stk with
      | a :: r => bind (derive_auto_escape a) (fun e =>
                  Ok (mkVm (S (v_pc σ)) r s e (v_esc σ :: v_escs σ) (v_caps σ) (v_iters σ) (v_calls σ)))
      | _ => Panic
      end
  | IPopAutoEscape =>
      match v_escs σ with
      | e :: es => Ok (mkVm (S (v_pc σ)) stk s e es (v_caps σ) (v_iters σ) (v_calls σ))
      | [] => Panic
      end
  | IBeginCapture =>
      Ok (mkVm (S (v_pc σ)) stk (with_out s []) (v_esc σ) (v_escs σ) (s_out s :: v_caps σ) (v_iters σ) (v_calls σ))
  | IEndCapture =>
      match v_caps σ with
      | o :: cs => Ok (mkVm (S (v_pc σ)) (VStr (v_esc σ) (output_of s) :: stk) (with_out s o)
                            (v_esc σ) (v_escs σ) cs (v_iters σ) (v_calls σ))
      | [] => Panic
      end
  | ICallFunction f n =>
      match pop_n n stk [] with
      | Some (args0, r) =>
          let '(args, kwargs) := split_kwargs args0 in
          let '(fv, s1) := lookup c s f in
          match fv with
          | Some (VMacro mc cl) => call_macro_vm σ s1 r mc cl args kwargs
          | Some (VFunc g) =>
              if g =? N_range then
                match args, kwargs with
                | [VInt k], [] => next σ (VList (range_list (Z.to_nat (Z.min (Z.max k 0) 100000)) 0 k) :: r) s1
                | _, _ => Err E_InvalidOperation
                end
              else Err E_UnknownFunction
          | Some _ => Err E_InvalidOperation
          | None => Err E_UnknownFunction
          end
      | None => Panic
      end
  | IDupTop => match stk with a :: r => next σ (a :: a :: r) s | _ => Panic end
  | IDiscardTop => match stk with _ :: r => next σ r s | _ => Panic end
  | ISwap => match stk with a :: b :: r => next σ (b :: a :: r) s | _ => Panic end
  | IBuildMacro mc _ _ =>
      match stk with
      | _ :: clv :: r => next σ (VMacro mc (match clv with VInt id => Some (Z.to_nat id) | _ => None end) :: r) s
      | _ => Panic
      end
  | IReturn =>
      match v_calls σ with
      | k :: ks =>
          (* Macro::call: the output of the body as a string, safe iff auto-escaping is on *)
          let rv := VStr (k_esc k) (output_of s) in
          Ok (mkVm (k_pc k) (rv :: k_stk k) (mkSt (k_env k) (s_clos s) (k_out k) (s_asks s))
                   (k_esc k) (k_escs k) (k_caps k) (k_iters k) ks)
      | [] => Panic
      end
  | IIsUndefined => match stk with a :: r => next σ (VBool (is_undef a) :: r) s | _ => Panic end
  | IEnclose x => next σ stk (enclose1 c s x)
  | IGetClosure =>
      (* Context::closure unwraps the innermost frame; there always is one (the base frame): the
         frameless case is given the answer the interpreter gives (no closure) *)
      next σ (match s_env s with
              | f :: _ => match f_closure f with Some id => VInt (Z.of_nat id) | None => VUndef end
              | [] => VUndef
              end :: stk) s
  end.

Definition step (σ : vm) : outcome vm :=
  match nth_error C (v_pc σ) with
  | Some i => exec_instr i σ
  | None => Panic
  end.

(* eval_impl's loop: stops when the pc runs off the end of the instructions *)
Fixpoint run_vm (fuel : nat) (σ : vm) : outcome vm :=
  match fuel with
  | O => OutOfGas
  | S fuel =>
      if Nat.leb (length C) (v_pc σ) then Ok σ
      else bind (step σ) (run_vm fuel)
  end.

End Step.

Definition init_vm (c : cfg) : vm := mkVm 0 [] init_state (c_escape c) [] [] [] [].

(* a whole template: Executor::eval *)
Definition run_template (c : cfg) (fuel : nat) (C : list instr) : outcome st :=
  bind (run_vm c C fuel (init_vm c)) (fun σ => Ok (v_st σ)).
