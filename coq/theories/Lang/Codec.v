(* Decoder of the integer-list encoding of core-fragment programs (see tools/langenc.py).
   Unverified glue of the correspondence check. *)
From MJ Require Import Common.Base Lang.Syntax Lang.Meta Lang.Interp.

Definition binop_of (z : Z) : binop :=
  match z with 0 => OAdd | 1 => OSub | 2 => OMul | 3 => OFloorDiv | 4 => ORem | _ => OConcat end.
Definition cmpop_of (z : Z) : cmpop :=
  match z with 0 => CEq | 1 => CNe | 2 => CLt | 3 => CLe | 4 => CGt | 5 => CGe | 6 => CIn | _ => CNotIn end.

Fixpoint take_n {A} (n : nat) (l : list A) : option (list A * list A) :=
  match n, l with
  | O, _ => Some ([], l)
  | S n, x :: r => match take_n n r with Some (a, b) => Some (x :: a, b) | None => None end
  | S _, [] => None
  end.

Definition obind {A B} (o : option A) (f : A -> option B) : option B := match o with Some a => f a | None => None end.

Fixpoint dexpr (fuel : nat) (l : list Z) {struct fuel} : option (expr * list Z) :=
  match fuel with
  | O => None
  | S fuel =>
    let dlist := fix go (n : nat) (l : list Z) : option (list expr * list Z) :=
      match n with
      | O => Some ([], l)
      | S n => obind (dexpr fuel l) (fun '(e, l1) => obind (go n l1) (fun '(es, l2) => Some (e :: es, l2)))
      end in
    match l with
    | 0 :: z :: r => Some (EConst (LInt z), r)
    | 1 :: n :: r => obind (take_n (Z.to_nat n) r) (fun '(s, r1) => Some (EConst (LStr s), r1))
    | 2 :: b :: r => Some (EConst (LBool (negb (b =? 0))), r)
    | 3 :: r => Some (EConst LNone, r)
    | 4 :: x :: r => Some (EVar x, r)
    | 5 :: n :: r => obind (dlist (Z.to_nat n) r) (fun '(es, r1) => Some (EList es, r1))
    | 6 :: r => obind (dexpr fuel r) (fun '(e, r1) => Some (ENeg e, r1))
    | 7 :: r => obind (dexpr fuel r) (fun '(e, r1) => Some (ENot e, r1))
    | 8 :: op :: r => obind (dexpr fuel r) (fun '(a, r1) => obind (dexpr fuel r1) (fun '(b, r2) => Some (EBin (binop_of op) a b, r2)))
    | 9 :: r =>
        obind (dexpr fuel r) (fun '(a, r1) =>
        match r1 with
        | n :: r2 =>
            obind ((fix go (n : nat) (l : list Z) : option (list (cmpop * expr) * list Z) :=
                      match n with
                      | O => Some ([], l)
                      | S n => match l with
                               | op :: l0 => obind (dexpr fuel l0) (fun '(e, l1) => obind (go n l1) (fun '(es, l2) => Some ((cmpop_of op, e) :: es, l2)))
                               | [] => None end
                      end) (Z.to_nat n) r2) (fun '(rest, r3) => Some (ECmp a rest, r3))
        | [] => None
        end)
    | 10 :: r => obind (dexpr fuel r) (fun '(a, r1) => obind (dexpr fuel r1) (fun '(b, r2) => Some (EAnd a b, r2)))
    | 11 :: r => obind (dexpr fuel r) (fun '(a, r1) => obind (dexpr fuel r1) (fun '(b, r2) => Some (EOr a b, r2)))
    | 12 :: r =>
        obind (dexpr fuel r) (fun '(c, r1) => obind (dexpr fuel r1) (fun '(t, r2) =>
        match r2 with
        | 0 :: r3 => Some (EIf c t None, r3)
        | _ :: r3 => obind (dexpr fuel r3) (fun '(f, r4) => Some (EIf c t (Some f), r4))
        | [] => None
        end))
    | 13 :: r => obind (dexpr fuel r) (fun '(a, r1) => obind (dexpr fuel r1) (fun '(b, r2) => Some (EItem a b, r2)))
    | 14 :: r => obind (dexpr fuel r) (fun '(a, r1) => match r1 with x :: r2 => Some (EAttr a x, r2) | [] => None end)
    | 15 :: f :: r =>
        obind (dexpr fuel r) (fun '(a, r1) =>
        match r1 with n :: r2 => obind (dlist (Z.to_nat n) r2) (fun '(args, r3) => Some (EFilter f a args, r3)) | [] => None end)
    | 16 :: t :: r =>
        obind (dexpr fuel r) (fun '(a, r1) =>
        match r1 with
        | n :: r2 => obind (dlist (Z.to_nat n) r2) (fun '(args, r3) =>
                       match r3 with ng :: r4 => Some (ETest t a args (negb (ng =? 0)), r4) | [] => None end)
        | [] => None end)
    | 17 :: f :: n :: r =>
        obind (dlist (Z.to_nat n) r) (fun '(args, r1) =>
        match r1 with
        | nk :: r2 =>
            obind ((fix go (n : nat) (l : list Z) : option (list (name * expr) * list Z) :=
                      match n with
                      | O => Some ([], l)
                      | S n => match l with
                               | k :: l0 => obind (dexpr fuel l0) (fun '(e, l1) => obind (go n l1) (fun '(es, l2) => Some ((k, e) :: es, l2)))
                               | [] => None end
                      end) (Z.to_nat nk) r2) (fun '(kw, r3) => Some (ECall f args kw, r3))
        | [] => None
        end)
    | 18 :: n :: r =>
        obind ((fix go (n : nat) (l : list Z) : option (list (expr * expr) * list Z) :=
                  match n with
                  | O => Some ([], l)
                  | S n => obind (dexpr fuel l) (fun '(k, l1) => obind (dexpr fuel l1) (fun '(v, l2) =>
                           obind (go n l2) (fun '(es, l3) => Some ((k, v) :: es, l3))))
                  end) (Z.to_nat n) r) (fun '(ps, r1) => Some (EMap ps, r1))
    | _ => None
    end
  end.

Definition EFUEL := 200%nat.

(* assignment targets: 0 x | 1 x y *)
Definition dtarget (l : list Z) : option (target * list Z) :=
  match l with
  | 0 :: x :: r => Some (TVar x, r)
  | _ :: x :: y :: r => Some (TPair x y, r)
  | _ => None
  end.

Fixpoint dstmt (fuel : nat) (l : list Z) {struct fuel} : option (stmt * list Z) :=
  match fuel with
  | O => None
  | S fuel =>
    let dbody := fix go (n : nat) (l : list Z) : option (list stmt * list Z) :=
      match n with
      | O => Some ([], l)
      | S n => obind (dstmt fuel l) (fun '(s, l1) => obind (go n l1) (fun '(ss, l2) => Some (s :: ss, l2)))
      end in
    let dbodyn (l : list Z) : option (list stmt * list Z) :=
      match l with n :: r => dbody (Z.to_nat n) r | [] => None end in
    let dopt_body (l : list Z) : option (option (list stmt) * list Z) :=
      match l with
      | 0 :: r => Some (None, r)
      | _ :: r => obind (dbodyn r) (fun '(b, r1) => Some (Some b, r1))
      | [] => None end in
    let dexprs := fix go (n : nat) (l : list Z) : option (list expr * list Z) :=
      match n with
      | O => Some ([], l)
      | S n => obind (dexpr EFUEL l) (fun '(e, l1) => obind (go n l1) (fun '(es, l2) => Some (e :: es, l2)))
      end in
    let dbinds := fix go (n : nat) (l : list Z) : option (list (name * expr) * list Z) :=
      match n with
      | O => Some ([], l)
      | S n => match l with
               | x :: l0 => obind (dexpr EFUEL l0) (fun '(e, l1) => obind (go n l1) (fun '(es, l2) => Some ((x, e) :: es, l2)))
               | [] => None end
      end in
    let dtbinds := fix go (n : nat) (l : list Z) : option (list (target * expr) * list Z) :=
      match n with
      | O => Some ([], l)
      | S n => obind (dtarget l) (fun '(t, l0) =>
               obind (dexpr EFUEL l0) (fun '(e, l1) => obind (go n l1) (fun '(es, l2) => Some ((t, e) :: es, l2))))
      end in
    match l with
    | 0 :: n :: r => obind (take_n (Z.to_nat n) r) (fun '(s, r1) => Some (SRaw s, r1))
    | 1 :: r => obind (dexpr EFUEL r) (fun '(e, r1) => Some (SEmit e, r1))
    | 2 :: n :: r =>
        obind ((fix go (n : nat) (l : list Z) : option (list (expr * list stmt) * list Z) :=
                  match n with
                  | O => Some ([], l)
                  | S n => obind (dexpr EFUEL l) (fun '(c, l1) => obind (dbodyn l1) (fun '(b, l2) =>
                           obind (go n l2) (fun '(arms, l3) => Some ((c, b) :: arms, l3))))
                  end) (Z.to_nat n) r) (fun '(arms, r1) =>
        obind (dopt_body r1) (fun '(els, r2) => Some (SIf arms els, r2)))
    | 3 :: k :: r =>
        obind (dtarget (k :: r)) (fun '(tg, r1) =>
        obind (dexpr EFUEL r1) (fun '(it, r2) =>
        obind (match r2 with
               | 0 :: r3 => Some (None, r3)
               | _ :: r3 => obind (dexpr EFUEL r3) (fun '(f, r4) => Some (Some f, r4))
               | [] => None end) (fun '(flt, r3) =>
        obind (dbodyn r3) (fun '(body, r4) =>
        obind (dopt_body r4) (fun '(els, r5) =>
        match r5 with rc :: r6 => Some (SFor tg it flt body els (negb (rc =? 0)), r6) | [] => None end)))))
    | 4 :: r => obind (dtarget r) (fun '(tg, r0) => obind (dexpr EFUEL r0) (fun '(e, r1) => Some (SSet tg e, r1)))
    | 5 :: x :: r =>
        obind (dbodyn r) (fun '(b, r1) =>
        match r1 with
        | 0 :: r2 => Some (SSetBlock x b None, r2)
        | _ :: f :: r2 => Some (SSetBlock x b (Some f), r2)
        | _ => None end)
    | 6 :: n :: r => obind (dtbinds (Z.to_nat n) r) (fun '(bs, r1) => obind (dbodyn r1) (fun '(b, r2) => Some (SWith bs b, r2)))
    | 7 :: nm :: np :: r =>
        obind (take_n (Z.to_nat np) r) (fun '(ps, r1) =>
        match r1 with
        | nd :: r2 => obind (dbinds (Z.to_nat nd) r2) (fun '(ds, r3) => obind (dbodyn r3) (fun '(b, r4) => Some (SMacro nm ps ds b, r4)))
        | [] => None end)
    | 8 :: nm :: na :: r => obind (dexprs (Z.to_nat na) r) (fun '(args, r1) => obind (dbodyn r1) (fun '(b, r2) => Some (SCallBlock nm args b, r2)))
    | 9 :: f :: r => obind (dbodyn r) (fun '(b, r1) => Some (SFilterBlock f b, r1))
    | 10 :: r => obind (dexpr EFUEL r) (fun '(e, r1) => obind (dbodyn r1) (fun '(b, r2) => Some (SAutoEscape e b, r2)))
    | 11 :: r => Some (SBreak, r)
    | 12 :: r => Some (SContinue, r)
    | _ => None
    end
  end.

Fixpoint dbody_top (fuel n : nat) (l : list Z) : option (list stmt * list Z) :=
  match n with
  | O => Some ([], l)
  | S n => obind (dstmt fuel l) (fun '(s, l1) => obind (dbody_top fuel n l1) (fun '(ss, l2) => Some (s :: ss, l2)))
  end.

(* values of the render context: 0 undefined | 1 none | 2 bool b | 3 int z | 4 str n c.. | 5 list n v.. |
   6 map n (k v)..  (the map is built by inserting the pairs in the given order) *)
Fixpoint dvalue (fuel : nat) (l : list Z) {struct fuel} : option (value * list Z) :=
  match fuel with
  | O => None
  | S fuel =>
    match l with
    | 0 :: r => Some (VUndef, r)
    | 1 :: r => Some (VNone, r)
    | 2 :: b :: r => Some (VBool (negb (b =? 0)), r)
    | 3 :: z :: r => Some (VInt z, r)
    | 4 :: n :: r => obind (take_n (Z.to_nat n) r) (fun '(s, r1) => Some (VStr false s, r1))
    | 5 :: n :: r =>
        obind ((fix go (n : nat) (l : list Z) : option (list value * list Z) :=
                  match n with
                  | O => Some ([], l)
                  | S n => obind (dvalue fuel l) (fun '(v, l1) => obind (go n l1) (fun '(vs, l2) => Some (v :: vs, l2)))
                  end) (Z.to_nat n) r) (fun '(vs, r1) => Some (VList vs, r1))
    | 6 :: n :: r =>
        obind ((fix go (n : nat) (l : list Z) : option (list (value * value) * list Z) :=
                  match n with
                  | O => Some ([], l)
                  | S n => obind (dvalue fuel l) (fun '(k, l1) => obind (dvalue fuel l1) (fun '(v, l2) =>
                           obind (go n l2) (fun '(vs, l3) => Some ((k, v) :: vs, l3))))
                  end) (Z.to_nat n) r) (fun '(kvs, r1) => Some (VMap (map_of_pairs kvs), r1))
    | _ => None
    end
  end.

Fixpoint dctx (n : nat) (l : list Z) : option (list (name * value) * list Z) :=
  match n with
  | O => Some ([], l)
  | S n => match l with
           | k :: r => obind (dvalue 20 r) (fun '(v, r1) => obind (dctx n r1) (fun '(kv, r2) => Some ((k, v) :: kv, r2)))
           | [] => None end
  end.

Definition mode_of (z : Z) : ubehav := match z with 0 => Lenient | 1 => Strict | 2 => SemiStrict | _ => Chainable end.

(* whole request: mode escape nctx (k v).. nstmts stmts.. *)
Definition drequest (l : list Z) : option (ubehav * bool * list (name * value) * list stmt) :=
  match l with
  | md :: esc :: nc :: r =>
      obind (dctx (Z.to_nat nc) r) (fun '(ctx, r1) =>
      match r1 with
      | ns :: r2 => obind (dbody_top 60 (Z.to_nat ns) r2) (fun '(body, _) => Some (mode_of md, negb (esc =? 0), ctx, body))
      | [] => None end)
  | _ => None
  end.
