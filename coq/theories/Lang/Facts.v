(* Shared lemmas about the value type of Lang/Syntax.v and the map operations of Lang/Interp.v:
   a strong induction principle for nested values, and "every component of the result was a
   component of the arguments" for map_insert / map_of_pairs / map_get / the key list / subscripts
   and attribute lookups / unpacking - stated for an arbitrary predicate on values so that every
   development (C02 good_value, C18 vgood, C03 vok, ...) can instantiate them. *)
From MJ Require Import Common.Base Lang.Syntax Lang.Meta Lang.Interp.

Section ValueInd.
Variable P : value -> Prop.
Hypothesis HUndef : P VUndef.
Hypothesis HSilent : P VSilent.
Hypothesis HNone : P VNone.
Hypothesis HBool : forall b, P (VBool b).
Hypothesis HInt : forall z, P (VInt z).
Hypothesis HStr : forall b s, P (VStr b s).
Hypothesis HListV : forall l, Forall P l -> P (VList l).
Hypothesis HMapV : forall m, Forall (fun p => P (fst p) /\ P (snd p)) m -> P (VMap m).
Hypothesis HMacroV : forall m cl, P (VMacro m cl).
Hypothesis HLoop : forall i n, P (VLoop i n).
Hypothesis HFunc : forall f, P (VFunc f).
Fixpoint value_ind_nested (v : value) : P v :=
  match v with
  | VUndef => HUndef | VSilent => HSilent | VNone => HNone | VBool b => HBool b | VInt z => HInt z
  | VStr b s => HStr b s
  | VList l => HListV l ((fix go (l : list value) : Forall P l :=
                            match l with [] => Forall_nil _ | x :: r => Forall_cons _ (value_ind_nested x) (go r) end) l)
  | VMap m => HMapV m ((fix go (m : list (value * value)) : Forall (fun p => P (fst p) /\ P (snd p)) m :=
                          match m with
                          | [] => Forall_nil _
                          | (k, x) :: r => Forall_cons (k, x) (conj (value_ind_nested k) (value_ind_nested x)) (go r)
                          end) m)
  | VMacro m cl => HMacroV m cl | VLoop i n => HLoop i n | VFunc f => HFunc f
  end.
End ValueInd.

Section MapFacts.
Variable P : value -> Prop.

(* every key and every value of the entries satisfies P *)
Definition entries_all (m : list (value * value)) : Prop := Forall (fun p => P (fst p) /\ P (snd p)) m.

Lemma entries_all_nil : entries_all [].
Proof. constructor. Qed.

Lemma entries_all_cons k v m : P k -> P v -> entries_all m -> entries_all ((k, v) :: m).
Proof. intros Hk Hv Hm. constructor; [split; assumption|assumption]. Qed.

Lemma map_insert_all k v m : P k -> P v -> entries_all m -> entries_all (map_insert k v m).
Proof.
  intros Hk Hv Hm. induction Hm as [|[k' v'] r [Hk' Hv'] Hr IH]; cbn [map_insert].
  - apply entries_all_cons; [assumption|assumption|constructor].
  - cbn [fst snd] in *. destruct (value_ltb k k').
    + apply entries_all_cons; [assumption|assumption|]. apply entries_all_cons; assumption.
    + destruct (value_ltb k' k).
      * apply entries_all_cons; assumption.
      * apply entries_all_cons; assumption.
Qed.

Lemma map_of_pairs_from_all ps m0 : entries_all ps -> entries_all m0 ->
  entries_all (fold_left (fun m p => map_insert (fst p) (snd p) m) ps m0).
Proof.
  intros Hps. revert m0. induction Hps as [|[k v] r [Hk Hv] Hr IH]; intros m0 Hm0; cbn [fold_left]; [assumption|].
  apply IH. apply map_insert_all; assumption.
Qed.

Lemma map_of_pairs_all ps : entries_all ps -> entries_all (map_of_pairs ps).
Proof. intros H. unfold map_of_pairs. apply map_of_pairs_from_all; [assumption|constructor]. Qed.

Lemma map_get_all k m v : entries_all m -> map_get k m = Some v -> P v.
Proof.
  intros Hm. induction Hm as [|[k' v'] r [Hk' Hv'] Hr IH]; cbn [map_get]; [discriminate|].
  destruct (key_eqb k k'); [intros H; inversion H; subst; exact Hv'|exact IH].
Qed.

Lemma map_keys_all m : entries_all m -> Forall P (map fst m).
Proof. intros Hm. induction Hm as [|p r [Hk _] Hr IH]; cbn [map]; constructor; assumption. Qed.

Lemma map_values_all m : entries_all m -> Forall P (map snd m).
Proof. intros Hm. induction Hm as [|p r [_ Hv] Hr IH]; cbn [map]; constructor; assumption. Qed.

Lemma idx_list_all l i v : Forall P l -> idx_list l i = Some v -> P v.
Proof.
  intros Hl. unfold idx_list. destruct (_ && _); [|discriminate].
  intros H. apply nth_error_In in H. rewrite Forall_forall in Hl. auto.
Qed.

(* subscripts, attribute lookups, unpacking: the result is a component of the container (or a loop field) *)
Lemma get_item_opt_all x k v :
  (forall l, x = VList l -> Forall P l) -> (forall m, x = VMap m -> entries_all m) ->
  get_item_opt x k = Some v -> P v.
Proof.
  intros HL HM. destruct x; cbn [get_item_opt]; try discriminate.
  - destruct k; try discriminate. apply idx_list_all. apply HL; reflexivity.
  - apply map_get_all. apply HM; reflexivity.
Qed.

Lemma get_attr_opt_all x a v :
  (forall i n w, x = VLoop i n -> loop_attr i n a = Some w -> P w) -> (forall m, x = VMap m -> entries_all m) ->
  get_attr_opt x a = Some v -> P v.
Proof.
  intros HL HM. destruct x; cbn [get_attr_opt]; try discriminate.
  - apply map_get_all. apply HM; reflexivity.
  - apply HL; reflexivity.
Qed.

Lemma unpack_items_all x l :
  (forall l, x = VList l -> Forall P l) -> (forall m, x = VMap m -> entries_all m) ->
  unpack_items x = Some l -> Forall P l.
Proof.
  intros HL HM. destruct x; cbn [unpack_items]; try discriminate; intros H; inversion H; subst.
  - apply HL; reflexivity.
  - apply map_keys_all. apply HM; reflexivity.
Qed.

End MapFacts.

(* map_eval_pairs threads the state like map_eval does; shape lemma used by the developments that
   reason about it through an invariant *)
Lemma bind_target_var s x v : bind_target (TVar x) s v = Ok (store s x v).
Proof. reflexivity. Qed.

Lemma bind_target_pair_inv x y s item s' :
  bind_target (TPair x y) s item = Ok s' ->
  exists a b, unpack_items item = Some [a; b] /\ s' = store (store s x a) y b.
Proof.
  cbn [bind_target]. destruct (unpack_items item) as [[|a [|b [|c r]]]|]; try discriminate.
  intros H; inversion H; eauto.
Qed.

Lemma bind_target_err tg s item o : bind_target tg s item = o -> (exists s', o = Ok s') \/ o = Err E_CannotUnpack.
Proof.
  destruct tg; cbn [bind_target]; intros <-; [left; eauto|].
  destruct (unpack_items item) as [[|a [|b [|c r]]]|]; eauto.
Qed.
