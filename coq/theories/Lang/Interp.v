(* Reference interpreter of the core fragment (L1).  Definitional, big-step, on explicit fuel.
   Scoping follows the documentation in syntax.rs: for loops, with blocks, macros and call
   blocks open a scope; `if` does not; loop bodies start every iteration with fresh locals;
   macros see their arguments, the variables they close over and the render context.
   Instrumented: output is a list of chunks (one per emit), and every question put to the
   render context is recorded ([s_asks]). *)
From MJ Require Import Common.Base Lang.Syntax Lang.Meta.

Record frame := mkFrame {
  f_locals : list (name * value);
  f_loop : option (Z * Z * bool);       (* index0, length, exposes `loop` *)
  f_closure : option nat;               (* closure that mirrors the stores of this frame *)
  f_closure_ctx : option nat;           (* closure a macro body reads from *)
  f_base : bool                         (* carries the render context *)
}.

Record st := mkSt {
  s_env : list frame;                   (* innermost first *)
  s_clos : list (list (name * value));
  s_out : list (list Z);                (* chunks, most recent first *)
  s_asks : list name                    (* most recent first *)
}.

Record cfg := mkCfg { c_mode : ubehav; c_root : list (name * value); c_escape : bool }.

Inductive signal := SigNormal | SigBreak | SigContinue.

Definition empty_frame : frame := mkFrame [] None None None false.
Definition base_frame : frame := mkFrame [] None None None true.

Fixpoint assoc {A} (k : name) (l : list (name * A)) : option A :=
  match l with [] => None | (k', v) :: r => if k =? k' then Some v else assoc k r end.
Fixpoint assoc_set {A} (k : name) (v : A) (l : list (name * A)) : list (name * A) :=
  match l with
  | [] => [(k, v)]
  | (k', v') :: r => if k =? k' then (k, v) :: r else (k', v') :: assoc_set k v r
  end.
Fixpoint set_nth_clos (n : nat) (f : list (name * value) -> list (name * value)) (l : list (list (name * value))) :=
  match l, n with
  | [], _ => []
  | c :: r, O => f c :: r
  | c :: r, S n => c :: set_nth_clos n f r
  end.

(* ---- printing ---- *)
Fixpoint digits (fuel : nat) (z : Z) (acc : list Z) : list Z :=
  match fuel with
  | O => acc
  | S f => if z <? 10 then (48 + z) :: acc else digits f (z / 10) ((48 + z mod 10) :: acc)
  end.
Definition show_int (z : Z) : list Z := if z <? 0 then 45 :: digits 60 (- z) [] else digits 60 z [].
Definition str_true := [84; 114; 117; 101].
Definition str_false := [70; 97; 108; 115; 101].
Definition str_none := [78; 111; 110; 101].      (* "None" *)

Definition str_undefined := [117; 110; 100; 101; 102; 105; 110; 101; 100].      (* "undefined" *)

Fixpoint join_with (sep : list Z) (l : list (list Z)) : list Z :=
  match l with
  | [] => []
  | [x] => x
  | x :: r => x ++ sep ++ join_with sep r
  end.

(* value/mod.rs::python_string_debug_fmt: the quote is " when the string has a ' and no ", else ';
   the quote, the backslash, \n \r \t are escaped, other control characters print as \xNN *)
Definition hex_digit (d : Z) : Z := if d <? 10 then 48 + d else 87 + d.
Definition repr_char (quote c : Z) : list Z :=
  if c =? quote then [92; c]
  else if c =? 92 then [92; 92]
  else if c =? 10 then [92; 110]
  else if c =? 13 then [92; 114]
  else if c =? 9 then [92; 116]
  else if (c <? 32) || ((127 <=? c) && (c <=? 159)) then [92; 120; hex_digit (c / 16); hex_digit (c mod 16)]
  else [c].
Definition repr_str (s : list Z) : list Z :=
  let quote := if existsb (Z.eqb 39) s && negb (existsb (Z.eqb 34) s) then 34 else 39 in
  quote :: flat_map (repr_char quote) s ++ [quote].

(* impl Debug for Value: what a value looks like inside a printed list or map *)
Fixpoint repr (v : value) : list Z :=
  match v with
  | VUndef | VSilent => str_undefined
  | VNone => str_none
  | VBool true => str_true
  | VBool false => str_false
  | VInt z => show_int z
  | VStr _ s => repr_str s
  | VList l => 91 :: join_with [44; 32] (map repr l) ++ [93]                                   (* [a, b] *)
  | VMap kvs => 123 :: join_with [44; 32] (map (fun '(k, x) => repr k ++ 58 :: 32 :: repr x) kvs) ++ [125]   (* {k: v} *)
  | _ => [63]          (* macros / loop objects / functions are never printed by the generators *)
  end.

(* impl Display for Value *)
Definition show (v : value) : list Z :=
  match v with
  | VUndef | VSilent => []
  | VStr _ s => s
  | _ => repr v
  end.

Definition escape_char (c : Z) : list Z :=
  match c with
  | 60 => [38; 108; 116; 59]                 (* &lt; *)
  | 62 => [38; 103; 116; 59]                 (* &gt; *)
  | 38 => [38; 97; 109; 112; 59]             (* &amp; *)
  | 34 => [38; 113; 117; 111; 116; 59]       (* &quot; *)
  | 39 => [38; 35; 120; 50; 55; 59]          (* &#x27; *)
  | 47 => [38; 35; 120; 50; 102; 59]         (* &#x2f; *)
  | _ => [c]
  end.
Definition html_escape (s : list Z) : list Z := flat_map escape_char s.

(* utils.rs::write_escaped *)
Definition render_value (esc : bool) (v : value) : list Z :=
  match v with
  | VStr true s => s
  | _ => if esc then html_escape (show v) else show v
  end.

(* ---- truthiness / undefined sites (utils.rs::UndefinedBehavior) ---- *)
Definition truthy (v : value) : bool :=
  match v with
  | VUndef | VSilent | VNone => false
  | VBool b => b
  | VInt z => negb (z =? 0)
  | VStr _ s => match s with [] => false | _ => true end
  | VList l => match l with [] => false | _ => true end
  | VMap kvs => match kvs with [] => false | _ => true end
  | VMacro _ _ | VLoop _ _ | VFunc _ => true
  end.

Definition is_undef (v : value) : bool := match v with VUndef | VSilent => true | _ => false end.
(* the strict modes only reject the ordinary undefined, never the silent one *)
Definition is_strict_undef (v : value) : bool := match v with VUndef => true | _ => false end.

Definition u_is_true (m : ubehav) (v : value) : outcome bool :=
  match m, v with Strict, VUndef => Err E_UndefinedError | _, _ => Ok (truthy v) end.  (* silent undefined never errors *)

Definition u_strictish (m : ubehav) : bool := match m with Strict | SemiStrict => true | _ => false end.

Definition u_not_undef (m : ubehav) (v : value) : outcome unit :=
  if u_strictish m && is_strict_undef v then Err E_UndefinedError else Ok tt.

Definition u_handle_undefined (m : ubehav) (parent_undefined : bool) : outcome value :=
  match m, parent_undefined with
  | Chainable, _ => Ok VUndef
  | _, false => Ok VUndef
  | _, true => Err E_UndefinedError
  end.

(* ---- operators on the fragment's values (value/ops.rs; integers stay far from i128 bounds) ---- *)
Definition in_i128b (z : Z) : bool := in_i128 z.

Definition do_bin (op : binop) (a b : value) : outcome value :=
  match op, a, b with
  | OConcat, _, _ => Ok (VStr false (show a ++ show b))
  | OAdd, VInt x, VInt y => if in_i128b (x + y) then Ok (VInt (x + y)) else Err E_InvalidOperation
  | OAdd, VStr _ x, VStr _ y => Ok (VStr false (x ++ y))
  | OSub, VInt x, VInt y => if in_i128b (x - y) then Ok (VInt (x - y)) else Err E_InvalidOperation
  | OMul, VInt x, VInt y => if in_i128b (x * y) then Ok (VInt (x * y)) else Err E_InvalidOperation
  | OFloorDiv, VInt x, VInt y =>
      if y =? 0 then Err E_InvalidOperation
      else let q := if 0 <? y then x / y else - (x / (- y)) in       (* Euclidean: remainder in [0,|y|) *)
           if in_i128b q then Ok (VInt q) else Err E_InvalidOperation
  | ORem, VInt x, VInt y =>
      if y =? 0 then Err E_InvalidOperation else Ok (VInt (x mod (Z.abs y)))
  | _, _, _ => Err E_InvalidOperation
  end.

Fixpoint list_ltb (x y : list Z) : bool :=
  match x, y with
  | _, [] => false
  | [], _ :: _ => true
  | a :: x, b :: y => if a <? b then true else if b <? a then false else list_ltb x y
  end.

(* ordering (impl Ord for Value): by kind first - undefined < none < bool < number < string < seq < map -,
   then within the kind (sequences, maps and the bool/number mix are not generated as operands of <) *)
Definition kind_rank (v : value) : Z :=
  match v with
  | VUndef | VSilent => 0 | VNone => 1 | VBool _ => 2 | VInt _ => 3 | VStr _ _ => 4 | VList _ => 5 | VMap _ => 6 | _ => 7
  end.
Definition value_ltb (a b : value) : bool :=
  match a, b with
  | VInt x, VInt y => x <? y
  | VStr _ x, VStr _ y => list_ltb x y
  | VBool x, VBool y => negb x && y
  | _, _ => kind_rank a <? kind_rank b
  end.

(* ---- maps (ValueMap = BTreeMap<Value, Value>, the build without feature preserve_order) ----
   Key identity is the ORDER's equality (a bool key and an int key are different keys although
   `true == 1`); the keys of the fragment are scalars (strings, ints, bools, none). *)
Definition key_eqb (a b : value) : bool := negb (value_ltb a b) && negb (value_ltb b a).

(* BTreeMap::insert: a new key goes to its place in the order, an existing key keeps its place (and the
   key object) and takes the new value - so of duplicate keys in a literal the last value wins *)
Fixpoint map_insert (k v : value) (m : list (value * value)) : list (value * value) :=
  match m with
  | [] => [(k, v)]
  | (k', v') :: r =>
      if value_ltb k k' then (k, v) :: m
      else if value_ltb k' k then (k', v') :: map_insert k v r
      else (k', v) :: r
  end.
Definition map_of_pairs (ps : list (value * value)) : list (value * value) :=
  fold_left (fun m p => map_insert (fst p) (snd p) m) ps [].
Fixpoint map_get (k : value) (m : list (value * value)) : option value :=
  match m with
  | [] => None
  | (k', v) :: r => if key_eqb k k' then Some v else map_get k r
  end.

Fixpoint value_eqb (a b : value) : bool :=
  match a, b with
  | VUndef, VUndef | VUndef, VSilent | VSilent, VUndef | VSilent, VSilent | VNone, VNone => true
  | VBool x, VBool y => Bool.eqb x y
  | VInt x, VInt y => x =? y
  | VBool x, VInt y => (if x then 1 else 0) =? y
  | VInt x, VBool y => x =? (if y then 1 else 0)
  | VStr _ x, VStr _ y => list_eqb_Z x y
  | VList x, VList y =>
      (fix go (x y : list value) : bool :=
         match x, y with
         | [], [] => true
         | p :: x, q :: y => value_eqb p q && go x y
         | _, _ => false
         end) x y
  | VMap x, VMap y =>
      (* same number of entries, and every entry of the left map has an equal value under its key in the right one *)
      Nat.eqb (length x) (length y) &&
      (fix go (x : list (value * value)) : bool :=
         match x with
         | [] => true
         | (k, v1) :: x' => match map_get k y with Some v2 => value_eqb v1 v2 | None => false end && go x'
         end) x
  | _, _ => false
  end.

(* str::contains *)
Fixpoint starts_b (p s : list Z) : bool :=
  match p, s with
  | [], _ => true
  | a :: p, b :: s => (a =? b) && starts_b p s
  | _ :: _, [] => false
  end.
Fixpoint is_substr (p s : list Z) : bool :=
  starts_b p s || match s with [] => false | _ :: r => is_substr p r end.

Definition contains (container item : value) : outcome bool :=
  match container with
  | VUndef | VSilent => Ok false
  | VStr _ s => Ok (is_substr (show item) s)      (* a string contains the text the needle prints as *)
  | VList l => Ok (existsb (fun x => value_eqb x item) l)
  | VMap kvs => Ok (match map_get item kvs with Some _ => true | None => false end)      (* a key of the map *)
  | _ => Err E_InvalidOperation
  end.

Definition do_cmp (m : ubehav) (op : cmpop) (a b : value) : outcome bool :=
  match op with
  | CIn | CNotIn =>
      bind (u_not_undef m b) (fun _ =>        (* assert_iterable(container) *)
      bind (u_not_undef m a) (fun _ =>
      bind (contains b a) (fun r => Ok (match op with CNotIn => negb r | _ => r end))))
  | _ =>
      bind (u_not_undef m a) (fun _ =>
      bind (u_not_undef m b) (fun _ =>
      Ok (match op with
          | CEq => value_eqb a b
          | CNe => negb (value_eqb a b)
          | CLt => value_ltb a b
          | CLe => negb (value_ltb b a)          (* PartialOrd::le = not greater: across kinds (true <= 1) this is the order, not == *)
          | CGt => value_ltb b a
          | CGe => negb (value_ltb a b)
          | _ => false
          end)))
  end.

Definition upper_c (c : Z) : Z := if (97 <=? c) && (c <=? 122) then c - 32 else c.
Definition lower_c (c : Z) : Z := if (65 <=? c) && (c <=? 90) then c + 32 else c.
Definition is_ws (c : Z) : bool := (c =? 32) || (c =? 10) || (c =? 9) || (c =? 13).
Fixpoint drop_ws (s : list Z) : list Z := match s with c :: r => if is_ws c then drop_ws r else s | [] => [] end.
Definition trim_s (s : list Z) : list Z := rev (drop_ws (rev (drop_ws s))).

Definition idx_list (l : list value) (i : Z) : option value :=
  let n := lenZ l in
  let j := if i <? 0 then i + n else i in
  if (0 <=? j) && (j <? n) then nth_error l (Z.to_nat j) else None.

(* Value::get_item_opt: sequences by (possibly negative) index, maps by key *)
Definition get_item_opt (x k : value) : option value :=
  match x with
  | VList l => match k with VInt z => idx_list l z | _ => None end
  | VMap kvs => map_get k kvs
  | _ => None
  end.

Definition strv (v : value) : option (bool * list Z) := match v with VStr b s => Some (b, s) | _ => None end.


(* ---- safety-aware string filters (filters.rs: replace, join, format; value/argtypes.rs: StringInput) ---- *)
Fixpoint prefix_b (p s : list Z) : bool :=
  match p, s with
  | [], _ => true
  | a :: p', b :: s' => (a =? b) && prefix_b p' s'
  | _ :: _, [] => false
  end.

(* str::replace for a non-empty needle: non-overlapping matches, left to right;
   [skip] = characters of the current match still to be dropped *)
Fixpoint replace_go (needle rep : list Z) (skip : nat) (h : list Z) : list Z :=
  match h with
  | [] => []
  | ch :: r =>
      match skip with
      | S k => replace_go needle rep k r
      | O => if prefix_b needle h then rep ++ replace_go needle rep (length needle - 1) r
             else ch :: replace_go needle rep 0 r
      end
  end.
Definition replace_s (h needle rep : list Z) : list Z :=
  match needle with
  | [] => rep ++ flat_map (fun ch => ch :: rep) h       (* an empty pattern matches between all characters *)
  | _ => replace_go needle rep 0 h
  end.

(* StringInput: the string a value is coerced to, with its safe bit; undefined is rejected under the strict modes *)
Definition str_input (m : ubehav) (v : value) : outcome (bool * list Z) :=
  if u_strictish m && is_strict_undef v then Err E_UndefinedError
  else Ok (match v with VStr b s => (b, s) | _ => (false, show v) end).
(* StringInput::format: safe input unchanged, anything else escaped like the escape filter does *)
Definition fmt_in (i : bool * list Z) : list Z := if fst i then snd i else html_escape (snd i).
Definition is_safe_v (v : value) : bool := match v with VStr true _ => true | _ => false end.

(* printf-style formatting, modelled fragment: literal text, %% and %s (flags, widths and the other
   conversions are outside the fragment: None); surplus arguments are ignored *)
Fixpoint printf_s (conv : value -> list Z) (fmt : list Z) (args : list value) : option (list Z) :=
  match fmt with
  | [] => Some []
  | 37 :: 37 :: r => option_map (cons 37) (printf_s conv r args)
  | 37 :: 115 :: r =>
      match args with
      | a :: args' => option_map (app (conv a)) (printf_s conv r args')
      | [] => None
      end
  | 37 :: _ => None
  | ch :: r => option_map (cons ch) (printf_s conv r args)
  end.

(* filters.rs for the filters of the fragment.  [esc]: auto-escaping currently on. *)
Definition do_filter (m : ubehav) (esc : bool) (f : name) (v : value) (args : list value) : outcome value :=
  if f =? F_length then
    match v with
    | VList l => Ok (VInt (lenZ l))
    | VStr _ s => Ok (VInt (lenZ s))
    | VMap kvs => Ok (VInt (lenZ kvs))
    | _ => Err E_InvalidOperation
    end
  else if f =? F_default then
    match v with
    | VUndef | VSilent => Ok (match args with a :: _ => a | [] => VStr false [] end)
    | _ => Ok v
    end
  else if f =? F_abs then
    match v with VInt z => Ok (VInt (Z.abs z)) | _ => Err E_InvalidOperation end
  else if f =? F_string then
    match v with
    | VStr b s => Ok (VStr b s)
    | VUndef => if u_strictish m then Err E_UndefinedError else Ok (VStr false [])   (* filters.rs: assert_value_not_undefined *)
    | _ => Ok (VStr false (show v))
    end
  else if f =? F_safe then
    match v with
    | VStr _ s => Ok (VStr true s)
    | VUndef => if u_strictish m then Err E_UndefinedError else Ok (VStr true [])
    | VSilent => Ok (VStr true [])
    | _ => Ok (VStr true (show v))
    end
  else if f =? F_escape then
    match v with
    | VStr true s => Ok (VStr true s)
    | _ => Ok (VStr true (html_escape (show v)))
    end
  else if (f =? F_upper) || (f =? F_lower) || (f =? F_trim) || (f =? F_capitalize) then
    (* string-typed first argument: undefined is rejected under the strict modes, otherwise "" *)
    bind (u_not_undef m v) (fun _ =>
    let s := show v in
    let r := if f =? F_upper then map upper_c s
             else if f =? F_lower then map lower_c s
             else if f =? F_trim then trim_s s
             else match s with [] => [] | c :: r => upper_c c :: map lower_c r end in
    (* argtypes.rs::StringInput::preserve_safety: the result keeps the operand's safe bit *)
    Ok (VStr (match v with VStr b _ => b | _ => false end) r))
  else if f =? F_first then
    match v with
    | VList (x :: _) => Ok x | VList [] => Ok VUndef
    | VMap ((k, _) :: _) => Ok k | VMap [] => Ok VUndef       (* the first key; `last` refuses maps (filters.rs::last: sequences and iterables only) *)
    | _ => Err E_InvalidOperation end
  else if f =? F_last then
    match v with VList l => Ok (match rev l with x :: _ => x | [] => VUndef end) | _ => Err E_InvalidOperation end
  else if f =? F_replace then
    (* replace(value, from, to): all three are StringInputs; safety-aware as soon as one of them is safe *)
    bind (str_input m v) (fun vi =>
    match args with
    | [] => Err E_MissingArgument
    | a1 :: rest =>
        bind (str_input m a1) (fun fi =>
        match rest with
        | [] => Err E_MissingArgument
        | a2 :: rest2 =>
            bind (str_input m a2) (fun ti =>
            match rest2 with
            | [] =>
                if esc && (fst vi || fst fi || fst ti)
                then Ok (VStr true (replace_s (fmt_in vi) (snd fi) (fmt_in ti)))
                else Ok (VStr false (replace_s (snd vi) (snd fi) (snd ti)))
            | _ :: _ => Err E_TooManyArguments
            end)
        end)
    end)
  else if f =? F_join then
    match args with
    | _ :: _ :: _ => Err E_TooManyArguments
    | _ =>
        (* Option<StringInput>: undefined / none = no joiner *)
        let joiner := match args with
                      | [] => None
                      | a :: _ => match a with
                                  | VUndef | VSilent | VNone => None
                                  | VStr b s => Some (b, s)
                                  | _ => Some (false, show a)
                                  end
                      end in
        bind (match v with
              | VList l => Ok l
              | VStr _ s => Ok (map (fun ch => VStr false [ch]) s)      (* a string iterates over its characters *)
              | VMap kvs => Ok (map fst kvs)                            (* a map iterates over its keys *)
              | VUndef | VSilent | VNone => Ok []
              | _ => Err E_InvalidOperation
              end) (fun items =>
        let jstr := match joiner with Some j => snd j | None => [] end in
        let plain := join_with jstr (map show items) in
        if negb esc then Ok (VStr false plain)
        else if (match joiner with Some j => fst j | None => false end)
        then Ok (VStr true (join_with jstr (map (render_value true) items)))
        else if existsb is_safe_v items
        then Ok (VStr true (join_with (match joiner with Some j => fmt_in j | None => [] end) (map (render_value true) items)))
        else Ok (VStr false plain))
    end
  else if f =? F_format then
    match v with
    | VStr sf s =>
        (* a safe format string escapes its unsafe non-numeric arguments and yields a safe string *)
        match printf_s (fun a => if sf then match a with
                                            | VStr true t => t
                                            | VBool _ | VInt _ => show a
                                            | _ => html_escape (show a)
                                            end
                                 else show a) s args with
        | Some r => Ok (VStr sf r)
        | None => Err E_InvalidOperation
        end
    | _ => Err E_InvalidOperation
    end
  else if f =? F_list then
    match v with
    | VList l => Ok (VList l)
    | VStr _ s => Ok (VList (map (fun ch => VStr false [ch]) s))
    | VMap kvs => Ok (VList (map fst kvs))
    | VUndef => if u_strictish m then Err E_InvalidOperation else Ok (VList [])
    | VSilent | VNone => Ok (VList [])
    | _ => Err E_InvalidOperation
    end
  else if f =? F_items then
    (* the [key, value] pairs in map order (the engine yields 2-tuples: same items, printed with parentheses -
       the fragment only unpacks them) *)
    match v with
    | VMap kvs => Ok (VList (map (fun '(k, x) => VList [k; x]) kvs))
    | _ => Err E_InvalidOperation
    end
  else Err E_UnknownFilter.

Definition do_test (t : name) (v : value) : outcome bool :=
  if t =? T_defined then Ok (negb (is_undef v))
  else if t =? T_undefined then Ok (is_undef v)
  else if t =? T_none then Ok (match v with VNone => true | _ => false end)
  else if t =? T_odd then match v with VInt z => Ok (Z.odd z) | _ => Ok false end      (* tests.rs: not an integer = false *)
  else if t =? T_even then match v with VInt z => Ok (Z.even z) | _ => Ok false end
  else if t =? T_mapping then Ok (match v with VMap _ => true | _ => false end)
  else Err E_UnknownTest.

Definition loop_attr (idx len : Z) (a : name) : option value :=
  if a =? A_index then Some (VInt (idx + 1))
  else if a =? A_index0 then Some (VInt idx)
  else if a =? A_revindex then Some (VInt (len - idx))
  else if a =? A_revindex0 then Some (VInt (len - idx - 1))
  else if a =? A_length then Some (VInt len)
  else if a =? A_first then Some (VBool (idx =? 0))
  else if a =? A_last then Some (VBool (idx =? len - 1))
  else None.

(* Value::get_attr_fast: `loop.<field>`, `map.<key>` (the key is the attribute name as a string) *)
Definition get_attr_opt (x : value) (a : name) : option value :=
  match x with
  | VLoop i n => loop_attr i n a
  | VMap kvs => map_get (VStr false (attr_str a)) kvs
  | _ => None
  end.

Fixpoint range_list (fuel : nat) (i n : Z) : list value :=
  match fuel with
  | O => []
  | S f => if i <? n then VInt i :: range_list f (i + 1) n else []
  end.

(* ---- context (vm/context.rs) ---- *)

(* Context::load: frames innermost-out: locals, `loop`, closure, the render context; then globals.
   Returns the value (if any) and whether the render context was asked. *)
Fixpoint load (c : cfg) (clos : list (list (name * value))) (env : list frame) (x : name) : option value * bool :=
  match env with
  | [] => (if x =? N_range then Some (VFunc N_range) else None, false)      (* Environment::get_global *)
  | f :: r =>
      match assoc x (f_locals f) with
      | Some v => (Some v, false)
      | None =>
          match (match f_loop f with
                 | Some (i, n, true) => if x =? N_loop then Some (VLoop i n) else None
                 | _ => None end) with
          | Some v => (Some v, false)
          | None =>
              match (match f_closure_ctx f with
                     | Some id => match nth_error clos id with Some cl => assoc x cl | None => None end
                     | None => None end) with
              | Some v => (Some v, false)
              | None =>
                  if f_base f then
                    match assoc x (c_root c) with
                    | Some v => (Some v, true)
                    | None => let '(v, _) := load c clos r x in (v, true)
                    end
                  else load c clos r x
              end
          end
      end
  end.

Definition lookup (c : cfg) (s : st) (x : name) : option value * st :=
  let '(v, asked) := load c (s_clos s) (s_env s) x in
  (v, if asked then mkSt (s_env s) (s_clos s) (s_out s) (x :: s_asks s) else s).

(* Context::store: top frame's locals, mirrored into the frame's closure if it has one *)
Definition store (s : st) (x : name) (v : value) : st :=
  match s_env s with
  | [] => s
  | f :: r =>
      let f' := mkFrame (assoc_set x v (f_locals f)) (f_loop f) (f_closure f) (f_closure_ctx f) (f_base f) in
      let clos := match f_closure f with
                  | Some id => set_nth_clos id (assoc_set x v) (s_clos s)
                  | None => s_clos s end in
      mkSt (f' :: r) clos (s_out s) (s_asks s)
  end.

Definition push_frame (s : st) (f : frame) : st := mkSt (f :: s_env s) (s_clos s) (s_out s) (s_asks s).
Definition pop_frame (s : st) : st := mkSt (tl (s_env s)) (s_clos s) (s_out s) (s_asks s).
Definition emit (s : st) (chunk : list Z) : st := mkSt (s_env s) (s_clos s) (chunk :: s_out s) (s_asks s).
Definition with_out (s : st) (o : list (list Z)) : st := mkSt (s_env s) (s_clos s) o (s_asks s).
Definition with_env (s : st) (e : list frame) : st := mkSt e (s_clos s) (s_out s) (s_asks s).
Definition output_of (s : st) : list Z := concat (rev (s_out s)).

(* Enclose: the closure of the declaring frame (created on first use) receives the current value
   of every free variable of the macro that it does not hold yet *)
Definition enclose (c : cfg) (s : st) (names : list name) : st * option nat :=
  match names with
  | [] => (s, match s_env s with f :: _ => f_closure f | [] => None end)
  | _ =>
      match s_env s with
      | [] => (s, None)
      | f :: r =>
          let '(id, s1) :=
            match f_closure f with
            | Some id => (id, s)
            | None => let id := length (s_clos s) in
                      (id, mkSt (mkFrame (f_locals f) (f_loop f) (Some id) (f_closure_ctx f) (f_base f) :: r)
                                (s_clos s ++ [[]]) (s_out s) (s_asks s))
            end in
          let s2 := fold_left (fun s x =>
                      match nth_error (s_clos s) id with
                      | Some cl =>
                          match assoc x cl with
                          | Some _ => s
                          | None => let '(v, s') := lookup c s x in
                                    mkSt (s_env s') (set_nth_clos id (assoc_set x (match v with Some v => v | None => VUndef end)) (s_clos s'))
                                         (s_out s') (s_asks s')
                          end
                      | None => s
                      end) names s1 in
          (s2, Some id)
      end
  end.

(* ---- list-walking combinators of the interpreter (kept outside the big fixpoint so that
   lemmas about them can be proved once, by induction on the list) ---- *)

(* evaluate a list of things left to right, threading the state *)
Definition map_eval {X} (ev : st -> X -> outcome (value * st)) : st -> list X -> outcome (list value * st) :=
  fix go (s : st) (l : list X) : outcome (list value * st) :=
    match l with
    | [] => Ok ([], s)
    | x :: r => bind (ev s x) (fun '(v, s1) => bind (go s1 r) (fun '(vs, s2) => Ok (v :: vs, s2)))
    end.

Definition map_eval_kw (ev : st -> expr -> outcome (value * st)) : st -> list (name * expr) -> outcome (list (name * value) * st) :=
  fix go (s : st) (l : list (name * expr)) : outcome (list (name * value) * st) :=
    match l with
    | [] => Ok ([], s)
    | (k, x) :: r => bind (ev s x) (fun '(v, s1) => bind (go s1 r) (fun '(kv, s2) => Ok ((k, v) :: kv, s2)))
    end.

(* chained comparison a < b < c: every operand evaluated at most once, stops at the first false *)
Definition cmp_chain (m : ubehav) (ev : st -> expr -> outcome (value * st)) : value -> st -> list (cmpop * expr) -> outcome (value * st) :=
  fix chain (left : value) (s : st) (l : list (cmpop * expr)) : outcome (value * st) :=
    match l with
    | [] => Ok (VBool true, s)
    | (op, r) :: l' =>
        bind (ev s r) (fun '(y, s2) =>
        bind (do_cmp m op left y) (fun b =>
          match l' with
          | [] => Ok (VBool b, s2)
          | _ => if b then chain y s2 l' else Ok (VBool false, s2)
          end))
    end.

(* macro_object.rs::prepare_args: every parameter positional, or keyword, or undefined; both = duplicate *)
Definition bind_params (kwargs : list (name * value)) : list name -> list value -> outcome (list (name * value)) :=
  fix bindp (ps : list name) (pos : list value) : outcome (list (name * value)) :=
    match ps with
    | [] => Ok []
    | p :: ps' =>
        match pos, assoc p kwargs with
        | v :: pos', None => bind (bindp ps' pos') (fun r => Ok ((p, v) :: r))
        | v :: _, Some _ => Err E_TooManyArguments
        | [], Some v => bind (bindp ps' []) (fun r => Ok ((p, v) :: r))
        | [], None => bind (bindp ps' []) (fun r => Ok ((p, VUndef) :: r))
        end
    end.

(* arguments are stored one by one; a missing one takes its default, evaluated in the macro's scope *)
Definition store_args (ev : st -> expr -> outcome (value * st)) (defaults : list (name * expr)) : st -> list (name * value) -> outcome st :=
  fix go (s : st) (l : list (name * value)) : outcome st :=
    match l with
    | [] => Ok s
    | (p, v) :: r =>
        match is_undef v, assoc p defaults with
        | true, Some d => bind (ev s d) (fun '(dv, s1) => go (store s1 p dv) r)
        | _, _ => go (store s p v) r
        end
    end.

Definition if_arms (m : ubehav) (ev : st -> expr -> outcome (value * st)) (ex : st -> list stmt -> outcome (signal * st))
    (els : option (list stmt)) : st -> list (expr * list stmt) -> outcome (signal * st) :=
  fix go (s : st) (l : list (expr * list stmt)) : outcome (signal * st) :=
    match l with
    | [] => match els with Some b => ex s b | None => Ok (SigNormal, s) end
    | (cnd, body) :: r =>
        bind (ev s cnd) (fun '(v, s1) => bind (u_is_true m v) (fun b =>
        if b then ex s1 body else go s1 r))
    end.

(* vm/mod.rs::unpack_list: any iterable OBJECT unpacks (a list into its items, a map into its keys);
   strings and the other primitives do not *)
Definition unpack_items (v : value) : option (list value) :=
  match v with
  | VList l => Some l
  | VMap kvs => Some (map fst kvs)
  | _ => None
  end.

(* compile_assignment: StoreLocal | UnpackList(2); StoreLocal; StoreLocal *)
Definition bind_target (tgt : target) (s : st) (item : value) : outcome st :=
  match tgt with
  | TVar x => Ok (store s x item)
  | TPair x y =>
      match unpack_items item with
      | Some [a; b] => Ok (store (store s x a) y b)
      | _ => Err E_CannotUnpack
      end
  end.

(* the loop filter runs in a scope of its own, once per item *)
Definition filter_items (m : ubehav) (ev : st -> expr -> outcome (value * st)) (tgt : target) (fe : expr) : st -> list value -> outcome (list value * st) :=
  fix go (s : st) (l : list value) : outcome (list value * st) :=
    match l with
    | [] => Ok ([], s)
    | item :: r =>
        let sf := push_frame s (mkFrame [] (Some (0, 0, false)) None None false) in
        bind (bind_target tgt sf item) (fun sf1 =>
        bind (ev sf1 fe) (fun '(v, sf2) => bind (u_is_true m v) (fun keep =>
        bind (go (pop_frame sf2) r) (fun '(rest, s3) =>
        Ok (if keep then item :: rest else rest, s3)))))
    end.

(* the iterations of a loop whose frame is on top: every iteration starts with fresh locals *)
Definition loop_items (ex : st -> list stmt -> outcome (signal * st)) (tgt : target) (body : list stmt) (n : Z) : st -> Z -> list value -> outcome st :=
  fix go (s : st) (i : Z) (l : list value) : outcome st :=
    match l with
    | [] => Ok s
    | item :: r =>
        let s' := match s_env s with
                  | f :: e => with_env s (mkFrame [] (Some (i, n, true)) (f_closure f) (f_closure_ctx f) false :: e)
                  | [] => s end in
        bind (bind_target tgt s' item) (fun s3 =>
        bind (ex s3 body) (fun '(sg, s4) =>
        match sg with
        | SigBreak => Ok s4
        | _ => go s4 (i + 1) r
        end))
    end.

(* evaluate the keys and values of a map literal in source order: k1 v1 k2 v2 .. *)
Definition map_eval_pairs (ev : st -> expr -> outcome (value * st)) : st -> list (expr * expr) -> outcome (list (value * value) * st) :=
  fix go (s : st) (l : list (expr * expr)) : outcome (list (value * value) * st) :=
    match l with
    | [] => Ok ([], s)
    | (ke, ve) :: r =>
        bind (ev s ke) (fun '(k, s1) => bind (ev s1 ve) (fun '(v, s2) =>
        bind (go s2 r) (fun '(kvs, s3) => Ok ((k, v) :: kvs, s3))))
    end.

(* the assignments of a `with`: each right-hand side is evaluated completely, then its target is bound *)
Definition with_binds (ev : st -> expr -> outcome (value * st)) : st -> list (target * expr) -> outcome st :=
  fix go (s : st) (l : list (target * expr)) : outcome st :=
    match l with
    | [] => Ok s
    | (t, e) :: r => bind (ev s e) (fun '(v, s1) => bind (bind_target t s1 v) (fun s2 => go s2 r))
    end.

(* ---- the interpreter ---- *)
Section Interp.
Variable c : cfg.
Let m := c_mode c.

Fixpoint eval (fuel : nat) (esc : bool) (s : st) (e : expr) {struct fuel} : outcome (value * st) :=
  match fuel with
  | O => OutOfGas
  | S fuel =>
    let eval_list := map_eval (eval fuel esc) in
    match e with
    | EConst (LInt z) => Ok (VInt z, s)
    | EConst (LStr t) => Ok (VStr false t, s)
    | EConst (LBool b) => Ok (VBool b, s)
    | EConst LNone => Ok (VNone, s)
    | EVar x => let '(v, s1) := lookup c s x in Ok (match v with Some v => v | None => VUndef end, s1)
    | EList items => bind (eval_list s items) (fun '(vs, s1) => Ok (VList vs, s1))
    | EMap pairs => bind (map_eval_pairs (eval fuel esc) s pairs) (fun '(kvs, s1) => Ok (VMap (map_of_pairs kvs), s1))
    | ENeg a => bind (eval fuel esc s a) (fun '(v, s1) =>
                  match v with VInt z => Ok (VInt (- z), s1) | _ => Err E_InvalidOperation end)
    | ENot a => bind (eval fuel esc s a) (fun '(v, s1) => bind (u_is_true m v) (fun b => Ok (VBool (negb b), s1)))
    | EBin op a b =>
        bind (eval fuel esc s a) (fun '(x, s1) => bind (eval fuel esc s1 b) (fun '(y, s2) =>
        bind (match op with
              | OConcat => bind (u_not_undef m x) (fun _ => u_not_undef m y)
              | _ => Ok tt end) (fun _ =>
        bind (do_bin op x y) (fun r => Ok (r, s2)))))
    | ECmp a rest =>
        bind (eval fuel esc s a) (fun '(x, s1) =>
          cmp_chain m (eval fuel esc) x s1 rest)
    | EAnd a b => bind (eval fuel esc s a) (fun '(x, s1) => bind (u_is_true m x) (fun t =>
                    if t then eval fuel esc s1 b else Ok (x, s1)))
    | EOr a b => bind (eval fuel esc s a) (fun '(x, s1) => bind (u_is_true m x) (fun t =>
                    if t then Ok (x, s1) else eval fuel esc s1 b))
    | EIf cnd t f => bind (eval fuel esc s cnd) (fun '(x, s1) => bind (u_is_true m x) (fun b =>
                    if b then eval fuel esc s1 t
                    else match f with Some f => eval fuel esc s1 f | None => Ok (VSilent, s1) end))
    | EItem a i =>
        bind (eval fuel esc s a) (fun '(x, s1) => bind (eval fuel esc s1 i) (fun '(k, s2) =>
          match get_item_opt x k with
          | Some v => Ok (v, s2)
          | None => bind (u_handle_undefined m (is_undef x)) (fun v => Ok (v, s2))
          end))
    | EAttr a attr =>
        bind (eval fuel esc s a) (fun '(x, s1) =>
          match get_attr_opt x attr with
          | Some v => Ok (v, s1)
          | None => bind (u_handle_undefined m (is_undef x)) (fun v => Ok (v, s1))
          end)
    | EFilter f a args =>
        bind (eval fuel esc s a) (fun '(x, s1) => bind (eval_list s1 args) (fun '(vs, s2) =>
        bind (do_filter m esc f x vs) (fun r => Ok (r, s2))))
    | ETest t a args neg =>
        bind (eval fuel esc s a) (fun '(x, s1) => bind (eval_list s1 args) (fun '(_, s2) =>
        bind (do_test t x) (fun r => Ok (VBool (if neg then negb r else r), s2))))
    | ECall f args kwargs =>
        bind (eval_list s args) (fun '(vs, s1) =>
        bind (map_eval_kw (eval fuel esc) s1 kwargs) (fun '(kvs, s2) =>
        let '(fv, s3) := lookup c s2 f in
        match fv with
        | Some (VMacro mc cl) => call_macro fuel esc s3 mc cl vs kvs
        | Some (VFunc g) =>
            if g =? N_range then
              match vs, kvs with
              | [VInt n], [] => Ok (VList (range_list (Z.to_nat (Z.min (Z.max n 0) 100000)) 0 n), s3)
              | _, _ => Err E_InvalidOperation
              end
            else Err E_UnknownFunction
        | Some _ => Err E_InvalidOperation
        | None => Err E_UnknownFunction
        end))
    end
  end

(* vm/macro_object.rs::Macro::call + vm/mod.rs::eval_macro *)
with call_macro (fuel : nat) (esc : bool) (s : st) (mc : macro) (cl : option nat)
                (args : list value) (kwargs : list (name * value)) {struct fuel} : outcome (value * st) :=
  match fuel with
  | O => OutOfGas
  | S fuel =>
    if Nat.ltb (length (m_params mc)) (length args) then Err E_TooManyArguments else
    bind (bind_params kwargs (m_params mc) args) (fun bound =>
    if existsb (fun '(k, _) => negb (existsb (Z.eqb k) (m_params mc)) && negb (m_caller mc && (k =? N_caller))) kwargs
    then Err E_TooManyArguments else
    let caller_v := match assoc N_caller kwargs with Some v => v | None => VUndef end in
    let top := mkFrame (if m_caller mc then [(N_caller, caller_v)] else []) None None cl false in
    let s0 := mkSt [top; base_frame] (s_clos s) [] (s_asks s) in
    (* arguments are stored last-to-first *)
    bind (store_args (eval fuel esc) (m_defaults mc) s0 (rev bound)) (fun s1 =>
    bind (exec_list fuel esc s1 (m_body mc)) (fun '(_, s2) =>
    Ok (VStr esc (output_of s2), mkSt (s_env s) (s_clos s2) (s_out s) (s_asks s2)))))
  end

with exec (fuel : nat) (esc : bool) (s : st) (t : stmt) {struct fuel} : outcome (signal * st) :=
  match fuel with
  | O => OutOfGas
  | S fuel =>
    (* run a body with a fresh output buffer; returns what it wrote *)
    let capture (esc : bool) (s : st) (body : list stmt) : outcome (signal * list Z * st) :=
        bind (exec_list fuel esc (with_out s []) body) (fun '(sg, s1) =>
        Ok (sg, output_of s1, with_out s1 (s_out s))) in
    match t with
    | SRaw text => Ok (SigNormal, emit s text)
    | SEmit e =>
        bind (eval fuel esc s e) (fun '(v, s1) =>
        if u_strictish m && is_strict_undef v then Err E_UndefinedError
        else Ok (SigNormal, emit s1 (render_value esc v)))
    | SIf arms els =>
        if_arms m (eval fuel esc) (exec_list fuel esc) els s arms
    | SFor tgt iter flt body els _ =>
        bind (eval fuel esc s iter) (fun '(iv, s1) =>
        bind (match iv with
              | VList l => Ok l
              | VStr _ t => Ok (map (fun ch => VStr false [ch]) t)     (* a string iterates over its characters *)
              | VMap kvs => Ok (map fst kvs)                           (* a map iterates over its keys, in map order *)
              | VUndef => if u_strictish m then Err E_UndefinedError else Ok []
              | VSilent => Ok []
              | _ => Err E_InvalidOperation end) (fun items =>
        bind (match flt with
              | None => Ok (items, s1)
              | Some fe => filter_items m (eval fuel esc) tgt fe s1 items
              end) (fun '(items, s2) =>
        let n := lenZ items in
        bind (loop_items (exec_list fuel esc) tgt body n (push_frame s2 (mkFrame [] (Some (0, n, true)) None None false)) 0 items) (fun s5 =>
        let s6 := pop_frame s5 in
        match items, els with
        | [], Some eb => exec_list fuel esc s6 eb
        | _, _ => Ok (SigNormal, s6)
        end))))
    | SSet tgt e =>
        (* the right-hand side is evaluated completely before any target is bound *)
        bind (eval fuel esc s e) (fun '(v, s1) => bind (bind_target tgt s1 v) (fun s2 => Ok (SigNormal, s2)))
    | SSetBlock x body flt =>
        bind (capture esc s body) (fun '(sg, txt, s1) =>
        match sg with
        | SigNormal =>
            bind (match flt with
                  | None => Ok (VStr esc txt)
                  | Some f => do_filter m esc f (VStr esc txt) []
                  end) (fun v => Ok (SigNormal, store s1 x v))
        | _ => Ok (sg, s1)            (* a loop control left the block: nothing is assigned *)
        end)
    | SWith binds body =>
        bind (with_binds (eval fuel esc) (push_frame s empty_frame) binds) (fun s1 =>
        bind (exec_list fuel esc s1 body) (fun '(sg, s2) => Ok (sg, pop_frame s2)))
    | SMacro nm params defaults body =>
        let mc := mkMacro nm params defaults body (uses_caller params defaults body) in
        let '(s1, cl) := enclose c s (macro_closure params defaults body) in
        Ok (SigNormal, store s1 nm (VMacro mc cl))
    | SCallBlock mn args body =>
        (* positional arguments first, then the caller macro (closing over the call site) *)
        bind (map_eval (eval fuel esc) s args) (fun '(vs, s1) =>
        let cm := mkMacro N_caller [] [] body (uses_caller [] [] body) in
        let '(s2, cl) := enclose c s1 (macro_closure [] [] body) in
        let '(fv, s3) := lookup c s2 mn in
        match fv with
        | Some (VMacro mc mcl) =>
            bind (call_macro fuel esc s3 mc mcl vs [(N_caller, VMacro cm cl)]) (fun '(v, s4) =>
            Ok (SigNormal, emit s4 (render_value esc v)))
        | Some _ => Err E_InvalidOperation
        | None => Err E_UnknownFunction
        end)
    | SFilterBlock f body =>
        bind (capture esc s body) (fun '(sg, txt, s1) =>
        match sg with
        | SigNormal => bind (do_filter m esc f (VStr esc txt) []) (fun v => Ok (SigNormal, emit s1 (render_value esc v)))
        | _ => Ok (sg, s1)
        end)
    | SAutoEscape ve body =>
        bind (eval fuel esc s ve) (fun '(v, s1) =>
        bind (match v with
              | VStr _ [104; 116; 109; 108] => Ok true          (* "html" *)
              | VStr _ [110; 111; 110; 101] => Ok false         (* "none" *)
              | VBool true => Ok true
              | VBool false => Ok false
              | VStr _ _ => Err E_InvalidOperation
              | _ => Ok false end) (fun esc' =>
        exec_list fuel esc' s1 body))
    | SBreak => Ok (SigBreak, s)
    | SContinue => Ok (SigContinue, s)
    end
  end

with exec_list (fuel : nat) (esc : bool) (s : st) (l : list stmt) {struct fuel} : outcome (signal * st) :=
  match fuel with
  | O => OutOfGas
  | S fuel =>
    match l with
    | [] => Ok (SigNormal, s)
    | t :: r =>
        bind (exec fuel esc s t) (fun '(sg, s1) =>
        match sg with
        | SigNormal => exec_list fuel esc s1 r
        | _ => Ok (sg, s1)
        end)
    end
  end.

Definition init_state : st := mkSt [base_frame] [] [] [].

(* a whole template *)
Definition run (fuel : nat) (body : list stmt) : outcome st :=
  bind (exec_list fuel (c_escape c) init_state body) (fun '(_, s) => Ok s).

End Interp.
