(* compiler/meta.rs: the assignment tracker behind `undeclared_variables` and the computation of
   a macro's closure (find_macro_closure), for the core fragment, mirrored visit by visit
   (including the order in which each construct visits its sub-terms and the "assigned on
   first lookup" shortcut of the non-nested mode).
   State of the code mirrored: meta.rs after the C18 fixes (a target is assigned after its
   right-hand side / body was visited, macro parameters last to first with their defaults, the
   macro name after the macro, `loop` after iterable and filter, autoescape value visited). *)
From MJ Require Import Common.Base Lang.Syntax.

Fixpoint list_eqb_Z (a b : list Z) : bool :=
  match a, b with
  | [], [] => true
  | x :: a, y :: b => (x =? y) && list_eqb_Z a b
  | _, _ => false
  end.

Definition mem (x : name) (l : list name) : bool := existsb (Z.eqb x) l.

Record tstate := mkT { t_out : list name; t_assigned : list (list name) }.

Definition t_is_assigned (x : name) (t : tstate) : bool := existsb (mem x) (t_assigned t).
Definition t_assign (x : name) (t : tstate) : tstate :=
  match t_assigned t with
  | sc :: r => mkT (t_out t) ((x :: sc) :: r)
  | [] => mkT (t_out t) [[x]]
  end.
Definition t_push (t : tstate) : tstate := mkT (t_out t) ([] :: t_assigned t).
Definition t_pop (t : tstate) : tstate := mkT (t_out t) (tl (t_assigned t)).
Definition t_lookup (x : name) (t : tstate) : tstate :=
  if t_is_assigned x t then t
  else t_assign x (mkT (if mem x (t_out t) then t_out t else x :: t_out t) (t_assigned t)).

Fixpoint visit_expr (e : expr) (t : tstate) {struct e} : tstate :=
  match e with
  | EConst _ => t
  | EVar x => t_lookup x t
  | EList items => (fix go l t := match l with [] => t | x :: r => go r (visit_expr x t) end) items t
  | EMap pairs => (fix go (l : list (expr * expr)) t := match l with [] => t | (k, v) :: r => go r (visit_expr v (visit_expr k t)) end) pairs t
  | ENeg a | ENot a => visit_expr a t
  | EBin _ a b | EAnd a b | EOr a b => visit_expr b (visit_expr a t)
  | ECmp a rest => (fix go (l : list (cmpop * expr)) t := match l with [] => t | (_, x) :: r => go r (visit_expr x t) end) rest (visit_expr a t)
  | EIf c a f => let t := visit_expr a (visit_expr c t) in match f with Some f => visit_expr f t | None => t end
  | EItem a i => visit_expr i (visit_expr a t)
  | EAttr a _ => visit_expr a t
  | EFilter _ a args | ETest _ a args _ =>
      (fix go l t := match l with [] => t | x :: r => go r (visit_expr x t) end) args (visit_expr a t)
  | ECall f args kwargs =>
      let t := (fix go l t := match l with [] => t | x :: r => go r (visit_expr x t) end) args (t_lookup f t) in
      (fix go (l : list (name * expr)) t := match l with [] => t | (_, x) :: r => go r (visit_expr x t) end) kwargs t
  end.

Definition assign_target (tg : target) (t : tstate) : tstate :=
  match tg with TVar x => t_assign x t | TPair x y => t_assign y (t_assign x t) end.

(* the default of parameter [p], if it has one (the parser only accepts defaults on trailing
   parameters, so pairing them by name is the reversed zip of codegen.rs / meta.rs) *)
Fixpoint default_of (p : name) (defaults : list (name * expr)) : option expr :=
  match defaults with
  | [] => None
  | (k, d) :: r => if p =? k then Some d else default_of p r
  end.

(* tracker_visit_macro: parameters last to first, the default of a parameter right before the
   parameter is assigned (the order in which the compiled macro stores its arguments) *)
Definition visit_params (params : list name) (defaults : list (name * expr)) (t : tstate) : tstate :=
  fold_left (fun t p => t_assign p (match default_of p defaults with Some d => visit_expr d t | None => t end))
            (rev params) t.

Fixpoint walk (s : stmt) (t : tstate) {struct s} : tstate :=
  let walk_list := fix go (l : list stmt) (t : tstate) : tstate := match l with [] => t | x :: r => go r (walk x t) end in
  let visit_macro (declare_caller : bool) (params : list name) (defaults : list (name * expr)) (body : list stmt) (t : tstate) :=
      let t := if declare_caller then t_assign N_caller t else t in
      walk_list body (visit_params params defaults t) in
  match s with
  | SRaw _ | SBreak | SContinue => t
  | SEmit e => visit_expr e t
  | SIf arms els =>
      (* `elif` is a nested if in the else branch: cond, push, body, pop, push, <rest>, pop *)
      (fix go (l : list (expr * list stmt)) (t : tstate) : tstate :=
         match l with
         | [] => match els with Some b => walk_list b t | None => t end
         | (c, b) :: r =>
             let t := visit_expr c t in
             let t := t_pop (walk_list b (t_push t)) in
             match r, els with
             | [], None => t_pop (t_push t)
             | _, _ => t_pop (go r (t_push t))
             end
         end) arms t
  | SFor tg iter flt body els _ =>
      (* the iterable is evaluated outside of the loop; the filter sees the target but not `loop` *)
      let t := visit_expr iter t in
      let t := assign_target tg (t_push t) in
      let t := match flt with Some f => visit_expr f t | None => t end in
      let t := t_assign N_loop t in
      let t := t_pop (walk_list body t) in
      t_pop (match els with Some b => walk_list b (t_push t) | None => t_push t end)
  | SSet tg e => assign_target tg (visit_expr e t)
  | SSetBlock x body _ => t_assign x (t_pop (walk_list body (t_push t)))
  | SWith binds body =>
      let t := fold_left (fun t b => assign_target (fst b) (visit_expr (snd b) t)) binds (t_push t) in
      t_pop (walk_list body t)
  | SMacro nm params defaults body => t_assign nm (t_pop (visit_macro true params defaults body (t_push t)))
  | SCallBlock mn args body =>
      let t := fold_left (fun t a => visit_expr a t) args (t_lookup mn t) in
      t_pop (visit_macro true [] [] body (t_push t))
  | SFilterBlock _ body => t_pop (walk_list body (t_push t))
  | SAutoEscape v body => t_pop (walk_list body (t_push (visit_expr v t)))
  end.

Definition walk_list (l : list stmt) (t : tstate) : tstate := fold_left (fun t s => walk s t) l t.

(* find_macro_closure: tracker_visit_macro(m, fresh, declare_caller = false) *)
Definition closure_raw (params : list name) (defaults : list (name * expr)) (body : list stmt) : list name :=
  t_out (walk_list body (visit_params params defaults (mkT [] [[]]))).

Definition uses_caller params defaults body : bool := mem N_caller (closure_raw params defaults body).
Definition macro_closure params defaults body : list name :=
  filter (fun x => negb (x =? N_caller)) (closure_raw params defaults body).

(* find_undeclared (non-nested): `self` is pre-assigned by the Template node; no name of the
   fragment collides with it *)
Definition find_undeclared (body : list stmt) : list name := t_out (walk_list body (mkT [] [[]])).
