(* Core-fragment syntax (mirrors compiler/ast.rs for the constructs of the core fragment) and
   run-time values.  Names are integers: the harness interns identifiers; well-known names
   have the fixed numbers below (shared with tools/langenc.py). *)
From MJ Require Import Common.Base.

Definition name := Z.

(* well-known variable / function names *)
Definition N_range : name := 1.
Definition N_caller : name := 2.
Definition N_loop : name := 3.
(* loop attributes *)
Definition A_index := 1.   Definition A_index0 := 2.  Definition A_revindex := 3.
Definition A_revindex0 := 4. Definition A_length := 5. Definition A_first := 6. Definition A_last := 7.
(* filters *)
Definition F_length := 1. Definition F_upper := 2. Definition F_lower := 3. Definition F_trim := 4.
Definition F_capitalize := 5. Definition F_string := 6. Definition F_abs := 7. Definition F_default := 8.
Definition F_first := 9. Definition F_last := 10. Definition F_safe := 11. Definition F_escape := 12.
Definition F_replace := 13. Definition F_join := 14. Definition F_format := 15. Definition F_list := 16.
Definition F_items := 17.
(* tests *)
Definition T_defined := 1. Definition T_undefined := 2. Definition T_odd := 3. Definition T_even := 4.
Definition T_none := 5. Definition T_mapping := 6.

(* Attribute names.  1..7 are the loop attributes above; every other attribute name is the number
   1000 + sum c_i * 128^i of its (ASCII, non-empty) characters c_0 c_1 ..  (tools/langenc.py::attr_id).
   [attr_str] gives the string back: it is the key `m.name` looks up in a map. *)
Fixpoint attr_chars (fuel : nat) (z : Z) : list Z :=
  match fuel with
  | O => []
  | S f => if z <=? 0 then [] else (z mod 128) :: attr_chars f (z / 128)
  end.
Definition attr_str (a : name) : list Z :=
  if a =? A_index then [105; 110; 100; 101; 120]
  else if a =? A_index0 then [105; 110; 100; 101; 120; 48]
  else if a =? A_revindex then [114; 101; 118; 105; 110; 100; 101; 120]
  else if a =? A_revindex0 then [114; 101; 118; 105; 110; 100; 101; 120; 48]
  else if a =? A_length then [108; 101; 110; 103; 116; 104]
  else if a =? A_first then [102; 105; 114; 115; 116]
  else if a =? A_last then [108; 97; 115; 116]
  else attr_chars 64 (a - 1000).

Inductive lit := LInt (z : Z) | LStr (s : list Z) | LBool (b : bool) | LNone.

Inductive binop := OAdd | OSub | OMul | OFloorDiv | ORem | OConcat.
Inductive cmpop := CEq | CNe | CLt | CLe | CGt | CGe | CIn | CNotIn.

Inductive expr :=
| EConst (l : lit)
| EVar (x : name)
| EList (items : list expr)
| EMap (pairs : list (expr * expr))             (* {k: v, ..}: ast::Map, keys and values in source order *)
| ENeg (e : expr)
| ENot (e : expr)
| EBin (op : binop) (a b : expr)
| ECmp (e : expr) (rest : list (cmpop * expr))
| EAnd (a b : expr)
| EOr (a b : expr)
| EIf (c t : expr) (f : option expr)
| EItem (e i : expr)
| EAttr (e : expr) (a : name)
| EFilter (f : name) (e : expr) (args : list expr)
| ETest (t : name) (e : expr) (args : list expr) (negated : bool)
| ECall (f : name) (args : list expr) (kwargs : list (name * expr)).

Inductive target := TVar (x : name) | TPair (x y : name).

Inductive stmt :=
| SRaw (text : list Z)
| SEmit (e : expr)
| SIf (arms : list (expr * list stmt)) (els : option (list stmt))
| SFor (t : target) (iter : expr) (filter : option expr) (body : list stmt) (els : option (list stmt)) (recursive : bool)
| SSet (t : target) (e : expr)                 (* `set x = e` / `set x, y = e` *)
| SSetBlock (x : name) (body : list stmt) (filter : option name)
| SWith (binds : list (target * expr)) (body : list stmt)   (* `with x = e, (y, z) = f` *)
| SMacro (m : name) (params : list name) (defaults : list (name * expr)) (body : list stmt)
| SCallBlock (m : name) (args : list expr) (body : list stmt)
| SFilterBlock (f : name) (body : list stmt)
| SAutoEscape (v : expr) (body : list stmt)
| SBreak
| SContinue.

Record macro := mkMacro { m_name : name; m_params : list name; m_defaults : list (name * expr);
                          m_body : list stmt; m_caller : bool }.

Inductive value :=
| VUndef
| VSilent                     (* the silent undefined of `x if c` without else *)
| VNone
| VBool (b : bool)
| VInt (z : Z)
| VStr (safe : bool) (s : list Z)
| VList (l : list value)
| VMap (entries : list (value * value))   (* ValueMap of the default build = BTreeMap<Value, Value>: entries in
                                             ascending key order (impl Ord for Value), no two keys equal in that
                                             order; built only through Interp.map_insert *)
| VMacro (m : macro) (closure : option nat)
| VLoop (idx len : Z)
| VFunc (f : name).           (* a global function of the environment (range) *)

(* undefined behaviours (environment.rs / utils.rs::UndefinedBehavior) *)
Inductive ubehav := Lenient | Chainable | SemiStrict | Strict.
