(* C02 -- HTML auto-escaping is sound: unsafe data is escaped exactly once.
   Statements only; proofs in MJ.C02.Proofs.  Model: Lang/Interp.v run with esc = true (see C02/Spec.v
   for the map to utils.rs / output.rs / filters.rs / macro_object.rs and for safe_free, good_binds). *)
From MJ Require Import Common.Base Lang.Syntax Lang.Meta Lang.Interp C02.Spec C02.Out C02.Proofs C02.Names C02.NamesProofs C02.Modes C02.ModesProofs.

(* For every program of the core fragment that uses no safe-marking construct (`safe`, autoescape
   blocks) and whose raw template text has none of the four metacharacters - string literals,
   macros, call blocks, set-blocks, filter blocks, loops, every filter of the fragment incl. `escape` and
   the safety-aware `replace`, `join`, `format` (printf fragment: text, %%, %s) and `list` are allowed -, every context whose safe strings (if any) are metacharacter-free, every undefined
   mode and every fuel: with auto-escaping on, the output contains none of them. *)
Theorem escape_sound : forall c fuel body s,
  c_escape c = true -> good_binds (c_root c) = true -> safe_free body = true ->
  run c fuel body = Ok s ->
  forall ch, In ch (output_of s) -> ch <> 60 /\ ch <> 62 /\ ch <> 34 /\ ch <> 39.
Proof.
  intros c fuel body s He Hr Hb H. apply clean_spec. eapply escape_sound_proof; eauto.
Qed.

(* ... in particular for every context of plain data (what a JSON / serde context is) *)
Theorem escape_sound_data_context : forall c fuel body s,
  c_escape c = true -> forallb (fun p => data_value (snd p)) (c_root c) = true -> safe_free body = true ->
  run c fuel body = Ok s ->
  forall ch, In ch (output_of s) -> ch <> 60 /\ ch <> 62 /\ ch <> 34 /\ ch <> 39.
Proof.
  intros c fuel body s He Hr. apply escape_sound; auto. now apply data_binds_good.
Qed.

(* Exactly once.  A safe string is printed verbatim, an unsafe one is escaped (once: html_escape maps
   every character to its entity or to itself), and what a capture hands out prints as captured. *)
Theorem no_double_escape : forall s, render_value true (VStr true s) = s.
Proof. exact print_safe. Qed.

Theorem unsafe_is_escaped : forall s, render_value true (VStr false s) = html_escape s.
Proof. exact print_unsafe. Qed.

Theorem capture_prints_verbatim : forall esc txt, render_value esc (VStr esc txt) = txt.
Proof. exact print_captured. Qed.

(* macro call: the value is the body's output (the body starts on an empty buffer), marked so that
   printing it under the same escape mode reproduces those bytes; the caller's buffer is untouched *)
Theorem no_double_escape_macro : forall c fuel esc s mc cl args kw v s',
  call_macro c (S fuel) esc s mc cl args kw = Ok (v, s') ->
  exists s1 sg s2, s_out s1 = [] /\ exec_list c fuel esc s1 (m_body mc) = Ok (sg, s2) /\
    v = VStr esc (output_of s2) /\ render_value esc v = output_of s2 /\ s_out s' = s_out s.
Proof. exact macro_call_value. Qed.

(* call block: what is emitted is the printing of the macro call's value (previous theorem) *)
Theorem no_double_escape_call_block : forall c fuel esc s mn args body sg s',
  exec c (S fuel) esc s (SCallBlock mn args body) = Ok (sg, s') ->
  exists s3 mc mcl vs kw v s4, call_macro c fuel esc s3 mc mcl vs kw = Ok (v, s4) /\
    s' = emit s4 (render_value esc v) /\ s_out s4 = s_out s.
Proof. exact call_block_emits. Qed.

(* set-block: the variable holds the body's output, and printing it reproduces it *)
Theorem no_double_escape_set_block : forall c fuel esc s x body sg s',
  exec c (S fuel) esc s (SSetBlock x body None) = Ok (sg, s') -> sg = SigNormal ->
  exists s1, exec_list c fuel esc (with_out s []) body = Ok (SigNormal, s1) /\
    s' = store (with_out s1 (s_out s)) x (VStr esc (output_of s1)) /\
    render_value esc (VStr esc (output_of s1)) = output_of s1.
Proof. exact set_block_value. Qed.

(* filter block: the filter's operand is the body's output in that same form *)
Theorem no_double_escape_filter_block : forall c fuel esc s f body sg s',
  exec c (S fuel) esc s (SFilterBlock f body) = Ok (sg, s') -> sg = SigNormal ->
  exists s1 v, exec_list c fuel esc (with_out s []) body = Ok (SigNormal, s1) /\
    do_filter (c_mode c) esc f (VStr esc (output_of s1)) [] = Ok v /\
    render_value esc (VStr esc (output_of s1)) = output_of s1 /\
    s' = emit (with_out s1 (s_out s)) (render_value esc v).
Proof. exact filter_block_operand. Qed.

(* evaluating an expression (macro calls included) never writes to the enclosing buffer *)
Theorem eval_does_not_write : forall c esc fuel s e v s', eval c fuel esc s e = Ok (v, s') -> s_out s' = s_out s.
Proof. intros c esc fuel. exact (eval_out c esc fuel). Qed.

(* the escape filter leaves safe input alone, and escapes unsafe input exactly as printing would *)
Theorem escape_idempotent_on_safe : forall m esc s args, do_filter m esc F_escape (VStr true s) args = Ok (VStr true s).
Proof. exact escape_on_safe. Qed.

Theorem escape_filter_then_print : forall m esc s args,
  exists v, do_filter m esc F_escape (VStr false s) args = Ok v /\ render_value true v = html_escape s.
Proof. exact escape_then_print. Qed.

(* ---- which templates are auto-escaped: the default callback, name -> mode (C02/Names.v) ---- *)

(* the mode is the documented table applied to the extension of the name once ONE trailing ignored
   suffix (.j2 / .jinja2 / .jinja) is removed; a name has extension e when it ends in '.' e, whatever
   precedes the dot (nothing, a directory, more dots), or is e itself *)
Theorem default_mode_spec : forall name,
  (default_mode name = MHtml <-> exists e, In e html_exts /\ has_ext (strip_ignored name) e) /\
  (default_mode name = MJson <-> exists e, In e json_exts /\ has_ext (strip_ignored name) e).
Proof. exact default_mode_spec_proof. Qed.

Theorem one_ignored_suffix_is_removed : forall stem suf, In suf IGNORED -> strip_ignored (stem ++ suf) = stem.
Proof. exact strip_ignored_suffix. Qed.

Theorem no_ignored_suffix_nothing_removed : forall name,
  (forall suf stem, In suf IGNORED -> name <> stem ++ suf) -> strip_ignored name = name.
Proof. exact strip_ignored_none. Qed.

(* every name ending in .html / .htm / .xml is HTML-escaped, for every prefix - the empty one included
   (".html", "partials/.html", "feeds/.xml") -, also with one ignored suffix behind it *)
Theorem dot_ext_is_html : forall pre e, In e html_exts ->
  default_mode (pre ++ dot :: e) = MHtml /\ forall suf, In suf IGNORED -> default_mode (pre ++ dot :: e ++ suf) = MHtml.
Proof. exact dot_ext_is_html_proof. Qed.

(* ".html", "partials/.html", "x.html.j2" are escaped; "x.HTML", "x.html.", "a.html.j2.jinja", "" are not *)
Example default_mode_examples :
  default_mode [46; 104; 116; 109; 108] = MHtml /\
  default_mode [112; 47; 46; 104; 116; 109; 108] = MHtml /\
  default_mode [120; 46; 104; 116; 109; 108; 46; 106; 50] = MHtml /\
  default_mode [120; 46; 72; 84; 77; 76] = MNone /\
  default_mode [120; 46; 104; 116; 109; 108; 46] = MNone /\
  default_mode [97; 46; 104; 116; 109; 108; 46; 106; 50; 46; 106; 105; 110; 106; 97] = MNone /\
  default_mode [] = MNone /\
  default_mode [120; 46; 121; 109; 108; 46; 106; 105; 110; 106; 97; 50] = MJson.
Proof. vm_compute. repeat split. Qed.

(* ---- the auto-escape mode as a three-valued, lexically scoped thing (C02/Modes.v: none / html / json) ---- *)

(* `autoescape true` means the template's own initial format (html if that is none) ... *)
Theorem autoescape_true_is_initial_format : forall initial,
  derive initial AETrue = match initial with MNone => MHtml | _ => initial end.
Proof. exact derive_true. Qed.

(* ... and no autoescape block looks at the mode active around it: nested inside an autoescape json
   block of an .html template, `autoescape true` is HTML again *)
Theorem autoescape_block_ignores_current_mode : forall tpls fuel initial m m' caller li env a body,
  mexec tpls fuel initial m caller li env (MAuto a body) = mexec tpls fuel initial m' caller li env (MAuto a body).
Proof. exact auto_ignores_current. Qed.

(* state restoration: whatever the statements [a] did - blocks entered and left normally, by break or by
   continue, captures dropped - the statements [b] that follow run under the same mode m *)
Theorem mode_after_equals_mode_before : forall ex a b m env,
  mexec_list_with ex m env (a ++ b) =
  bind (mexec_list_with ex m env a) (fun '(env1, o1, sg) =>
    match sg with
    | SNormal => bind (mexec_list_with ex m env1 b) (fun '(env2, o2, sg2) => Ok (env2, o1 ++ o2, sg2))
    | _ => Ok (env1, o1, sg)
    end).
Proof. exact exec_list_app. Qed.

(* in an HTML context nothing raw comes out: a program over html templates whose autoescape blocks are
   all `true` or "html" - loops with break / continue, with, set-blocks, macros, call blocks, caller(),
   includes in any nesting - renders without any of the four metacharacters from the datum *)
Theorem html_context_sound : forall tpls fuel o,
  forallb (fun t => match fst t with MHtml => forallb html_only (snd t) | _ => false end) tpls = true ->
  run_modes tpls fuel = Ok o ->
  forall ch, In ch o -> ch <> 60 /\ ch <> 62 /\ ch <> 34 /\ ch <> 39.
Proof. intros tpls fuel o Ht H. apply clean_spec. eapply html_context_sound_proof; eauto. Qed.


(* the ERROR outcome.  The mode is a parameter of the interpreter and no part of any state, so a call that
   fails cannot leave a mode behind - by construction; stated for the case the engine can get wrong: a macro
   that fails (inside whatever autoescape block of its own) and whose error the host swallows (attempt) prints
   the fallback, and the statements after it run under the mode m they stand in *)
Theorem attempt_failure_keeps_mode : forall tpls fuel initial m caller li env nm body c rest,
  assoc nm (e_macros env) = Some body ->
  mexec_list_with (fun mm e st => mexec tpls fuel m mm None None e st) m empty_env body = Err c ->
  mexec_list_with (fun mm e st => mexec tpls (S fuel) initial mm caller li e st) m env (MAttempt nm :: rest) =
  bind (mexec_list_with (fun mm e st => mexec tpls (S fuel) initial mm caller li e st) m env rest)
       (fun '(env2, o2, sg2) => Ok (env2, render_str m false fallback ++ o2, sg2)).
Proof. exact attempt_failure_keeps_mode_proof. Qed.

(* likewise State::call_macro / State::render_block after a finished render: [run_query] is a function of the
   templates and the query alone - there is no argument through which an earlier (failed) call could matter *)

(* the two shapes of the round-5 seeded changes, in the model: json > true is html; the print after a loop
   whose body left an `autoescape false` block by continue is html *)
Example modes_examples :
  run_modes [(MHtml, [MAuto AEJson [MAuto AETrue [MPrint 9]]])] 10 = Ok (marker 9 MHtml) /\
  run_modes [(MHtml, [MLoop 2 [MAuto AEFalse [MContinueAt 1; MPrint 1]]; MPrint 24])] 10 = Ok (marker 1 MNone ++ marker 24 MHtml) /\
  run_modes [(MJson, [MAuto AETrue [MPrint 3]; MInclude 1]); (MNone, [MAuto AETrue [MPrint 4]])] 10 = Ok (marker 3 MJson ++ marker 4 MHtml) /\
  (* round 6: a macro failing inside its own autoescape false block, swallowed by the host; then a call on the State *)
  run_modes [(MHtml, [MMacro 1 [MAuto AEFalse [MFail]]; MMacro 2 [MPrint 5]; MAttempt 1; MPrint 10])] 10
    = Ok (render_str MHtml false fallback ++ marker 10 MHtml) /\
  run_query [(MHtml, [MMacro 1 [MAuto AEFalse [MFail]]; MMacro 2 [MPrint 5]; MAttempt 1])] 10 (QMacro 2) = Ok (marker 5 MHtml) /\
  run_query [(MHtml, [MMacro 1 [MAuto AEFalse [MFail]]])] 10 (QMacro 1) = Err E_InvalidOperation.
Proof. vm_compute. repeat split. Qed.

(* non-vacuity: x = "<b>" flows through a macro, a set-block, upper and a loop *)
Definition ex_ctx := mkCfg Lenient [(100, VStr false [60; 98; 62])] true.
Definition ex_prog : list stmt :=
  [ SMacro 101 [102] [] [SRaw [91]; SEmit (EVar 102); SRaw [93]];
    SSetBlock 103 [SEmit (ECall 101 [EVar 100] [])] None;
    SFor (TVar 104) (EList [EVar 103; EVar 100]) None [SEmit (EFilter F_upper (EVar 104) [])] None false ].
Example escape_sound_example :
  safe_free ex_prog = true /\ good_binds (c_root ex_ctx) = true /\
  exists s, run ex_ctx 30 ex_prog = Ok s /\
    output_of s = [91; 38; 76; 84; 59; 66; 38; 71; 84; 59; 93;  38; 108; 116; 59; 66; 38; 103; 116; 59].
Proof. split; [reflexivity|]. split; [reflexivity|]. eexists. split; vm_compute; reflexivity. Qed.


(* the safety-aware filters: a captured (safe) separator / format string / haystack mixed with unsafe
   data - `{% set sep %}, {% endset %}{% set f %}[%s]{% endset %}{{ [x, 1]|join(sep) }}{{ f|format(x) }}{{ sep|replace(",", x) }}` *)
Definition ex_prog2 : list stmt :=
  [ SSetBlock 105 [SRaw [44; 32]] None; SSetBlock 106 [SRaw [91; 37; 115; 93]] None;
    SEmit (EFilter F_join (EList [EVar 100; EConst (LInt 1)]) [EVar 105]);
    SEmit (EFilter F_format (EVar 106) [EVar 100]);
    SEmit (EFilter F_replace (EVar 105) [EConst (LStr [44]); EVar 100]) ].
Example escape_sound_example_filters :
  safe_free ex_prog2 = true /\
  exists s, run ex_ctx 30 ex_prog2 = Ok s /\
    output_of s = [38; 108; 116; 59; 98; 38; 103; 116; 59; 44; 32; 49] ++ [91; 38; 108; 116; 59; 98; 38; 103; 116; 59; 93]
                  ++ [38; 108; 116; 59; 98; 38; 103; 116; 59; 32].
Proof. split; [reflexivity|]. eexists. split; vm_compute; reflexivity. Qed.

(* maps and unpacking: a plain-data context holding a map whose keys and (nested) values carry all four
   metacharacters - d = {"k'": "<i>", "b": ['a"b', 1]}.  The program prints the whole map, a map literal
   built from x, the pairs of d|items through an unpacking loop target, both halves of an unpacking
   `set` (the second through an attribute and a subscript lookup) and the second key of d obtained by
   unpacking the map itself in a `with`.  Without auto-escaping the text is
   {'b': ['a"b', 1], "k'": '<i>'}{'x': '<b>'}b['a"b', 1]k'<i><b>['a"b', 1]<i>k'
   (quotes chosen by the Python-style printer included); with it, exactly the escaped form of that. *)
Definition ex_map : value :=
  VMap (map_of_pairs [ (VStr false [107; 39], VStr false [60; 105; 62]);
                       (VStr false [98], VList [VStr false [97; 34; 98]; VInt 1]) ]).
Definition ex_ctx3 := mkCfg Lenient [(100, VStr false [60; 98; 62]); (110, ex_map)] true.
Definition ex_prog3 : list stmt :=
  [ SEmit (EVar 110);
    SEmit (EMap [(EConst (LStr [120]), EVar 100)]);
    SFor (TPair 111 112) (EFilter F_items (EVar 110) []) None [SEmit (EVar 111); SEmit (EVar 112)] None false;
    SSet (TPair 113 114) (EList [EVar 100; EVar 110]);
    SEmit (EVar 113); SEmit (EAttr (EVar 114) 1098); SEmit (EItem (EVar 114) (EConst (LStr [107; 39])));
    SWith [(TPair 115 116, EVar 110)] [SEmit (EVar 116)] ].
Example escape_sound_example_maps :
  safe_free ex_prog3 = true /\ forallb (fun p => data_value (snd p)) (c_root ex_ctx3) = true /\
  exists s0 s, run (mkCfg Lenient (c_root ex_ctx3) false) 30 ex_prog3 = Ok s0 /\ run ex_ctx3 30 ex_prog3 = Ok s /\
    output_of s0 = [123; 39; 98; 39; 58; 32; 91; 39; 97; 34; 98; 39; 44; 32; 49; 93; 44; 32; 34; 107; 39; 34; 58; 32;
                    39; 60; 105; 62; 39; 125;  123; 39; 120; 39; 58; 32; 39; 60; 98; 62; 39; 125;
                    98; 91; 39; 97; 34; 98; 39; 44; 32; 49; 93; 107; 39; 60; 105; 62;
                    60; 98; 62; 91; 39; 97; 34; 98; 39; 44; 32; 49; 93; 60; 105; 62;  107; 39] /\
    output_of s = html_escape (output_of s0) /\ clean (output_of s) = true.
Proof.
  split; [reflexivity|]. split; [reflexivity|]. eexists. eexists.
  split; [vm_compute; reflexivity|]. split; [vm_compute; reflexivity|].
  split; [vm_compute; reflexivity|]. split; vm_compute; reflexivity.
Qed.

(* the restriction to the safe-marking-free fragment is necessary: x|safe prints the data raw *)
Example safe_filter_is_outside_the_fragment :
  exists s, run ex_ctx 30 [SEmit (EFilter F_safe (EVar 100) [])] = Ok s /\ output_of s = [60; 98; 62].
Proof. eexists. split; vm_compute; reflexivity. Qed.

Print Assumptions escape_sound.
Print Assumptions escape_sound_data_context.
Print Assumptions no_double_escape.
Print Assumptions unsafe_is_escaped.
Print Assumptions capture_prints_verbatim.
Print Assumptions no_double_escape_macro.
Print Assumptions no_double_escape_call_block.
Print Assumptions no_double_escape_set_block.
Print Assumptions no_double_escape_filter_block.
Print Assumptions eval_does_not_write.
Print Assumptions escape_idempotent_on_safe.
Print Assumptions escape_filter_then_print.
Print Assumptions default_mode_spec.
Print Assumptions one_ignored_suffix_is_removed.
Print Assumptions no_ignored_suffix_nothing_removed.
Print Assumptions dot_ext_is_html.
Print Assumptions autoescape_true_is_initial_format.
Print Assumptions autoescape_block_ignores_current_mode.
Print Assumptions mode_after_equals_mode_before.
Print Assumptions html_context_sound.
Print Assumptions attempt_failure_keeps_mode.
