(* C03 -- Core language constructs render according to the documented semantics.
   Statements only; proofs in MJ.C03.Proofs.  The reference interpreter Lang/Interp.v is the
   specification the engine is compared with; the theorems below are the scoping and loop
   bookkeeping clauses of the property, proved of that semantics for every program. *)
From MJ Require Import Common.Base Lang.Syntax Lang.Meta Lang.Interp C03.Proofs.

(* loop.index, index0, revindex, revindex0, first, last and length describe the position [i] in a
   sequence of length [n] actually iterated *)
Theorem loop_fields_describe_iteration : forall i n, 0 <= i < n ->
  loop_attr i n A_index = Some (VInt (i + 1)) /\
  loop_attr i n A_index0 = Some (VInt i) /\
  loop_attr i n A_revindex = Some (VInt (n - i)) /\
  loop_attr i n A_revindex0 = Some (VInt (n - i - 1)) /\
  loop_attr i n A_length = Some (VInt n) /\
  loop_attr i n A_first = Some (VBool (i =? 0)) /\
  loop_attr i n A_last = Some (VBool (i =? n - 1)).
Proof. exact loop_fields_proof. Qed.

(* evaluating an expression (macro calls included) never changes any variable scope *)
Theorem expressions_do_not_assign : forall c fuel esc s e v s',
  eval c fuel esc s e = Ok (v, s') -> s_env s' = s_env s.
Proof. exact eval_env_proof. Qed.

(* assignments made inside a macro are invisible to the caller *)
Theorem macro_assignments_invisible : forall c fuel esc s mc cl args kw v s',
  call_macro c fuel esc s mc cl args kw = Ok (v, s') -> s_env s' = s_env s.
Proof. exact call_macro_env_proof. Qed.

(* any statement can only change the innermost scope; all enclosing scopes stay as they were *)
Theorem statements_touch_only_innermost_scope : forall c fuel esc s t sg s',
  exec c fuel esc s t = Ok (sg, s') ->
  tl (s_env s') = tl (s_env s) /\ length (s_env s') = length (s_env s).
Proof. exact exec_R_proof. Qed.

(* assignments inside a with block are invisible outside: the whole scope stack is as before *)
Theorem with_assignments_invisible : forall c fuel esc s binds body sg s',
  exec c fuel esc s (SWith binds body) = Ok (sg, s') -> s_env s' = s_env s.
Proof. exact with_scoped_proof. Qed.

(* assignments inside a for loop (target, loop variable, body) are invisible outside *)
Theorem loop_assignments_invisible : forall c fuel esc s tgt iter flt body rc sg s',
  exec c fuel esc s (SFor tgt iter flt body None rc) = Ok (sg, s') -> s_env s' = s_env s.
Proof. exact for_scoped_proof. Qed.

(* a set statement binds the name in the current scope (template level included) and nothing else changes *)
Theorem set_persists : forall c fuel esc s x e sg s', s_env s <> [] ->
  exec c fuel esc s (SSet x e) = Ok (sg, s') ->
  exists v s1 f r, eval c (pred fuel) esc s e = Ok (v, s1) /\ s_env s' = f :: r /\ assoc x (f_locals f) = Some v
                   /\ r = tl (s_env s).
Proof. exact set_persists_proof. Qed.

(* an if-branch runs in the scope of the if itself: its assignments persist *)
Theorem if_branch_runs_in_place : forall c fuel esc s cnd body els v s1,
  eval c fuel esc s cnd = Ok (v, s1) -> u_is_true (c_mode c) v = Ok true ->
  exec c (S fuel) esc s (SIf [(cnd, body)] els) = exec_list c fuel esc s1 body.
Proof. exact if_in_place_proof. Qed.

(* non-vacuity: a program with a loop, a with block, a macro and set statements runs and
   produces the documented output; the scoping theorems apply to each of its statements *)
Example scoping_witness :
  let x := 100 in let y := 101 in let mname := 102 in
  let prog := [SSet x (EConst (LInt 1));
               SFor (TVar y) (EList [EConst (LInt 7); EConst (LInt 8)]) None
                    [SSet x (EVar y); SEmit (EVar x); SEmit (EAttr (EVar N_loop) A_index)] None false;
               SWith [(x, EConst (LInt 5))] [SEmit (EVar x)];
               SMacro mname [] [] [SSet x (EConst (LInt 9)); SEmit (EVar x)];
               SEmit (ECall mname [] []);
               SEmit (EVar x)] in
  match Interp.run (mkCfg Lenient [] false) 50 prog with
  | Ok s => output_of s = [55; 49; 56; 50; 53; 57; 49]     (* "71" "82" "5" "9" "1" *)
  | _ => False
  end.
Proof. vm_compute. reflexivity. Qed.

Print Assumptions loop_fields_describe_iteration.
Print Assumptions expressions_do_not_assign.
Print Assumptions macro_assignments_invisible.
Print Assumptions statements_touch_only_innermost_scope.
Print Assumptions with_assignments_invisible.
Print Assumptions loop_assignments_invisible.
Print Assumptions set_persists.
Print Assumptions if_branch_runs_in_place.
