(* C03 -- Core language constructs render according to the documented semantics.
   Statements only; proofs in MJ.C03.Proofs.  The reference interpreter Lang/Interp.v is the
   specification the engine is compared with; the theorems below are the scoping and loop
   bookkeeping clauses of the property, proved of that semantics for every program. *)
From MJ Require Import Common.Base Lang.Syntax Lang.Meta Lang.Interp C03.Proofs.
From MJ Require Import C04.Model L2.Instr L2.Compile L2.Vm L2.Simulation.
From MJ Require Import C04.Spec.
From MJ Require Import C03.L2Pos C03.L2Base C03.L2Inv C03.L2Expr C03.L2Stmt C03.L2Wf C03.L2Proofs C03.L2Err C03.L2ErrStmt.

(* loop.index, index0, revindex, revindex0, first, last and length describe the position [i] in a
   sequence of length [n] actually iterated *)
Theorem loop_fields_describe_iteration : forall i n, 0 <= i < n ->
  loop_attr i n A_index = Some (VInt (i + 1)) /\
  loop_attr i n A_index0 = Some (VInt i) /\
  loop_attr i n A_revindex = Some (VInt (n - i)) /\
  loop_attr i n A_revindex0 = Some (VInt (n - i - 1)) /\
  loop_attr i n A_length = Some (VInt n) /\
  loop_attr i n A_first = Some (VBool (i =? 0)) /\
  loop_attr i n A_last = Some (VBool (i =? n - 1)).
Proof. exact loop_fields_proof. Qed.

(* evaluating an expression (macro calls included) never changes any variable scope *)
Theorem expressions_do_not_assign : forall c fuel esc s e v s',
  eval c fuel esc s e = Ok (v, s') -> s_env s' = s_env s.
Proof. exact eval_env_proof. Qed.

(* assignments made inside a macro are invisible to the caller *)
Theorem macro_assignments_invisible : forall c fuel esc s mc cl args kw v s',
  call_macro c fuel esc s mc cl args kw = Ok (v, s') -> s_env s' = s_env s.
Proof. exact call_macro_env_proof. Qed.

(* any statement can only change the innermost scope; all enclosing scopes stay as they were *)
Theorem statements_touch_only_innermost_scope : forall c fuel esc s t sg s',
  exec c fuel esc s t = Ok (sg, s') ->
  tl (s_env s') = tl (s_env s) /\ length (s_env s') = length (s_env s).
Proof. exact exec_R_proof. Qed.

(* assignments inside a with block are invisible outside: the whole scope stack is as before *)
Theorem with_assignments_invisible : forall c fuel esc s binds body sg s',
  exec c fuel esc s (SWith binds body) = Ok (sg, s') -> s_env s' = s_env s.
Proof. exact with_scoped_proof. Qed.

(* assignments inside a for loop (target, loop variable, body) are invisible outside *)
Theorem loop_assignments_invisible : forall c fuel esc s tgt iter flt body rc sg s',
  exec c fuel esc s (SFor tgt iter flt body None rc) = Ok (sg, s') -> s_env s' = s_env s.
Proof. exact for_scoped_proof. Qed.

(* a set statement binds the name in the current scope (template level included) and nothing else changes *)
Theorem set_persists : forall c fuel esc s x e sg s', s_env s <> [] ->
  exec c fuel esc s (SSet (TVar x) e) = Ok (sg, s') ->
  exists v s1 f r, eval c (pred fuel) esc s e = Ok (v, s1) /\ s_env s' = f :: r /\ assoc x (f_locals f) = Some v
                   /\ r = tl (s_env s).
Proof. exact set_persists_proof. Qed.

(* unpacking assignment `set x, y = e`: the right-hand side is evaluated completely, in the state before
   the statement, and only then are the targets bound - y to the second and x to the first item of its
   value (a list unpacks into its items, a map into its keys) - in the current scope, nothing else changes.
   So `set a, b = [b, a]` swaps. *)
Theorem set_unpacks_after_evaluation : forall c fuel esc s x y e sg s', s_env s <> [] ->
  exec c fuel esc s (SSet (TPair x y) e) = Ok (sg, s') ->
  exists v s1 a b f r, eval c (pred fuel) esc s e = Ok (v, s1) /\ unpack_items v = Some [a; b] /\
                   s_env s' = f :: r /\ assoc y (f_locals f) = Some b /\ (x <> y -> assoc x (f_locals f) = Some a)
                   /\ r = tl (s_env s).
Proof. exact set_pair_persists_proof. Qed.

(* maps (the default build's ValueMap = BTreeMap): a literal / context map is built by inserting its pairs
   in source order; a key just inserted is found with the inserted value (of duplicate keys the last
   wins); the entries are in strictly ascending key order whatever the insertion order (what iteration,
   printing, |list and |items follow); `in` is a key lookup, truthiness is non-emptiness, unpacking and
   |list yield the keys, |length the number of entries *)
Theorem map_insert_then_get : forall k v m, map_get k (map_insert k v m) = Some v.
Proof. exact map_get_insert_proof. Qed.

Theorem map_entries_ascending : forall ps, keys_ascending (map_of_pairs ps).
Proof. exact map_of_pairs_ascending_proof. Qed.

Theorem map_operations : forall kvs item,
  contains (VMap kvs) item = Ok (match map_get item kvs with Some _ => true | None => false end) /\
  truthy (VMap kvs) = negb (Nat.eqb (length kvs) 0) /\
  unpack_items (VMap kvs) = Some (map fst kvs) /\
  (forall m, do_filter m false F_length (VMap kvs) [] = Ok (VInt (lenZ kvs))) /\
  (forall m, do_filter m false F_list (VMap kvs) [] = Ok (VList (map fst kvs))).
Proof. exact map_semantics_proof. Qed.

(* an if-branch runs in the scope of the if itself: its assignments persist *)
Theorem if_branch_runs_in_place : forall c fuel esc s cnd body els v s1,
  eval c fuel esc s cnd = Ok (v, s1) -> u_is_true (c_mode c) v = Ok true ->
  exec c (S fuel) esc s (SIf [(cnd, body)] els) = exec_list c fuel esc s1 body.
Proof. exact if_in_place_proof. Qed.

(* non-vacuity: a program with a loop, a with block, a macro and set statements runs and
   produces the documented output; the scoping theorems apply to each of its statements *)
Example scoping_witness :
  let x := 100 in let y := 101 in let mname := 102 in
  let prog := [SSet (TVar x) (EConst (LInt 1));
               SFor (TVar y) (EList [EConst (LInt 7); EConst (LInt 8)]) None
                    [SSet (TVar x) (EVar y); SEmit (EVar x); SEmit (EAttr (EVar N_loop) A_index)] None false;
               SWith [(TVar x, EConst (LInt 5))] [SEmit (EVar x)];
               SMacro mname [] [] [SSet (TVar x) (EConst (LInt 9)); SEmit (EVar x)];
               SEmit (ECall mname [] []);
               SEmit (EVar x)] in
  match Interp.run (mkCfg Lenient [] false) 50 prog with
  | Ok s => output_of s = [55; 49; 56; 50; 53; 57; 49]     (* "71" "82" "5" "9" "1" *)
  | _ => False
  end.
Proof. vm_compute. reflexivity. Qed.

(* ============================================================================================
   Bytecode level (L2).  [compile_expr] / [compile_stmts] / [compile_template] (L2/Compile.v) mirror
   compiler/codegen.rs, [step] (L2/Vm.v) mirrors one turn of vm/mod.rs::eval_impl; on every run the
   check compares the model compiler's stream with the instructions the real compiler emits for the
   same program, opcode by opcode including jump targets and constants.  The theorems below say
   that this compiler + VM compute what the reference interpreter above defines.
   Vocabulary (L2/Simulation.v): [code_at C pc code]: [code] sits at index [pc] of the program [C];
   [star c C]: zero or more VM steps; [l2_expr] / [l2_stmt]: the covered syntax = all of it, with what
   the parser guarantees (a comparison has an operator, a call does not repeat a keyword, loop
   controls only inside loops and not reaching out of a macro body); [post] / [unwound] / [lc_fits]:
   where the VM is after a statement that ended normally or with a loop control, and the scopes a loop
   control undoes; [overflow]: the VM is about to count the 2^127-th kept item of a filtered loop (its
   counter is a checked i128, the interpreter's is not - the one way the VM can fall behind; no
   sequence in memory is that long); [Inv] / [vok] / [mok] / [wf_code] / [cfg_ok]: what the proof knows
   of reachable states - every macro value was built by a BuildMacro of the program whose offset
   points at the macro's code, and no value looks like the VM's keyword-argument bundle.
   ============================================================================================ *)

(* constant folding never changes a result, whatever the fuel (C04's fold_agrees needs fuel >= depth):
   if the folder answers v0 for e, any successful evaluation of e yields v0 and leaves the state alone *)
Theorem folded_constant_is_evaluation : forall c esc fuel e v0, as_const e = Some v0 ->
  forall s v s', eval c fuel esc s e = Ok (v, s') -> v = v0 /\ s' = s.
Proof. exact fold_inv_all. Qed.

(* compiled templates are well formed: every BuildMacro points at the code of the macro it builds *)
Theorem compiled_code_is_well_formed : forall body, wf_code (compile_template body).
Proof. exact wf_compile_template. Qed.

(* the state invariant is an invariant: evaluation, macro calls and statements whose code is in the
   program preserve it (values stay built-by-the-program) *)
Theorem invariant_preserved : forall c C, cfg_ok C c -> wf_code C -> forall fuel,
  (forall esc e, l2_expr e = true -> forall s v s', Inv C s -> eval c fuel esc s e = Ok (v, s') -> vok C v /\ Inv C s') /\
  (forall inl l, forallb (l2_stmt inl) l = true -> (exists base lc, code_at C base (compile_stmts l base lc)) ->
     forall esc s sg s', Inv C s -> exec_list c fuel esc s l = Ok (sg, s') -> Inv C s').
Proof.
  intros c C Hc Hw fuel. destruct (inv_all c C Hc Hw fuel) as (E & _ & _ & L). split; [exact E|].
  intros inl l Hl Hp. exact (L inl l Hl Hp).
Qed.

(* Expressions - every constructor: constants (folded), variables, lists, map literals (BuildMap), unary minus, not, + - * // % ~,
   single and chained comparisons (in / not in), and, or, if-expressions, subscripts, attributes,
   filters, tests, and CALLS of macros and functions with positional and keyword arguments (static
   keyword maps and BuildKwargs), defaults, caller.  In every undefined mode, context, state satisfying
   the invariant, auto-escape setting and for every fuel: if the interpreter evaluates e to v, changing
   the state from s to s', then the VM started at the first instruction of e's code (placed anywhere
   in a well-formed program) with any operand stack runs to the instruction after that code with v
   pushed and exactly the state s' - a macro call runs the macro's body at its offset on a fresh
   context with the caller's registers saved, and Return restores them - or stops at [overflow]. *)
Theorem compile_expr_correct : forall c C, cfg_ok C c -> wf_code C -> forall fuel esc e, l2_expr e = true ->
  forall s v s', eval c fuel esc s e = Ok (v, s') -> Inv C s ->
  forall base stk escs caps its calls, code_at C base (compile_expr e base) ->
  star c C (mkVm base stk s esc escs caps its calls)
           (mkVm (base + length (compile_expr e base)) (v :: stk) s' esc escs caps its calls)
  \/ (exists σo, star c C (mkVm base stk s esc escs caps its calls) σo /\ overflow C σo).
Proof.
  intros c C Hc Hw fuel esc e Hl s v s' He Hi base stk escs caps its calls Hcode.
  destruct (sim_levels c C Hc Hw fuel) as (E & _). apply starO_inv. exact (E esc e Hl s v s' He Hi base stk escs caps its calls Hcode).
Qed.

(* Statements - every constructor: raw text, emit, if / elif / else, set and with (single or unpacking targets), set-block (with filter),
   filter block, autoescape, for loops (any target incl. unpacking, filter = the accumulate loop, else,
   the loop variable and loop.* through the loop frame, recursive flag), break and continue, macro
   declarations (body behind a jump, defaults, Enclose / GetClosure / BuildMacro) and call blocks
   (caller macro passed as the keyword argument `caller`) - nested in any way, compiled for ANY
   enclosing-loop context [lc] ([inl]: loop controls may occur, then [lc] must be a loop; [lc_fits]: the
   scopes [lc] says are open really are).  If the interpreter runs the statements from s to s' with
   signal sg, the VM runs from the first instruction of their code to a state σ' with [post]:
     sg = normal   - the instruction after their code, same operand stack, state s', and the
                     auto-escape flag / stack, the capture stack and the loop iterators as they were;
     sg = break    - the end of the enclosing loop [lc_end], after undoing exactly the scopes opened
                     since that loop ([unwound]: PopFrame / EndCapture; DiscardTop / PopAutoEscape in
                     front of the jump - the clean-up whose absence was the C05 defect), state s';
     sg = continue - likewise, at the loop's Iterate instruction [lc_iter];
   or stops at [overflow].  During the accumulate loop of a filtered for the two machines are NOT in
   equal states (the interpreter opens a scope per item, the VM keeps one loop frame with hidden
   counters): the proof relates them and uses that evaluation cannot see those counters (C03/L2Relab.v). *)
Theorem compile_stmts_correct : forall c C, cfg_ok C c -> wf_code C -> forall fuel inl l, forallb (l2_stmt inl) l = true ->
  forall esc s sg s', exec_list c fuel esc s l = Ok (sg, s') -> Inv C s ->
  forall base lc stk escs caps its calls, code_at C base (compile_stmts l base lc) ->
  (inl = true -> lc <> None) -> lc_fits lc (length (s_env s)) (length escs) (length caps) ->
  exists σ', post sg lc (base + length (compile_stmts l base lc)) stk s' esc escs caps its calls σ' /\
    (star c C (mkVm base stk s esc escs caps its calls) σ'
     \/ (exists σo, star c C (mkVm base stk s esc escs caps its calls) σo /\ overflow C σo)).
Proof.
  intros c C Hc Hw fuel inl l Hl esc s sg s' He Hi base lc stk escs caps its calls Hcode Hin Hf.
  destruct (sim_levels c C Hc Hw fuel) as (_ & _ & _ & L).
  destruct (L inl l Hl esc s sg s' He Hi base lc stk escs caps its calls Hcode Hin Hf) as [σ' [S P]].
  exists σ'. split; [exact P|apply starO_inv; exact S].
Qed.

(* an [overflow] state is a failing run: InvalidOperation from the checked addition *)
Theorem overflow_is_an_error : forall c C σo, star c C (init_vm c) σo -> overflow C σo ->
  exists n, run_template c n C = Err E_InvalidOperation.
Proof. exact overflow_run. Qed.

(* the length of a statement's code does not depend on where its `break`s jump to - the fact behind
   computing a loop's end before its body's final code exists (codegen.rs patches the jumps afterwards) *)
Theorem code_length_independent_of_break_target : forall t base i e e' p,
  length (compile_stmt t base (Some (mkL i e p))) = length (compile_stmt t base (Some (mkL i e' p))).
Proof. exact compile_len_indep. Qed.

(* compile_correct.  Whole templates of the core fragment, rendered with a context of plain data:
   whenever the reference interpreter renders the template (final state s: output chunks, scopes,
   recorded context look-ups), eval_impl's loop on the compiled template terminates in exactly the same
   state - same output in particular - or stops at the counter overflow of a filtered loop with
   2^127 - 1 kept items.  Every construct of the Lang syntax is covered (no side condition beyond
   what the parser guarantees).  What the theorem does NOT say:
     * anything about runs the interpreter does not finish (OutOfGas); runs it ends with an error are
       the subject of compile_error below;
     * `loop(...)` recursion and everything else outside the Lang syntax (tuples, slices, method
       calls, blocks, includes ...): correspondence of the check only. *)
Theorem compile_correct : forall c fuel body s,
  forallb (fun p => data_value (snd p)) (c_root c) = true ->
  forallb (l2_stmt false) body = true -> Interp.run c fuel body = Ok s ->
  (exists n, run_template c n (compile_template body) = Ok s) \/
  (exists σo, star c (compile_template body) (init_vm c) σo /\ overflow (compile_template body) σo).
Proof. exact template_correct. Qed.

(* The failing direction.  compile_error: whenever the reference interpreter ends the rendering of a
   template of the core fragment with the error kind k - invalid operand kinds, division by zero,
   overflow, undefined under a strict mode, an unknown filter / test / function, a failing filter, an
   item that cannot be unpacked, a non-iterable loop subject, too many / unknown / duplicate macro
   arguments, ... - eval_impl's loop on the compiled template stops with the SAME kind k (or at the
   counter overflow, as above); wherever the error arises: in a nested expression, a default value, a
   loop filter, a macro or caller body however deep in the call stack.  Nothing is claimed about the
   output written before the error.  Together with compile_correct (the VM is a function): whatever
   the interpreter's verdict on a template, Ok s or Err k, it is the VM's.
   compile_expr_error: the same for an expression anywhere in a program (after evaluating exactly the
   operands the interpreter evaluated successfully before).  A folded constant never fails at run
   time (folded_constant_never_fails: what C04's fold_defers_errors says for fuel >= depth, here for
   every fuel). *)
Theorem folded_constant_never_fails : forall c esc fuel e v0, as_const e = Some v0 ->
  forall s k, eval c fuel esc s e = Err k -> False.
Proof. exact fold_noerr_all. Qed.

Theorem compile_expr_error : forall c C, cfg_ok C c -> wf_code C -> forall fuel esc e, l2_expr e = true ->
  forall s k, eval c fuel esc s e = Err k -> Inv C s ->
  forall base stk escs caps its calls, code_at C base (compile_expr e base) ->
  (exists σ', star c C (mkVm base stk s esc escs caps its calls) σ' /\ step c C σ' = Err k)
  \/ (exists σo, star c C (mkVm base stk s esc escs caps its calls) σo /\ overflow C σo).
Proof.
  intros c C Hc Hw fuel esc e Hl s k He Hi base stk escs caps its calls Hcode.
  destruct (err_levels c C Hc Hw fuel) as (Ee & _).
  exact (errs_run c C _ _ (Ee esc e Hl s k He Hi base stk escs caps its calls Hcode)).
Qed.

Theorem compile_error : forall c fuel body k,
  forallb (fun p => data_value (snd p)) (c_root c) = true ->
  forallb (l2_stmt false) body = true -> Interp.run c fuel body = Err k ->
  (exists n, run_template c n (compile_template body) = Err k) \/
  (exists σo, star c (compile_template body) (init_vm c) σo /\ overflow (compile_template body) σo).
Proof. exact template_err. Qed.

(* non-vacuity of the error theorem: 1 // (n - n) with n from the context fails with InvalidOperation in
   the interpreter, and the VM on the compiled code stops with the same kind *)
Example l2_error_witness :
  let n := 100 in
  let e := EBin OFloorDiv (EConst (LInt 1)) (EBin OSub (EVar n) (EVar n)) in
  let cfg := mkCfg Lenient [(n, VInt 3)] false in
  l2_expr e = true /\ pure e = true /\ as_const e = None /\
  eval cfg 5 false (init_state) e = Err E_InvalidOperation /\
  run_template cfg 100 (compile_template [SEmit e]) = Err E_InvalidOperation.
Proof. vm_compute. repeat split. Qed.

(* ... and at the statement level: a division by zero in a macro body, reached through a call block
   from the body of a filtered loop whose second item passes the filter *)
Example l2_error_witness_stmt :
  let z := 100 in let m := 101 in let p := 102 in
  let prog :=
    [SMacro m [p] [(p, EConst (LInt 1))] [SEmit (EBin OFloorDiv (EConst (LInt 6)) (EVar p)); SEmit (ECall N_caller [] [])];
     SFor (TVar z) (EList [EConst (LInt 2); EConst (LInt (-1)); EConst (LInt 0)])
          (Some (ECmp (EVar z) [(CGe, EConst (LInt 0))]))
          [SCallBlock m [EVar z] [SRaw [99]]] None false] in
  let cfg := mkCfg Lenient [] false in
  forallb (l2_stmt false) prog = true /\
  Interp.run cfg 40 prog = Err E_InvalidOperation /\
  run_template cfg 400 (compile_template prog) = Err E_InvalidOperation.
Proof. vm_compute. repeat split. Qed.

(* non-vacuity: a program with every statement constructor (chained comparison with a variable,
   short-circuit operators, if-expression without else, filters, tests, subscripts, if / elif / else,
   with, set-block with filter, filter block, autoescape, for with else / unpacking / filter / break /
   continue, macros with defaults and keyword arguments, caller, call blocks) is in the fragment,
   renders, and the VM on the compiled code reaches the same state; the hypotheses of the theorems hold
   for it (plain context, well-formed code, initial state) *)
Example l2_witness :
  let x := 100 in let y := 101 in let z := 102 in let mname := 103 in let p := 104 in let m2 := 105 in
  let prog :=
    [SSet (TVar x) (EList [EConst (LInt 3); EConst (LInt 5)]);
     SIf [(ECmp (EConst (LInt 1)) [(CLt, EItem (EVar x) (EConst (LInt 0))); (CLe, EConst (LInt 3))],
           [SEmit (EAnd (EVar x) (EFilter F_length (EVar x) []))]);
          (ETest T_defined (EVar y) [] true, [SRaw [33]])]
         (Some [SRaw [63]]);
     SWith [(TVar y, EBin OAdd (EItem (EVar x) (EConst (LInt 1))) (EConst (LInt 1)))]
           [SSetBlock x [SEmit (EVar y); SRaw [97]] (Some F_upper); SEmit (EVar x)];
     SFilterBlock F_upper [SRaw [98]; SEmit (EIf (EVar y) (EConst (LInt 1)) None)];
     SAutoEscape (EConst (LBool true)) [SEmit (EConst (LStr [60]))];
     SEmit (EOr (ECmp (EConst (LInt 7)) [(CNotIn, EVar x)]) (EVar y));
     SFor (TVar z) (EList [EConst (LInt 7); EConst (LInt 8); EConst (LInt 9); EConst (LInt 10)]) None
          [SWith [(TVar x, EVar z)]
             [SSetBlock y [SIf [(ECmp (EVar z) [(CEq, EConst (LInt 8))], [SContinue])] None;
                           SIf [(EAttr (EVar N_loop) A_last, [SBreak])] None] None;
              SEmit (EVar x); SEmit (EAttr (EVar N_loop) A_index)]]
          (Some [SRaw [69]]) false;
     SFor (TPair y z) (EList []) None [SEmit (EVar y)] (Some [SRaw [69]]) false;
     SFor (TVar z) (EList [EConst (LInt 1); EConst (LInt 2); EConst (LInt 3); EConst (LInt 4)])
          (Some (ECmp (EVar z) [(CNe, EConst (LInt 2))]))
          [SEmit (EVar z); SEmit (EAttr (EVar N_loop) A_length);
           SIf [(ECmp (EAttr (EVar N_loop) A_index) [(CEq, EConst (LInt 2))], [SBreak])] None] None true;
     SSet (TVar x) (EConst (LInt 1));
     SMacro mname [p] [(p, EConst (LInt 4))] [SEmit (EVar p); SEmit (ECall N_caller [] [])];
     SCallBlock mname [] [SRaw [99]; SEmit (EVar x)];
     SMacro m2 [p; y] [(y, EBin OAdd (EVar x) (EConst (LInt 1)))] [SEmit (EVar p); SEmit (EVar y); SEmit (EVar x)];
     SEmit (ECall m2 [] [(p, EBin OAdd (EVar x) (EVar x))]);
     SEmit (ECall m2 [EConst (LInt 5)] [(y, EConst (LInt 6))]);
     SEmit (EFilter F_length (ECall N_range [EConst (LInt 3)] []) [])] in
  let cfg := mkCfg Lenient [] false in
  forallb (l2_stmt false) prog = true /\
  match Interp.run cfg 60 prog, run_template cfg 800 (compile_template prog) with
  | Ok s, Ok s' => s = s' /\ output_of s = [50; 54; 65; 66; 38; 108; 116; 59; 84; 114; 117; 101; 55; 49; 57; 51; 69; 49; 51; 51; 51;
                                          52; 99; 49; 50; 50; 49; 53; 54; 49; 51]
                                          (* 2 6A B &lt; True 71 93 E 13 33 | 4c1 | 221 | 561 | 3 *)
  | _, _ => False
  end /\
  existsb (fun i => match i with ISwap => true | _ => false end) (compile_template prog) = true /\
  existsb (fun i => match i with IBuildMacro _ _ _ => true | _ => false end) (compile_template prog) = true.
Proof. vm_compute. repeat split. Qed.

(* non-vacuity for maps and unpacking assignment: a map literal with a duplicate key and a nested list is
   built (BuildMap), printed ({'a': [1, "'"], 'b': 2}), read by attribute and by subscript (a missing key
   is undefined), tested with `in`, iterated (keys in key order, loop.index), iterated through |items with
   an unpacking loop target; `set a, b = [b, a + b]` and `with (a, b) = [b, a], z = a` evaluate their
   right-hand sides before binding (UnpackList); interpreter and VM agree on the final state *)
Example l2_witness_maps :
  let x := 100 in let z := 102 in let a := 106 in let b := 107 in let m := 108 in
  let key_b := 1098 in        (* attr_str 1098 = "b" *)
  let prog :=
    [SSet (TVar m) (EMap [(EConst (LStr [98]), EVar x); (EConst (LStr [97]), EList [EConst (LInt 1); EConst (LStr [39])]);
                          (EConst (LStr [98]), EConst (LInt 2))]);
     SEmit (EVar m); SEmit (EAttr (EVar m) key_b); SEmit (EItem (EVar m) (EConst (LStr [97])));
     SEmit (EItem (EVar m) (EConst (LStr [122]))); SEmit (ECmp (EConst (LStr [97])) [(CIn, EVar m)]);
     SFor (TVar z) (EVar m) None [SEmit (EVar z); SEmit (EAttr (EVar N_loop) A_index)] None false;
     SFor (TPair a b) (EFilter F_items (EVar m) []) None [SEmit (EVar a); SEmit (EVar b)] None false;
     SSet (TVar a) (EConst (LInt 1)); SSet (TVar b) (EConst (LInt 2));
     SSet (TPair a b) (EList [EVar b; EBin OAdd (EVar a) (EVar b)]); SEmit (EVar a); SEmit (EVar b);
     SWith [(TPair a b, EList [EVar b; EVar a]); (TVar z, EVar a)] [SEmit (EVar a); SEmit (EVar b); SEmit (EVar z)];
     SEmit (EVar a);
     SEmit (EFilter F_length (EMap [(EConst (LInt 1), EConst (LInt 1)); (EConst (LInt 1), EConst (LInt 2))]) [])] in
  let cfg := mkCfg Lenient [] false in
  attr_str key_b = [98] /\
  forallb (l2_stmt false) prog = true /\
  match Interp.run cfg 60 prog, run_template cfg 800 (compile_template prog) with
  | Ok s, Ok s' => s = s' /\ output_of s =
      [123; 39; 97; 39; 58; 32; 91; 49; 44; 32; 34; 39; 34; 93; 44; 32; 39; 98; 39; 58; 32; 50; 125;     (* {'a': [1, "'"], 'b': 2} *)
       50; 91; 49; 44; 32; 34; 39; 34; 93; 84; 114; 117; 101;                                           (* 2 [1, "'"] (nothing) True *)
       97; 49; 98; 50; 97; 91; 49; 44; 32; 34; 39; 34; 93; 98; 50;                                      (* a1 b2 | a[1, "'"] b2 *)
       50; 51; 51; 50; 51; 50; 49]                                                                      (* 23 | 323 | 2 | 1 *)
  | _, _ => False
  end /\
  existsb (fun i => match i with IBuildMap _ => true | _ => false end) (compile_template prog) = true /\
  existsb (fun i => match i with IUnpackList _ => true | _ => false end) (compile_template prog) = true.
Proof. vm_compute. repeat split. Qed.

Print Assumptions loop_fields_describe_iteration.
Print Assumptions expressions_do_not_assign.
Print Assumptions macro_assignments_invisible.
Print Assumptions statements_touch_only_innermost_scope.
Print Assumptions with_assignments_invisible.
Print Assumptions loop_assignments_invisible.
Print Assumptions set_persists.
Print Assumptions set_unpacks_after_evaluation.
Print Assumptions map_insert_then_get.
Print Assumptions map_entries_ascending.
Print Assumptions map_operations.
Print Assumptions if_branch_runs_in_place.
Print Assumptions folded_constant_is_evaluation.
Print Assumptions compiled_code_is_well_formed.
Print Assumptions invariant_preserved.
Print Assumptions compile_expr_correct.
Print Assumptions compile_stmts_correct.
Print Assumptions overflow_is_an_error.
Print Assumptions code_length_independent_of_break_target.
Print Assumptions compile_correct.
Print Assumptions folded_constant_never_fails.
Print Assumptions compile_expr_error.
Print Assumptions compile_error.
