(* C03 -- Core language constructs render according to the documented semantics.
   Statements only; proofs in MJ.C03.Proofs.  The reference interpreter Lang/Interp.v is the
   specification the engine is compared with; the theorems below are the scoping and loop
   bookkeeping clauses of the property, proved of that semantics for every program. *)
From MJ Require Import Common.Base Lang.Syntax Lang.Meta Lang.Interp C03.Proofs.
From MJ Require Import C04.Model.
From MJ Require Import L2.Instr.
From MJ Require Import L2.Compile.
From MJ Require Import L2.Vm.
From MJ Require Import L2.Simulation.
From MJ Require Import C03.L2Proofs.

(* loop.index, index0, revindex, revindex0, first, last and length describe the position [i] in a
   sequence of length [n] actually iterated *)
Theorem loop_fields_describe_iteration : forall i n, 0 <= i < n ->
  loop_attr i n A_index = Some (VInt (i + 1)) /\
  loop_attr i n A_index0 = Some (VInt i) /\
  loop_attr i n A_revindex = Some (VInt (n - i)) /\
  loop_attr i n A_revindex0 = Some (VInt (n - i - 1)) /\
  loop_attr i n A_length = Some (VInt n) /\
  loop_attr i n A_first = Some (VBool (i =? 0)) /\
  loop_attr i n A_last = Some (VBool (i =? n - 1)).
Proof. exact loop_fields_proof. Qed.

(* evaluating an expression (macro calls included) never changes any variable scope *)
Theorem expressions_do_not_assign : forall c fuel esc s e v s',
  eval c fuel esc s e = Ok (v, s') -> s_env s' = s_env s.
Proof. exact eval_env_proof. Qed.

(* assignments made inside a macro are invisible to the caller *)
Theorem macro_assignments_invisible : forall c fuel esc s mc cl args kw v s',
  call_macro c fuel esc s mc cl args kw = Ok (v, s') -> s_env s' = s_env s.
Proof. exact call_macro_env_proof. Qed.

(* any statement can only change the innermost scope; all enclosing scopes stay as they were *)
Theorem statements_touch_only_innermost_scope : forall c fuel esc s t sg s',
  exec c fuel esc s t = Ok (sg, s') ->
  tl (s_env s') = tl (s_env s) /\ length (s_env s') = length (s_env s).
Proof. exact exec_R_proof. Qed.

(* assignments inside a with block are invisible outside: the whole scope stack is as before *)
Theorem with_assignments_invisible : forall c fuel esc s binds body sg s',
  exec c fuel esc s (SWith binds body) = Ok (sg, s') -> s_env s' = s_env s.
Proof. exact with_scoped_proof. Qed.

(* assignments inside a for loop (target, loop variable, body) are invisible outside *)
Theorem loop_assignments_invisible : forall c fuel esc s tgt iter flt body rc sg s',
  exec c fuel esc s (SFor tgt iter flt body None rc) = Ok (sg, s') -> s_env s' = s_env s.
Proof. exact for_scoped_proof. Qed.

(* a set statement binds the name in the current scope (template level included) and nothing else changes *)
Theorem set_persists : forall c fuel esc s x e sg s', s_env s <> [] ->
  exec c fuel esc s (SSet x e) = Ok (sg, s') ->
  exists v s1 f r, eval c (pred fuel) esc s e = Ok (v, s1) /\ s_env s' = f :: r /\ assoc x (f_locals f) = Some v
                   /\ r = tl (s_env s).
Proof. exact set_persists_proof. Qed.

(* an if-branch runs in the scope of the if itself: its assignments persist *)
Theorem if_branch_runs_in_place : forall c fuel esc s cnd body els v s1,
  eval c fuel esc s cnd = Ok (v, s1) -> u_is_true (c_mode c) v = Ok true ->
  exec c (S fuel) esc s (SIf [(cnd, body)] els) = exec_list c fuel esc s1 body.
Proof. exact if_in_place_proof. Qed.

(* non-vacuity: a program with a loop, a with block, a macro and set statements runs and
   produces the documented output; the scoping theorems apply to each of its statements *)
Example scoping_witness :
  let x := 100 in let y := 101 in let mname := 102 in
  let prog := [SSet x (EConst (LInt 1));
               SFor (TVar y) (EList [EConst (LInt 7); EConst (LInt 8)]) None
                    [SSet x (EVar y); SEmit (EVar x); SEmit (EAttr (EVar N_loop) A_index)] None false;
               SWith [(x, EConst (LInt 5))] [SEmit (EVar x)];
               SMacro mname [] [] [SSet x (EConst (LInt 9)); SEmit (EVar x)];
               SEmit (ECall mname [] []);
               SEmit (EVar x)] in
  match Interp.run (mkCfg Lenient [] false) 50 prog with
  | Ok s => output_of s = [55; 49; 56; 50; 53; 57; 49]     (* "71" "82" "5" "9" "1" *)
  | _ => False
  end.
Proof. vm_compute. reflexivity. Qed.

(* ============================================================================================
   Bytecode level (L2).  [compile_expr] / [compile_stmts] / [compile_template] (L2/Compile.v) mirror
   compiler/codegen.rs, [step] (L2/Vm.v) mirrors one turn of vm/mod.rs::eval_impl; on every run the
   check compares the model compiler's stream with the instructions the real compiler emits for the
   same program, opcode by opcode including jump targets and constants.  The theorems below say
   that this compiler + VM compute what the reference interpreter above defines.
   Vocabulary (L2/Simulation.v): [code_at C pc code]: [code] sits at index [pc] of the program [C];
   [star c C]: zero or more VM steps; [l2_expr] / [l2_stmt]: the covered fragment; [post] / [unwound] / [lc_fits]: where the VM is after a
   statement that ended normally or with a loop control, and the scopes a loop control undoes;
   [overflow]: the VM is about to count the 2^127-th kept item of a filtered loop.
   ============================================================================================ *)

(* constant folding never changes a result, whatever the fuel (C04's fold_agrees needs fuel >= depth):
   if the folder answers v0 for e, any successful evaluation of e yields v0 and leaves the state alone *)
Theorem folded_constant_is_evaluation : forall c esc fuel e v0, as_const e = Some v0 ->
  forall s v s', eval c fuel esc s e = Ok (v, s') -> v = v0 /\ s' = s.
Proof. exact fold_inv_all. Qed.

(* Expressions.  For every expression without calls - constants, variables, lists, unary minus, not,
   + - * // % ~, single and chained comparisons (in / not in included), and, or, if-expressions,
   subscripts, attributes, filters, tests (negated or not) -, in every undefined mode, context,
   state, auto-escape setting and for every fuel: if the interpreter evaluates e to v, changing the
   state from s to s', then the VM started at the first instruction of e's code (placed anywhere in
   any program, absolute jump targets and all) with any operand stack runs to the instruction after
   that code with v pushed and exactly the state s'; nothing else of the machine changes. *)
Theorem compile_expr_correct : forall c C fuel esc e, l2_expr e = true ->
  forall s v s', eval c fuel esc s e = Ok (v, s') ->
  forall base stk escs caps its calls, code_at C base (compile_expr e base) ->
  star c C (mkVm base stk s esc escs caps its calls)
           (mkVm (base + length (compile_expr e base)) (v :: stk) s' esc escs caps its calls).
Proof. intros c C fuel esc e Hw s v s' He. exact (sim_all c C fuel esc e Hw s v s' He). Qed.

(* Statements: raw text, emit, if / elif / else, set, set-block (with filter), with, filter block,
   autoescape, for loops (any target incl. unpacking, FILTER = the accumulate loop in front of the real
   loop, else branch, the loop variable and loop.* through the loop frame, the recursive flag), break
   and continue - nested in any way, over the expressions above; compiled for ANY enclosing-loop
   context [lc] ([inl]: loop controls may occur, then [lc] must be a loop; [lc_fits]: the scopes [lc]
   says are open really are).  If the interpreter runs the statements from s to s' with signal sg,
   the VM runs from the first instruction of their code to ([post]):
     sg = normal   - the instruction after their code, same operand stack, state s', and the
                     auto-escape flag / stack, the capture stack and the loop iterators as they were
                     (frames pushed by `with` and loops, captures begun by set / filter blocks and
                     auto-escape settings are all undone);
     sg = break    - the end of the enclosing loop [lc_end], after undoing exactly the scopes opened
                     since that loop ([unwound]: PopFrame / EndCapture; DiscardTop / PopAutoEscape in
                     front of the jump - the clean-up whose absence was the C05 defect), state s';
     sg = continue - likewise, at the loop's Iterate instruction [lc_iter];
   or ([overflow], the one way the VM can fall behind the interpreter) to the `Add` that counts the
   kept items of a filtered loop with 2^127 - 1 items already kept: the VM counts them in a checked
   i128, the interpreter has no such limit.  No sequence in memory is that long.
   During the accumulate loop the two machines are NOT in equal states (the interpreter opens a scope
   per item, the VM keeps one loop frame with hidden counters): the proof relates them and uses that
   evaluation cannot see those counters (C03/L2Relab.v). *)
Theorem compile_stmts_correct : forall c C fuel inl l, forallb (l2_stmt inl) l = true ->
  forall esc s sg s', exec_list c fuel esc s l = Ok (sg, s') ->
  forall base lc stk escs caps its calls, code_at C base (compile_stmts l base lc) ->
  (inl = true -> lc <> None) -> lc_fits lc (length (s_env s)) (length escs) (length caps) ->
  exists σ', star c C (mkVm base stk s esc escs caps its calls) σ' /\
             (post sg lc (base + length (compile_stmts l base lc)) stk s' esc escs caps its calls σ' \/ overflow C σ').
Proof. intros c C fuel inl l Hw. exact (proj2 (stmts_sim2 c C fuel) inl l Hw). Qed.

Theorem compile_stmt_correct : forall c C fuel inl t, l2_stmt inl t = true ->
  forall esc s sg s', exec c fuel esc s t = Ok (sg, s') ->
  forall base lc stk escs caps its calls, code_at C base (compile_stmt t base lc) ->
  (inl = true -> lc <> None) -> lc_fits lc (length (s_env s)) (length escs) (length caps) ->
  exists σ', star c C (mkVm base stk s esc escs caps its calls) σ' /\
             (post sg lc (base + length (compile_stmt t base lc)) stk s' esc escs caps its calls σ' \/ overflow C σ').
Proof. intros c C fuel inl t Hw. exact (proj1 (stmts_sim2 c C fuel) inl t Hw). Qed.

(* an [overflow] state is a failing run: InvalidOperation from the checked addition *)
Theorem overflow_is_an_error : forall c C σo, star c C (init_vm c) σo -> overflow C σo ->
  exists n, run_template c n C = Err E_InvalidOperation.
Proof. exact overflow_run. Qed.

(* the length of a statement's code does not depend on where its `break`s jump to - the fact behind
   computing a loop's end before its body's final code exists (codegen.rs patches the jumps afterwards) *)
Theorem code_length_independent_of_break_target : forall t base i e e' p,
  length (compile_stmt t base (Some (mkL i e p))) = length (compile_stmt t base (Some (mkL i e' p))).
Proof. exact compile_len_indep. Qed.

(* Whole templates of that fragment (no loop control outside a loop): whenever the reference
   interpreter renders the template (final state s: output chunks, scopes, recorded context
   look-ups), eval_impl's loop on the compiled template terminates in exactly the same state - same
   output in particular - or stops at the counter overflow described above.
   PARTIAL - not covered by the simulation proof, tied to the code by the correspondence of the
   check only (model stream = real stream; model VM = interpreter = engine on generated programs):
     * macros (declaration behind a jump, defaults, closures: Enclose / GetClosure / BuildMacro),
       calls of macros and functions (ECall, keyword arguments), call blocks and caller();
     * `loop(...)` recursion (not expressible in the Lang syntax; the recursive FLAG is covered);
     * the failing direction: that an evaluation error of the interpreter is the same error of the VM
       (the theorems are forward simulations of successful runs). *)
Theorem compile_correct_partial : forall c fuel body s,
  forallb (l2_stmt false) body = true -> Interp.run c fuel body = Ok s ->
  (exists n, run_template c n (compile_template body) = Ok s) \/
  (exists σo, star c (compile_template body) (init_vm c) σo /\ overflow (compile_template body) σo).
Proof. exact template_sim. Qed.

(* non-vacuity: a program of the proved fragment (chained comparison with a variable, short-circuit
   operators, if-expression without else, filters, tests, subscripts, if / elif / else, with,
   set-block with filter, filter block, autoescape) is in the fragment, renders, and the VM on the
   compiled code reaches the same state; the stream contains the cleanup block of the chain *)
Example l2_witness :
  let x := 100 in let y := 101 in let z := 102 in
  let prog :=
    [SSet x (EList [EConst (LInt 3); EConst (LInt 5)]);
     SIf [(ECmp (EConst (LInt 1)) [(CLt, EItem (EVar x) (EConst (LInt 0))); (CLe, EConst (LInt 3))],
           [SEmit (EAnd (EVar x) (EFilter F_length (EVar x) []))]);
          (ETest T_defined (EVar y) [] true, [SRaw [33]])]
         (Some [SRaw [63]]);
     SWith [(y, EBin OAdd (EItem (EVar x) (EConst (LInt 1))) (EConst (LInt 1)))]
           [SSetBlock x [SEmit (EVar y); SRaw [97]] (Some F_upper); SEmit (EVar x)];
     SFilterBlock F_upper [SRaw [98]; SEmit (EIf (EVar y) (EConst (LInt 1)) None)];
     SAutoEscape (EConst (LBool true)) [SEmit (EConst (LStr [60]))];
     SEmit (EOr (ECmp (EConst (LInt 7)) [(CNotIn, EVar x)]) (EVar y));
     (* {% for z in [7, 8, 9, 10] %}{% with x = z %}{% set y %}{% if z == 8 %}{% continue %}{% endif %}
        {% if loop.last %}{% break %}{% endif %}{% endset %}{{ x }}{{ loop.index }}{% endwith %}{% else %}E{% endfor %} *)
     SFor (TVar z) (EList [EConst (LInt 7); EConst (LInt 8); EConst (LInt 9); EConst (LInt 10)]) None
          [SWith [(x, EVar z)]
             [SSetBlock y [SIf [(ECmp (EVar z) [(CEq, EConst (LInt 8))], [SContinue])] None;
                           SIf [(EAttr (EVar N_loop) A_last, [SBreak])] None] None;
              SEmit (EVar x); SEmit (EAttr (EVar N_loop) A_index)]]
          (Some [SRaw [69]]) false;
     SFor (TPair y z) (EList []) None [SEmit (EVar y)] (Some [SRaw [69]]) false;
     (* {% for z in [1, 2, 3, 4] if z != 2 %}{{ z }}{{ loop.length }}{% if loop.index == 2 %}{% break %}{% endif %}{% endfor %} *)
     SFor (TVar z) (EList [EConst (LInt 1); EConst (LInt 2); EConst (LInt 3); EConst (LInt 4)])
          (Some (ECmp (EVar z) [(CNe, EConst (LInt 2))]))
          [SEmit (EVar z); SEmit (EAttr (EVar N_loop) A_length);
           SIf [(ECmp (EAttr (EVar N_loop) A_index) [(CEq, EConst (LInt 2))], [SBreak])] None] None true] in
  let cfg := mkCfg Lenient [] false in
  forallb (l2_stmt false) prog = true /\
  match Interp.run cfg 50 prog, run_template cfg 400 (compile_template prog) with
  | Ok s, Ok s' => s = s' /\ output_of s = [50; 54; 65; 66; 38; 108; 116; 59; 84; 114; 117; 101; 55; 49; 57; 51; 69; 49; 51; 51; 51]
                                          (* 2 6A B &lt; True 71 93 E 13 33 *)
  | _, _ => False
  end /\
  existsb (fun i => match i with ISwap => true | _ => false end) (compile_template prog) = true /\
  existsb (fun i => match i with IPopFrame => true | _ => false end) (cleanup_code [ClCapture; ClFrame]) = true.
Proof. vm_compute. repeat split. Qed.

(* the model VM also runs what the proof does not cover (loops, loop controls, macros with defaults
   and keyword arguments, call blocks): here by computation, on every run of the check against the
   interpreter and the engine *)
Example l2_beyond_the_proof :
  let x := 100 in let y := 101 in let mname := 102 in let p := 103 in let m2 := 104 in
  let prog := [SSet x (EConst (LInt 1));
               SFor (TVar y) (EList [EConst (LInt 7); EConst (LInt 8); EConst (LInt 9)]) (Some (ECmp (EVar y) [(CNe, EConst (LInt 8))]))
                    [SWith [(x, EVar y)] [SIf [(EAttr (EVar N_loop) A_last, [SBreak])] None; SEmit (EVar x)]] (Some [SRaw [69]]) false;
               SMacro mname [p] [(p, EConst (LInt 4))] [SEmit (EVar p); SEmit (ECall N_caller [] [])];
               SCallBlock mname [] [SRaw [99]];
               SMacro m2 [p] [] [SEmit (EVar p); SEmit (EVar x)];
               SEmit (ECall m2 [] [(p, EBin OAdd (EVar x) (EVar x))])] in
  let cfg := mkCfg Lenient [] false in
  forallb (l2_stmt false) prog = false /\
  match Interp.run cfg 50 prog, run_template cfg 500 (compile_template prog) with
  | Ok s, Ok s' => output_of s = output_of s' /\ output_of s = [55; 52; 99; 50; 49]      (* 7 4c 21 *)
  | _, _ => False
  end.
Proof. vm_compute. repeat split. Qed.

Print Assumptions loop_fields_describe_iteration.
Print Assumptions expressions_do_not_assign.
Print Assumptions macro_assignments_invisible.
Print Assumptions statements_touch_only_innermost_scope.
Print Assumptions with_assignments_invisible.
Print Assumptions loop_assignments_invisible.
Print Assumptions set_persists.
Print Assumptions if_branch_runs_in_place.
Print Assumptions folded_constant_is_evaluation.
Print Assumptions compile_expr_correct.
Print Assumptions compile_stmts_correct.
Print Assumptions compile_stmt_correct.
Print Assumptions overflow_is_an_error.
Print Assumptions code_length_independent_of_break_target.
Print Assumptions compile_correct_partial.
