(* C03 -- Core language constructs render according to the documented semantics.
   Statements only; proofs in MJ.C03.Proofs. *)
From MJ Require Import Common.Base Lang.Syntax Lang.Meta Lang.Interp C03.Proofs.

(* loop.index, index0, revindex, revindex0, first, last and length describe the position [i] in a
   sequence of length [n] actually iterated *)
Theorem loop_fields_describe_iteration : forall i n, 0 <= i < n ->
  loop_attr i n A_index = Some (VInt (i + 1)) /\
  loop_attr i n A_index0 = Some (VInt i) /\
  loop_attr i n A_revindex = Some (VInt (n - i)) /\
  loop_attr i n A_revindex0 = Some (VInt (n - i - 1)) /\
  loop_attr i n A_length = Some (VInt n) /\
  loop_attr i n A_first = Some (VBool (i =? 0)) /\
  loop_attr i n A_last = Some (VBool (i =? n - 1)).
Proof. exact loop_fields_proof. Qed.

Print Assumptions loop_fields_describe_iteration.
