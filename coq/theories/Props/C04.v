(* C04 -- Compile-time evaluation is transparent: literals behave like variables.
   Only statements here; proofs live in MJ.C04.Proofs.

   Vocabulary: [as_const] is the model of compiler/ast.rs::Expr::as_const after the fix
   ([as_const_old]: as found), [compile_expr] / [run_compiled] the part of codegen.rs::compile_expr
   that chooses between one LoadConst and run-time code (C04/Model.v); run-time evaluation is the
   reference evaluator [eval] of Lang/Interp.v, for every undefined behaviour [c_mode c], every
   context and every state; [subst sigma e] puts literals back for the variables of [sigma]
   ([e] is the hoisted form, [subst sigma e] the literal form), [bound] says those variables
   carry the literals' values, [res_rel] is "same value / same error kind", [depth e] is the
   fuel that is large enough (C04/Spec.v). *)
From MJ Require Import Common.Base Lang.Syntax Lang.Meta Lang.Interp C04.Model C04.Spec C04.Proofs.

(* Whatever the folder computes at load time is exactly what run-time evaluation of the same
   expression yields - in every context, under every undefined behaviour, leaving the state
   untouched. *)
Theorem fold_agrees : forall e v, as_const e = Some v ->
  forall c fuel esc s, (depth e <= fuel)%nat -> eval c fuel esc s e = Ok (v, s).
Proof. exact fold_agrees_proof. Qed.

(* A folded constant is never an undefined value (so no undefined behaviour can tell it apart). *)
Theorem fold_never_undefined : forall e v, as_const e = Some v -> is_undef v = false.
Proof. exact fold_defined_proof. Qed.

(* A constant expression whose evaluation fails (division by zero, overflow, wrong operand kinds,
   ...) is not folded: the folder answers None and run-time code is emitted, so the error can
   only surface when that code is executed. *)
Theorem fold_defers_errors : forall e c fuel esc s k, (depth e <= fuel)%nat ->
  eval c fuel esc s e = Err k -> as_const e = None.
Proof.
  intros e c fuel esc s k Hd He. apply (fold_defers_errors_proof e c fuel esc s Hd).
  intros v s' H. rewrite He in H. discriminate.
Qed.

(* Loading never evaluates anything that could fail: compiling is a total function, and running
   what it produced is running the expression. *)
Theorem compile_transparent : forall e c fuel esc s, (depth e <= fuel)%nat ->
  run_compiled c fuel esc s (compile_expr e) = eval c fuel esc s e.
Proof. exact compile_transparent_proof. Qed.

(* Replacing ANY set of literal sub-expressions by variables bound to the same values changes
   neither the result nor success / the error kind (run-time semantics; call-free expressions;
   the two evaluations may even start from states that differ in the look-up record). *)
Theorem hoisting_transparent : forall c sigma e esc fuel s1 s2,
  pure e = true -> same s1 s2 -> bound c s1 sigma ->
  res_rel s1 s2 (eval c fuel esc s1 e) (eval c fuel esc s2 (subst sigma e)).
Proof. exact hoist_equiv_proof. Qed.

(* The property itself: the compiled hoisted form and the compiled literal form (which may fold
   where the hoisted form cannot) behave the same. *)
Theorem literal_variable_equiv : forall c sigma e esc fuel s,
  pure e = true -> bound c s sigma -> (depth e <= fuel)%nat ->
  res_rel s s (run_compiled c fuel esc s (compile_expr e))
              (run_compiled c fuel esc s (compile_expr (subst sigma e))).
Proof. exact literal_variable_equiv_proof. Qed.

(* compile_expr recurses: an operand of a node that does not fold is itself folded where possible.
   [fold_sub e] makes that decision at every level; evaluating the result is evaluating [e]
   (any expression, calls included; same outcome for the same fuel). *)
Theorem fold_everywhere : forall e c fuel esc s, (depth e <= fuel)%nat ->
  eval c fuel esc s (fold_sub e) = eval c fuel esc s e.
Proof. exact fold_everywhere_proof. Qed.

(* ... hence the property also holds with folding applied at every level of both forms. *)
Theorem literal_variable_equiv_deep : forall c sigma e esc fuel s,
  pure e = true -> bound c s sigma -> (depth e <= fuel)%nat ->
  res_rel s s (eval c fuel esc s (fold_sub e)) (eval c fuel esc s (fold_sub (subst sigma e))).
Proof. exact literal_variable_equiv_deep_proof. Qed.

(* single-hoist version: one literal [l] supplied through the variable [x] *)
Theorem single_hoist_equiv : forall c x l e esc fuel s,
  pure e = true -> fst (load c (s_clos s) (s_env s) x) = Some (value_of_lit l) -> (depth e <= fuel)%nat ->
  res_rel s s (run_compiled c fuel esc s (compile_expr e))
              (run_compiled c fuel esc s (compile_expr (subst (single x l) e))).
Proof. intros. apply literal_variable_equiv_proof; auto using bound_single. Qed.

(* If the literal form folds to [v], the hoisted form computes [v] at run time. *)
Theorem fold_agrees_hoisted : forall c sigma e v esc fuel s,
  pure e = true -> bound c s sigma -> (depth e <= fuel)%nat ->
  as_const (subst sigma e) = Some v ->
  exists s', eval c fuel esc s e = Ok (v, s') /\ same s s'.
Proof. exact fold_agrees_hoisted_proof. Qed.

(* `F if false else G`: never folded, and F - whatever it is - is not evaluated. *)
Theorem untaken_branch_not_evaluated : forall c fuel esc s F G,
  compile_expr (EIf (EConst (LBool false)) F (Some G)) = CRuntime (EIf (EConst (LBool false)) F (Some G)) /\
  eval c (S (S fuel)) esc s (EIf (EConst (LBool false)) F (Some G)) = eval c (S fuel) esc s G.
Proof. exact untaken_branch_proof. Qed.

(* ---- the folder as found violates fold_agrees: `0 and 1` folds to false, run time gives 0 ---- *)
Example fold_refuted_before_fix :
  let e := EAnd (EConst (LInt 0)) (EConst (LInt 1)) in
  as_const_old e = Some (VBool false) /\
  forall c esc s, eval c 2 esc s e = Ok (VInt 0, s) /\ VInt 0 <> VBool false.
Proof.
  cbv zeta. split; [reflexivity|]. intros c esc s. split; [|discriminate].
  apply fold_agrees; [reflexivity|cbn; lia].
Qed.

(* the second operand as well: `1 and ""` folded to false, run time gives "" *)
Example fold_refuted_before_fix_right :
  as_const_old (EAnd (EConst (LInt 1)) (EConst (LStr []))) = Some (VBool false) /\
  as_const (EAnd (EConst (LInt 1)) (EConst (LStr []))) = Some (VStr false []).
Proof. split; reflexivity. Qed.

(* ---- non-vacuity: the folder folds non-trivial expressions, defers failing ones, follows the
   parser's shapes; the hypotheses of the hoisting theorems are met by a real binding ---- *)
Example fold_witness :
  (* 1 < 2 < 1 + 2 *)
  as_const (ECmp (EConst (LInt 1)) [(CLt, EConst (LInt 2)); (CLt, EBin OAdd (EConst (LInt 1)) (EConst (LInt 2)))]) = Some (VBool true) /\
  (* 3 > 2 > 1 > 1 // 0 : not folded (the last operand does not fold) *)
  as_const (ECmp (EConst (LInt 3)) [(CGt, EConst (LInt 2)); (CGt, EConst (LInt 1)); (CGt, EBin OFloorDiv (EConst (LInt 1)) (EConst (LInt 0)))]) = None /\
  (* 3 > 2 > 5 > 1 // 0 : folded to false, the loop stops before the failing operand exactly like the VM *)
  as_const (ECmp (EConst (LInt 3)) [(CGt, EConst (LInt 2)); (CGt, EConst (LInt 5)); (CGt, EBin OFloorDiv (EConst (LInt 1)) (EConst (LInt 0)))]) = Some (VBool false) /\
  as_const (EBin OFloorDiv (EConst (LInt 1)) (EConst (LInt 0))) = None /\
  as_const (EAnd (EConst (LInt 0)) (EConst (LInt 1))) = Some (VInt 0) /\
  as_const (EOr (EConst (LStr [])) (EList [])) = Some (VList []) /\
  as_const (ENot (EList [])) = Some (VBool true) /\
  as_const (ECmp (EConst (LInt 1)) [(CNotIn, EList [EConst (LInt 1)])]) = Some (VBool false) /\
  as_const (EList [ENeg (EConst (LInt 1))]) = None /\
  as_const (EBin OConcat (ENeg (EConst (LInt 7))) (EConst (LStr [97]))) = Some (VStr false [45; 55; 97]).
Proof. vm_compute. repeat split. Qed.

Example hoist_witness :
  let c := mkCfg Strict [(100, VInt 0); (101, VStr false [])] false in
  let sigma := fun y => if y =? 100 then Some (LInt 0) else if y =? 101 then Some (LStr []) else None in
  let e := EOr (EAnd (EVar 100) (EConst (LInt 1))) (EVar 101) in
  pure e = true /\ bound c init_state sigma /\
  subst sigma e = EOr (EAnd (EConst (LInt 0)) (EConst (LInt 1))) (EConst (LStr [])) /\
  compile_expr (subst sigma e) = CLoadConst (VStr false []) /\ compile_expr e = CRuntime e.
Proof.
  cbv zeta. split; [reflexivity|]. split; [|repeat split].
  intros x l H. destruct (x =? 100) eqn:E1.
  - apply Z.eqb_eq in E1. subst x. inversion H. reflexivity.
  - destruct (x =? 101) eqn:E2; [|discriminate]. apply Z.eqb_eq in E2. subst x. inversion H. reflexivity.
Qed.

(* x + (0 and 1): the node does not fold, its right operand does *)
Example fold_sub_witness :
  fold_sub (EBin OAdd (EVar 100) (EAnd (EConst (LInt 0)) (EConst (LInt 1)))) = EBin OAdd (EVar 100) (EConst (LInt 0)) /\
  fold_sub (EFilter F_default (EVar 100) [EOr (EList []) (EList [EConst (LInt 1); EConst (LStr [97])])]) =
    EFilter F_default (EVar 100) [EList [EConst (LInt 1); EConst (LStr [97])]].
Proof. split; reflexivity. Qed.

Print Assumptions fold_agrees.
Print Assumptions fold_never_undefined.
Print Assumptions fold_defers_errors.
Print Assumptions compile_transparent.
Print Assumptions hoisting_transparent.
Print Assumptions literal_variable_equiv.
Print Assumptions fold_everywhere.
Print Assumptions literal_variable_equiv_deep.
Print Assumptions single_hoist_equiv.
Print Assumptions fold_agrees_hoisted.
Print Assumptions untaken_branch_not_evaluated.
