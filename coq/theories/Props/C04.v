(* C04 -- Compile-time evaluation is transparent: literals behave like variables.
   Only statements here; proofs live in MJ.C04.Proofs.

   Vocabulary: [as_const] is the model of compiler/ast.rs::Expr::as_const after the fix
   ([as_const_old]: as found), [compile_expr] / [run_compiled] the part of codegen.rs::compile_expr
   that chooses between one LoadConst and run-time code (C04/Model.v); run-time evaluation is the
   reference evaluator [eval] of Lang/Interp.v, for every undefined behaviour [c_mode c], every
   context and every state; [subst sigma e] puts literals back for the variables of [sigma]
   ([e] is the hoisted form, [subst sigma e] the literal form), [bound] says those variables
   carry the literals' values, [res_rel] is "same value / same error kind", [depth e] is the
   fuel that is large enough (C04/Spec.v). *)
From MJ Require Import Common.Base Lang.Syntax Lang.Meta Lang.Interp C04.Model C04.Spec C04.Proofs.
From MJ Require Import C04.Coll C04.CollSpec C04.CollProofs.

(* Whatever the folder computes at load time is exactly what run-time evaluation of the same
   expression yields - in every context, under every undefined behaviour, leaving the state
   untouched. *)
Theorem fold_agrees : forall e v, as_const e = Some v ->
  forall c fuel esc s, (depth e <= fuel)%nat -> eval c fuel esc s e = Ok (v, s).
Proof. exact fold_agrees_proof. Qed.

(* The same without any assumption on the fuel: whatever fuel the evaluator is given, it answers
   the folded value (state untouched) or runs out of its own gas - never another value, never an
   error.  (C03's folded_constant_is_evaluation - "if evaluation succeeds it yields the folded
   value" - is the immediate corollary [fold_agrees_inversion] below.) *)
Theorem fold_agrees_any_fuel : forall e v, as_const e = Some v ->
  forall c fuel esc s, eval c fuel esc s e = Ok (v, s) \/ eval c fuel esc s e = OutOfGas.
Proof. exact fold_agrees_any_fuel_proof. Qed.

Theorem fold_agrees_inversion : forall c esc fuel e v0, as_const e = Some v0 ->
  forall s v s', eval c fuel esc s e = Ok (v, s') -> v = v0 /\ s' = s.
Proof.
  intros c esc fuel e v0 H s v s' He.
  destruct (fold_agrees_any_fuel_proof e v0 H c fuel esc s) as [E|E]; rewrite E in He; [|discriminate].
  inversion He. auto.
Qed.

(* A folded constant is never an undefined value (so no undefined behaviour can tell it apart). *)
Theorem fold_never_undefined : forall e v, as_const e = Some v -> is_undef v = false.
Proof. exact fold_defined_proof. Qed.

(* A constant expression whose evaluation fails (division by zero, overflow, wrong operand kinds,
   ...) is not folded: the folder answers None and run-time code is emitted, so the error can
   only surface when that code is executed. *)
Theorem fold_defers_errors : forall e c fuel esc s k, (depth e <= fuel)%nat ->
  eval c fuel esc s e = Err k -> as_const e = None.
Proof.
  intros e c fuel esc s k Hd He. apply (fold_defers_errors_proof e c fuel esc s Hd).
  intros v s' H. rewrite He in H. discriminate.
Qed.

(* Loading never evaluates anything that could fail: compiling is a total function, and running
   what it produced is running the expression. *)
Theorem compile_transparent : forall e c fuel esc s, (depth e <= fuel)%nat ->
  run_compiled c fuel esc s (compile_expr e) = eval c fuel esc s e.
Proof. exact compile_transparent_proof. Qed.

(* Replacing ANY set of literal sub-expressions by variables bound to the same values changes
   neither the result nor success / the error kind (run-time semantics; call-free expressions;
   the two evaluations may even start from states that differ in the look-up record). *)
Theorem hoisting_transparent : forall c sigma e esc fuel s1 s2,
  pure e = true -> same s1 s2 -> bound c s1 sigma ->
  res_rel s1 s2 (eval c fuel esc s1 e) (eval c fuel esc s2 (subst sigma e)).
Proof. exact hoist_equiv_proof. Qed.

(* The same with calls, as long as no callee is a macro in the scope of the expression: calls of
   the builtin function (range), of unknown names and of values that are not callable.  A macro
   call is excluded for a reason of the model, not of the engine: it runs statements in a state
   that carries the look-up record and may extend the closure table, so the statement would need
   (a) that the whole interpreter - statements, loops, macro calls - ignores the look-up record
   and (b) that running a macro body never changes what the caller's frames resolve the hoisted
   variables to; neither invariant is proved here.  (On the engine, macro calls with literal and
   hoisted arguments, keyword arguments included, are part of the differential check.) *)
Theorem hoisting_transparent_calls : forall c sigma ok e esc fuel s1 s2,
  callsafe ok e = true -> (forall f, ok f = true -> not_macro c s1 f) -> same s1 s2 -> bound c s1 sigma ->
  res_rel s1 s2 (eval c fuel esc s1 e) (eval c fuel esc s2 (subst sigma e)).
Proof. exact hoist_calls_proof. Qed.

Theorem literal_variable_equiv_calls : forall c sigma ok e esc fuel s,
  callsafe ok e = true -> (forall f, ok f = true -> not_macro c s f) -> bound c s sigma -> (depth e <= fuel)%nat ->
  res_rel s s (run_compiled c fuel esc s (compile_expr e)) (run_compiled c fuel esc s (compile_expr (subst sigma e))) /\
  res_rel s s (eval c fuel esc s (fold_sub e)) (eval c fuel esc s (fold_sub (subst sigma e))).
Proof. exact literal_variable_equiv_calls_proof. Qed.

(* The property itself: the compiled hoisted form and the compiled literal form (which may fold
   where the hoisted form cannot) behave the same. *)
Theorem literal_variable_equiv : forall c sigma e esc fuel s,
  pure e = true -> bound c s sigma -> (depth e <= fuel)%nat ->
  res_rel s s (run_compiled c fuel esc s (compile_expr e))
              (run_compiled c fuel esc s (compile_expr (subst sigma e))).
Proof. exact literal_variable_equiv_proof. Qed.

(* compile_expr recurses: an operand of a node that does not fold is itself folded where possible.
   [fold_sub e] makes that decision at every level; evaluating the result is evaluating [e]
   (any expression, calls included; same outcome for the same fuel). *)
Theorem fold_everywhere : forall e c fuel esc s, (depth e <= fuel)%nat ->
  eval c fuel esc s (fold_sub e) = eval c fuel esc s e.
Proof. exact fold_everywhere_proof. Qed.

(* ... hence the property also holds with folding applied at every level of both forms. *)
Theorem literal_variable_equiv_deep : forall c sigma e esc fuel s,
  pure e = true -> bound c s sigma -> (depth e <= fuel)%nat ->
  res_rel s s (eval c fuel esc s (fold_sub e)) (eval c fuel esc s (fold_sub (subst sigma e))).
Proof. exact literal_variable_equiv_deep_proof. Qed.

(* single-hoist version: one literal [l] supplied through the variable [x] *)
Theorem single_hoist_equiv : forall c x l e esc fuel s,
  pure e = true -> fst (load c (s_clos s) (s_env s) x) = Some (value_of_lit l) -> (depth e <= fuel)%nat ->
  res_rel s s (run_compiled c fuel esc s (compile_expr e))
              (run_compiled c fuel esc s (compile_expr (subst (single x l) e))).
Proof. intros. apply literal_variable_equiv_proof; auto using bound_single. Qed.

(* If the literal form folds to [v], the hoisted form computes [v] at run time. *)
Theorem fold_agrees_hoisted : forall c sigma e v esc fuel s,
  pure e = true -> bound c s sigma -> (depth e <= fuel)%nat ->
  as_const (subst sigma e) = Some v ->
  exists s', eval c fuel esc s e = Ok (v, s') /\ same s s'.
Proof. exact fold_agrees_hoisted_proof. Qed.

(* `F if false else G`: never folded, and F - whatever it is - is not evaluated. *)
Theorem untaken_branch_not_evaluated : forall c fuel esc s F G,
  compile_expr (EIf (EConst (LBool false)) F (Some G)) = CRuntime (EIf (EConst (LBool false)) F (Some G)) /\
  eval c (S (S fuel)) esc s (EIf (EConst (LBool false)) F (Some G)) = eval c (S fuel) esc s G.
Proof. exact untaken_branch_proof. Qed.

(* ============================================================================================
   Collections and call arguments (C04/Coll.v: lists, tuples, maps, keyword maps; the model of
   List/Tuple/Map::as_const, of codegen.rs::compile_call_args with its static keyword path, and of
   the VM's BuildList / BuildTuple / BuildMap / BuildKwargs / MergeKwargs / UnpackLists).
   [ins] is the map implementation's insert (BTreeMap by default, IndexMap with preserve_order):
   every statement holds for ANY insert function, hence for both, duplicates and insertion order
   included - the folder, the static keyword collection and the run-time constructors perform the
   same inserts in the same order.  [ccompile ins static fold]: compile_expr with the static
   keyword path / the folder switched on or off; [run]: the VM; [ceq]: same effect on every stack.
   ============================================================================================ *)

(* fold_preserves_kind: a folded list / tuple / map literal is exactly the value (kind, items,
   order, duplicate keys resolved the same way) that the run-time constructor builds when the
   folder is switched off - BuildList / BuildTuple / BuildMap on the pushed items *)
Theorem fold_preserves_kind : forall ins rho sp e v, cas_const ins e = Some v ->
  forall stk, run ins rho (ccompile ins sp false e) stk = Some (v :: stk).
Proof. exact fold_preserves_kind_proof. Qed.

(* ... and it is what the literal denotes *)
Theorem fold_denotes : forall ins rho e v, cas_const ins e = Some v -> ceval ins rho e = Some v.
Proof. exact fold_denotes_proof. Qed.

(* the folder on or off, at every level of any expression (calls, splats, call blocks included) *)
Theorem fold_path_equiv : forall ins rho sp e, ceq ins rho (ccompile ins sp true e) (ccompile ins sp false e).
Proof. exact fold_path_equiv_proof. Qed.

(* the static keyword-argument path (all values constants, no `**`, no caller: one LoadConst of the
   collected map) against the dynamic path (LoadConst key, value, .., BuildKwargs): the same
   keyword map, for the block alone and inside any expression *)
Theorem kwargs_static_is_dynamic : forall ins rho comp args caller,
  (forall c, ceq ins rho (comp (XConst c)) [ILoadConst (CAtom c)]) ->
  ceq ins rho (kwargs_code ins true comp args caller) (kwargs_code ins false comp args caller).
Proof. exact kwargs_static_is_dynamic_proof. Qed.

Theorem static_path_equiv : forall ins rho f e, ceq ins rho (ccompile ins true f e) (ccompile ins false f e).
Proof. exact static_path_equiv_proof. Qed.

(* literals of collections and of (keyword) arguments hoisted into variables: the compiled forms
   do the same to every stack - although the literal form folds / takes the static path and the
   hoisted form does not (any expression of this syntax, `*x`, `**m` and call blocks included) *)
Theorem collection_hoisting : forall ins rho sigma e, cbound rho sigma ->
  ceq ins rho (ccompile ins true true e) (ccompile ins true true (csubst sigma e)).
Proof. exact coll_hoist_proof. Qed.

(* the compiled code computes the documented meaning of collection literals and calls: receiver,
   positional arguments with `*x` spliced in, one keyword map built from left to right.
   (Without `**m`: there the VM builds the map in chunks and merges them, which is inserting pair
   by pair only for a lawful map; the code-level statements above do cover `**m`.) *)
Theorem ccompile_correct : forall ins rho e, nokwsplat e = true ->
  forall stk, run ins rho (ccompile ins true true e) stk = omap (fun v => v :: stk) (ceval ins rho e).
Proof. exact ccompile_correct_proof. Qed.

(* non-vacuity: duplicates and order under both map implementations; a call on the static path *)
Example collections_witness :
  let k s := XConst (LStr s) in let i z := XConst (LInt z) in
  (* {"b": 1, "a": 2, "b": 3} *)
  let m := XMap [(k [98], i 1); (k [97], i 2); (k [98], i 3)] in
  cas_const ins_btree m = Some (CMap [(cstr [97], CAtom (LInt 2)); (cstr [98], CAtom (LInt 3))]) /\
  cas_const ins_index m = Some (CMap [(cstr [98], CAtom (LInt 3)); (cstr [97], CAtom (LInt 2))]) /\
  (* {true: 1, 1: 2}: two keys for the BTreeMap (kind first), two for the IndexMap *)
  cas_const ins_btree (XMap [(XConst (LBool true), i 1); (i 1, i 2)]) = Some (CMap [(CAtom (LBool true), CAtom (LInt 1)); (CAtom (LInt 1), CAtom (LInt 2))]) /\
  (* (1, "a") is a tuple, [1, "a"] a list *)
  cas_const ins_btree (XTuple [i 1; k [97]]) = Some (CTuple [CAtom (LInt 1); cstr [97]]) /\
  cas_const ins_btree (XList [i 1; k [97]]) = Some (CList [CAtom (LInt 1); cstr [97]]) /\
  (* f(1, a=2, b=3, a=4): static path *)
  ccompile ins_btree true true (XCall None 7 [(KPos, i 1); (KKw [97], i 2); (KKw [98], i 3); (KKw [97], i 4)] None) =
    [ILoadConst (CAtom (LInt 1)); ILoadConst (CKwargs [(cstr [97], CAtom (LInt 4)); (cstr [98], CAtom (LInt 3))]); ICall 7 (Some 2%nat)] /\
  (* f(1, a=x, b=3, a=4): dynamic path, same result when x = 2 *)
  ccompile ins_btree true true (XCall None 7 [(KPos, i 1); (KKw [97], XVar 100); (KKw [98], i 3); (KKw [97], i 4)] None) =
    [ILoadConst (CAtom (LInt 1)); ILoadConst (cstr [97]); ILookup 100; ILoadConst (cstr [98]); ILoadConst (CAtom (LInt 3));
     ILoadConst (cstr [97]); ILoadConst (CAtom (LInt 4)); IBuildKwargs 3; ICall 7 (Some 2%nat)] /\
  run ins_btree (fun _ => CAtom (LInt 2))
      (ccompile ins_btree true true (XCall None 7 [(KPos, i 1); (KKw [97], XVar 100); (KKw [98], i 3); (KKw [97], i 4)] None)) [] =
    Some [CRes 7 [CAtom (LInt 1); CKwargs [(cstr [97], CAtom (LInt 4)); (cstr [98], CAtom (LInt 3))]]] /\
  (* f( *[1, 2], 3, **m, c=4): batches, UnpackLists, MergeKwargs *)
  ccompile ins_btree true true (XCall None 7 [(KPosSplat, XList [i 1; i 2]); (KPos, i 3); (KKwSplat, XVar 101); (KKw [99], i 4)] None) =
    [ILoadConst (CList [CAtom (LInt 1); CAtom (LInt 2)]); ILoadConst (CAtom (LInt 3)); ILookup 101;
     ILoadConst (cstr [99]); ILoadConst (CAtom (LInt 4)); IBuildKwargs 1; IMergeKwargs 2;
     IBuildList 2; IUnpackLists 2; ICall 7 None].
Proof. vm_compute. repeat split. Qed.

(* ---- the folder as found violates fold_agrees: `0 and 1` folds to false, run time gives 0 ---- *)
Example fold_refuted_before_fix :
  let e := EAnd (EConst (LInt 0)) (EConst (LInt 1)) in
  as_const_old e = Some (VBool false) /\
  forall c esc s, eval c 2 esc s e = Ok (VInt 0, s) /\ VInt 0 <> VBool false.
Proof.
  cbv zeta. split; [reflexivity|]. intros c esc s. split; [|discriminate].
  apply fold_agrees; [reflexivity|cbn; lia].
Qed.

(* the second operand as well: `1 and ""` folded to false, run time gives "" *)
Example fold_refuted_before_fix_right :
  as_const_old (EAnd (EConst (LInt 1)) (EConst (LStr []))) = Some (VBool false) /\
  as_const (EAnd (EConst (LInt 1)) (EConst (LStr []))) = Some (VStr false []).
Proof. split; reflexivity. Qed.

(* ---- non-vacuity: the folder folds non-trivial expressions, defers failing ones, follows the
   parser's shapes; the hypotheses of the hoisting theorems are met by a real binding ---- *)
Example fold_witness :
  (* 1 < 2 < 1 + 2 *)
  as_const (ECmp (EConst (LInt 1)) [(CLt, EConst (LInt 2)); (CLt, EBin OAdd (EConst (LInt 1)) (EConst (LInt 2)))]) = Some (VBool true) /\
  (* 3 > 2 > 1 > 1 // 0 : not folded (the last operand does not fold) *)
  as_const (ECmp (EConst (LInt 3)) [(CGt, EConst (LInt 2)); (CGt, EConst (LInt 1)); (CGt, EBin OFloorDiv (EConst (LInt 1)) (EConst (LInt 0)))]) = None /\
  (* 3 > 2 > 5 > 1 // 0 : folded to false, the loop stops before the failing operand exactly like the VM *)
  as_const (ECmp (EConst (LInt 3)) [(CGt, EConst (LInt 2)); (CGt, EConst (LInt 5)); (CGt, EBin OFloorDiv (EConst (LInt 1)) (EConst (LInt 0)))]) = Some (VBool false) /\
  as_const (EBin OFloorDiv (EConst (LInt 1)) (EConst (LInt 0))) = None /\
  as_const (EAnd (EConst (LInt 0)) (EConst (LInt 1))) = Some (VInt 0) /\
  as_const (EOr (EConst (LStr [])) (EList [])) = Some (VList []) /\
  as_const (ENot (EList [])) = Some (VBool true) /\
  as_const (ECmp (EConst (LInt 1)) [(CNotIn, EList [EConst (LInt 1)])]) = Some (VBool false) /\
  as_const (EList [ENeg (EConst (LInt 1))]) = None /\
  as_const (EBin OConcat (ENeg (EConst (LInt 7))) (EConst (LStr [97]))) = Some (VStr false [45; 55; 97]).
Proof. vm_compute. repeat split. Qed.

Example hoist_witness :
  let c := mkCfg Strict [(100, VInt 0); (101, VStr false [])] false in
  let sigma := fun y => if y =? 100 then Some (LInt 0) else if y =? 101 then Some (LStr []) else None in
  let e := EOr (EAnd (EVar 100) (EConst (LInt 1))) (EVar 101) in
  pure e = true /\ bound c init_state sigma /\
  subst sigma e = EOr (EAnd (EConst (LInt 0)) (EConst (LInt 1))) (EConst (LStr [])) /\
  compile_expr (subst sigma e) = CLoadConst (VStr false []) /\ compile_expr e = CRuntime e.
Proof.
  cbv zeta. split; [reflexivity|]. split; [|repeat split].
  intros x l H. destruct (x =? 100) eqn:E1.
  - apply Z.eqb_eq in E1. subst x. inversion H. reflexivity.
  - destruct (x =? 101) eqn:E2; [|discriminate]. apply Z.eqb_eq in E2. subst x. inversion H. reflexivity.
Qed.

(* x + (0 and 1): the node does not fold, its right operand does *)
Example fold_sub_witness :
  fold_sub (EBin OAdd (EVar 100) (EAnd (EConst (LInt 0)) (EConst (LInt 1)))) = EBin OAdd (EVar 100) (EConst (LInt 0)) /\
  fold_sub (EFilter F_default (EVar 100) [EOr (EList []) (EList [EConst (LInt 1); EConst (LStr [97])])]) =
    EFilter F_default (EVar 100) [EList [EConst (LInt 1); EConst (LStr [97])]].
Proof. split; reflexivity. Qed.

(* range(3 + n) with n hoisted: the callee is the builtin, the argument folds in the literal form *)
Example hoist_call_witness :
  let c := mkCfg Lenient [(100, VInt 2)] false in
  let ok := fun f => f =? N_range in
  let e := ECall N_range [EBin OAdd (EConst (LInt 3)) (EVar 100)] [] in
  callsafe ok e = true /\ (forall f, ok f = true -> not_macro c init_state f) /\ bound c init_state (single 100 (LInt 2)) /\
  fold_sub (subst (single 100 (LInt 2)) e) = ECall N_range [EConst (LInt 5)] [] /\
  eval c 5 false init_state e = Ok (VList [VInt 0; VInt 1; VInt 2; VInt 3; VInt 4], mkSt [base_frame] [] [] [N_range; 100]).
Proof.
  cbv zeta. split; [reflexivity|]. split; [|split; [|split; reflexivity]].
  - intros f Hf mc cl. apply Z.eqb_eq in Hf. subst f. vm_compute. discriminate.
  - apply bound_single. reflexivity.
Qed.

Print Assumptions fold_agrees.
Print Assumptions fold_preserves_kind.
Print Assumptions fold_denotes.
Print Assumptions fold_path_equiv.
Print Assumptions kwargs_static_is_dynamic.
Print Assumptions static_path_equiv.
Print Assumptions collection_hoisting.
Print Assumptions ccompile_correct.
Print Assumptions fold_agrees_any_fuel.
Print Assumptions fold_agrees_inversion.
Print Assumptions hoisting_transparent_calls.
Print Assumptions literal_variable_equiv_calls.
Print Assumptions fold_never_undefined.
Print Assumptions fold_defers_errors.
Print Assumptions compile_transparent.
Print Assumptions hoisting_transparent.
Print Assumptions literal_variable_equiv.
Print Assumptions fold_everywhere.
Print Assumptions literal_variable_equiv_deep.
Print Assumptions single_hoist_equiv.
Print Assumptions fold_agrees_hoisted.
Print Assumptions untaken_branch_not_evaluated.
