From MJ Require Import Common.Base Lang.Syntax Lang.Meta Lang.Interp C04.Model C04.Proofs.
Theorem stub : as_const (EConst LNone) = Some VNone. Proof. exact stub_proof. Qed.
Print Assumptions stub.
