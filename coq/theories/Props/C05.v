(* C05 -- Scoped constructs restore scope, capture and escape state on every path.
   Statements only; proofs in MJ.C05.Proofs. *)
From MJ Require Import Common.Base C05.Model C05.Spec C05.Proofs.
Local Open Scope nat_scope.

(* The verified checker (translation validation), one activation, calls summarised: if
   [check_ann] accepts an instruction stream with an annotation, then from every entry point
   (template body, every macro body), along EVERY control-flow path - not only those some
   context happens to take - nothing is discarded that the path did not create (no frame of the
   wrong kind, no missing capture / auto-escape entry / operand), the run never leaves the
   stream, every end (end of stream, Return) is reached with scope, capture depth and
   auto-escape depth as at entry and NO operand left (after `extends`: exactly the one discard
   capture the hand-over to the parent ends), and the shape at a program point - operand stack
   included, exactly - does not depend on the path that led there, up to whether a conditional
   `extends` has happened ([core]).  The checker
   is extracted and run on the REAL instruction streams the current compiler produces. *)
Theorem check_ann_sound : forall C A entries, check_ann C A entries = true -> balanced C entries.
Proof. exact check_ann_sound_proof. Qed.
Check check_ann_sound : forall C A entries, check_ann C A entries = true -> balanced C entries.

(* the entry-point verdict is an instance: acceptance means the inferred annotation checked *)
Theorem verdict_sound : forall C entries, verdict C entries = None -> balanced C entries.
Proof.
  intros C entries H. unfold verdict in H.
  destruct (check_ann C (annotate C entries) entries) eqn:E.
  - eapply check_ann_sound_proof; eassumption.
  - destruct (first_bad _ _); discriminate.
Qed.
Check verdict_sound : forall C entries, verdict C entries = None -> balanced C entries.

(* Recursive loops, interprocedurally.  [check_rec] = the entry-point analysis plus, for every
   recursive PushLoop p and every call site (r, cap) of the stream, the analysis of ONE
   activation of that loop started by that site, relative to the caller: entered at p + 1 with
   one loop frame that remembers (r, cap), one capture iff cap, nothing else; PopLoopFrame on
   that frame must - after the pops the VM performs there - leave no frame, no capture beyond
   the call's own, no auto-escape entry and no operand, and nothing else may end the activation.
   If it accepts, the REAL machine - where a call jumps into any recursive loop of the stream
   with the caller's whole state underneath, to any depth, and PopLoopFrame returns to the
   remembered pc - is never stuck, never leaves the stream, and ends every evaluation with no
   frame, capture, auto-escape entry or operand left.  No bound on the recursion depth. *)
Theorem check_rec_sound : forall C Am Ar entries, check_rec C Am Ar entries = true -> rbalanced C entries.
Proof. exact check_rec_sound_proof. Qed.
Check check_rec_sound : forall C Am Ar entries, check_rec C Am Ar entries = true -> rbalanced C entries.

Theorem verdict_rec_sound : forall C entries, verdict_rec C entries = None -> rbalanced C entries.
Proof.
  intros C entries H. unfold verdict_rec in H.
  destruct (check_rec C (annotate C entries) (annotate_regions C) entries) eqn:E.
  - eapply check_rec_sound_proof; eassumption.
  - destruct (verdict C entries); [discriminate|]. destruct (first_bad_region _ _ _); discriminate.
Qed.
Check verdict_rec_sound : forall C entries, verdict_rec C entries = None -> rbalanced C entries.

(* A recursion call leaves scope, capture and escape state as it found them.  From ANY state [s] of a caller at a call
   site: if the real machine enters a recursive loop there and later, for the first time, is back at the caller's frame
   depth (configuration [d]; everything in between runs strictly above the caller's frames, nested recursion calls to
   any depth included), then [d] is the summary successor of the call: the pc after the call site, the caller's
   frames, captures and auto-escape entries exactly as they were, its operands with the argument replaced by the
   call's value (pushed iff the call captures). *)
Theorem rec_call_restores : forall C Am Ar entries, check_rec C Am Ar entries = true ->
  forall pc s i cap k p u d,
    nth_error C pc = Some i -> call_arg i s = Some (cap, k) -> In p (rec_targets C) ->
    rstar_above C (length (frames s)) (S p, lift (with_stk s k) (reg_entry (S pc) cap)) u ->
    rstep C u d -> length (frames (snd d)) <= length (frames s) ->
    d = (S pc, lift (with_stk s k) (ret_rel cap)).
Proof. exact rec_call_restores_proof. Qed.
Check rec_call_restores : forall C Am Ar entries, check_rec C Am Ar entries = true ->
  forall pc s i cap k p u d,
    nth_error C pc = Some i -> call_arg i s = Some (cap, k) -> In p (rec_targets C) ->
    rstar_above C (length (frames s)) (S p, lift (with_stk s k) (reg_entry (S pc) cap)) u ->
    rstep C u d -> length (frames (snd d)) <= length (frames s) ->
    d = (S pc, lift (with_stk s k) (ret_rel cap)).

(* Non-vacuity and the known refutation: the stream codegen.rs emitted BEFORE the fix for
   `for{with{break}}` is rejected, the fixed stream is accepted. *)
Definition before_fix : list instr :=
  [IStack 0 1; IPushLoop false; IIterate 9; IStack 1 0; IPushWith; IJump 9; IPopFrame; IJump 2; IStack 0 0; IPopLoopFrame 0].
Definition after_fix : list instr :=
  [IStack 0 1; IPushLoop false; IIterate 9; IStack 1 0; IPushWith; IPopFrame; IJump 9; IPopFrame; IJump 2; IPopLoopFrame 0].
Example break_in_with_refuted_before_fix : verdict before_fix [(0, shape0)] = Some 9.   (* the PopLoopFrame that would pop the with frame *)
Proof. vm_compute. reflexivity. Qed.
Example break_in_with_accepted_after_fix : verdict after_fix [(0, shape0)] = None.
Proof. vm_compute. reflexivity. Qed.

(* A real recursive stream: `{% for n in tree recursive %}{{ n.name ~ loop(n.children) }}{% else %}-{% endfor %}|after`
   as compiled by the current compiler (Lookup PushLoop(3) Iterate StoreLocal Lookup GetAttr Lookup GetAttr
   CallFunction(loop,1) StringConcat Emit Jump PushDidNotIterate PopLoopFrame JumpIfFalse EmitRaw EmitRaw): a loop with an
   else block whose recursion call sits in value position.  With the pop of the did-not-iterate flag the VM performs
   since commit 696a661 ([rec_else 1]) it is accepted - one region analysis, entered with a capture; with the VM as
   it was before ([rec_else 0]: the flag stays between the operands of `~`) the region analysis rejects it at the
   PopLoopFrame. *)
Definition rec_else (ret_pops : nat) : list instr :=
  [IStack 0 1; IPushLoop true; IIterate 12; IStack 1 0; IStack 0 1; IStack 1 1; IStack 0 1; IStack 1 1;
   ICall false; IBin; IStack 1 0; IJump 2; IDidNotIterate; IPopLoopFrame ret_pops; IJumpIfFalse 16; IStack 0 0; IStack 0 0].
Example rec_else_regions : regions (rec_else 1) = [(1, (9, true))].
Proof. vm_compute. reflexivity. Qed.
Example rec_else_accepted : verdict_rec (rec_else 1) [(0, shape0)] = None.
Proof. vm_compute. reflexivity. Qed.
Example rec_else_rejected_without_pop : verdict_rec (rec_else 0) [(0, shape0)] = Some (1, 13).
Proof. vm_compute. reflexivity. Qed.
(* the entry-point analysis alone (calls summarised) cannot see it *)
Example rec_else_summary_blind : verdict (rec_else 0) [(0, shape0)] = None.
Proof. vm_compute. reflexivity. Qed.
(* and the real machine does get stuck / unbalanced there: two levels of recursion, then the return
   leaves the flag under the result *)
Example rec_else_real_run_unbalanced :
  exists c, rstar (rec_else 0) (0, shape0) c /\ fst c = 9 /\ stk (snd c) = [V; V; V].
Proof.
  eexists. split.
  - eapply rstar_step. eapply rstar_step. eapply rstar_step. eapply rstar_step. eapply rstar_step.
    eapply rstar_step. eapply rstar_step. eapply rstar_step. eapply rstar_step. eapply rstar_step.
    eapply rstar_step. eapply rstar_step. apply rstar_refl.
    + (* 0 *) eapply (rstep_intro _ 0); [reflexivity|reflexivity|left; reflexivity].
    + (* 1 PushLoop *) eapply (rstep_intro _ 1); [reflexivity|reflexivity|left; reflexivity].
    + (* 2 Iterate: an item *) eapply (rstep_intro _ 2); [reflexivity|reflexivity|left; reflexivity].
    + eapply (rstep_intro _ 3); [reflexivity|reflexivity|left; reflexivity].
    + eapply (rstep_intro _ 4); [reflexivity|reflexivity|left; reflexivity].
    + eapply (rstep_intro _ 5); [reflexivity|reflexivity|left; reflexivity].
    + eapply (rstep_intro _ 6); [reflexivity|reflexivity|left; reflexivity].
    + eapply (rstep_intro _ 7); [reflexivity|reflexivity|left; reflexivity].
    + (* 8 the call enters the loop *) eapply (rstep_intro _ 8); [reflexivity|reflexivity|right; left; reflexivity].
    + (* 2 Iterate: the children are empty *) eapply (rstep_intro _ 2); [reflexivity|reflexivity|right; left; reflexivity].
    + (* 12 PushDidNotIterate *) eapply (rstep_intro _ 12); [reflexivity|reflexivity|left; reflexivity].
    + (* 13 PopLoopFrame returns to 9 *) eapply (rstep_intro _ 13); [reflexivity|reflexivity|left; reflexivity].
  - split; reflexivity.
Qed.

(* `extends`: LoadBlocks silences the rest of the template with a discard capture which the hand-over to the
   parent's instructions ends.  `before{% if c %}{% extends "x" %}{% endif %}after` (a conditional extends, as in the
   repository's fixture err_extends_actually_not.txt) is accepted - two shapes at the join, equal up to [core];
   the same with an EndCapture-less capture left open is not. *)
Definition cond_extends : list instr :=
  [IStack 0 0; IStack 0 1; IJumpIfFalse 5; IStack 0 1; ILoadBlocks; IStack 0 0].
Example cond_extends_accepted : verdict_rec cond_extends [(0, shape0)] = None.
Proof. vm_compute. reflexivity. Qed.
Example cond_extends_two_shapes : map (@length shape) (annotate cond_extends [(0, shape0)]) = [1; 1; 1; 1; 1; 2].
Proof. vm_compute. reflexivity. Qed.
Example open_capture_rejected : verdict_rec [IBeginCapture; IStack 0 0] [(0, shape0)] = Some (0, 1).
Proof. vm_compute. reflexivity. Qed.

Print Assumptions check_ann_sound.
Print Assumptions verdict_sound.
Print Assumptions check_rec_sound.
Print Assumptions verdict_rec_sound.
Print Assumptions rec_call_restores.
