(* C05 -- Scoped constructs restore scope, capture and escape state on every path.
   Statements only; proofs in MJ.C05.Proofs. *)
From MJ Require Import Common.Base C05.Model C05.Spec C05.Proofs.
Local Open Scope nat_scope.

(* The verified checker (translation validation): if [check_ann] accepts an instruction
   stream with an annotation, then from every entry point (template body, every macro
   body), along EVERY control-flow path - not only those some context happens to take -
   nothing is discarded that the path did not create (no frame of the wrong kind, no
   missing capture / auto-escape entry / operand), the run never leaves the stream, every
   end (end of stream, Return) is reached with scope, capture depth, auto-escape depth and
   operand stack exactly as at entry, and the shape at a program point does not depend on
   the path that led there.  The checker is extracted and run on the REAL instruction
   streams the current compiler produces. *)
Theorem check_ann_sound : forall C A entries, check_ann C A entries = true -> balanced C entries.
Proof. exact check_ann_sound_proof. Qed.

(* the verdict used by the check is an instance: acceptance means the inferred annotation checked *)
Theorem verdict_sound : forall C entries, verdict C entries = None -> balanced C entries.
Proof.
  intros C entries H. unfold verdict in H.
  destruct (check_ann C (annotate C entries) entries) eqn:E.
  - eapply check_ann_sound_proof; eassumption.
  - destruct (first_bad _ _); discriminate.
Qed.

(* Non-vacuity and the known refutation: the stream codegen.rs emitted BEFORE the fix for
   `for{with{break}}` is rejected, the fixed stream is accepted. *)
Definition before_fix : list instr :=
  [IStack 0 1; IPushLoop; IIterate 9; IStack 1 0; IPushWith; IJump 9; IPopFrame; IJump 2; IStack 0 0; IPopLoopFrame].
Definition after_fix : list instr :=
  [IStack 0 1; IPushLoop; IIterate 9; IStack 1 0; IPushWith; IPopFrame; IJump 9; IPopFrame; IJump 2; IPopLoopFrame].
Example break_in_with_refuted_before_fix : verdict before_fix [(0, shape0)] = Some 2.
Proof. vm_compute. reflexivity. Qed.
Example break_in_with_accepted_after_fix : verdict after_fix [(0, shape0)] = None.
Proof. vm_compute. reflexivity. Qed.

Print Assumptions check_ann_sound.
Print Assumptions verdict_sound.
