(* C06 -- Inheritance, super(), include and import compose templates as specified.
   Only statements here; proofs live in MJ.C06.Proofs.

   [render fixed_code None]  the model of the VM (C06/Model.v) for the code as it is after the four
                             fix commits of this property, recursion limit switched off;
   [srender]                 the specification (C06/Spec.v): chain of templates, first definition
                             along the chain, super() = next definition up the chain, include =
                             render in the current variables;
   [wf_env]                  the templates the specification speaks about: extends tags come first,
                             a template that has one consists of blocks, text and self.b() besides,
                             no block name twice in a template.  Block / macro / loop bodies,
                             includes, imports and the chain length are unrestricted. *)
From MJ Require Import Common.Base C06.Lang C06.Model C06.Spec C06.Proofs.

(* For every set of templates, every template rendered from it, every context and every amount of
   fuel the VM model computes exactly what the specification says: the same text, the same error
   kind, or both run out of fuel at the same point.  The inheritance chain is whatever following the
   extends tags gives (any length, literal / variable / conditional extends); every template may
   override any subset of the blocks, call super() anywhere, nest blocks and override the nested
   ones independently; blocks may include / import templates that have chains of their own. *)
Theorem inherit_correct : forall (E : env) (main : name) (ctx : frame) (fuel : nat),
  wf_env E = true ->
  render fixed_code None fuel E main ctx = srender fuel E main ctx.
Proof. exact inherit_correct_proof. Qed.

(* The recursion limit of the environment only adds errors: whenever the model WITH a limit answers
   anything but a recursion-limit error (those are marked, code >= 100), the model without limit
   answers the same.  Hence the comparison the check makes with the engine (limit 500) is a
   comparison with the function inherit_correct speaks about. *)
Theorem limit_only_adds_errors : forall Q L fuel E main ctx,
  flagged (render Q (Some L) fuel E main ctx) = false ->
  render Q None fuel E main ctx = render Q (Some L) fuel E main ctx.
Proof. exact limit_only_adds_errors_proof. Qed.

Theorem inherit_correct_with_limit : forall L (E : env) (main : name) (ctx : frame) (fuel : nat),
  wf_env E = true -> flagged (render fixed_code (Some L) fuel E main ctx) = false ->
  render fixed_code (Some L) fuel E main ctx = srender fuel E main ctx.
Proof.
  intros L E main ctx fuel Hwf Hf. rewrite <- (limit_only_adds_errors_proof _ _ _ _ _ _ Hf).
  apply inherit_correct_proof. exact Hwf.
Qed.

(* The block stack behind super(): when the cursor stands on the definition of block b given by
   the template at level lvl (entry k of the stack, k = number of definitions at lower levels),
   entry k+1 is the first definition at a level > lvl, it is again "at its level" (so the k-th
   nested super() reaches the k-th next definition), and there is no entry k+1 - "no parent
   block exists" - exactly when no higher level defines b. *)
Theorem super_n : forall (c : chain) (b : name) (lvl : nat) c1 top c2 (d : bdef),
  at_level c b lvl c1 top c2 d ->
  let k := length (defs_along c1 b) in
  nth_error (defs_along c b) k = Some d /\
  match first_def_from c b (S lvl) with
  | Some (lvl', d') =>
      nth_error (defs_along c b) (S k) = Some d' /\ (S k < length (defs_along c b))%nat /\
      exists c1' top' c2', at_level c b lvl' c1' top' c2' d' /\ length (defs_along c1' b) = S k
  | None => length (defs_along c b) = S k
  end.
Proof. exact super_next. Qed.

(* ... and the VM's block map is that stack: loading the chain template by template (prepare for
   the rendered template, append_defs for every template it extends) lists, under every block name,
   the definitions along the chain in chain order. *)
Theorem block_map_is_chain : forall (c : chain) (m : bmap) (ptop : list item),
  nodupZ (map fst (blocks_of ptop)) = true -> bm_ok m c ->
  bm_ok (append_defs (blocks_of ptop) m) (c ++ [ptop]).
Proof. intros c m ptop H1 H2. exact (bm_ok_append m c ptop H1 H2). Qed.

(* Extends cycles (t extends itself, a -> b -> a, any length): if every template of the
   environment extends an existing template, no render ever succeeds - whatever the fuel, so
   there is no truncated output reported as success - and with one unit of fuel per template the
   answer is the error, not "out of fuel". *)
Theorem cycles_are_errors : forall (E : env) (main : name) (top : list item) (ctx : frame),
  wf_env E = true -> closed_env E -> find_tmpl E main = Ok (Some top) ->
  (forall fuel o, render fixed_code None fuel E main ctx <> Ok o) /\
  (forall fuel, (length E < fuel)%nat -> render fixed_code None fuel E main ctx = Err E_InvalidOperation).
Proof. exact extends_cycle_proof. Qed.

(* Cycle detection does not depend on what the members of the chain do at their top level.
   (1) An include / import hands the block table and the record of extended templates back as they
       were; bodies (blocks, loops, macros) never change the record.
   (2) One lap: a template that starts with {% extends "p" %} and then does anything at all at its top
       level (includes, imports, from-imports, macros, loops, blocks) ends that top level with p stashed
       as parent and with exactly p added to the record - so the next lap through p's own extends tag
       sees it (missing_parent / the cycle test of load_blocks then apply as in cycles_are_errors).
   (3) If every template of the environment starts with an extends tag, no render ever succeeds -
       for every variant of the code, any recursion limit, any fuel, whatever the top levels contain. *)
Theorem include_keeps_record : forall Q lim E call cur es ign s s',
  perform_include Q lim E call cur es ign s = Ok s' -> loaded s' = loaded s /\ blocks s' = blocks s.
Proof. exact include_keeps_record_proof. Qed.

Theorem body_keeps_record : forall Q lim E f cur its s s',
  icall Q lim E f (TBody cur its) s = Ok s' -> loaded s' = loaded s.
Proof. exact body_keeps_record_proof. Qed.

Theorem lap_records_parent : forall Q lim E f cur p ptop rest s par' s',
  find_tmpl E p = Ok (Some ptop) -> memZ p (loaded s) = false ->
  ilist Q lim E (icall Q lim E f) true cur (IExtends (NLit p) :: rest) None s = Ok (par', s') ->
  par' = Some ptop /\ loaded s' = loaded s ++ [p].
Proof. exact lap_records_parent_proof. Qed.

Theorem cycles_never_succeed : forall Q lim E, all_extend E -> forall f cur top s p r,
  top = IExtends (NLit p) :: r -> forall s', icall Q lim E f (TTemplate cur top) s <> Ok s'.
Proof. exact cycle_never_ok_general_proof. Qed.

(* a cycle whose members include / import / from-import at their top level: the error, not a hang *)
Example cycle_with_top_level_include_witness :
  let E := [ (1, TGood [IExtends (NLit 2); IInclude [NLit 3] false; IImport (NLit 3) 40]);
             (2, TGood [IExtends (NLit 1); IFrom (NLit 3) [(41, 41)]; IInclude [NLit 9] true]);
             (3, TGood [IText 201; ISet 41 202]) ] in
  render fixed_code (Some 500) 50 E 1 [] = Err E_InvalidOperation /\ render fixed_code (Some 500) 50 E 2 [] = Err E_InvalidOperation.
Proof. vm_compute. split; reflexivity. Qed.

(* A second extends tag that is executed is an error - in every state, for every variant of the
   code, with or without a recursion limit. *)
Theorem double_extends_is_error : forall Q lim E f cur e1 e2 rest st,
  exists c, icall Q lim E (S f) (TTemplate cur (IExtends e1 :: IExtends e2 :: rest)) st = Err c.
Proof. exact double_extends_proof. Qed.

(* Extending a template that does not exist is TemplateNotFound. *)
Theorem missing_parent_is_error : forall Q lim E f cur p rest st,
  find_tmpl E p = Ok None -> memZ p (loaded st) = false ->
  icall Q lim E (S f) (TTemplate cur (IExtends (NLit p) :: rest)) st = Err E_TemplateNotFound.
Proof. exact missing_parent_proof. Qed.

(* A template that EXISTS but does not load (syntax error in its source, failing loader) is not
   "missing": an include whose list reaches it after missing names fails with its load error -
   no later choice is rendered, `ignore missing` does not apply - and so does extending it. *)
Theorem unloadable_is_not_missing : forall Q lim E call cur miss n rest ign st c,
  (forall m, In m miss -> find_tmpl E m = Ok None) -> find_tmpl E n = Err c ->
  perform_include Q lim E call cur (map NLit miss ++ NLit n :: rest) ign st = Err c.
Proof. exact unloadable_include_proof. Qed.

Theorem unloadable_parent_is_error : forall Q lim E f cur p rest st c,
  find_tmpl E p = Err c -> memZ p (loaded st) = false ->
  icall Q lim E (S f) (TTemplate cur (IExtends (NLit p) :: rest)) st = Err c.
Proof. exact unloadable_parent_proof. Qed.

(* Depth accounting is balanced.  Whatever a stream does - blocks (+5 while they run), super(),
   includes (+10 while the included template runs), macros, imports - when it returns normally the
   depth charged against the recursion limit is what it was before.  In particular an include gives
   back exactly what it charged on every path that continues the render: a candidate was found
   and rendered, no candidate exists and `ignore missing` is given, the list is empty (an error
   aborts the render).  Missed lookups therefore leave no trace: what fits under the recursion limit
   after n missed includes is what fits before them. *)
Theorem depth_balanced : forall Q lim E f t s s',
  icall Q lim E f t s = Ok s' -> outer s' = outer s.
Proof. exact depth_balanced_proof. Qed.

Theorem include_depth_balanced : forall Q lim E f cur es ign s s',
  perform_include Q lim E (icall Q lim E f) cur es ign s = Ok s' -> outer s' = outer s.
Proof.
  intros Q lim E f cur es ign s s' H.
  exact (perform_include_outer Q lim E _ (depth_balanced_proof Q lim E f) cur es ign s s' H).
Qed.

(* {% import lib as m %}: for a library of top-level text, set, set-block and macro statements,
   iterating m yields exactly the names the library defines at its top level, and m.x is the value
   the library assigned: the string of a set, the RENDERED TEXT of a set-block, the macro with the
   variables it encloses (exports_of reads all this off the library's text; exports_keys: a name is
   exported iff some top-level set / set-block / macro defines it). *)
Theorem import_exports_exact : forall E main n m top ctx fuel,
  wf_env E = true -> find_tmpl E main = Ok (Some [IImport (NLit n) m; IKeys m]) ->
  find_tmpl E n = Ok (Some top) -> forallb is_simple top = true ->
  render fixed_code None (S (S (S fuel))) E main ctx = Ok (key_tokens (exports_of ctx [[]] top)).
Proof. exact import_exports_exact_proof. Qed.

Theorem import_exports_values : forall E main n m x top ctx fuel,
  wf_env E = true -> find_tmpl E main = Ok (Some [IImport (NLit n) m; IPrintAttr m x]) ->
  find_tmpl E n = Ok (Some top) -> forallb is_simple top = true ->
  render fixed_code None (S (S (S fuel))) E main ctx = printed (assoc x (exports_of ctx [[]] top)).
Proof. exact import_exports_values_proof. Qed.

Theorem exports_keys : forall rt below top x,
  assoc x (exports_of rt below top) <> None <-> existsb (defines x) top = true.
Proof. exact exports_keys_proof. Qed.

(* ---- non-vacuity: concrete instances ---- *)
(* t1 extends t2 extends t3; block 20 overridden at every level with super() before / after,
   block 22 nested in t3's definition of 20 and overridden independently by t1; t3 includes t4,
   which has a chain of its own (extends t3's sibling t5) *)
Definition E_demo : env :=
  [ (1, TGood [IExtends (NLit 2); IText 900; IBlock 20 false [IText 201; ISuper]; IBlock 22 false [IText 203; ISuper]]);
    (2, TGood [ICondExtends 30 (NLit 3); IBlock 20 false [ISuper; IText 202]]);
    (3, TGood [IText 210; IBlock 20 false [IText 211; IBlock 22 false [IText 212]]; IText 213; IInclude [NLit 9; NLit 4] false; ISelf 22]);
    (4, TGood [IExtends (NVar 31); IBlock 20 false [IText 220; ISuper]]);
    (5, TGood [IText 230; IBlock 20 false [IText 231]]) ].
Definition ctx_demo : frame := [(30, VStr [1]); (31, VStr [5])].

Example inherit_correct_witness :
  wf_env E_demo = true /\
  render fixed_code None 20 E_demo 1 ctx_demo = Ok [210; 201; 211; 203; 212; 202; 213; 230; 220; 231; 203; 212] /\
  srender 20 E_demo 1 ctx_demo = Ok [210; 201; 211; 203; 212; 202; 213; 230; 220; 231; 203; 212].
Proof. vm_compute. repeat split. Qed.

Example super_n_witness :
  (* three definitions, each calling super(): the third call finds no parent *)
  render fixed_code None 20
    [ (1, TGood [IExtends (NLit 2); IBlock 20 false [IText 201; ISuper]]);
      (2, TGood [IExtends (NLit 3); IBlock 20 false [IText 202; ISuper]]);
      (3, TGood [IBlock 20 false [IText 203]]) ] 1 [] = Ok [201; 202; 203] /\
  render fixed_code None 20
    [ (1, TGood [IExtends (NLit 2); IBlock 20 false [IText 201; ISuper]]);
      (2, TGood [IExtends (NLit 3); IBlock 20 false [IText 202; ISuper]]);
      (3, TGood [IBlock 20 false [IText 203; ISuper]]) ] 1 [] = Err E_EvalBlock.
Proof. vm_compute. split; reflexivity. Qed.

Example cycles_are_errors_witness :
  let E := [ (1, TGood [IExtends (NLit 2); IText 201]); (2, TGood [IExtends (NLit 1)]) ] in
  wf_env E = true /\ render fixed_code None 3 E 1 [] = Err E_InvalidOperation /\ render fixed_code None 2 E 1 [] = OutOfGas.
Proof. vm_compute. repeat split. Qed.

(* from-import of a name defined by a set-BLOCK (also under a discarding output), the body of an
   imported module, a child's top-level set-block used in a block (model only), and an aliased
   from-import inside a macro that also reads the original name from its closure *)
Example captures_and_closures_witness :
  let E := [ (1, TGood [IFrom (NLit 2) [(40, 40); (41, 41)]; IPrint 40; IText 900; IPrint 41; IImport (NLit 2) 42; IPrint 42; IPrintAttr 42 40]);
             (2, TGood [IText 201; ISetBlock 40 [IText 202; IPrint 50; IText 203]; ISet 41 204]);
             (3, TGood [IExtends (NLit 4); ISetBlock 43 [IText 205; IPrint 50]; IBlock 20 false [IPrint 43]]);
             (4, TGood [IText 210; IBlock 20 false []; IText 211]);
             (5, TGood [ISet 41 206; IMacro 44 [IFrom (NLit 2) [(41, 45)]; IPrint 45; IText 900; IPrint 41]; ICall 44 0]) ] in
  render fixed_code None 20 E 1 [(50, VStr [300])] = Ok [202; 300; 203; 900; 204; 201; 202; 300; 203] /\
  render fixed_code None 20 E 3 [(50, VStr [300])] = Ok [210; 205; 300; 211] /\
  render fixed_code None 20 E 5 [] = Ok [204; 900; 206] /\
  srender 20 E 5 [] = Ok [204; 900; 206].
Proof. vm_compute. repeat split. Qed.

(* an empty definition in the middle of the chain is a definition: super() stops there *)
Example empty_definition_witness :
  render fixed_code None 20
    [ (1, TGood [IExtends (NLit 2); IBlock 20 false [IText 201; ISuper; IText 202]]);
      (2, TGood [IExtends (NLit 3); IBlock 20 false []]);
      (3, TGood [IText 210; IBlock 20 false [IText 203]; IText 211]) ] 1 [] = Ok [210; 201; 202; 211].
Proof. vm_compute. reflexivity. Qed.

(* template 3 exists but has a syntax error (error kind 4): the include fails with it although a later
   choice exists and although `ignore missing` is given *)
Example unloadable_is_not_missing_witness :
  let E := [ (1, TGood [IText 201; IInclude [NLit 9; NLit 3; NLit 2] true; IText 202]); (2, TGood [IText 203]); (3, TBad E_SyntaxError) ] in
  wf_env E = true /\ render fixed_code None 20 E 1 [] = Err E_SyntaxError /\ srender 20 E 1 [] = Err E_SyntaxError.
Proof. vm_compute. repeat split. Qed.

(* An include cycle ends in an error through the recursion limit (concrete instance only: the
   general statement needs the depth accounting of C11). *)
Example include_cycle_is_error_partial :
  render fixed_code (Some 500) 200 [ (1, TGood [IText 201; IInclude [NLit 2] false]); (2, TGood [IInclude [NLit 1] false]) ] 1 []
  = Err (100 + E_BadInclude).
Proof. vm_compute. reflexivity. Qed.

(* The code before the fix commits (Model.legacy_code) did NOT satisfy the specification: the four
   defects this property found, as the model saw them. *)
Example refuted_before_fix_super_in_included_template :          (* perform_include kept current_block *)
  render legacy_code None 20 [ (1, TGood [IBlock 20 false [IInclude [NLit 2] false]]); (2, TGood [ISuper]) ] 1 [] = Panic /\
  srender 20 [ (1, TGood [IBlock 20 false [IInclude [NLit 2] false]]); (2, TGood [ISuper]) ] 1 [] = Err E_BadInclude.
Proof. vm_compute. split; reflexivity. Qed.

Example refuted_before_fix_include_shares_loaded_templates :     (* "cycle" although there is none *)
  let E := [ (1, TGood [IExtends (NLit 2); IBlock 20 false [IInclude [NLit 3] false]]);
             (2, TGood [IText 201; IBlock 20 false []]);
             (3, TGood [IExtends (NLit 2); IBlock 20 false [IText 202]]) ] in
  render legacy_code None 20 E 1 [] = Err E_BadInclude /\ srender 20 E 1 [] = Ok [201; 201; 202].
Proof. vm_compute. split; reflexivity. Qed.

Example refuted_before_fix_self_block_under_super :               (* call_block used the super() cursor *)
  let E := [ (1, TGood [IExtends (NLit 2); IBlock 20 false [IText 201; ISuper]]);
             (2, TGood [IBlock 20 false [IText 202; IIf 30 [ISet 30 0; ISelf 20]]]) ] in
  render legacy_code None 20 E 1 [(30, VStr [1])] = Ok [201; 202; 202] /\
  srender 20 E 1 [(30, VStr [1])] = Ok [201; 202; 201; 202].
Proof. vm_compute. split; reflexivity. Qed.

Example refuted_before_fix_from_import_scope :                    (* from-import looked through all scopes *)
  let E := [ (1, TGood [ISet 31 201; IFrom (NLit 2) [(31, 32)]; IPrint 32]); (2, TGood [IText 202]) ] in
  render legacy_code None 20 E 1 [] = Ok [201] /\ srender 20 E 1 [] = Ok [].
Proof. vm_compute. split; reflexivity. Qed.

Print Assumptions inherit_correct.
Print Assumptions limit_only_adds_errors.
Print Assumptions inherit_correct_with_limit.
Print Assumptions super_n.
Print Assumptions block_map_is_chain.
Print Assumptions cycles_are_errors.
Print Assumptions include_keeps_record.
Print Assumptions body_keeps_record.
Print Assumptions lap_records_parent.
Print Assumptions cycles_never_succeed.
Print Assumptions double_extends_is_error.
Print Assumptions missing_parent_is_error.
Print Assumptions unloadable_is_not_missing.
Print Assumptions unloadable_parent_is_error.
Print Assumptions depth_balanced.
Print Assumptions include_depth_balanced.
Print Assumptions import_exports_exact.
Print Assumptions import_exports_values.
Print Assumptions exports_keys.
