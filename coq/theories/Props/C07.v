(* C07 -- statements only (placeholder while the check is being built) *)
From MJ Require Import Common.Base C07.Model C07.Spec C07.Proofs.
