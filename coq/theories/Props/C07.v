(* C07 -- Value order / equality / hash laws hold and the collection filters obey their algebra.
   Only statements here; proofs live in MJ.C07.{Float,Proofs,Filters,FilterProofs}.

   Domain: [wfn] values -- machine integers in the range of their representation, floats are
   64-bit patterns (every pattern, NaN included unless [nan_free] is asked for); this is all
   the order laws and the filter laws need, so they hold for both map implementations
   (Ord::cmp walks the pairs of a map in iteration order whatever the implementation).
   [wf] adds the BTreeMap invariant (strictly ascending keys) and is what the laws relating
   the order to == and to the hash need for the default build; [map_build_wf] shows that the
   maps the engine builds satisfy it.  No bound on sizes or nesting.
   [Known a b] (= cross_kind a b) describes the known-finding pair classes: a bool facing a
   number, or a list facing a lazy iterable, at the top or at corresponding positions of two
   containers. *)
From Coq Require Import Sorting.Permutation.
From MJ Require Import Common.Base C07.Model C07.Spec C07.Float C07.Proofs C07.MapProofs C07.Filters C07.FilterProofs.

(* ---------------------------------------------------------------------------------------- *)
(* the order                                                                                *)
(* ---------------------------------------------------------------------------------------- *)

(* Two numbers of any representation (i64 / u64 / i128 / u128 / f64, NaN included) compare
   exactly like their mathematical values: no rounding, saturation or wrap-around of the
   coercions leaks into the order. *)
Theorem number_order_exact : forall a b, is_number a = true -> is_number b = true ->
  wf a = true -> wf b = true -> scalar_cmp a b = (nkey a ?= nkey b).
Proof. exact num_cmp_key. Qed.

Theorem cmp_refl : forall a, wfn a = true -> vcmp a a = Eq.
Proof. exact vcmp_refl_n. Qed.

Theorem cmp_antisym : forall a b, wfn a = true -> wfn b = true -> vcmp b a = CompOpp (vcmp a b).
Proof. exact vcmp_anti_n. Qed.

Theorem cmp_trans : forall a b c, wfn a = true -> wfn b = true -> wfn c = true ->
  vcmp a b <> Gt -> vcmp b c <> Gt -> vcmp a c <> Gt.
Proof. exact vcmp_trans_n. Qed.

(* defined for every pair *)
Theorem cmp_total : forall a b, wfn a = true -> wfn b = true -> vcmp a b <> Gt \/ vcmp b a <> Gt.
Proof. exact vcmp_total_n. Qed.

(* Equal is a congruence: Equal values are interchangeable on either side of a comparison *)
Theorem cmp_eq_compat : forall a b c, wfn a = true -> wfn b = true -> wfn c = true ->
  vcmp a b = Eq -> vcmp a c = vcmp b c /\ vcmp c a = vcmp c b.
Proof.
  intros a b c Wa Wb Wc E. split.
  - destruct (vcmp_tbl_n a b c Wa Wb Wc) as (T1 & _). auto.
  - destruct (vcmp_tbl_n c a b Wc Wa Wb) as (_ & T2 & _). auto.
Qed.

(* the full invariant of the default build implies the numeric one *)
Theorem wf_implies_wfn : forall v, wf v = true -> wfn v = true.
Proof. exact wf_wfn. Qed.

(* vm: Instruction::BuildMap -- a map literal built from well-formed keys and values is a
   well-formed map (the BTreeMap invariant holds by construction) *)
Theorem map_build_wf : forall pairs,
  Forall (fun kv => wf (fst kv) = true /\ wf (snd kv) = true) pairs -> wf (VMap (map_build pairs)) = true.
Proof. exact map_build_wf_proof. Qed.

(* ---------------------------------------------------------------------------------------- *)
(* the order agrees with ==, equal values hash identically                                  *)
(* ---------------------------------------------------------------------------------------- *)
Theorem cmp_eq_iff_veq : forall a b, wf a = true -> wf b = true -> nan_free a = true -> ~ Known a b ->
  (vcmp a b = Eq <-> veq a b = true).
Proof.
  intros a b Wa Wb NF NK. split.
  - apply cmp_eq_veq; auto.
  - intros E. apply veq_cmp_eq; auto. unfold Known in NK. destruct (cross_kind a b); congruence.
Qed.

(* the direction that needs no exclusion: values that compare Equal are == (NaN aside) *)
Theorem cmp_eq_implies_veq : forall a b, wf a = true -> wf b = true -> nan_free a = true ->
  vcmp a b = Eq -> veq a b = true.
Proof. intros. apply cmp_eq_veq; auto. Qed.

(* [vhash] is the byte stream fed to the hasher, so this holds for every deterministic hasher *)
Theorem veq_hash : forall a b, wf a = true -> wf b = true -> nan_free a = true -> ~ Known a b ->
  veq a b = true -> vhash a = vhash b.
Proof.
  intros a b Wa Wb NF NK E. apply veq_hash_eq; auto. unfold Known in NK. destruct (cross_kind a b); congruence.
Qed.

Theorem veq_sym : forall a b, wf a = true -> wf b = true -> nan_free b = true -> ~ Known a b ->
  veq a b = true -> veq b a = true.
Proof.
  intros a b Wa Wb NF NK E. apply veq_sym_proof; auto. unfold Known in NK. destruct (cross_kind a b); congruence.
Qed.

(* the known findings: the laws above are false on the excluded pair classes *)
Example bool_number_refuted :
  veq (VBool true) (VInt W_I64 1) = true /\ vcmp (VBool true) (VInt W_I64 1) = Lt /\
  hash_eq (VBool true) (VInt W_I64 1) = false /\
  veq (VBool true) (VFloat (f_of_int 1)) = true /\ vcmp (VBool true) (VFloat (f_of_int 1)) = Lt /\
  veq (VSeq [VBool false]) (VSeq [VInt W_U64 0]) = true /\ vcmp (VSeq [VBool false]) (VSeq [VInt W_U64 0]) = Lt /\
  Known (VBool true) (VInt W_I64 1) /\ Known (VSeq [VBool false]) (VSeq [VInt W_U64 0]).
Proof. vm_compute. repeat split. Qed.

Example seq_iterable_refuted :
  veq (VSeq [VInt W_I64 1]) (VIter LzSized [VInt W_I64 1]) = true /\
  vcmp (VSeq [VInt W_I64 1]) (VIter LzSized [VInt W_I64 1]) = Lt /\
  hash_eq (VSeq [VInt W_I64 1]) (VIter LzSized [VInt W_I64 1]) = true /\
  Known (VSeq [VInt W_I64 1]) (VIter LzSized [VInt W_I64 1]).
Proof. vm_compute. repeat split. Qed.

(* ---------------------------------------------------------------------------------------- *)
(* containment agrees with equality                                                         *)
(* ---------------------------------------------------------------------------------------- *)
(* `v in c` for a list, tuple or lazy iterable (either map implementation): some element of c
   is == v *)
Theorem in_iff_exists_eq : forall o c v xs, (c = VSeq xs \/ c = VTuple xs \/ exists sh, c = VIter sh xs) ->
  exists b, contains_o o c v = Ok b /\ (b = true <-> exists e, In e xs /\ veq_o o e v = true).
Proof. exact contains_seq. Qed.

(* `v in m` for a map (default build): some key of m is == v, and exactly when m[v] is
   defined -- outside the known pair classes, NaN aside *)
Theorem in_map_iff_exists_eq_key : forall kvs v, wf (VMap kvs) = true -> wf v = true -> nan_free v = true ->
  (forall kv, In kv kvs -> ~ Known v (fst kv)) ->
  exists b, contains_o Sorted (VMap kvs) v = Ok b /\
            (b = true <-> exists kv, In kv kvs /\ veq v (fst kv) = true) /\
            (b = true <-> exists x, map_get v kvs = Some x).
Proof.
  intros kvs v W Wv NF NK. apply contains_map; auto.
  intros kv H. specialize (NK kv H). unfold Known in NK. destruct (cross_kind v (fst kv)); congruence.
Qed.

(* `t in s` for two strings: t is a substring of s *)
Theorem in_string_iff_substring : forall o f s g t,
  contains_o o (VStr f s) (VStr g t) = Ok (is_infix t s) /\
  (is_infix t s = true <-> exists pre post, s = pre ++ t ++ post).
Proof. exact contains_strings. Qed.

(* a bytes needle that spells a string key is not that key; known finding: true vs 1 *)
Example containment_examples :
  contains_o Sorted (VMap [(VStr false [97; 98; 99], VInt W_I64 1)]) (VBytes [97; 98; 99]) = Ok false /\
  contains_o Sorted (VMap [(VStr false [97; 98; 99], VInt W_I64 1)]) (VStr true [97; 98; 99]) = Ok true /\
  contains_o Sorted (VSeq [VStr false [97; 98; 99]]) (VBytes [97; 98; 99]) = Ok false /\
  contains_o Sorted (VMap [(VInt W_I64 1, VNone)]) (VBool true) = Ok false /\
  contains_o Sorted (VSeq [VInt W_I64 1]) (VBool true) = Ok true /\
  contains_o Insertion (VMap [(VInt W_I64 1, VNone)]) (VBool true) = Ok true.
Proof. vm_compute. repeat split. Qed.

(* comparison chains (`a not in b != c`, `a < c in b`): `not in` is the negation of `in`, and a
   chain holds exactly when each of its links holds.  The check requires these answers from
   the engine both with the operands as variables and spelled as literals (constant folding). *)
Theorem not_in_negates_in : forall o l r,
  cmp_link o ONotIn l r = bind (cmp_link o OIn l r) (fun b => Ok (negb b)).
Proof. exact not_in_negates_in_proof. Qed.

Theorem chain_is_conjunction : forall o a op1 b op2 c,
  chain o a [(op1, b); (op2, c)] = Ok true <-> cmp_link o op1 a b = Ok true /\ cmp_link o op2 b c = Ok true.
Proof. exact chain_two_proof. Qed.

(* ---------------------------------------------------------------------------------------- *)
(* feature `preserve_order`: IndexMap-backed maps                                           *)
(* ---------------------------------------------------------------------------------------- *)
(* [veq_i] is == with IndexMap lookups (hash, then ==; == alone for a single entry); cmp and
   the hash are the same functions as above.  The order laws above already cover this build.
   The agreement of the order with == and the hash law are PARTIAL here: proved for values
   that contain no map (there == does not depend on the map implementation).  Missing: values
   with maps inside -- maps whose keys line up in iteration order are expected to satisfy the
   laws (the correspondence run finds no counterexample), maps with the same content in
   another insertion order refute them (known finding map-insertion-order, example below). *)
Theorem cmp_eq_iff_veq_indexmap_partial : forall a b, map_free a = true ->
  wf a = true -> wf b = true -> nan_free a = true -> ~ Known a b ->
  (vcmp a b = Eq <-> veq_o Insertion a b = true).
Proof.
  intros a b MF Wa Wb NF NK. cbn [veq_o]. rewrite (veq_i_map_free a b MF). split.
  - apply cmp_eq_veq; auto.
  - intros E. apply veq_cmp_eq; auto. unfold Known in NK. destruct (cross_kind a b); congruence.
Qed.

Theorem veq_hash_indexmap_partial : forall a b, map_free a = true ->
  wf a = true -> wf b = true -> nan_free a = true -> ~ Known a b ->
  veq_o Insertion a b = true -> vhash a = vhash b.
Proof.
  intros a b MF Wa Wb NF NK. cbn [veq_o]. rewrite (veq_i_map_free a b MF). intros E.
  apply veq_hash_eq; auto. unfold Known in NK. destruct (cross_kind a b); congruence.
Qed.

Example map_insertion_order_refuted :
  let m1 := VMap (map_build_o Insertion [(VStr false [97], VInt W_I64 1); (VStr false [98], VInt W_I64 2)]) in
  let m2 := VMap (map_build_o Insertion [(VStr false [98], VInt W_I64 2); (VStr false [97], VInt W_I64 1)]) in
  veq_o Insertion m1 m2 = true /\ vcmp m1 m2 = Lt /\ hash_eq m1 m2 = false /\
  cross_kind m1 m2 = false /\ reordered m1 m2 = true /\ Known_o Insertion m1 m2 /\
  (* the same two literals under the default build are one and the same map *)
  VMap (map_build_o Sorted [(VStr false [98], VInt W_I64 2); (VStr false [97], VInt W_I64 1)]) =
  VMap (map_build_o Sorted [(VStr false [97], VInt W_I64 1); (VStr false [98], VInt W_I64 2)]) /\
  (* a single-entry IndexMap is searched with == alone: {1: x}[true] is defined there *)
  map_get_o Insertion (VBool true) [(VInt W_I64 1, VNone)] = Some VNone /\
  map_get_o Sorted (VBool true) [(VInt W_I64 1, VNone)] = None.
Proof. vm_compute. repeat split; auto. Qed.

(* ---------------------------------------------------------------------------------------- *)
(* the filters                                                                              *)
(* ---------------------------------------------------------------------------------------- *)

(* sort: a stable ordered permutation of the items, for every keyword option.  [sort_cmp] is
   the comparison the filter sorts by (key extraction, case folding, reversal). *)
Theorem sort_sorted_perm_stable : forall cs rev attr v items, wfn v = true -> iter_items v = Ok items ->
  exists out, f_sort cs rev attr v = Ok (VSeq out) /\ SortedStablePerm (sort_cmp cs rev attr) items out.
Proof. exact sort_law_values. Qed.

(* reverse=true compares the other way round: "ordered" above then reads descending, and the
   output is still stable (equal keys keep their input order) by the same theorem *)
Theorem sort_reverse_descending : forall cs attr a b,
  sort_cmp cs true attr a b = CompOpp (sort_cmp cs false attr a b).
Proof. exact sort_cmp_reverse. Qed.

(* unique: an order-preserving subsequence without two Equal keys in which every key of the
   input is still represented *)
Theorem unique_subseq_nodup : forall cs attr v items, wfn v = true -> iter_items v = Ok items ->
  exists out, f_unique cs attr v = Ok (VSeq out) /\ UniqueLaw vcmp (unique_key cs attr) items out.
Proof. exact unique_law_values. Qed.

(* groupby: a partition by key -- the groups concatenate to the input stably sorted by key,
   every group is non-empty with all keys Equal to its label, labels strictly ascend *)
Theorem groupby_partition : forall cs key dflt v items, wfn v = true -> wfn dflt = true -> iter_items v = Ok items ->
  exists groups, f_groupby cs key dflt v = Ok (VSeq (map (fun g => VSeq [fst g; VIter LzUnsized (snd g)]) groups)) /\
                 GroupLaw (cmp_helper cs false) (get_path_or_default key dflt) items groups.
Proof. exact groupby_law_values. Qed.

(* known finding (pinned by the repository's snapshot): the label is the key of the group's
   LAST item; the documentation promises the first item's *)
Example groupby_label_refuted :
  f_groupby false [97] VUndef
    (VSeq [VMap [(VStr false [97], VStr false [67; 65])]; VMap [(VStr false [97], VStr false [99; 97])]])
  = Ok (VSeq [VSeq [VStr false [99; 97];
                    VIter LzUnsized [VMap [(VStr false [97], VStr false [67; 65])]; VMap [(VStr false [97], VStr false [99; 97])]]]]).
Proof. vm_compute. reflexivity. Qed.

(* batch: runs of [count] items whose concatenation is the input (the last run may be
   shorter, or is padded to [count] with the fill value); count 0 is rejected, and so is a
   padding of more than 100000 fill items *)
Theorem batch_concat : forall count fill v items, iter_items v = Ok items ->
  (count = 0 -> f_batch count fill v = Err E_InvalidOperation) /\
  (0 < count ->
     (exists runs, f_batch count fill v = Ok (VSeq (map VSeq runs)) /\ BatchLaw count fill items runs) \/
     (f_batch count fill v = Err E_InvalidOperation /\ fill <> None /\ 100000 < batch_missing count items)).
Proof. exact batch_law_values. Qed.

(* slice: exactly [count] runs whose lengths differ by at most 1 (longer ones first), the
   chunks concatenate to the input, a fill value extends exactly the short runs; count 0 and
   more than 100000 slices are rejected *)
Theorem slice_concat_balanced : forall count fill v items, iter_items v = Ok items ->
  (count = 0 \/ 100000 < count -> f_slice count fill v = Err E_InvalidOperation) /\
  (0 < count <= 100000 -> exists runs, f_slice count fill v = Ok (VSeq (map VSeq runs)) /\ SliceLaw count fill items runs).
Proof. exact slice_law_values. Qed.

(* reverse: the items in reverse order, and an involution on the items -- for lists, tuples,
   lazy iterables (sized or not), maps (their keys), strings, bytes, none, undefined *)
Theorem reverse_involutive : forall v r, ~ KnownRev v -> f_reverse v = Ok r ->
  match rev_items v with
  | Some xs => r = VIter LzSized (rev xs) /\ f_reverse r = Ok (VIter LzSized xs)
  | None => f_reverse r = Ok v
  end.
Proof. exact reverse_involutive_values. Qed.

(* known finding (pinned by tests/test_value.rs::test_reverse): objects enumerated by
   Enumerator::RevIter come out in forward order *)
Example reverse_reviter_refuted :
  f_reverse (VIter LzRev [VInt W_I64 1; VInt W_I64 2]) = Ok (VIter LzSized [VInt W_I64 1; VInt W_I64 2]) /\
  f_last (VIter LzRev [VInt W_I64 1; VInt W_I64 2]) = Ok (VInt W_I64 1) /\
  KnownRev (VIter LzRev [VInt W_I64 1; VInt W_I64 2]).
Proof. vm_compute. repeat split. Qed.

(* min / max: members that bound all others; undefined for an empty input *)
Theorem min_max_bound : forall v items, wfn v = true -> iter_items v = Ok items ->
  exists mn mx, f_min v = Ok mn /\ f_max v = Ok mx /\
    (items = [] -> mn = VUndef /\ mx = VUndef) /\
    (items <> [] -> IsMin vcmp items mn /\ IsMax vcmp items mx).
Proof. exact min_max_values. Qed.

(* dictsort: the pairs of the map, stably sorted by key or by value (case folding and
   reversal as for sort); anything that is not a map is rejected *)
Theorem dictsort_sorted_perm_stable : forall by_value cs rev v,
  match v with
  | VMap kvs => wfn v = true ->
      exists out, f_dictsort by_value cs rev v = Ok (VSeq (map pair_value out)) /\
                  SortedStablePerm (dictsort_cmp by_value cs rev) kvs out
  | _ => f_dictsort by_value cs rev v = Err E_InvalidOperation
  end.
Proof. exact dictsort_law_values. Qed.

(* items: the (key, value) pairs in iteration order -- what dictsort sorts *)
Theorem items_pairs : forall v,
  match v with
  | VMap kvs => f_items v = Ok (VIter LzSized (map pair_value kvs))
  | _ => f_items v = Err E_InvalidOperation
  end.
Proof. exact items_values. Qed.

(* select / reject: an order-preserving partition into the items that are true and the rest *)
Theorem select_reject_partition : forall v items, iter_items v = Ok items ->
  exists sel rej, f_select false v = Ok (VSeq sel) /\ f_select true v = Ok (VSeq rej) /\
    Subseq sel items /\ Subseq rej items /\
    Forall (fun x => is_true x = true) sel /\ Forall (fun x => is_true x = false) rej /\
    Permutation items (sel ++ rej).
Proof. exact select_reject_values. Qed.

(* map(attribute=..): pointwise; fails exactly for an undefined item without a default *)
Theorem map_attribute_pointwise : forall key dflt v items, iter_items v = Ok items ->
  (f_map_attr key dflt v = Ok (VSeq (map (get_path_or_default key dflt) items))) \/
  (f_map_attr key dflt v = Err E_UndefinedError /\ dflt = VUndef /\ In VUndef items).
Proof. exact map_attr_values. Qed.

(* sum of (fewer than 2^62) i64 integers: the exact mathematical sum, so it is additive over
   concatenation and does not depend on the order of the items *)
Theorem sum_exact : forall v items, iter_items v = Ok items -> Forall is_i64_int items -> lenZ items < 2 ^ 62 ->
  f_sum v = Ok (VInt W_I128 (zsum items)).
Proof. exact sum_exact_values. Qed.

Theorem sum_additive_order_independent : forall a b,
  zsum (a ++ b) = zsum a + zsum b /\ (Permutation a b -> zsum a = zsum b).
Proof. intros a b. split; [apply zsum_app|apply zsum_perm]. Qed.

(* join (no auto-escaping; strings and integers): the renderings with the joiner in between;
   joining a concatenation is joining the halves with one more joiner *)
Theorem join_intercalate : forall d v items parts, iter_items v = Ok items -> rendered items = Some parts ->
  f_join d v = Ok (VStr false (intercalate d parts)).
Proof. exact join_values. Qed.

Theorem join_append : forall d a b, a <> [] -> b <> [] ->
  intercalate d (a ++ b) = intercalate d a ++ d ++ intercalate d b.
Proof. exact intercalate_app. Qed.

(* none of the filters panics, whatever the input and the options *)
Theorem filters_never_panic :
  (forall cs rev attr v, safe (f_sort cs rev attr v)) /\
  (forall cs attr v, safe (f_unique cs attr v)) /\
  (forall cs key d v, safe (f_groupby cs key d v)) /\
  (forall count fill v, safe (f_batch count fill v)) /\
  (forall count fill v, safe (f_slice count fill v)) /\
  (forall v, safe (f_reverse v)) /\
  (forall v, safe (f_min v)) /\
  (forall v, safe (f_max v)) /\
  (forall v, safe (f_last v)).
Proof. exact filters_no_panic. Qed.

Theorem more_filters_never_panic :
  (forall by_value cs rev v, safe (f_dictsort by_value cs rev v)) /\
  (forall v, safe (f_items v)) /\
  (forall key d v, safe (f_map_attr key d v)) /\
  (forall inv v, safe (f_select inv v)).
Proof. exact more_filters_no_panic. Qed.

(* invalid values (errors carried as values) are ordered -- after everything else, Equal
   among themselves -- but, like NaN, not == to themselves; [nan_free] excludes them *)
Example invalid_values :
  vcmp (VInvalid [97]) (VInvalid [98]) = Eq /\ vcmp (VPlain [97]) (VInvalid [97]) = Lt /\
  veq (VInvalid [97]) (VInvalid [97]) = false /\ nan_free (VSeq [VInvalid [97]]) = false /\
  wfn (VSeq [VInvalid [97]]) = true.
Proof. vm_compute. repeat split. Qed.

(* non-vacuity: the hypotheses are met by non-trivial values, and the interesting
   comparisons come out as the theorems say *)
Example c07_witness :
  let m1 := VMap (map_build [(VStr false [98], VInt W_I64 2); (VStr false [97], VFloat (f_of_int 1))]) in
  let m2 := VMap (map_build [(VStr true [97], VInt W_U128 1); (VStr false [98], VInt W_I128 2)]) in
  wf m1 = true /\ wf m2 = true /\ nan_free m1 = true /\ cross_kind m1 m2 = false /\
  veq m1 m2 = true /\ vcmp m1 m2 = Eq /\ hash_eq m1 m2 = true /\
  (* 2^63 - 1 < 2^63 (as float) = 2^63 (as u64): exact across representations *)
  vcmp (VInt W_I64 i64_max) (VFloat (f_of_int (2 ^ 63))) = Lt /\
  vcmp (VFloat (f_of_int (2 ^ 63))) (VInt W_U64 (2 ^ 63)) = Eq /\
  hash_eq (VFloat (f_of_int (2 ^ 63))) (VInt W_U64 (2 ^ 63)) = true /\
  (* 2^53 + 1 is not a float: strictly between its neighbours *)
  vcmp (VFloat (f_of_int (2 ^ 53))) (VInt W_I64 (2 ^ 53 + 1)) = Lt /\
  vcmp (VInt W_I64 (2 ^ 53 + 1)) (VFloat (f_of_int (2 ^ 53 + 2))) = Lt /\
  f_sort false true None (VSeq [VInt W_I64 1; VStr false [98]; VFloat (f_of_int 1); VStr false [65]; VStr false [97]])
    = Ok (VSeq [VStr false [98]; VStr false [65]; VStr false [97]; VInt W_I64 1; VFloat (f_of_int 1)]) /\
  f_slice 3 (Some VNone) (VSeq [VInt W_I64 1; VInt W_I64 2; VInt W_I64 3; VInt W_I64 4])
    = Ok (VSeq [VSeq [VInt W_I64 1; VInt W_I64 2]; VSeq [VInt W_I64 3; VNone]; VSeq [VInt W_I64 4; VNone]]).
Proof. vm_compute. repeat split. Qed.

Print Assumptions number_order_exact.
Print Assumptions cmp_refl.
Print Assumptions cmp_antisym.
Print Assumptions cmp_trans.
Print Assumptions cmp_total.
Print Assumptions cmp_eq_compat.
Print Assumptions wf_implies_wfn.
Print Assumptions map_build_wf.
Print Assumptions in_iff_exists_eq.
Print Assumptions in_map_iff_exists_eq_key.
Print Assumptions in_string_iff_substring.
Print Assumptions not_in_negates_in.
Print Assumptions chain_is_conjunction.
Print Assumptions cmp_eq_iff_veq_indexmap_partial.
Print Assumptions veq_hash_indexmap_partial.
Print Assumptions cmp_eq_iff_veq.
Print Assumptions cmp_eq_implies_veq.
Print Assumptions veq_hash.
Print Assumptions veq_sym.
Print Assumptions sort_sorted_perm_stable.
Print Assumptions sort_reverse_descending.
Print Assumptions unique_subseq_nodup.
Print Assumptions groupby_partition.
Print Assumptions batch_concat.
Print Assumptions slice_concat_balanced.
Print Assumptions reverse_involutive.
Print Assumptions min_max_bound.
Print Assumptions dictsort_sorted_perm_stable.
Print Assumptions items_pairs.
Print Assumptions select_reject_partition.
Print Assumptions map_attribute_pointwise.
Print Assumptions sum_exact.
Print Assumptions sum_additive_order_independent.
Print Assumptions join_intercalate.
Print Assumptions join_append.
Print Assumptions filters_never_panic.
Print Assumptions more_filters_never_panic.
