(* C08 -- Numeric operators are exact or fail; they never wrap or lose the sign.
   Only statements here; proofs live in MJ.C08.Proofs and MJ.C08.FloatProofs.

   A case is `a OP b` (or `-a`, or a comparison) with each operand given in one of the forms
   the harness builds: a literal in the template text, or an i64 / u64 / i128 / u128 value.
   [in_range f z]: z lies in [-2^127, 2^128) and the form f can hold it.
   Every integer statement has the shape  forall x, ~ Known x -> ...  where Known is the decidable
   description ([Spec.known], instantiated as [known_bin] / [known_un] / [known_operand]) of
   exactly the inputs of the one listed known finding neg-2p127: the unary minus of 2^127, written
   as `-x` or as the literal -170141183460469231731687303715884105728 used as an operand (its sign
   is lost; the behaviour is pinned by tests/snapshots/test_templates__vm@literals.txt.snap).
   [known_characterised] shows that Known holds of nothing else.
   Of the float leg the integer/float comparison (int_float_cmp_exact, pure integer reasoning, no
   axioms) and the Euclidean convention of float % and // (euclid_float_remainder,
   euclid_float_quotient, euclid_float_convention; Flocq binary64 and Coq's Reals with their
   classical axioms) are proved here. *)
From MJ Require Import Common.Base C08.Model C08.Spec C08.Proofs.
From Coq Require Import Reals.
From Flocq Require Import Core BinarySingleNaN.
From MJ Require Import C08.FloatModel C08.FloatSpec C08.FloatProofs.
Local Open Scope Z_scope.

(* Known = exactly the listed inputs *)
Theorem known_characterised : forall unary fa a fb b,
  known unary (is_lit fa) a (is_lit fb) b = true <->
    (fa = FLit /\ a = - 2 ^ 127) \/ (unary = false /\ fb = FLit /\ b = - 2 ^ 127) \/ (unary = true /\ a = 2 ^ 127).
Proof. exact known_characterised_proof. Qed.

(* + - * // % **: never a crash; an integer answer is the exact result of unbounded
   arithmetic (Euclidean // and %), in a representation that holds it; an error only if an
   operand or the exact result is outside the 128-bit signed range (or there is no integer
   result at all: zero divisor, negative exponent). *)
Theorem int_op_exact_or_error : forall op fa a fb b,
  in_range fa a -> in_range fb b -> known_bin fa a fb b = false ->
  match model_case (Bin op) fa a fb b with
  | Ok v => exact op a b = Some (num_val v) /\ num_ok v = true
  | Err _ => ~ (small a = true /\ small b = true /\ exists r, exact op a b = Some r /\ small r = true)
  | Panic | OutOfGas => False
  end.
Proof. exact exact_or_error_proof. Qed.

(* the outcome (value, result representation, error) depends on the numbers only: not on the
   form or internal width an operand comes in *)
Theorem width_independent : forall op fa fa' a fb fb' b,
  in_range fa a -> in_range fa' a -> in_range fb b -> in_range fb' b ->
  known_bin fa a fb b = false -> known_bin fa' a fb' b = false ->
  model_case (Bin op) fa a fb b = model_case (Bin op) fa' a fb' b.
Proof. exact width_independent_proof. Qed.

(* unary minus: exact or an error, exact whenever a and -a are in the signed range *)
Theorem neg_exact : forall fa a fb b,
  in_range fa a -> known_un fa a = false ->
  match model_case Neg fa a fb b with
  | Ok v => num_val v = exact_neg a /\ num_ok v = true
  | Err _ => ~ (small a = true /\ small (exact_neg a) = true)
  | Panic | OutOfGas => False
  end.
Proof. exact neg_exact_proof. Qed.

(* also for a = 2^127: every form able to hold it shows the same (listed) behaviour *)
Theorem neg_width_independent : forall fa fa' a fb fb' b b',
  in_range fa a -> in_range fa' a ->
  known_operand (is_lit fa) a = false -> known_operand (is_lit fa') a = false ->
  model_case Neg fa a fb b = model_case Neg fa' a fb' b'.
Proof. exact neg_width_independent_proof. Qed.

(* // and % agree with each other and with the documented convention *)
Theorem euclid_int : forall fa a fb b q r,
  in_range fa a -> in_range fb b -> known_bin fa a fb b = false ->
  model_case (Bin FloorDiv) fa a fb b = Ok q -> model_case (Bin Rem) fa a fb b = Ok r ->
  b <> 0 /\ num_val q * b + num_val r = a /\ 0 <= num_val r < Z.abs b.
Proof. exact euclid_int_proof. Qed.

(* the law determines quotient and remainder: the specification's ediv/emod are the only choice *)
Theorem euclid_law_characterises_spec : forall a b q r,
  b <> 0 -> (q * b + r = a /\ 0 <= r < Z.abs b <-> q = ediv a b /\ r = emod a b).
Proof.
  intros a b q r Hb. split.
  - intros [H1 H2]. exact (euclid_unique a b q r H1 H2).
  - intros [-> ->]. exact (euclid_law a b Hb).
Qed.

(* the remainder by a non-zero divisor never fails on 128-bit signed operands (MIN % -1 included) *)
Theorem rem_total : forall fa a fb b,
  in_range fa a -> in_range fb b -> known_bin fa a fb b = false ->
  small a = true -> small b = true -> b <> 0 ->
  exists v, model_case (Bin Rem) fa a fb b = Ok v /\ num_val v = emod a b.
Proof. exact rem_total_proof. Qed.

(* an integer literal denotes the number its digits spell (any radix the lexer knows), stored
   as u64 if it fits, else as u128, and is rejected from 2^128 on *)
Theorem literal_value : forall radix ds,
  2 <= radix -> Forall (fun d => 0 <= d < radix) ds ->
  lex_int radix ds = lit (digits_value radix 0 ds).
Proof. exact lex_int_spec. Qed.

(* ... and so does its source text: for every radix prefix the lexer knows (none, 0b/0B, 0o/0O, 0x/0X),
   digits of that radix in either case, `_` separators anywhere but at the end, leading zeros and
   any width, the model of lexer.rs::eat_number yields the literal of the number the digits spell in
   that radix (an error from 2^128 on, by [lit]) *)
Theorem literal_text_value : forall radix p body,
  radix_prefix radix p -> Forall (valid_char radix) body -> last body 0 <> 95 -> strip_ body <> [] ->
  lex_number_text (p ++ body) = Some (lit (digits_value radix 0 (map digit_val (strip_ body)))).
Proof. exact lex_number_text_value. Qed.

(* integer/integer comparison is exact for every pair of forms *)
Theorem int_cmp_exact : forall fa a fb b,
  in_range fa a -> in_range fb b -> known_bin fa a fb b = false ->
  model_compare fa a fb b = Ok (exact_cmp a b).
Proof. exact int_cmp_exact_proof. Qed.

(* integer/float comparison (<, ==, > in both orders) is exact for every finite float and every
   integer form: the model of Ord::cmp / PartialEq::eq with as_f64 (lossless), cmp_f64_i128,
   cmp_f64_u128 equals the comparison of the integer with the rational the float denotes.
   Proved by integer reasoning about round-to-nearest-even ([rne_int] models `x as f64`); the
   float's own decoding and the hardware comparison of two floats are modelled, not verified. *)
Theorem int_float_cmp_exact : forall swap bits fi z m e,
  in_range fi z -> known_operand (is_lit fi) z = false -> decode bits = FFin m e ->
  model_compare_float as_f64_exact swap bits fi z = Some (Ok (swap_cmp swap (exact_cmp_rat m e z))).
Proof. exact int_float_cmp_exact_proof. Qed.

(* ---- float % and //: the Euclidean convention on exact real numbers ----
   a, b range over all binary64 values ([b64], Flocq's BinarySingleNaN at precision 53, emax 1024),
   a finite, b finite and non-zero; A, B are the real numbers they denote.  [Rmod_e A B] and
   [Zdiv_e A B] are the Euclidean remainder and (integer) quotient on the reals (FloatSpec).
   [Brem_euclid] models f64::rem_euclid, [Bdiv_euclid] ops.rs::float_div_euclid, both built from
   Flocq's correctly rounded operations and an exact fmod ([Bfmod], proved exact).

   % : what is exact - the fmod, hence the whole result whenever the dividend is non-negative (or the
       truncated remainder is); what is rounded - one addition r + |b| for a negative truncated
       remainder.  So a % b is the round-to-nearest-even of the exact Euclidean remainder R, and
       0 <= a % b <= |b| (|b| itself only when R rounds up to it). *)
Theorem euclid_float_remainder : forall a b : b64,
  is_finite a = true -> is_finite_strict b = true ->
  let A := B2R a in let B := B2R b in
  (A = IZR (Zdiv_e A B) * B + Rmod_e A B /\ 0 <= Rmod_e A B < Rabs B)%R /\
  B2R (Brem_euclid a b) = round radix2 (FLT_exp (-1074) 53) ZnearestE (Rmod_e A B) /\
  is_finite (Brem_euclid a b) = true /\
  ((0 <= A)%R -> B2R (Brem_euclid a b) = Rmod_e A B) /\
  (0 <= B2R (Brem_euclid a b) <= Rabs B)%R.
Proof. exact euclid_float_remainder_proof. Qed.

(* // : the subtraction a - r, the division by b and round() can each round (the final -/+ 1.0 too,
   for huge quotients).  Whenever the exact Euclidean quotient Q is below 2^51 - 1 in magnitude the
   combined error is below 1/2, round() removes it and a // b IS Q (and is finite).  For larger Q
   (consecutive doubles are 1/2 or more apart there) a // b is within 2^-50 |Q| of Q whenever it
   is finite; it is infinite only when a rounded intermediate overflows binary64. *)
Theorem euclid_float_quotient : forall a b : b64,
  is_finite a = true -> is_finite_strict b = true ->
  let A := B2R a in let B := B2R b in let Q := Zdiv_e A B in
  ((Z.abs Q < 2 ^ 51 - 1)%Z -> B2R (Bdiv_euclid a b) = IZR Q /\ is_finite (Bdiv_euclid a b) = true) /\
  (is_finite (Bdiv_euclid a b) = true ->
     (Rabs (B2R (Bdiv_euclid a b) - IZR Q) <= / 2 ^ 50 * Rabs (IZR Q))%R).
Proof. exact euclid_float_quotient_proof. Qed.

(* // and % agree with each other and with the documented convention: there are an integer Q and a
   real R with a = Q * b + R exactly and 0 <= R < |b|, such that a % b is the correct rounding of R
   (R itself whenever a >= 0) and a // b is Q (exactly below 2^51 - 1, within 2^-50 |Q| beyond). *)
Theorem euclid_float_convention : forall a b : b64,
  is_finite a = true -> is_finite_strict b = true ->
  let A := B2R a in let B := B2R b in
  exists (Q : Z) (R : R),
    (A = IZR Q * B + R /\ 0 <= R < Rabs B)%R /\
    (B2R (Brem_euclid a b) = round radix2 (FLT_exp (-1074) 53) ZnearestE R /\
     ((0 <= A)%R -> B2R (Brem_euclid a b) = R) /\ is_finite (Brem_euclid a b) = true) /\
    ((Z.abs Q < 2 ^ 51 - 1)%Z -> B2R (Bdiv_euclid a b) = IZR Q /\ is_finite (Bdiv_euclid a b) = true) /\
    (is_finite (Bdiv_euclid a b) = true ->
       (Rabs (B2R (Bdiv_euclid a b) - IZR Q) <= / 2 ^ 50 * Rabs (IZR Q))%R).
Proof. exact euclid_float_convention_proof. Qed.

(* the run-time oracle's capped power is Z.pow where it answers, and beyond 2^256 where it does not *)
Theorem pow_capped_spec : forall a b, 0 <= b ->
  match pow_capped a b with Some r => r = a ^ b | None => 2 ^ 256 < Z.abs (a ^ b) end.
Proof.
  intros a b Hb. destruct (pow_capped a b) as [r|] eqn:E.
  - exact (pow_capped_some a b r Hb E).
  - exact (pow_capped_none a b Hb E).
Qed.

(* non-vacuity: concrete non-trivial instances meet the hypotheses, at the edges of the range *)
Example exact_or_error_witness :
  in_range FU128 (2 ^ 127 - 1) /\ in_range FLit (- (2 ^ 127 - 1)) /\
  known_bin FU128 (2 ^ 127 - 1) FLit (- (2 ^ 127 - 1)) = false /\
  model_case (Bin Add) FU128 (2 ^ 127 - 1) FLit (- (2 ^ 127 - 1)) = Ok (VInt I64 0) /\
  model_case (Bin Pow) FLit (-2) FU64 127 = Ok (VInt I128 (- 2 ^ 127)) /\
  model_case (Bin FloorDiv) FI128 (- 2 ^ 127) FI64 (-1) = Err E_InvalidOperation /\
  model_case (Bin Rem) FI128 (- 2 ^ 127) FI64 (-1) = Ok (VInt I64 0) /\
  model_case (Bin Add) FU128 (2 ^ 128 - 1) FU128 (2 ^ 128 - 1) = Err E_InvalidOperation /\
  model_case Neg FI128 (- 2 ^ 127 + 1) FLit 0 = Ok (VInt I128 (2 ^ 127 - 1)).
Proof. vm_compute. repeat split; intros; discriminate. Qed.

(* non-vacuity of the float statements: 1.0 // 0.1 = 9.0, 1.0 % 0.1 = 0.09999999999999995,
   -7.0 % 2.0 = 1.0, -7.0 // 2.0 = -4.0 (computed by the kernel on the model) *)
Example euclid_float_witness :
  to_bits (Bdiv_euclid (of_bits 4607182418800017408) (of_bits 4591870180066957722)) = 4621256167635550208 /\
  to_bits (Brem_euclid (of_bits 4607182418800017408) (of_bits 4591870180066957722)) = 4591870180066957718 /\
  to_bits (Brem_euclid (of_bits 13842939354630062080) (of_bits 4611686018427387904)) = 4607182418800017408 /\
  to_bits (Bdiv_euclid (of_bits 13842939354630062080) (of_bits 4611686018427387904)) = 13839561654909534208.
Proof. vm_compute. repeat split. Qed.

Example literal_text_witness :
  (* 0o2000000000000000000000 = 2^64, 0X1_0000_0000_0000_0000 = 2^64, 0b102 and 0x and 1_ are errors *)
  lex_number_text [48;111;50;48;48;48;48;48;48;48;48;48;48;48;48;48;48;48;48;48;48;48;48;48] = Some (Ok (VInt U128 (2 ^ 64))) /\
  lex_number_text [48;88;49;95;48;48;48;48;95;48;48;48;48;95;48;48;48;48;95;48;48;48;48] = Some (Ok (VInt U128 (2 ^ 64))) /\
  lex_number_text [48;98;49;48;50] = Some (Err E_SyntaxError) /\ lex_number_text [48;120] = Some (Err E_SyntaxError) /\
  lex_number_text [49;95] = Some (Err E_SyntaxError).
Proof. vm_compute. repeat split; reflexivity. Qed.

(* what the fix: commits repaired: the model of the code as it was violates the statements *)
Example wrap_refuted_before_fix :
  model_case_before_fix (Bin Add) FU128 (2 ^ 128 - 1) FU128 (2 ^ 128 - 1) = Ok (VInt I64 (-2)).
Proof. vm_compute. reflexivity. Qed.
Example rem_min_refuted_before_fix :
  model_case_before_fix (Bin Rem) FI128 (- 2 ^ 127) FI64 (-1) = Err E_InvalidOperation.
Proof. vm_compute. reflexivity. Qed.
Example int_float_eq_refuted_before_fix :
  eq_float_int as_f64_exact_before_fix (decode 4890909195324358656) (VInt I64 (2 ^ 63 - 1)) = Some true /\
  eq_float_int as_f64_exact (decode 4890909195324358656) (VInt I64 (2 ^ 63 - 1)) = Some false.
Proof. vm_compute. split; reflexivity. Qed.
Example pow_exponent_refuted_before_fix :
  model_case_before_fix (Bin Pow) FI64 1 FI64 (2 ^ 32) = Err E_InvalidOperation /\
  model_case (Bin Pow) FI64 1 FI64 (2 ^ 32) = Ok (VInt I64 1) /\
  model_case (Bin Pow) FI64 (-1) FI128 (2 ^ 127 - 1) = Ok (VInt I64 (-1)).
Proof. vm_compute. repeat split; reflexivity. Qed.

(* the listed known finding is a violation in the model as well (hence the exclusion above) *)
Example neg_2p127_known_refuted :
  model_case Neg FLit (2 ^ 127) FLit 0 = Ok (VInt U128 (2 ^ 127)) /\
  model_case (Bin Add) FLit (- 2 ^ 127) FLit 0 = Err E_InvalidOperation.
Proof. vm_compute. split; reflexivity. Qed.

Print Assumptions known_characterised.
Print Assumptions int_op_exact_or_error.
Print Assumptions width_independent.
Print Assumptions neg_exact.
Print Assumptions neg_width_independent.
Print Assumptions euclid_int.
Print Assumptions euclid_law_characterises_spec.
Print Assumptions rem_total.
Print Assumptions literal_value.
Print Assumptions literal_text_value.
Print Assumptions int_cmp_exact.
Print Assumptions int_float_cmp_exact.
Print Assumptions pow_capped_spec.
Print Assumptions euclid_float_remainder.
Print Assumptions euclid_float_quotient.
Print Assumptions euclid_float_convention.
