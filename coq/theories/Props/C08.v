(* C08 -- Numeric operators are exact or fail; they never wrap or lose the sign.
   Only statements here; proofs live in MJ.C08.Proofs.

   A case is `a OP b` (or `-a`) with each operand given in one of the forms the harness
   builds: a literal in the template text, or an i64 / u64 / i128 / u128 value.
   [in_domain f z]: z lies in [-2^127, 2^128), the form can hold it, and it is not the operand
   of the listed known finding neg-2p127 (the literal -2^127, whose unary minus keeps the
   sign: pinned by the repository's own snapshot tests/snapshots/test_templates__vm@literals.txt.snap).
   [known_neg a] (a = 2^127) and [known_pow a b] (|a| <= 1 and b > 2^32-1) describe the other
   listed inputs.  Of the float leg only the integer/float comparison is modelled and proved here
   (int_float_cmp_exact); float // and % are decided by the harness oracle only (tools/props/C08.py). *)
From MJ Require Import Common.Base C08.Model C08.Spec C08.Proofs.

(* + - * // % **: never a crash; an integer answer is the exact result of unbounded
   arithmetic (Euclidean // and %), in a representation that holds it; an error only if an
   operand or the exact result is outside the 128-bit signed range (or there is no integer
   result at all: zero divisor, negative exponent). *)
Theorem int_op_exact_or_error : forall op fa a fb b,
  in_domain fa a -> in_domain fb b -> op <> Pow \/ known_pow a b = false ->
  match model_case (Bin op) fa a fb b with
  | Ok v => exact op a b = Some (num_val v) /\ num_ok v = true
  | Err _ => ~ (small a = true /\ small b = true /\ exists r, exact op a b = Some r /\ small r = true)
  | Panic | OutOfGas => False
  end.
Proof. exact exact_or_error_proof. Qed.

(* the outcome (value, result representation, error) depends on the numbers only: not on the
   form or internal width an operand comes in -- including the ** cases of the known finding *)
Theorem width_independent : forall op fa fa' a fb fb' b,
  in_domain fa a -> in_domain fa' a -> in_domain fb b -> in_domain fb' b ->
  model_case (Bin op) fa a fb b = model_case (Bin op) fa' a fb' b.
Proof. exact width_independent_proof. Qed.

(* unary minus: exact or an error, exact whenever a and -a are in the signed range *)
Theorem neg_exact : forall fa a fb b,
  in_domain fa a -> known_neg a = false ->
  match model_case Neg fa a fb b with
  | Ok v => num_val v = exact_neg a /\ num_ok v = true
  | Err _ => ~ (small a = true /\ small (exact_neg a) = true)
  | Panic | OutOfGas => False
  end.
Proof. exact neg_exact_proof. Qed.

Theorem neg_width_independent : forall fa fa' a fb fb' b b',
  in_domain fa a -> in_domain fa' a ->
  model_case Neg fa a fb b = model_case Neg fa' a fb' b'.
Proof. exact neg_width_independent_proof. Qed.

(* // and % agree with each other and with the documented convention *)
Theorem euclid_int : forall fa a fb b q r,
  in_domain fa a -> in_domain fb b ->
  model_case (Bin FloorDiv) fa a fb b = Ok q -> model_case (Bin Rem) fa a fb b = Ok r ->
  b <> 0 /\ num_val q * b + num_val r = a /\ 0 <= num_val r < Z.abs b.
Proof. exact euclid_int_proof. Qed.

(* the law determines quotient and remainder: the specification's ediv/emod are the only choice *)
Theorem euclid_law_characterises_spec : forall a b q r,
  b <> 0 -> (q * b + r = a /\ 0 <= r < Z.abs b <-> q = ediv a b /\ r = emod a b).
Proof.
  intros a b q r Hb. split.
  - intros [H1 H2]. exact (euclid_unique a b q r H1 H2).
  - intros [-> ->]. exact (euclid_law a b Hb).
Qed.

(* the remainder by a non-zero divisor never fails on 128-bit signed operands (MIN % -1 included) *)
Theorem rem_total : forall fa a fb b,
  in_domain fa a -> in_domain fb b -> small a = true -> small b = true -> b <> 0 ->
  exists v, model_case (Bin Rem) fa a fb b = Ok v /\ num_val v = emod a b.
Proof. exact rem_total_proof. Qed.

(* an integer literal denotes the number its digits spell (any radix the lexer knows), stored
   as u64 if it fits, else as u128, and is rejected from 2^128 on *)
Theorem literal_value : forall radix ds,
  2 <= radix -> Forall (fun d => 0 <= d < radix) ds ->
  lex_int radix ds = lit (digits_value radix 0 ds).
Proof. exact lex_int_spec. Qed.

(* integer/integer comparison is exact for every pair of forms *)
Theorem int_cmp_exact : forall fa a fb b,
  in_domain fa a -> in_domain fb b -> model_compare fa a fb b = Ok (exact_cmp a b).
Proof. exact int_cmp_exact_proof. Qed.

(* integer/float comparison (<, ==, > in both orders) is exact for every finite float and every
   integer form: the model of Ord::cmp / PartialEq::eq with as_f64 (lossless), cmp_f64_i128,
   cmp_f64_u128 equals the comparison of the integer with the rational the float denotes.
   Proved by integer reasoning about round-to-nearest-even ([rne_int] models `x as f64`); the
   float's own decoding and the hardware comparison of two floats are modelled, not verified. *)
Theorem int_float_cmp_exact : forall swap bits fi z m e,
  in_domain fi z -> decode bits = FFin m e ->
  model_compare_float as_f64_exact swap bits fi z = Some (Ok (swap_cmp swap (exact_cmp_rat m e z))).
Proof. exact int_float_cmp_exact_proof. Qed.

(* the run-time oracle's capped power is Z.pow where it answers, and beyond 2^256 where it does not *)
Theorem pow_capped_spec : forall a b, 0 <= b ->
  match pow_capped a b with Some r => r = a ^ b | None => 2 ^ 256 < Z.abs (a ^ b) end.
Proof.
  intros a b Hb. destruct (pow_capped a b) as [r|] eqn:E.
  - exact (pow_capped_some a b r Hb E).
  - exact (pow_capped_none a b Hb E).
Qed.

(* non-vacuity: concrete non-trivial instances meet the hypotheses, at the edges of the range *)
Example exact_or_error_witness :
  in_domain FU128 (2 ^ 127 - 1) /\ in_domain FLit (- (2 ^ 127 - 1)) /\
  model_case (Bin Add) FU128 (2 ^ 127 - 1) FLit (- (2 ^ 127 - 1)) = Ok (VInt I64 0) /\
  model_case (Bin Pow) FLit (-2) FU64 127 = Ok (VInt I128 (- 2 ^ 127)) /\
  model_case (Bin FloorDiv) FI128 (- 2 ^ 127) FI64 (-1) = Err E_InvalidOperation /\
  model_case (Bin Rem) FI128 (- 2 ^ 127) FI64 (-1) = Ok (VInt I64 0) /\
  model_case (Bin Add) FU128 (2 ^ 128 - 1) FU128 (2 ^ 128 - 1) = Err E_InvalidOperation /\
  model_case Neg FI128 (- 2 ^ 127 + 1) FLit 0 = Ok (VInt I128 (2 ^ 127 - 1)).
Proof. vm_compute. repeat split; intros; discriminate. Qed.

(* what the fix: commits repaired: the model of the code as it was violates the statements *)
Example wrap_refuted_before_fix :
  model_case_before_fix (Bin Add) FU128 (2 ^ 128 - 1) FU128 (2 ^ 128 - 1) = Ok (VInt I64 (-2)).
Proof. vm_compute. reflexivity. Qed.
Example rem_min_refuted_before_fix :
  model_case_before_fix (Bin Rem) FI128 (- 2 ^ 127) FI64 (-1) = Err E_InvalidOperation.
Proof. vm_compute. reflexivity. Qed.

Example int_float_eq_refuted_before_fix :
  eq_float_int as_f64_exact_before_fix (decode 4890909195324358656) (VInt I64 (2 ^ 63 - 1)) = Some true /\
  eq_float_int as_f64_exact (decode 4890909195324358656) (VInt I64 (2 ^ 63 - 1)) = Some false.
Proof. vm_compute. split; reflexivity. Qed.

(* the listed known findings are violations in the model as well (hence the exclusions above) *)
Example neg_2p127_known_refuted :
  model_case Neg FLit (2 ^ 127) FLit 0 = Ok (VInt U128 (2 ^ 127)) /\
  model_case (Bin Add) FLit (- 2 ^ 127) FLit 0 = Err E_InvalidOperation.
Proof. vm_compute. split; reflexivity. Qed.
Example pow_exponent_known_refuted :
  model_case (Bin Pow) FI64 1 FI64 (2 ^ 32) = Err E_InvalidOperation /\ exact Pow 1 (2 ^ 32) = Some 1.
Proof. split; [vm_compute; reflexivity|]. cbn [exact]. rewrite Z.pow_1_l by lia. reflexivity. Qed.

Print Assumptions int_op_exact_or_error.
Print Assumptions width_independent.
Print Assumptions neg_exact.
Print Assumptions neg_width_independent.
Print Assumptions euclid_int.
Print Assumptions euclid_law_characterises_spec.
Print Assumptions rem_total.
Print Assumptions literal_value.
Print Assumptions int_cmp_exact.
Print Assumptions int_float_cmp_exact.
Print Assumptions pow_capped_spec.
