(* C09 -- Subscripts and slices follow Python's rules for every bound and step.
   Only statements here; proofs live in MJ.C09.Proofs. *)
From MJ Require Import Common.Base C09.Model C09.Spec C09.Proofs C09.Laws.

(* Every slice of every sliceable kind, for every list (any length a Vec can have), every
   start/stop/step an integer value can hold: an error exactly for step 0, otherwise
   exactly Python's selection, in Python's order, with the kind rule. *)
Theorem slice_python : forall k items start stop step,
  lenZ items <= i64_max -> valid_opt start -> valid_opt stop -> valid_opt step ->
  model_slice k items start stop step =
    if step_of step =? 0 then Err E_InvalidOperation
    else Ok (rkind k, py_slice items start stop (step_of step)).
Proof. exact slice_python_proof. Qed.

(* The only failure is the zero step (corollary, stated separately). *)
Theorem slice_total : forall k items start stop step,
  lenZ items <= i64_max -> valid_opt start -> valid_opt stop -> valid_opt step ->
  step_of step <> 0 -> exists r, model_slice k items start stop step = Ok r.
Proof.
  intros k items start stop step Hl H1 H2 H3 Hs. rewrite slice_python_proof by assumption.
  destruct (step_of step =? 0) eqn:E; [lia|]. eexists; reflexivity.
Qed.

(* No intermediate of the index computation leaves the i128 range (no overflow trap, no wrap). *)
Theorem slice_no_overflow : forall start stop step len,
  0 <= len <= u64_max ->
  (forall z, start = Some z -> i64_min <= z <= i64_max) -> (forall z, stop = Some z -> i64_min <= z <= i64_max) ->
  i64_min <= step <= i64_max -> step <> 0 ->
  forallb in_i128 (slice_indices_intermediates start stop step len) = true.
Proof. exact slice_no_overflow_proof. Qed.

(* Subscripts: Python's element, or undefined where Python raises IndexError. *)
Theorem subscript_python : forall k items key,
  model_index k items key = if in_i64 key then py_index items key else None.
Proof. exact subscript_python_proof. Qed.

(* Python's documented identities, for the model of the implementation and for every list:
   v[:] is v, v[::-1] is v reversed (each of the result's own kind). *)
Theorem slice_full_is_identity : forall k items, lenZ items <= i64_max ->
  model_slice k items None None None = Ok (rkind k, items).
Proof. exact model_slice_full. Qed.

Theorem slice_minus_one_reverses : forall k items, lenZ items <= i64_max ->
  model_slice k items None None (Some (-1)) = Ok (rkind k, rev items).
Proof. exact model_slice_rev. Qed.

(* A slice never invents or duplicates-beyond-length: whatever it returns has the kind rule's kind,
   consists of elements of the input, and is no longer than the input. *)
Theorem slice_selects_from_input : forall k items start stop step r,
  lenZ items <= i64_max -> valid_opt start -> valid_opt stop -> valid_opt step ->
  model_slice k items start stop step = Ok r ->
  fst r = rkind k /\ incl (snd r) items /\ lenZ (snd r) <= lenZ items.
Proof. exact model_slice_selects. Qed.

(* the specification itself obeys the same laws (a mis-transcribed py_bound / py_count breaks these) *)
Theorem py_slice_laws : forall l,
  py_slice l None None 1 = l /\ py_slice l None None (-1) = rev l /\
  (forall start stop step, step <> 0 ->
     incl (py_slice l start stop step) l /\ lenZ (py_slice l start stop step) <= lenZ l).
Proof.
  intros l. split; [apply py_slice_full|]. split; [apply py_slice_rev|].
  intros start stop step Hs. split; [apply py_slice_incl; exact Hs|apply py_slice_length_le; exact Hs].
Qed.

(* Subscripts: defined exactly for -len <= key < len, yield an element of the container, and a negative
   key counts from the end. *)
Theorem subscript_laws : forall k items key, lenZ items <= i64_max ->
  ((exists x, model_index k items key = Some x) <-> - lenZ items <= key < lenZ items) /\
  (forall x, model_index k items key = Some x -> In x items) /\
  (- lenZ items <= key < 0 -> model_index k items key = model_index k items (key + lenZ items)).
Proof. exact model_index_laws. Qed.

(* The everyday case reads as it should: v[a:b] with 0 <= a <= b <= len is "drop a elements, take b - a". *)
Theorem slice_is_sublist : forall k items a b, lenZ items <= i64_max -> 0 <= a <= b -> b <= lenZ items ->
  model_slice k items (Some a) (Some b) None = Ok (rkind k, takeZ (b - a) (skipZ a items)).
Proof. exact model_slice_sublist. Qed.

(* non-vacuity: a concrete non-trivial instance meets the hypotheses *)
Example slice_python_witness :
  model_slice KSeq [0;1;2] (Some 3) (Some 0) (Some (-1)) = Ok (3, [2;1]) /\
  model_slice KStr [97;98;99] (Some (-10)) None (Some (-1)) = Ok (0, []) /\
  model_slice KLazyUnsized [0;1;2;3] (Some 1) None (Some (2^64)) = Ok (3, [1]).
Proof. vm_compute. repeat split. Qed.

Example laws_witness :
  model_slice KSeq [5;6;7;8] (Some 1) (Some 3) None = Ok (3, [6;7]) /\ takeZ (3 - 1) (skipZ 1 [5;6;7;8]) = [6;7] /\
  model_slice KStr [97;98;99] None None (Some (-1)) = Ok (0, [99;98;97]) /\
  model_index KTuple [5;6;7] (-1) = Some 7 /\ model_index KTuple [5;6;7] (-4) = None /\ model_index KTuple [5;6;7] 3 = None.
Proof. vm_compute. repeat split. Qed.

Print Assumptions slice_python.
Print Assumptions slice_total.
Print Assumptions slice_no_overflow.
Print Assumptions subscript_python.
Print Assumptions slice_full_is_identity.
Print Assumptions slice_minus_one_reverses.
Print Assumptions slice_selects_from_input.
Print Assumptions py_slice_laws.
Print Assumptions subscript_laws.
Print Assumptions slice_is_sublist.
