(* C10 -- Text is verbatim and whitespace control exact under any delimiter configuration.
   Only statements here; proofs live in MJ.C10.Proofs. *)
From MJ Require Import Common.Base C10.Chars C10.Spec C10.Model C10.Domain C10.Proofs.

(* The four defects of the unchanged code, on the model with the old behaviour switched on, and their
   absence from the model of the fixed code. *)
Theorem raw_lstrip_refuted_before_fix :
  let segs := [Raw MNone MNone [32; 32] MNone MNone] in
  wf_case default_delims false segs = true /\
  view (fst (tokenize (cfg_of default_delims ws_lstrip_only before_fixes) (unparse default_delims segs))) = [] /\
  expected st_lstrip_only segs = [EText [32; 32]] /\
  view (fst (tokenize (cfg_of default_delims ws_lstrip_only fixed) (unparse default_delims segs))) = [EText [32; 32]].
Proof. exact raw_lstrip_refuted_before_fix_proof. Qed.

Print Assumptions raw_lstrip_refuted_before_fix.
