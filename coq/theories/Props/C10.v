(* C10 -- Text is verbatim and whitespace control exact under any delimiter configuration.
   Only statements here; proofs live in MJ.C10.Proofs.

   Vocabulary (MJ.C10.Spec / Model / Domain):
     unparse d segs       the template source of a segment list under delimiters d (fixed tag interiors)
     tokenize c src       the model of the template-level tokenizer (lexer.rs), c = delimiters + settings
     view its             the token stream as the specification sees it: non-empty text chunks, tag kinds
     expected st segs     the specification: the texts with exactly the removals the property names; it never
                          looks at delimiters
     wf_case d keep segs  the decidable side condition: sane delimiters (Domain.wf_delims), texts that contain
                          no start delimiter -- not even one running over into the following tag --, tags whose
                          start delimiter is not the beginning of a longer one, raw content without an endraw
                          tag, line statements at the start of a line
     finder_ok d          find_start_marker returns the leftmost start delimiter (Proofs.finder_ok); proved for
                          every well-formed configuration (start_marker_search).  For custom delimiters the search
                          runs on the third-party Aho-Corasick automaton, whose enumeration order is SPECIFIED in
                          Model.find_ac (by end position, longest first) and tied to the crate by the correspondence
                          run; the loop of find_start_marker on top of it is modelled and proved *)
From MJ Require Import Common.Base C10.Chars C10.Spec C10.Model C10.Domain C10.Proofs.

(* Every delimiter configuration, every well-formed segment list (texts, variable / block / comment tags with any
   markers, raw blocks, line statements and line comments; no bound on sizes), all 8 settings, the three line-ending
   styles: the tokenizer emits exactly the text chunks the rules name, and the tags in order. *)
Theorem texts_verbatim : forall (d : delims) (w : wsconfig) (segs : list seg),
  wf_case d (keep w) segs = true ->
  exists its, tokenize {| dl := d; wsc := w; qk := fixed |} (unparse d segs) = (its, FOk) /\
              view its = expected (st_of w) segs.
Proof. exact texts_verbatim_proof. Qed.

(* In terms of the rendered output (every variable tag prints "V", block tags print nothing): what the harness
   observes through Environment::render_str. *)
Theorem rendered_verbatim : forall (d : delims) (w : wsconfig) (segs : list seg),
  wf_case d (keep w) segs = true ->
  exists its, tokenize {| dl := d; wsc := w; qk := fixed |} (unparse d segs) = (its, FOk) /\
              render_items (view its) = expected_output (st_of w) segs.
Proof.
  intros d w segs H. destruct (texts_verbatim_proof d w segs H) as (its & E & V).
  exists its. split; auto. unfold expected_output. rewrite V. reflexivity.
Qed.

(* The right-hand side does not mention delimiters: rewriting the tags of a template to another delimiter
   configuration does not change what the tokenizer hands to the parser. *)
Theorem delims_irrelevant : forall (d1 d2 : delims) (w : wsconfig) (segs : list seg),
  wf_case d1 (keep w) segs = true -> wf_case d2 (keep w) segs = true ->
  view (fst (tokenize {| dl := d1; wsc := w; qk := fixed |} (unparse d1 segs))) =
  view (fst (tokenize {| dl := d2; wsc := w; qk := fixed |} (unparse d2 segs))).
Proof.
  intros d1 d2 w segs H1 H2.
  destruct (texts_verbatim_proof d1 w segs H1) as (i1 & E1 & V1).
  destruct (texts_verbatim_proof d2 w segs H2) as (i2 & E2 & V2).
  rewrite E1, E2. cbn [fst]. congruence.
Qed.

(* Text that merely looks like the default delimiters is plain text under a configuration in which it contains
   no start delimiter: such a text alone is one chunk, verbatim (keep_trailing_newline on, so that nothing at all is
   removed). *)
Theorem lookalike_is_text : forall (d : delims) (w : wsconfig) (t : str),
  keep w = true -> wf_case d true [Text t] = true ->
  exists its, tokenize {| dl := d; wsc := w; qk := fixed |} t = (its, FOk) /\ view its = [EText t].
Proof. exact lookalike_proof. Qed.

(* The start-marker search -- memchr for the default delimiters, the loop of find_start_marker over the SPECIFIED
   enumeration of the Aho-Corasick automaton otherwise -- returns the leftmost start delimiter, the longest one
   at that position, for every well-formed delimiter configuration. *)
Theorem start_marker_search : forall (d : delims), wf_delims d = true -> finder_ok d.
Proof. exact finder_ok_all. Qed.

(* The search for an END delimiter (utils.rs memstr as the lexer uses it: the comment end, the block start inside a raw
   block) returns the first occurrence of the delimiter, or nothing when there is none -- for every needle and haystack,
   in particular for self-overlapping delimiters (`-->`, `##}`, `{{%`) preceded by a copy of their first character. *)
Theorem end_marker_search : forall (n h : list Z),
  match find_sub n h 0 with
  | Some j => exists pre post, h = pre ++ n ++ post /\ lenZ pre = j /\
                               (forall pre' post', h = pre' ++ n ++ post' -> j <= lenZ pre')
  | None => forall pre post, h <> pre ++ n ++ post
  end.
Proof. exact end_marker_search_proof. Qed.

(* No configuration that build() accepts can make the lexer panic, whatever the template source; a configuration
   with an empty end delimiter is rejected (the defect fixed by 518ebef: it used to be accepted and the first
   comment panicked in memstr). *)
Theorem no_panic : forall (d : delims) (w : wsconfig) (src : str),
  match tokenize_checked {| dl := d; wsc := w; qk := fixed |} src with
  | Ok (_, e) => e <> FPanic
  | Err code => code = E_InvalidDelimiter
  | _ => False
  end.
Proof. exact no_panic_proof. Qed.

(* The five defects of the unchanged code, on the model with the old behaviour switched on ([before_fixes]), and
   their absence from the model of the fixed code. *)
Theorem raw_lstrip_refuted_before_fix :
  let segs := [Raw MNone MNone [32; 32] MNone MNone] in
  wf_case default_delims false segs = true /\
  view (fst (tokenize (cfg_of default_delims ws_lstrip_only before_fixes) (unparse default_delims segs))) = [] /\
  expected st_lstrip_only segs = [EText [32; 32]] /\
  view (fst (tokenize (cfg_of default_delims ws_lstrip_only fixed) (unparse default_delims segs))) = [EText [32; 32]].
Proof. exact raw_lstrip_refuted_before_fix_proof. Qed.

Theorem lone_cr_lstrip_refuted_before_fix :
  let segs := [Text [13; 32; 32]; Tag KBlock MNone MNone] in
  wf_case default_delims false segs = true /\
  view (fst (tokenize (cfg_of default_delims ws_lstrip_only before_fixes) (unparse default_delims segs))) = [EText [13; 32; 32]; EBlock] /\
  expected st_lstrip_only segs = [EText [13]; EBlock] /\
  view (fst (tokenize (cfg_of default_delims ws_lstrip_only fixed) (unparse default_delims segs))) = [EText [13]; EBlock].
Proof. exact lone_cr_lstrip_refuted_before_fix_proof. Qed.

Theorem line_crlf_refuted_before_fix :
  let segs := [Line LStmt [] NlCRLF; Text [98]] in
  wf_case line_delims false segs = true /\
  view (fst (tokenize (cfg_of line_delims ws_lstrip_only before_fixes) (unparse line_delims segs))) = [EBlock; EText [10; 98]] /\
  expected st_lstrip_only segs = [EBlock; EText [98]] /\
  view (fst (tokenize (cfg_of line_delims ws_lstrip_only fixed) (unparse line_delims segs))) = [EBlock; EText [98]].
Proof. exact line_crlf_refuted_before_fix_proof. Qed.

Theorem trailing_line_comment_refuted_before_fix :
  let segs := [Tag KBlock MNone MNone; Text [32]; Line LComment [] NlNone] in
  wf_case line_delims false segs = true /\
  view (fst (tokenize (cfg_of line_delims ws_none before_fixes) (unparse line_delims segs))) = [EBlock] /\
  view (fst (tokenize (cfg_of line_delims ws_lstrip_only before_fixes) (unparse line_delims segs))) = [EBlock; EText [32]] /\
  expected st_none segs = [EBlock; EText [32]] /\
  view (fst (tokenize (cfg_of line_delims ws_none fixed) (unparse line_delims segs))) = [EBlock; EText [32]].
Proof. exact trailing_line_comment_refuted_before_fix_proof. Qed.

Theorem empty_end_refuted_before_fix :
  tokenize_checked (cfg_of empty_end_delims ws_lstrip_only before_fixes) [60; 35; 32; 99] = Ok ([], FPanic) /\
  tokenize_checked (cfg_of empty_end_delims ws_lstrip_only fixed) [60; 35; 32; 99] = Err E_InvalidDelimiter.
Proof. exact empty_end_refuted_before_fix_proof. Qed.

(* non-vacuity: a template with every kind of segment, markers, CRLF and a lone CR meets the hypotheses, under the
   default delimiters and under a line-prefix configuration; the right-hand sides are computed *)
Example texts_verbatim_witness :
  let segs := [Text [97; 13; 10; 32; 32]; Tag KBlock MNone MMinus; Text [32; 10; 120]; Tag KVar MMinus MNone;
               Raw MNone MPlus [13; 32; 123; 37; 32; 120; 32; 37; 125] MNone MNone; Text [13; 32; 9]; Tag KComment MNone MNone; Text [10]] in
  let w := {| trim := true; lstrip_b := true; keep := false |} in
  wf_case default_delims false segs = true /\
  expected (st_of w) segs = [EText [97; 13; 10]; EBlock; EText [120]; EVar; EText [13; 32; 123; 37; 32; 120; 32; 37; 125]] /\
  wf_case line_delims false [Text [97; 10; 32]; Line LStmt [32] NlCRLF; Text [98; 32]; Line LComment [] NlLF; Text [99]] = true /\
  (* prefix-sharing starts <% <%= <%# with the shared end %>, default-looking text is plain text there *)
  wf_case {| block_s := [60; 37]; block_e := [37; 62]; var_s := [60; 37; 61]; var_e := [37; 62]; com_s := [60; 37; 35]; com_e := [37; 62];
             line_s := []; line_c := [] |} false
          [Text [123; 123; 32; 120; 32; 125; 125; 10; 32]; Tag KBlock MNone MNone; Tag KVar MPlus MMinus; Text [32; 123; 37]; Tag KComment MMinus MNone] = true.
Proof. vm_compute. repeat split. Qed.

Print Assumptions texts_verbatim.
Print Assumptions rendered_verbatim.
Print Assumptions delims_irrelevant.
Print Assumptions lookalike_is_text.
Print Assumptions start_marker_search.
Print Assumptions end_marker_search.
Print Assumptions no_panic.
Print Assumptions raw_lstrip_refuted_before_fix.
Print Assumptions lone_cr_lstrip_refuted_before_fix.
Print Assumptions line_crlf_refuted_before_fix.
Print Assumptions trailing_line_comment_refuted_before_fix.
Print Assumptions empty_end_refuted_before_fix.
