(* C11 -- Run-time recursion is cut off by the recursion limit, never by the stack.
   Only statements here; proofs live in MJ.C11.Proofs.

   What is proved is the ACCOUNTING: the model (C11/Model.v) is the VM's recursion-depth bookkeeping
   (Context::push_frame / incr_depth / charge_depth / decr_depth / check_depth, eval_macro,
   perform_include, perform_super, call_block, with_execution_state's restore) with one record per
   nested interpreter activation.  The theorems bound the number of nested activations by the limit,
   show that every unbounded recursion is refused with the recursion error, and give the exact level of
   the refusal.  What is NOT proved (and cannot be, on a model): how many bytes of native stack one
   activation takes.  [stack_fits_2mib] turns a per-activation byte bound into the property's
   "never overflows a 2 MiB stack"; that byte bound is measured on every run of the check
   (tools/props/C11.py, part (b), exploration). *)
From MJ Require Import Common.Base C11.Model C11.Spec C11.Proofs.

(* nesting_le_depth: in every reachable state the number of nested do_eval activations is at most the
   depth, and the depth is at most the limit plus the one unchecked block charge. *)
Theorem nesting_le_depth : forall limit st, 0 <= limit -> reach limit st ->
  nesting st <= depth (cur st) /\ depth (cur st) <= limit + BLOCK_RECURSION_COST.
Proof. exact nesting_le_depth_proof. Qed.

(* weighted_nesting: the open activations, weighted with what the code charges them (macro 6 = cost 4 +
   base and closure frame, include 10, block and super() 6 = frame + cost 5), fit under the depth.  This is
   the statement that makes the limit a proxy for the native stack: no activation weighs less than 6. *)
Theorem weighted_nesting : forall limit st, 0 <= limit -> reach limit st ->
  1 + wsum (acts st) <= depth (cur st) /\ depth (cur st) <= limit + BLOCK_RECURSION_COST.
Proof. exact weighted_nesting_proof. Qed.

Theorem nesting_bound : forall limit st, 0 <= limit -> reach limit st ->
  nesting st <= max_nesting limit.
Proof. exact nesting_bound_proof. Qed.

(* every checked admission leaves the depth within the limit; a block is admitted when one frame fits and
   is then charged in full *)
Theorem admitted_within_limit : forall limit st o st', reach limit st -> step limit st o = Ok st' ->
  match o with
  | OPush | OMacro | OInclude => depth (cur st') <= limit
  | OBlock | OSuper => depth (cur st) + 1 <= limit /\ depth (cur st') = depth (cur st) + 1 + BLOCK_RECURSION_COST
  | _ => True
  end.
Proof. intros limit st o st' R H. exact (admitted_depth limit st o st' (reach_good _ _ R) H). Qed.

(* the bookkeeping never traps: no underflow of outer_stack_depth, no pop of a missing frame, no
   restore above the current stack - for operations the (scope-balanced) compiler can emit *)
Theorem accounting_never_traps : forall limit st o, reach limit st -> enabled st o = true ->
  step limit st o <> Panic /\ step limit st o <> OutOfGas.
Proof. intros limit st o R En. exact (step_no_panic limit st o (reach_good _ _ R) En). Qed.

(* returning gives back exactly what the call took *)
Theorem return_restores : forall limit st k st1, reach limit st ->
  step limit st (op_of k) = Ok st1 -> step limit st1 (undo_of k) = Ok st.
Proof. intros limit st k st1 R H. exact (call_undo limit st k st1 (reach_good _ _ R) H). Qed.

(* A nested render started by a host callable that swallows its error (optional blocks): whether it was admitted
   and returned, or was refused, the state afterwards is the state before - a refused admission charges nothing and
   refunds nothing. *)
Theorem swallowed_refusal_is_noop : forall limit st ks, reach limit st -> exec_try limit st ks = Ok st.
Proof. intros limit st ks R. exact (try_noop limit st ks (reach_good _ _ R)). Qed.

(* recursion_terminates.  Along any chain of calls / frame pushes with no return in between the depth
   strictly increases with every edge ... *)
Theorem descent_increases_depth : forall limit ops st st', 0 <= limit -> reach limit st ->
  forallb descending ops = true -> run_ops limit st ops = Ok st' ->
  depth (cur st) + lenZ ops <= depth (cur st') /\ depth (cur st') <= limit + BLOCK_RECURSION_COST.
Proof. exact descent_bounded_proof. Qed.

(* ... so a chain of more than limit + 4 edges (from anywhere) is refused, with the recursion error *)
Theorem recursion_terminates : forall limit ops st, 0 <= limit -> reach limit st ->
  forallb descending ops = true -> limit + BLOCK_RECURSION_COST - depth (cur st) < lenZ ops ->
  run_ops limit st ops = Err E_InvalidOperation.
Proof. exact descent_errs_proof. Qed.

(* levels_reached.  Any program "lead-in, then a cycle of edges and non-recursive work, for ever", under
   any set_recursion_limit(level): the render ends with the recursion error - not OutOfGas (gas 506 is
   enough for every limit), not a trap - exactly at the level the closed form of Spec.v gives. *)
Theorem levels_reached : forall level pre cyc, 0 <= level -> recursive cyc ->
  levels level pre cyc = (spec_levels (set_recursion_limit level) pre cyc, Err E_InvalidOperation).
Proof. exact levels_reached_proof. Qed.

(* the pure recursions, for every limit L = min(level, 500) *)
Theorem levels_macro : forall level, 1 <= level ->
  levels level [Call KMacro] [Probe; Call KMacro] = ((set_recursion_limit level - 1) / 6, Err E_InvalidOperation).
Proof. intros. apply (levels_kind level _ _ (fun L => (L - 1) / 6)); auto using spec_macro. apply recursive_intro; reflexivity. Qed.

Theorem levels_include : forall level, 1 <= level ->
  levels level [] [Probe; Call KInclude] = ((set_recursion_limit level - 1) / 10 + 1, Err E_InvalidOperation).
Proof. intros. apply (levels_kind level _ _ (fun L => (L - 1) / 10 + 1)); auto using spec_include. apply recursive_intro; reflexivity. Qed.

Theorem levels_import : forall level, 1 <= level ->
  levels level [] [Probe; Call KPush; Call KInclude] = ((set_recursion_limit level - 1) / 11 + 1, Err E_InvalidOperation).
Proof. intros. apply (levels_kind level _ _ (fun L => (L - 1) / 11 + 1)); auto using spec_import. apply recursive_intro; reflexivity. Qed.

Theorem levels_block : forall level, 1 <= level ->
  levels level [Call KBlock] [Probe; Call KBlock] = ((set_recursion_limit level + 4) / 6, Err E_InvalidOperation).
Proof. intros. apply (levels_kind level _ _ (fun L => (L + 4) / 6)); auto using spec_block. apply recursive_intro; reflexivity. Qed.

Theorem levels_super : forall level, 1 <= level ->
  levels level [Call KBlock] [Probe; Call KSuper] = ((set_recursion_limit level + 4) / 6, Err E_InvalidOperation).
Proof. intros. apply (levels_kind level _ _ (fun L => (L + 4) / 6)); auto using spec_super. apply recursive_intro; reflexivity. Qed.

Theorem levels_loop : forall level, 1 <= level ->
  levels level [Call KPush] [Probe; Call KPush] = (set_recursion_limit level - 1, Err E_InvalidOperation).
Proof. intros. apply (levels_kind level _ _ (fun L => L - 1)); auto using spec_loop. apply recursive_intro; reflexivity. Qed.

Theorem levels_call_block : forall level, 1 <= level ->
  levels level [Call KMacro] [Probe; Call KMacro; Call KMacro; Call KMacro] =
    ((set_recursion_limit level + 11) / 18, Err E_InvalidOperation).
Proof. intros. apply (levels_kind level _ _ (fun L => (L + 11) / 18)); auto using spec_callwrap. apply recursive_intro; reflexivity. Qed.

(* stack_fits_2mib (conditional on the measured calibration): if one nested activation takes at most
   FRAME_BYTES_DEBUG = 20 KiB of native stack and everything else at most RESERVE_BYTES = 256 KiB, then in
   every reachable state, under every limit that can be configured, the stack in use fits in 2 MiB. *)
Theorem stack_fits_2mib : forall level st B reserve,
  reach (set_recursion_limit level) st -> 0 <= level ->
  0 <= B <= FRAME_BYTES_DEBUG -> reserve <= RESERVE_BYTES ->
  stack_fits STACK_2MIB reserve B (nesting st).
Proof. exact stack_fits_proof. Qed.

(* The accounting before the fix (a block charged its frame only: block cost 0 in [stepg]) does not
   have this property: 499 nested self.block() edges are admitted under the default limit, 500 nested
   activations; with the 13 264 bytes per block level measured in a debug build that is 6.6 MB. *)
Theorem old_accounting_refuted :
  exists st, run_opsg 0 500 init (repeat OBlock 499) = Ok st /\ nesting st = 500 /\ depth (cur st) = 500 /\
             ~ nesting st <= max_nesting 500 /\ ~ stack_fits STACK_2MIB 0 13264 (nesting st).
Proof. exact old_accounting_refuted_proof. Qed.

(* non-vacuity: a reachable state with a macro, an include, a block and a super() activation open; and
   the default-limit instances the engine is seen to produce (84 block levels, 83 macro levels, 50 includes) *)
Example reachable_witness :
  exists st, reach 500 st /\ nesting st = 5 /\ depth (cur st) = 31 /\ wsum (acts st) = 28.
Proof. exact reach_example. Qed.

Example levels_witness :
  levels 500 [Call KBlock] [Probe; Call KBlock] = (84, Err E_InvalidOperation) /\
  levels 500 [Call KMacro] [Probe; Call KMacro] = (83, Err E_InvalidOperation) /\
  levels 1000 [] [Probe; Call KInclude] = (50, Err E_InvalidOperation) /\
  levels 7 [Call KBlock] [Probe; Work [KMacro; KBlock]; Call KPush; Call KBlock] = (1, Err E_InvalidOperation).
Proof. vm_compute. repeat split. Qed.

Print Assumptions nesting_le_depth.
Print Assumptions weighted_nesting.
Print Assumptions nesting_bound.
Print Assumptions admitted_within_limit.
Print Assumptions accounting_never_traps.
Print Assumptions return_restores.
Print Assumptions swallowed_refusal_is_noop.
Print Assumptions descent_increases_depth.
Print Assumptions recursion_terminates.
Print Assumptions levels_reached.
Print Assumptions levels_macro.
Print Assumptions levels_include.
Print Assumptions levels_import.
Print Assumptions levels_block.
Print Assumptions levels_super.
Print Assumptions levels_loop.
Print Assumptions levels_call_block.
Print Assumptions stack_fits_2mib.
Print Assumptions old_accounting_refuted.
