(* C12 -- Stricter undefined modes only add errors; the documented matrix holds.
   Statements only; proofs in MJ.C12.Proofs.  The model is the reference interpreter
   Lang/Interp.v, parametric in the undefined behaviour [c_mode]. *)
From MJ Require Import Common.Base Lang.Syntax Lang.Meta Lang.Interp C12.Model C12.Spec C12.Proofs.

(* the order is a total order with Strict at the bottom and Chainable at the top *)
Theorem weaker_is_total_order :
  (forall m, weaker m m = true) /\
  (forall a b c, weaker a b = true -> weaker b c = true -> weaker a c = true) /\
  (forall a b, weaker a b = true -> weaker b a = true -> a = b) /\
  (forall a b, weaker a b = true \/ weaker b a = true) /\
  weaker Strict SemiStrict = true /\ weaker SemiStrict Lenient = true /\ weaker Lenient Chainable = true.
Proof.
  repeat split; auto using weaker_refl, weaker_antisym, weaker_total. exact weaker_trans.
Qed.

(* site_monotone: every function through which the interpreter consults the mode.  What succeeds
   under m1 succeeds with the same result under every weaker m2. *)
Theorem site_monotone : forall m1 m2, weaker m1 m2 = true ->
  (forall v r, u_is_true m1 v = Ok r -> u_is_true m2 v = Ok r) /\
  (forall v r, u_not_undef m1 v = Ok r -> u_not_undef m2 v = Ok r) /\
  (forall p r, u_handle_undefined m1 p = Ok r -> u_handle_undefined m2 p = Ok r) /\
  (forall v r, emit_check m1 v = Ok r -> emit_check m2 v = Ok r) /\                 (* the Emit check *)
  (forall v r, iter_items m1 v = Ok r -> iter_items m2 v = Ok r) /\                 (* the iteration check of SFor *)
  (forall op x y r, bin_check m1 op x y = Ok r -> bin_check m2 op x y = Ok r) /\    (* `~` *)
  (forall op a b r, do_cmp m1 op a b = Ok r -> do_cmp m2 op a b = Ok r) /\
  (forall v r, str_input m1 v = Ok r -> str_input m2 v = Ok r) /\                   (* string arguments of filters *)
  (forall esc f v args r, do_filter m1 esc f v args = Ok r -> do_filter m2 esc f v args = Ok r).
  (* do_test does not take the mode at all *)
Proof.
  intros m1 m2 W. repeat split; intros.
  - eapply u_is_true_mono; eauto.
  - eapply u_not_undef_mono; eauto.
  - eapply u_handle_undefined_mono; eauto.
  - eapply emit_check_mono; eauto.
  - eapply iter_items_mono; eauto.
  - eapply bin_check_mono; eauto.
  - eapply do_cmp_mono; eauto.
  - eapply str_input_mono; eauto.
  - eapply do_filter_mono; eauto.
Qed.

(* the two inline checks of Interp.exec are the functions named above *)
Theorem emit_uses_emit_check : forall c fuel esc s e,
  exec c (S fuel) esc s (SEmit e) =
  bind (eval c fuel esc s e) (fun '(v, s1) =>
  bind (emit_check (c_mode c) v) (fun _ => Ok (SigNormal, emit s1 (render_value esc v)))).
Proof. exact exec_emit_uses_check. Qed.

(* ... and so are the subscript / attribute sites (list index, map key, loop field; a missing one is
   [u_handle_undefined]) and the iteration site of `for` *)
Theorem access_uses_access_result : forall c fuel esc s a,
  (forall i, eval c (S fuel) esc s (EItem a i) =
     bind (eval c fuel esc s a) (fun '(x, s1) => bind (eval c fuel esc s1 i) (fun '(k, s2) =>
     bind (item_result (c_mode c) x k) (fun v => Ok (v, s2))))) /\
  (forall attr, eval c (S fuel) esc s (EAttr a attr) =
     bind (eval c fuel esc s a) (fun '(x, s1) => bind (attr_result (c_mode c) x attr) (fun v => Ok (v, s1)))).
Proof. intros. split; intros; [apply eval_item_uses_result | apply eval_attr_uses_result]. Qed.

Theorem for_uses_iter_items : forall c fuel esc s tgt iter flt body els rc,
  exec c (S fuel) esc s (SFor tgt iter flt body els rc) =
  bind (eval c fuel esc s iter) (fun '(iv, s1) =>
  bind (iter_items (c_mode c) iv) (fun items =>
  bind (match flt with
        | None => Ok (items, s1)
        | Some fe => filter_items (c_mode c) (eval c fuel esc) tgt fe s1 items
        end) (fun '(items, s2) =>
  let n := lenZ items in
  bind (loop_items (exec_list c fuel esc) tgt body n (push_frame s2 (mkFrame [] (Some (0, n, true)) None None false)) 0 items) (fun s5 =>
  let s6 := pop_frame s5 in
  match items, els with
  | [], Some eb => exec_list c fuel esc s6 eb
  | _, _ => Ok (SigNormal, s6)
  end)))).
Proof. exact exec_for_uses_iter_items. Qed.

(* the access sites are monotone too (site_monotone, continued) *)
Theorem access_site_monotone : forall m1 m2, weaker m1 m2 = true ->
  (forall x k r, item_result m1 x k = Ok r -> item_result m2 x k = Ok r) /\
  (forall x a r, attr_result m1 x a = Ok r -> attr_result m2 x a = Ok r).
Proof. intros m1 m2 W. split; intros; [eapply item_result_mono | eapply attr_result_mono]; eauto. Qed.

(* expressions, from any state *)
Theorem eval_monotone : forall m1 m2 ctx esc0 fuel esc s e r, weaker m1 m2 = true ->
  eval (mkCfg m1 ctx esc0) fuel esc s e = Ok r -> eval (mkCfg m2 ctx esc0) fuel esc s e = Ok r.
Proof. exact eval_monotone_proof. Qed.

(* statements, from any state: same signal, same state (scopes, closures, output chunks, asks) *)
Theorem exec_list_monotone : forall m1 m2 ctx esc0 fuel esc s l r, weaker m1 m2 = true ->
  exec_list (mkCfg m1 ctx esc0) fuel esc s l = Ok r -> exec_list (mkCfg m2 ctx esc0) fuel esc s l = Ok r.
Proof. exact exec_list_monotone_proof. Qed.

(* run_monotone, strong form: the final state is the same *)
Theorem run_monotone_state : forall m1 m2 ctx esc fuel body s1, weaker m1 m2 = true ->
  Interp.run (mkCfg m1 ctx esc) fuel body = Ok s1 -> Interp.run (mkCfg m2 ctx esc) fuel body = Ok s1.
Proof. exact run_monotone_proof. Qed.

(* run_monotone as the property states it: every program, context, fuel and pair m1 [= m2 *)
Theorem run_monotone : forall m1 m2 ctx esc fuel body s1, weaker m1 m2 = true ->
  Interp.run (mkCfg m1 ctx esc) fuel body = Ok s1 ->
  exists s2, Interp.run (mkCfg m2 ctx esc) fuel body = Ok s2 /\ output_of s2 = output_of s1.
Proof. intros. exists s1. split; [eapply run_monotone_proof; eauto | reflexivity]. Qed.

(* "strictness only ever adds errors": an error under the weaker mode is not a success under the stricter one *)
Theorem stricter_only_adds_errors : forall m1 m2 ctx esc fuel body code, weaker m1 m2 = true ->
  Interp.run (mkCfg m2 ctx esc) fuel body = Err code ->
  forall s1, Interp.run (mkCfg m1 ctx esc) fuel body <> Ok s1.
Proof. intros * W H s1 H1. rewrite (run_monotone_proof _ _ _ _ _ _ _ W H1) in H. discriminate. Qed.

(* the documented matrix: 8 sites x 4 modes (and 7 sites about maps), computed by the interpreter on the probe programs *)
Theorem matrix : forall m s, probe_result m s = documented m s.
Proof. exact matrix_proof. Qed.

(* the matrix site by site, for every operand rather than the probes *)
Theorem matrix_sites :
  (forall m v, emit_check m v = Err E_UndefinedError <-> (u_strictish m = true /\ v = VUndef)) /\
  (forall m, iter_items m VUndef = if u_strictish m then Err E_UndefinedError else Ok []) /\
  (forall m, u_is_true m VUndef = match m with Strict => Err E_UndefinedError | _ => Ok false end) /\
  (forall m v, v <> VUndef -> u_is_true m v = Ok (truthy v)) /\
  (forall m, u_handle_undefined m true = match m with Chainable => Ok VUndef | _ => Err E_UndefinedError end) /\
  (forall m, u_handle_undefined m false = Ok VUndef) /\
  (forall v, exists b, do_test T_defined v = Ok b) /\
  (forall v, exists b, do_test T_undefined v = Ok b) /\
  (forall m esc v args, exists r, do_filter m esc F_default v args = Ok r).
Proof.
  repeat match goal with |- _ /\ _ => split end.
  - intros m v. unfold emit_check. split.
    + destruct m, v; cbn; intros H; try discriminate H; auto.
    + intros [H1 H2]. subst v. destruct m; cbn in *; try discriminate; reflexivity.
  - exact iterate_site_proof.
  - exact truth_site_proof.
  - intros m v H. apply truth_defined_proof. destruct v; try reflexivity. congruence.
  - exact access_site_proof.
  - exact access_defined_parent_proof.
  - exact do_test_total_defined.
  - exact do_test_total_undefined.
  - exact do_filter_default_total.
Qed.

(* maps and unpacking, for every operand: a key the map has is its value and a key it does not have is an
   undefined, in every mode; `m.a` is `m["a"]`; access on an undefined is the access site of the matrix;
   iterating a map and `in` on a map consult no mode (given a defined left operand - an undefined one is
   u_not_undef's business), `in` on an undefined container fails exactly under the two strict modes;
   unpacking takes no mode at all ([bind_target]) and refuses an undefined with the same error everywhere *)
Theorem map_sites :
  (forall m kvs k v, map_get k kvs = Some v -> item_result m (VMap kvs) k = Ok v) /\
  (forall m kvs k, map_get k kvs = None -> item_result m (VMap kvs) k = Ok VUndef) /\
  (forall m kvs a, attr_result m (VMap kvs) a = item_result m (VMap kvs) (VStr false (attr_str a))) /\
  (forall m x k, is_undef x = true -> item_result m x k = u_handle_undefined m true) /\
  (forall m x a, is_undef x = true -> attr_result m x a = u_handle_undefined m true) /\
  (forall m kvs, iter_items m (VMap kvs) = Ok (map fst kvs)) /\
  (forall m a kvs, a <> VUndef ->
     do_cmp m CIn a (VMap kvs) = Ok (match map_get a kvs with Some _ => true | None => false end)) /\
  (forall m a, do_cmp m CIn a VUndef = if u_strictish m then Err E_UndefinedError else Ok false) /\
  (forall x y s v, is_undef v = true -> bind_target (TPair x y) s v = Err E_CannotUnpack).
Proof.
  repeat match goal with |- _ /\ _ => split end.
  - exact map_item_found_proof.
  - exact map_item_missing_proof.
  - exact map_attr_is_item_proof.
  - exact item_of_undef_proof.
  - exact attr_of_undef_proof.
  - exact iter_map_proof.
  - exact in_map_proof.
  - exact in_undef_proof.
  - exact unpack_undef_proof.
Qed.

(* non-vacuity: a template with undefined references that renders under Strict (and therefore under
   all four modes), and the order is strict: `{{ u }}` separates SemiStrict from Lenient, `{% if u %}`
   separates Strict from SemiStrict, `{{ u.a }}` separates Lenient from Chainable *)
Example run_monotone_witness :
  (exists s, Interp.run (mkCfg Strict [(102, VInt 3)] false) 30
     [SEmit (ETest T_defined (EVar U) [] false); SEmit (EFilter F_default (EVar U) [EVar 102]);
      SIf [(ETest T_undefined (EVar U) [] false, [SRaw [33]])] None] = Ok s
     /\ output_of s = str_false ++ [51; 33]) /\
  probe_result SemiStrict PrintSite <> probe_result Lenient PrintSite /\
  probe_result Strict TruthSite <> probe_result SemiStrict TruthSite /\
  probe_result Lenient AttrSite <> probe_result Chainable AttrSite.
Proof. split; [eexists; split; vm_compute; reflexivity|]. repeat split; vm_compute; discriminate. Qed.

Print Assumptions weaker_is_total_order.
Print Assumptions site_monotone.
Print Assumptions emit_uses_emit_check.
Print Assumptions access_uses_access_result.
Print Assumptions for_uses_iter_items.
Print Assumptions access_site_monotone.
Print Assumptions eval_monotone.
Print Assumptions exec_list_monotone.
Print Assumptions run_monotone_state.
Print Assumptions run_monotone.
Print Assumptions stricter_only_adds_errors.
Print Assumptions matrix.
Print Assumptions matrix_sites.
Print Assumptions map_sites.
