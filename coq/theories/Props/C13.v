(* C13 -- Fuel gives every render a fixed, exact success threshold.
   Only statements here; proofs live in MJ.C13.Proofs.
   Budgets: every B >= 0 (all of u64 and beyond); instruction costs: any non-negative numbers
   (the code's are 0 or 1); renders: ANY deterministic step system. *)
From MJ Require Import Common.Base C13.GenFuelTable C13.Model C13.Spec C13.Proofs.

(* An observer that can only abort: the watched run is the free run cut by the observer folded
   over the free run's trace -- same steps, same result unless the observer refuses. *)
Theorem monitor_prefix : forall (St E M R : Type) (next : St -> (E * St) + R) (obs : M -> E -> M * bool)
    gas s m es r,
  free next gas s = (es, r) ->
  mon next obs gas s m =
    (let '(pre, m', ok) := watch obs m es in
     (pre, if ok then option_map (fun x => Done x m') r else Some (Aborted m'))).
Proof. exact @monitor_prefix_proof. Qed.

(* ... the executed part is a prefix of the free trace, and the abort happens exactly at the
   first step the observer refuses. *)
Theorem watch_first_refusal : forall (E M : Type) (obs : M -> E -> M * bool) es m pre m' ok,
  watch obs m es = (pre, m', ok) ->
  pre = firstn (length pre) es /\
  (forall i e, nth_error pre i = Some e -> snd (obs (obs_after obs m (firstn i pre)) e) = true) /\
  (if ok then pre = es /\ m' = obs_after obs m es
   else exists e, nth_error es (length pre) = Some e /\ obs (obs_after obs m pre) e = (m', false)).
Proof. exact @watch_first_refusal_proof. Qed.

(* The threshold.  For a render whose unlimited run executes instructions of costs [es] and ends
   with result r (an output or an error), and EVERY budget B: at or above threshold(total es) the
   render executes the same instructions and ends with the same r, with c consumed and B - c
   remaining; below it, it is aborted (ErrorKind::OutOfFuel), never anything else. *)
Theorem fuel_threshold : forall (St R : Type) (next : St -> (Z * St) + R) gas s es r B,
  free next gas s = (es, Some r) -> Forall nonneg es -> 0 <= B ->
  let c := total es in
  exists pre, render_with_fuel next gas s B =
    (pre, Some (if threshold c <=? B then Done r (mk_tracker B (B - c)) else Aborted (mk_tracker B 0)))
    /\ (threshold c <= B -> pre = es).
Proof. exact fuel_threshold_proof. Qed.

(* The property's own wording: there is one threshold per render. *)
Theorem fuel_threshold_exists : forall (St R : Type) (next : St -> (Z * St) + R) gas s es r,
  free next gas s = (es, Some r) -> Forall nonneg es ->
  exists T, forall B, 0 <= B ->
    (T <= B -> exists t, render_with_fuel next gas s B = (es, Some (Done r t))) /\
    (B < T -> exists pre t, render_with_fuel next gas s B = (pre, Some (Aborted t))).
Proof.
  intros St R next gas s es r F Hn. exists (threshold (total es)). intros B HB.
  destruct (fuel_threshold_proof St R next gas s es r B F Hn HB) as (pre & E & P). cbn zeta in *.
  destruct (threshold (total es) <=? B) eqn:T; split; intros H; try lia.
  - rewrite <- (P H). eexists. exact E.
  - eexists. eexists. exact E.
Qed.

(* Consumed and remaining add up to the budget in every state the tracker can be in (also after
   it has run out). *)
Theorem levels_add_up : forall B t, 0 <= B -> reachable B t ->
  fst (fuel_levels t) + snd (fuel_levels t) = B /\ 0 <= fst (fuel_levels t) /\ 0 <= snd (fuel_levels t).
Proof. exact levels_add_up_proof. Qed.

(* ... and every tracker state of a render is such a state. *)
Theorem render_states_reachable : forall B costs t pre t' ok, Forall nonneg costs -> reachable B t ->
  watch track t costs = (pre, t', ok) -> reachable B t'.
Proof. exact watch_reachable. Qed.

(* Same render, same budget: same steps and same result, whatever the model's gas. *)
Theorem fuel_deterministic : forall (St R : Type) (next : St -> (Z * St) + R) g1 g2 s B p1 r1 p2 r2,
  render_with_fuel next g1 s B = (p1, Some r1) -> render_with_fuel next g2 s B = (p2, Some r2) ->
  p1 = p2 /\ r1 = r2.
Proof. intros St R next g1 g2 s B. exact (mon_gas_indep next track g1 g2 s (new B)). Qed.

(* Nested evaluations draw from the one counter: however the executed instructions are split into
   streams (template, macros, includes, blocks), success depends on the sum of their costs. *)
Theorem fuel_accumulates : forall (streams : list (list Z)) B, Forall (Forall nonneg) streams -> 0 <= B ->
  snd (watch track (new B) (concat streams)) = (threshold (fold_right Z.add 0 (map total streams)) <=? B).
Proof. exact fuel_accumulates_proof. Qed.

(* What the correspondence check runs: instruction costs interleaved with fuel_levels readers.
   Verdict, final levels and every reading are the specification's. *)
Theorem exec_matches_spec : forall evs B, 0 <= B -> Forall nonneg (costs_of evs) ->
  let c := total (costs_of evs) in
  exists t, exec (new B) evs = (t, threshold c <=? B, spec_probe_list B (probe_accs 0 evs)) /\
            (threshold c <= B -> fuel_levels t = spec_levels c B).
Proof. exact exec_matches_spec_proof. Qed.

(* One State, many evaluations (render_captured, then call_macro / render_block ... on its state):
   after any history of evaluations - failed ones included - the levels still add up to the budget. *)
Theorem history_levels_add_up : forall B ops, 0 <= B -> Forall (Forall nonneg) ops ->
  let t := run_ops (new B) ops in
  fst (fuel_levels t) + snd (fuel_levels t) = B /\ 0 <= fst (fuel_levels t) /\ 0 <= snd (fuel_levels t).
Proof. intros B ops HB Hn. exact (levels_add_up_proof B _ HB (run_ops_reachable B ops (new B) Hn (reach_new B))). Qed.

(* Once the tank is empty it stays empty: every further evaluation that charges anything fails, one
   that charges nothing succeeds, and the tracker - hence the reported levels (budget, 0) - does not move. *)
Theorem exhausted_pinned : forall costs t pre t' ok, remaining t = 0 -> Forall nonneg costs ->
  watch track t costs = (pre, t', ok) -> t' = t /\ ok = (total costs =? 0).
Proof. exact exhausted_pinned_proof. Qed.

(* Consumption never decreases along a history: remaining only goes down, the budget is kept. *)
Theorem remaining_monotone : forall costs t pre t' ok, 0 <= remaining t -> Forall nonneg costs ->
  watch track t costs = (pre, t', ok) -> initial t' = initial t /\ 0 <= remaining t' <= remaining t.
Proof. exact remaining_decreases. Qed.

(* The real cost function (the table generated from vm/fuel.rs::fuel_for_instruction): for every
   executed trace of real opcodes, the tracker over the trace's costs succeeds exactly for the
   budgets at or above threshold(sum of the table over the trace) and then reports (c, B - c). *)
Theorem trace_threshold : forall ops costs B, stream_costs ops = Some costs -> 0 <= B ->
  let c := total costs in
  exists pre, watch track (new B) costs =
    (pre, mk_tracker B (if threshold c <=? B then B - c else 0), threshold c <=? B).
Proof. exact trace_threshold_proof. Qed.

(* every opcode of the table costs a non-negative amount, every trace of opcodes has costs *)
Theorem trace_costs_defined : forall ops costs, stream_costs ops = Some costs ->
  Forall nonneg costs /\ length costs = length ops.
Proof. intros ops costs H. split; [exact (stream_costs_nonneg ops costs H)|exact (stream_costs_length ops costs H)]. Qed.

(* non-vacuity: a concrete step system (state = costs still to execute, result 42) *)
Definition demo_next (l : list Z) : (Z * list Z) + Z :=
  match l with [] => inr 42 | c :: r => inl (c, r) end.
Example fuel_threshold_witness :
  free demo_next 10 [1; 0; 1] = ([1; 0; 1], Some 42) /\
  render_with_fuel demo_next 10 [1; 0; 1] 3 = ([1; 0; 1], Some (Done 42 (mk_tracker 3 1))) /\
  render_with_fuel demo_next 10 [1; 0; 1] 2 = ([1; 0], Some (Aborted (mk_tracker 2 0))) /\
  render_with_fuel demo_next 10 [1; 0; 1] (2 ^ 64 - 1) = ([1; 0; 1], Some (Done 42 (mk_tracker (2 ^ 64 - 1) (2 ^ 64 - 3)))) /\
  render_with_fuel demo_next 10 [0; 0] 0 = ([0; 0], Some (Done 42 (mk_tracker 0 0))) /\
  exec (new 3) [Instr 1; Probe; Instr 1; Probe; Instr 1] = (mk_tracker 3 0, false, [(1, 2); (2, 1)]) /\
  (* every opcode of the generated table, once: the table is a function of the opcode *)
  stream_costs (map fst fuel_table) = Some (map snd fuel_table).
Proof. vm_compute. repeat split. Qed.

Print Assumptions monitor_prefix.
Print Assumptions watch_first_refusal.
Print Assumptions fuel_threshold.
Print Assumptions fuel_threshold_exists.
Print Assumptions levels_add_up.
Print Assumptions render_states_reachable.
Print Assumptions fuel_deterministic.
Print Assumptions fuel_accumulates.
Print Assumptions exec_matches_spec.
Print Assumptions history_levels_add_up.
Print Assumptions exhausted_pinned.
Print Assumptions remaining_monotone.
Print Assumptions trace_threshold.
Print Assumptions trace_costs_defined.
