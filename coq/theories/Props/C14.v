(* C14 -- Errors point at the right template line; reported ranges are valid slices.
   Only statements here; proofs live in MJ.C14.Proofs.

   Vocabulary (C14/Model.v, C14/Spec.v, C14/Proofs.v):
     tok_loop v fuel l s     the tokenizer (scanner + interpreter of advance/loc/span/syntax_error) run
                             from interpreter state s and lexer state l; V1 = the code after the fix: commits
     init_ist p src          the state at position p in front of the text src;  pos0 = line 1, column 0, offset 0
     on_boundaries src sp    0 <= start <= end <= |src| in bytes, both offsets are the byte length of a prefix of
                             src (whole characters), and Spec.valid_slice (= str::get(a..b).is_some()) holds
     line_counts src sp      start/end line = min(65535, 1 + line feeds in the consumed prefix) = Spec.line_at
     ordered sp              start <= end as offsets and as (line, column) pairs
     lines_fit src           src has at most 65 535 lines
     build ops               the Instructions tables after the add / add_with_line / add_with_span calls ops
     line_of_ops/span_of_ops the location given by the last located emission among instructions 0..idx (Spec) *)
From MJ Require Import Common.Base C14.Model C14.Spec C14.Proofs.

(* 1. Every span the tokenizer produces, and the range of every lexer error, is a valid slice on
      character boundaries - for every text, every lexer state, any amount of fuel. *)
Theorem offsets_on_boundaries : forall fuel l src,
  match tok_loop V1 fuel l (init_ist pos0 src) with
  | TDone s => all_spans (on_boundaries src) s
  | TErr s e => all_spans (on_boundaries src) s /\ on_boundaries src e
  | _ => True
  end.
Proof. exact offsets_on_boundaries_proof. Qed.

(* ... for any script of the four position primitives (any scanner, any syntax configuration) ... *)
Theorem interp_offsets_on_boundaries : forall ops src,
  match run_ops V1 ops (init_ist pos0 src) with
  | IOk s => all_spans (on_boundaries src) s
  | IErr s e => all_spans (on_boundaries src) s /\ on_boundaries src e
  | IPanic => True
  end.
Proof. exact interp_offsets_on_boundaries_proof. Qed.

(* ... and, for Tokenizer::new + the loop, against the *unstripped* template source that
   Error::range() is used with. *)
Theorem tokenize_valid_slices : forall keep src,
  match tokenize V1 keep src with
  | TDone s => all_spans (on_boundaries src) s
  | TErr s e => all_spans (on_boundaries src) s /\ on_boundaries src e
  | _ => True
  end.
Proof. exact tokenize_valid_slices_proof. Qed.

(* 2. Lines are 1 + the number of line feeds consumed (saturating at 65 535): for every span, for
      the tokenizer's current line, and for the line / start of a lexer error. *)
Theorem line_is_newline_count : forall fuel l src,
  match tok_loop V1 fuel l (init_ist pos0 src) with
  | TDone s => all_spans (line_counts src) s /\
               exists pre, src = pre ++ i_rest s /\ p_line (i_pos s) = Z.min u16_max (1 + count_nl pre)
  | TErr s e => all_spans (line_counts src) s /\
               exists pre, src = pre ++ i_rest s /\ p_line (i_pos s) = Z.min u16_max (1 + count_nl pre) /\
                           s_sl e = p_line (i_pos s) /\ s_so e = bytes pre
  | _ => True
  end.
Proof. exact line_is_newline_count_proof. Qed.

(* 3. N complete lines L above: consuming L leaves the tokenizer at (advance pos0 L, src), and from
      there it produces what it produces on src alone with every line + N and every offset + |L|
      (columns unchanged), same tokens, same error or success; total lines <= 65 535.  Both code
      variants. *)
Theorem shift_equivariant : forall v fuel l L n src,
  complete_lines L n -> 1 + n + count_nl src <= u16_max ->
  adv_n (length L) pos0 (L ++ src) = Some (advance pos0 L, src) /\
  tok_loop v fuel l (init_ist (advance pos0 L) src) =
    shift_tres n (bytes L) (tok_loop v fuel l (init_ist pos0 src)).
Proof. exact shift_equivariant_proof. Qed.

(* ... and from scratch, for any script: consuming the N lines, taking a location and running the script
   over L ++ src gives the result over src shifted (the text token that contains L itself starts at
   offset 0 and is not covered: for the tokenizer as a whole this part rests on the correspondence
   and on the N-shift oracle of the check). *)
Theorem shift_equivariant_script : forall v L n src ops,
  complete_lines L n -> 1 + n + count_nl src <= u16_max ->
  run_ops v (Adv (length L) :: Mark :: ops) (init_ist pos0 (L ++ src)) =
    shift_ires n (bytes L) (run_ops v (Mark :: ops) (init_ist pos0 src)).
Proof. exact shift_script_proof. Qed.

(* 4. The side tables: for every sequence of add_* calls and every index (also beyond the end), the
      binary-search lookup returns the record with the greatest first_instruction <= idx ... *)
Theorem get_line_correct : forall ops idx,
  let t := build ops in
  match get_line t idx with
  | Some ln => exists r, In r (line_infos t) /\ li_line r = ln /\ li_first r <= idx /\
                         forall r', In r' (line_infos t) -> li_first r' <= idx -> li_first r' <= li_first r
  | None => forall r, In r (line_infos t) -> idx < li_first r
  end.
Proof. exact get_line_correct_proof. Qed.

Theorem get_span_correct : forall ops idx,
  let t := build ops in
  match get_span t idx with
  | Some sp => sp <> span_default /\
               exists r, In r (span_infos t) /\ si_span r = sp /\ si_first r <= idx /\
                         forall r', In r' (span_infos t) -> si_first r' <= idx -> si_first r' <= si_first r
  | None => (forall r, In r (span_infos t) -> idx < si_first r) \/
            exists r, In r (span_infos t) /\ si_span r = span_default /\ si_first r <= idx /\
                      forall r', In r' (span_infos t) -> si_first r' <= idx -> si_first r' <= si_first r
  end.
Proof. exact get_span_correct_proof. Qed.

(* ... which is the location in force for that instruction (the compression of equal neighbours
   and the "clear the span" records are transparent). *)
Theorem get_line_semantic : forall ops idx, get_line (build ops) idx = line_of_ops ops idx.
Proof. exact get_line_semantic_proof. Qed.

Theorem get_span_semantic : forall ops idx, get_span (build ops) idx = span_of_ops ops idx.
Proof. exact get_span_semantic_proof. Qed.

(* 5. Spans are ordered, so the caret line of the debug rendering cannot underflow: tokenizer
      spans and lexer errors, spans combined by expand_span; and the (fixed) caret arithmetic is
      total for any span whatsoever. *)
Theorem span_ordered : forall fuel l src, lines_fit src ->
  match tok_loop V1 fuel l (init_ist pos0 src) with
  | TDone s => all_spans ordered s
  | TErr s e => all_spans ordered s /\ ordered e
  | _ => True
  end.
Proof. exact span_ordered_proof. Qed.

Theorem expand_span_ordered : forall src last sp,
  lines_fit src -> span_good src last -> span_good src sp ->
  ordered (expand_span V1 last sp) /\ exists n, caret_count V1 (expand_span V1 last sp) = Ok n /\ 0 <= n.
Proof. exact expand_span_ordered_proof. Qed.

Theorem caret_count_total : forall sp, exists n, caret_count V1 sp = Ok n /\ 0 <= n.
Proof. exact caret_count_v1_total. Qed.

(* ---- the code as it was shipped (V0) violates 1 and 5: concrete inputs ---- *)
(* `{{ 'abc` : range 7..8 of a 7-byte source *)
Example offsets_on_boundaries_refuted_eoi :
  match tokenize V0 false [123; 123; 32; 39; 97; 98; 99] with
  | TErr _ e => (s_so e, s_eo e) = (7, 8) /\ valid_slice [123; 123; 32; 39; 97; 98; 99] (s_so e) (s_eo e) = false
  | _ => False
  end.
Proof. vm_compute. split; reflexivity. Qed.

(* `{{ € }}` : range 3..4 ends inside the three bytes of U+20AC *)
Example offsets_on_boundaries_refuted_multibyte :
  match tokenize V0 false [123; 123; 32; 8364; 32; 125; 125] with
  | TErr _ e => (s_so e, s_eo e) = (3, 4) /\ valid_slice [123; 123; 32; 8364; 32; 125; 125] (s_so e) (s_eo e) = false
  | _ => False
  end.
Proof. vm_compute. split; reflexivity. Qed.

(* a lexer error at column 65 535: the unchecked `end_col += 1` *)
Example syntax_error_refuted_column :
  syntax_error V0 (mkpos 1 65535 70000) [8364] = None /\
  exists e, syntax_error V1 (mkpos 1 65535 70000) [8364] = Some e /\ (s_sc e, s_ec e, s_so e, s_eo e) = (65535, 65535, 70000, 70003).
Proof. split; [reflexivity|]. eexists; split; reflexivity. Qed.

(* `{% for in seq %}`: the empty target's span starts at the look-ahead `in` (7..9) and is
   "expanded" to the end of `for` (..6): reversed, and the caret arithmetic traps *)
Example span_ordered_refuted :
  let last := mkspan 1 3 3 1 6 6 in
  let sp := mkspan 1 7 7 1 9 9 in
  (s_so (expand_span V0 last sp), s_eo (expand_span V0 last sp)) = (7, 6) /\
  caret_count V0 (expand_span V0 last sp) = Panic /\
  expand_span V1 last sp = mkspan 1 7 7 1 7 7 /\ caret_count V1 (expand_span V1 last sp) = Ok 0.
Proof. vm_compute. repeat split. Qed.

(* ---- non-vacuity: a non-trivial instance of the hypotheses and conclusions ---- *)
(* "é\n{{ x }}" + an unexpected `€` two lines below a 2-line prefix; tables with 5 emissions *)
Example c14_witness :
  (match tokenize V1 false [233; 10; 123; 123; 32; 120; 32; 125; 125; 10; 123; 123; 32; 8364] with
   | TErr s e => List.length (i_out s) = 6%nat /\ (s_sl e, s_so e, s_eo e) = (3, 14, 17)
   | _ => False
   end) /\
  complete_lines [112; 10; 8364; 10] 2 /\
  get_line (build [OLine 1; OAdd; OSpan (mkspan 3 0 9 3 4 13); OAdd; OLine 3]) 3 = Some 3 /\
  get_span (build [OLine 1; OAdd; OSpan (mkspan 3 0 9 3 4 13); OAdd; OLine 3]) 3 = Some (mkspan 3 0 9 3 4 13) /\
  get_span (build [OLine 1; OAdd; OSpan (mkspan 3 0 9 3 4 13); OAdd; OLine 3]) 4 = None.
Proof.
  split; [vm_compute; split; reflexivity|]. split.
  - split; [reflexivity|]. right. exists [112; 10; 8364]. reflexivity.
  - vm_compute. repeat split.
Qed.

Print Assumptions offsets_on_boundaries.
Print Assumptions interp_offsets_on_boundaries.
Print Assumptions tokenize_valid_slices.
Print Assumptions line_is_newline_count.
Print Assumptions shift_equivariant.
Print Assumptions shift_equivariant_script.
Print Assumptions get_line_correct.
Print Assumptions get_span_correct.
Print Assumptions get_line_semantic.
Print Assumptions get_span_semantic.
Print Assumptions span_ordered.
Print Assumptions expand_span_ordered.
Print Assumptions caret_count_total.
