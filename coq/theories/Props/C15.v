(* C15 -- An environment's behaviour depends on its contents, not on its history.
   Only statements here; proofs live in MJ.C15.Proofs.

   Throughout: [tmpl] is any type of compiled templates, [render rc t regs] any function of the render call (which
   context is passed, whether the output goes to a String or to a failing writer, on which thread), the
   compiled template and the registries, [compile] any function from sources to
   "compiled template or error", [loader l now n] any function giving what loader closure [l] answers
   for name [n] at world time [now] (so loaders may change their answers over time), [builtin] any
   built-in registries and [render] any function of a compiled template and the registries that
   consults the registries by lookup only ([render_ext]).  Nothing else is assumed about them.
   The model ([store_step], [world_step], evict_first = false) is loader.rs / environment.rs with
   the fix "compile before evicting"; the specification ([spec_step], [sworld_step]) acts on contents
   only: name -> (configuration when added/loaded, source), the current loader, the current
   configuration, and name -> function for each registry. *)
From MJ Require Import Common.Base C15.Vocab C15.Model C15.Spec C15.Proofs C15.Runner.

(* For every finite history of {add (borrowed), add (owned), remove, clear, set_loader, get at any
   time}: the store's contents (borrowed tier over owned/memo tier, sources only) are exactly what
   the specification computes, and every result returned on the way (add errors, templates or
   errors returned by get) is the specification's. *)
Theorem store_refines_map : forall tmpl compile loader (h : list sop),
  sim (abs tmpl (final tmpl compile loader h)) (fst (spec_run tmpl compile loader contents_new h)) /\
  snd (store_run tmpl compile loader false (store_new tmpl) h) = snd (spec_run tmpl compile loader contents_new h).
Proof. exact store_refines_map_proof. Qed.

(* After any history, a lookup returns the compilation of the source the contents hold for the name
   (or of what the current loader answers now, if they hold none) - never a stale compiled template. *)
Theorem get_is_lookup : forall tmpl compile loader (h : list sop) n now,
  snd (get tmpl compile loader (final tmpl compile loader h) n now) =
  snd (spec_get tmpl compile loader (abs tmpl (final tmpl compile loader h)) n now).
Proof. exact get_is_lookup_proof. Qed.

(* Two histories that end with the same contents are indistinguishable by any continuation. *)
Theorem history_independent : forall tmpl compile loader (h1 h2 : list sop),
  sim (abs tmpl (final tmpl compile loader h1)) (abs tmpl (final tmpl compile loader h2)) ->
  forall h, snd (store_run tmpl compile loader false (final tmpl compile loader h1) h) =
            snd (store_run tmpl compile loader false (final tmpl compile loader h2) h).
Proof. exact history_independent_proof. Qed.

(* An addition that fails to compile returns the error and leaves the store literally unchanged
   (any store, both flavours of add). *)
Theorem failed_add_is_noop : forall tmpl compile loader (s : store tmpl) n x e,
  compile (MTemplate (cfg _ s)) x = CErr e ->
  store_step tmpl compile loader false s (OAddBorrowed n x) = (s, SAdd (Some e)) /\
  store_step tmpl compile loader false s (OAddOwned n x) = (s, SAdd (Some e)).
Proof. exact failed_add_is_noop_proof. Qed.

(* A loader-backed template keeps the source it had when first requested: once [get n] obtained a
   compiling source from the loader, every later [get n] - at any later time, after set_loader, after
   operations on other names - returns that same compiled template, as long as the history in between
   neither adds nor removes [n] nor clears the templates. *)
Theorem loader_source_pinned : forall tmpl compile loader (h : list sop) n now l x t,
  tpl (abs tmpl (final tmpl compile loader h)) n = None ->
  ldr _ (final tmpl compile loader h) = Some l -> loader l now n = LFound x ->
  compile (MTemplate (cfg _ (final tmpl compile loader h))) x = COk t ->
  snd (get tmpl compile loader (final tmpl compile loader h) n now) = GOk t /\
  forall h', forallb (fun o => negb (touches n o)) h' = true ->
  forall now',
    snd (get tmpl compile loader
           (fst (store_run tmpl compile loader false (fst (get tmpl compile loader (final tmpl compile loader h) n now)) h'))
           n now') = GOk t.
Proof. exact loader_source_pinned_proof. Qed.

(* Whole environments (templates + filters/tests/globals behind copy-on-write Arcs, one of them
   shared process-wide with every new environment; current and other environment after clone):
   every operation of every history returns what the specification returns, and after the history
   every name renders, at every time, exactly as the specification's contents render - in the
   current environment and in the other one. *)
Theorem world_refines_spec : forall tmpl compile loader builtin render,
  (forall rc t f g, (forall k nm, f k nm = g k nm) -> render rc t f = render rc t g) ->
  forall h : list wop,
  snd (world_run tmpl compile loader false render (wnew tmpl builtin) h) =
  snd (sworld_run tmpl compile loader render (snew builtin) h) /\
  obs_agree tmpl compile loader render
    (wfinal tmpl compile loader builtin render h) (sfinal tmpl compile loader builtin render h).
Proof. exact world_refines_spec_proof. Qed.

(* Clone isolation: no operation on the current environment (templates, loader, registries, renders)
   changes what any name renders in the other environment - whichever of clone/original that is. *)
Theorem clone_isolated : forall tmpl compile loader builtin render,
  (forall rc t f g, (forall k nm, f k nm = g k nm) -> render rc t f = render rc t g) ->
  forall (h : list wop) o, rebinds o = false ->
  let w := wfinal tmpl compile loader builtin render h in
  let w' := fst (world_step tmpl compile loader false render w o) in
  match other _ w, other _ w' with
  | Some e, Some e' =>
      forall rc n now, observe tmpl compile loader render (hp _ w') e' rc n now = observe tmpl compile loader render (hp _ w) e rc n now
  | None, None => True
  | _, _ => False
  end.
Proof. exact clone_isolated_proof. Qed.

(* History independence of whole environments: two histories after which the environments hold the
   same templates, loader and registry contents give the same results for every continuation. *)
Theorem env_history_independent : forall tmpl compile loader builtin render,
  (forall rc t f g, (forall k nm, f k nm = g k nm) -> render rc t f = render rc t g) ->
  forall h1 h2 : list wop,
  world_same tmpl (wfinal tmpl compile loader builtin render h1) (wfinal tmpl compile loader builtin render h2) ->
  forall h, snd (world_run tmpl compile loader false render (wfinal tmpl compile loader builtin render h1) h) =
            snd (world_run tmpl compile loader false render (wfinal tmpl compile loader builtin render h2) h).
Proof. exact env_history_independent_proof. Qed.

(* The defect of the unchanged tree, on the model of the code as it was (evict_first = true):
   after an owned template 7 exists, a failing add_template(7, bad) makes it disappear; and the
   symmetric case.  With the fix (false) the template is still there. *)
Theorem failed_add_evicts_before_fix :
  let run old := fst (store_run Z demo_compile demo_loader old (store_new Z) [OAddOwned 7 1; OAddBorrowed 7 0]) in
  snd (get Z demo_compile demo_loader (run true) 7 0) = GErr E_TemplateNotFound /\
  snd (get Z demo_compile demo_loader (run false) 7 0) = GOk 1.
Proof. exact failed_add_evicts_before_fix_proof. Qed.
Theorem failed_add_evicts_before_fix_sym :
  let run old := fst (store_run Z demo_compile demo_loader old (store_new Z) [OAddBorrowed 7 1; OAddOwned 7 0]) in
  snd (get Z demo_compile demo_loader (run true) 7 0) = GErr E_TemplateNotFound /\
  snd (get Z demo_compile demo_loader (run false) 7 0) = GOk 1.
Proof. exact failed_add_evicts_before_fix_sym_proof. Qed.

(* Ad-hoc entry points - render_named_str, render_str, template_from_named_str, template_from_str,
   compile_expression(_owned), undeclared-variables analysis - given ANY name (also one that is stored or
   that the loader serves) and ANY source: the world (templates, loader memo, registries, both
   environments) is left exactly as it was, so the rest of any history runs as if the operation had not
   happened, and the result is the source compiled under the CURRENT configuration and rendered against
   the current registries (no stored compilation is reused, the loader is not asked). *)
Theorem adhoc_is_noop : forall tmpl compile loader render (w : world tmpl) how n x h,
  (fst (world_step tmpl compile loader false render w (WAdhoc how n x)) = w) /\
  (fst (world_run tmpl compile loader false render w (WAdhoc how n x :: h)) = fst (world_run tmpl compile loader false render w h)) /\
  (snd (world_run tmpl compile loader false render w (WAdhoc how n x :: h)) =
     (snd (world_step tmpl compile loader false render w (WAdhoc how n x)) :: snd (world_run tmpl compile loader false render w h))) /\
  (snd (world_step tmpl compile loader false render w (WAdhoc how n x)) =
     (match compile (adhoc_mode how (cfg _ (st _ (cur _ w)))) x with
      | COk t => render 0 t (regs_of tmpl (hp _ w) (cur _ w))
      | CErr c => o_err c
      end)).
Proof. exact adhoc_is_noop_proof. Qed.

(* A render leaves no trace.  Whatever is rendered - any stored or loader-served name, any ad-hoc source,
   with any context, into a String or into a failing writer, on this or another thread, successfully or
   failing at compile time, at run time, in the sink or in the caller's Serialize impl - every name the
   environment holds renders afterwards, in every context and on every sink, exactly as before.
   (A name it does not hold yet may be pinned by its first request: loader_source_pinned.)
   With world_refines_spec (every render's result is a function of call, template and registries) this is
   "renders do not influence each other" for the modelled state; that the ENGINE keeps no other state
   (thread-locals, bookkeeping inside shared compiled templates or shared values) is what the
   correspondence tests. *)
Theorem render_leaves_no_trace : forall tmpl compile loader builtin render,
  (forall rc t f g, (forall k nm, f k nm = g k nm) -> render rc t f = render rc t g) ->
  forall (h : list wop) o, is_render o = true ->
  forall rc n now kx,
  let w := wfinal tmpl compile loader builtin render h in
  let w' := fst (world_step tmpl compile loader false render w o) in
  tpl (abs tmpl (st _ (cur _ w))) n = Some kx ->
  observe tmpl compile loader render (hp _ w') (cur _ w') rc n now =
  observe tmpl compile loader render (hp _ w) (cur _ w) rc n now.
Proof. exact render_leaves_no_trace_proof. Qed.

(* ... and after any history that result is the specification's: a function of the contents only. *)
Theorem adhoc_result : forall tmpl compile loader builtin render,
  (forall rc t f g, (forall k nm, f k nm = g k nm) -> render rc t f = render rc t g) ->
  forall (h : list wop) how n x,
  snd (world_step tmpl compile loader false render (wfinal tmpl compile loader builtin render h) (WAdhoc how n x)) =
  snd (sworld_step tmpl compile loader render (sfinal tmpl compile loader builtin render h) (WAdhoc how n x)).
Proof. exact adhoc_result_proof. Qed.

(* non-vacuity: the concrete instance used by the correspondence run satisfies [render_ext]; the
   hypotheses of loader_source_pinned hold for a concrete history (loader 1 at time 0 gives name 1 the
   compiling source 32056; at time 1 it would give a different one), and two different histories reach
   the same contents *)
Example render_ext_instance : forall rc t f g, (forall k nm, f k nm = g k nm) -> c_render rc t f = c_render rc t g.
Proof. intros rc [m t] f g H. unfold c_render, c_base. rewrite !H. reflexivity. Qed.
Example loader_source_pinned_witness :
  let s := final ctmpl c_compile c_loader [OAddOwned 0 40; OSetLoader 1] in
  tpl (abs ctmpl s) 1 = None /\ ldr _ s = Some 1 /\ c_loader 1 0 1 = LFound 32056 /\ c_compile (MTemplate 0) 32056 = COk (0, 32056) /\
  c_loader 1 1 1 = LFound 32379.
Proof. vm_compute. repeat split. Qed.
Example history_independent_witness :
  sim (abs ctmpl (final ctmpl c_compile c_loader [OAddOwned 0 40; OAddBorrowed 0 17; OAddBorrowed 1 48; ORemove 1; OAddOwned 1 48]))
      (abs ctmpl (final ctmpl c_compile c_loader [OAddBorrowed 1 48; OAddOwned 0 40])).
Proof. split; [|split; reflexivity]. intros n. vm_compute. destruct n as [|[p|p|]|p]; try reflexivity; destruct p; reflexivity. Qed.

(* the configuration matters: the same source stored under configuration 0 and rendered ad hoc after
   set_trim_blocks(true) gives different outputs ("\n5" vs "5"), and the stored one keeps its own *)
Example adhoc_uses_current_config_witness :
  run [0; 4;  0; 0; 86;  22; 1; 0;  14; 0; 86;  8; 0; 0] =
      [2; 0;  5; 21; 1; 5; 1; 5; 1; 5;  0; 0; 0; 0; 0; 0; 0; 0; 0;
       2; 0;  5; 21; 1; 5; 1; 5; 1; 5;  0; 0; 0; 0; 0; 0; 0; 0; 0;
       0; 5;  5; 21; 1; 5; 1; 5; 1; 5;  0; 0; 0; 0; 0; 0; 0; 0; 0;
       5; 21; 5; 21; 1; 5; 1; 5; 1; 5;  0; 0; 0; 0; 0; 0; 0; 0; 0].
Proof. vm_compute. reflexivity. Qed.

Print Assumptions store_refines_map.
Print Assumptions get_is_lookup.
Print Assumptions history_independent.
Print Assumptions failed_add_is_noop.
Print Assumptions loader_source_pinned.
Print Assumptions world_refines_spec.
Print Assumptions clone_isolated.
Print Assumptions env_history_independent.
Print Assumptions adhoc_is_noop.
Print Assumptions adhoc_result.
Print Assumptions render_leaves_no_trace.
Print Assumptions failed_add_evicts_before_fix.
Print Assumptions failed_add_evicts_before_fix_sym.
