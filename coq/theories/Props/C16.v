(* C16 -- Values round-trip through Serde, and tojson emits valid, HTML-safe JSON.
   Only statements here; proofs live in MJ.C16.Proofs.  Model: MJ.C16.Model (ser / de / embed /
   json_postprocess / json_quote mirror serialize.rs, deserialize.rs, the handle registry of
   value/mod.rs, filters.rs::tojson and serde_json's string escaping); domain and JSON token
   grammar: MJ.C16.Spec. *)
From MJ Require Import Common.Base C16.Model C16.Spec C16.Proofs C16.PostLaws.

(* Serialising a serde value of a Rust type into a template value and deserialising it at the same
   type gives the value back: every type built from bool, integers of 8 to 128 bits, floats, char,
   String, bytes, Option of a payload that cannot itself be none, unit, unit/newtype/tuple structs,
   sequences, tuples, maps, structs and enums with unit, newtype, tuple and struct variants, at any
   nesting depth and any size. *)
Theorem roundtrip : forall t v,
  wf_sty t = true -> roundtrippable t = true -> has_type t v = true -> de t (ser v) = Some v.
Proof. exact roundtrip_proof. Qed.

(* The exclusions are the shapes serde cannot carry: Some(None), Some(()) come back as None.
   (128-bit integers used to be refused by the deserializer; since c8ac377 they are in the domain.) *)
Theorem roundtrip_domain_is_tight :
  de (TOption (TOption (TInt 64))) (ser (SSome SNone)) = Some SNone /\
  de (TOption TUnit) (ser (SSome SUnit)) = Some SNone.
Proof. exact option_option_not_carried. Qed.

(* A template value embedded in serialised data (safe string, undefined, dynamic object, anything)
   comes out of the handle registry as the very same value, whatever the registry held before and
   wherever the 32-bit handle counter stands (including at wrap-around) ... *)
Theorem handles_identity : forall last r v, fst (embed last r v) = v.
Proof. exact handles_identity_proof. Qed.

(* ... and an empty registry is empty again afterwards. *)
Theorem handles_no_leak : forall last v,
  snd (snd (embed last {| single := None; overflow := [] |} v)) = {| single := None; overflow := [] |}.
Proof. exact handles_no_leak_proof. Qed.

(* The text tojson returns contains none of < > & ' -- for every input text. *)
Theorem tojson_html_safe : forall s x, In x (json_postprocess s) -> is_html4 x = false.
Proof. exact tojson_html_safe_proof. Qed.

(* Post-processing preserves JSON: a text the token grammar accepts is still accepted afterwards,
   with the same tokens (same punctuation, same decoded string literals), hence the same value
   under any parser of the token sequence. *)
Theorem postprocess_preserves_json : forall s toks,
  json_tokens s = Some toks -> json_tokens (json_postprocess s) = Some toks.
Proof. exact postprocess_preserves_json_proof. Qed.

(* The reasons, stated on their own: the four characters are not JSON outside string literals and
   cannot follow a backslash; inside a literal the replacement decodes to the replaced character. *)
Theorem html4_only_in_literals : forall c r acc, is_html4 c = true ->
  lex false acc (c :: r) = None /\ lex true acc (92 :: c :: r) = None.
Proof. exact html4_only_in_literals_proof. Qed.

Theorem replacement_decodes : forall c acc r, is_html4 c = true ->
  lex true acc (post_char c ++ r) = lex true (c :: acc) r.
Proof. exact replacement_decodes_proof. Qed.

(* {{ s|tojson }} for a string s (any code points): one string literal that decodes to s, and
   HTML-safe.  PARTIAL with respect to "tojson always emits valid JSON that parses back to an equal
   value": only string values are covered by proof; that serde_json emits grammatical JSON for
   numbers, arrays and objects is third-party behaviour, observed by the check on every output with
   an independent parser. *)
Theorem tojson_valid_partial : forall s, Forall (fun c => 0 <= c) s ->
  json_tokens (tojson_str s) = Some [TLit s] /\ (forall x, In x (tojson_str s) -> is_html4 x = false).
Proof. exact tojson_str_valid_proof. Qed.

(* Re-entrancy of the handle mechanism.  [convert y st] is Value::from(Serde(y)) started in thread
   state st (flag INTERNAL_SERIALIZATION, handle counter, registry - all arbitrary), where the
   Serialize impls reached from y may embed template values, probe serializing_for_value(), convert
   other data into template values (result embedded, dropped, under catch_unwind, on another
   thread; nested to any depth), fail or panic, in struct fields, sequence items, map values and
   enum payloads.  The result is the stateless ideal of Spec.v (every embedded value identical,
   every probe true, nested conversions invisible), and the flag is left exactly as it was found:
   set when the conversion was itself nested, clear when it was outermost - also when it failed or
   unwound.  Hence any number of conversions in a row on one thread each behave ideally. *)
Theorem reentrancy_transparent : forall y st,
  fst (convert y st) = ideal_convert y /\ flag (snd (convert y st)) = flag st.
Proof. exact reentrancy_transparent_proof. Qed.

(* The registry is a map keyed by handle number, whatever else it holds: handles left behind by
   earlier conversions on the thread (a Value handed to a foreign serializer, #[serde(flatten)] on a
   Value, a conversion that failed or unwound between registration and redemption) stay where they
   are and are never handed out for another number.  Together with [handles_identity] (which is
   stated for EVERY registry state r): redemption is lookup by key. *)
Theorem registry_keyed : forall r h v h',
  reg_get (reg_insert r h v) h = Some v /\
  fst (reg_remove r h) = reg_get r h /\
  (h' <> h -> reg_get (reg_insert r h v) h' = reg_get r h' /\ reg_get (snd (reg_remove r h)) h' = reg_get r h').
Proof.
  intros r h v h'. split; [apply reg_get_insert_same|]. split; [apply reg_remove_get|].
  intro Hne. split; [apply reg_get_insert_other | apply reg_remove_other]; exact Hne.
Qed.

(* impl Serialize for Value, sequence arm, into serde_json: with the length hint the code passes
   (exact for sized objects, None for iterables that do not know their length) the emitted text is
   the array "[" e1 sep .. en "]", for every element list and either separator ... *)
Theorem seq_hint_wellformed : forall sep sized elems,
  json_array sep (seq_len_hint sized elems) elems = array_text sep elems.
Proof. exact seq_hint_wellformed_proof. Qed.

(* ... and that is the requirement: any hint that is absent or exact; a lower bound is not enough
   (hint 0 on [1, 2] gives "[], 1, 2]"). *)
Theorem json_array_wellformed : forall sep hint elems,
  hint = None \/ hint = Some (lenZ elems) -> json_array sep hint elems = array_text sep elems.
Proof. exact json_array_wellformed_proof. Qed.

Theorem zero_hint_breaks :
  json_array [44; 32] (Some 0) [[49]; [50]] = [91; 93; 44; 32; 49; 44; 32; 50; 93] /\
  json_tokens (json_array [44; 32] (Some 0) [[49]; [50]]) <> json_tokens (array_text [44; 32] [[49]; [50]]).
Proof. exact zero_hint_breaks_proof. Qed.

(* non-vacuity: a nested enum/struct/option/map value meets the hypotheses of [roundtrip]; a JSON
   text with the four characters inside a literal meets those of [postprocess_preserves_json] *)
Definition ex_shape : sty :=
  TEnum [ ([85], PUnit); ([78], PNew (TOption (TInt 64))); ([84], PTuple [TInt 8; TStr]);
          ([83], PStruct [([97], TSeq (TUInt 64)); ([98], TMap TStr (TOption TChar))]) ].
Definition ex_type : sty := TStruct [([120], TSeq ex_shape); ([121], TTuple [TF64; TBytes; TNewtype TBool])].
Definition ex_value : sval :=
  SStruct [([120], SSeq [SUnitVariant 0 [85]; SNewtypeVariant 1 [78] (SSome (SInt 64 (-9223372036854775808)));
                         SNewtypeVariant 1 [78] SNone; STupleVariant 2 [84] [SInt 8 (-128); SStr [60; 39]];
                         SStructVariant 3 [83] [([97], SSeq [SUInt 64 18446744073709551615]);
                                                ([98], SMap [(SStr [107], SSome (SChar 8232)); (SStr [], SNone)])]]);
           ([121], STuple [SF64 9221120237041090561; SBytes [0; 255]; SNewtypeStruct (SBool true)])].
Example roundtrip_witness :
  wf_sty ex_type = true /\ roundtrippable ex_type = true /\ has_type ex_type ex_value = true /\
  de ex_type (ser ex_value) = Some ex_value.
Proof. vm_compute. repeat split. Qed.

Example reentrancy_witness :
  let safe := VStr true [60; 98; 62] in
  let y := NStruct (NCons (NNested (NSeq (NCons (NEmb safe) (NCons NPanic NNil))))
                   (NCons (NEmb safe) NNil)) in
  let z := NStruct (NCons (NNestedCatch (NSeq (NCons (NEmb safe) (NCons NPanic NNil))))
                   (NCons (NNested (NMap (NCons (NNested NFail) (NCons NProbe NNil))))
                   (NCons (NEmb safe) (NCons (NEmb VUndef) (NCons NProbe NNil))))) in
  fst (convert y fresh_thread) = RPanic /\ flag (snd (convert y fresh_thread)) = false /\
  reg (snd (convert y fresh_thread)) = reg fresh_thread /\
  fst (convert z fresh_thread) =
    ROk (VMap [(field_key 0, VNone); (field_key 1, VMap [(field_key 0, VInvalid); (field_key 1, VBool true)]);
               (field_key 2, safe); (field_key 3, VUndef); (field_key 4, VBool true)]).
Proof. vm_compute. repeat split; reflexivity. Qed.

Example history_witness :
  (* a conversion that leaves two handles behind and fails, then one with embedded values *)
  let safe := VStr true [60; 98; 62] in
  let st1 := snd (convert (NSeq (NCons (NLeak (VStr false [115])) (NCons (NFlatten VUndef) NNil))) fresh_thread) in
  reg st1 <> reg fresh_thread /\ flag st1 = false /\
  fst (convert (NStruct (NCons (NEmb safe) (NCons (NEmb VUndef) NNil))) st1)
    = ROk (VMap [(field_key 0, safe); (field_key 1, VUndef)]).
Proof. vm_compute. repeat split; try reflexivity. discriminate. Qed.

Example roundtrip_witness_128 :
  let t := TStruct [([97], TInt 128); ([98], TUInt 128)] in
  let v := SStruct [([97], SInt 128 (- 2 ^ 127)); ([98], SUInt 128 (2 ^ 128 - 1))] in
  wf_sty t = true /\ roundtrippable t = true /\ has_type t v = true /\ de t (ser v) = Some v.
Proof. vm_compute. repeat split. Qed.

Example postprocess_witness :
  json_tokens [91; 34; 60; 47; 39; 92; 34; 34; 44; 49; 93]
    = Some [TCh 91; TLit [60; 47; 39; 34]; TCh 44; TCh 49; TCh 93] /\
  json_postprocess [91; 34; 60; 47; 39; 92; 34; 34; 44; 49; 93]
    = [91; 34; 92; 117; 48; 48; 51; 99; 47; 92; 117; 48; 48; 50; 55; 92; 34; 34; 44; 49; 93].
Proof. vm_compute. split; reflexivity. Qed.

(* Laws of the post-processing step, for every text: it changes a text exactly when the text contains one of
   < > & ' ; it is idempotent (the step never double-escapes what it produced); it distributes over
   concatenation (output written in chunks equals output written at once). *)
Theorem postprocess_laws : forall s t,
  (json_postprocess s = s <-> (forall x, In x s -> is_html4 x = false)) /\
  json_postprocess (json_postprocess s) = json_postprocess s /\
  json_postprocess (s ++ t) = json_postprocess s ++ json_postprocess t.
Proof.
  intros s t. split; [apply post_fixed_iff|]. split; [apply post_idempotent|apply post_app].
Qed.

Print Assumptions roundtrip.
Print Assumptions roundtrip_domain_is_tight.
Print Assumptions handles_identity.
Print Assumptions handles_no_leak.
Print Assumptions reentrancy_transparent.
Print Assumptions registry_keyed.
Print Assumptions seq_hint_wellformed.
Print Assumptions json_array_wellformed.
Print Assumptions zero_hint_breaks.
Print Assumptions tojson_html_safe.
Print Assumptions postprocess_preserves_json.
Print Assumptions html4_only_in_literals.
Print Assumptions replacement_decodes.
Print Assumptions tojson_valid_partial.
Print Assumptions postprocess_laws.
