(* C17 -- The file-system loader never reads outside its base directory.
   Only statements here; proofs live in MJ.C17.Proofs.
   Names and bases: EVERY list of code points (every Rust &str and more), any length, any depth.
   Unix path semantics; symbolic links aside (as the property says). *)
From MJ Require Import Common.Base C17.Model C17.Spec C17.Proofs C17.Accept.

(* Whatever safe_join accepts resolves to the base's own location followed by the non-empty
   segments of the name, and each of those can only descend: it is not empty, does not start with
   a dot (so it is neither "." nor ".."), has no '/' and no backslash. *)
Theorem safe_join_confined : forall cwd base nm p,
  safe_join base nm = Some p ->
  let segs := filter nonempty (split_slash nm) in
  resolve cwd p = resolve cwd base ++ segs /\ Forall plain segs.
Proof. exact safe_join_confined_proof. Qed.

(* ... hence the accepted path lies beneath the base directory. *)
Theorem safe_join_beneath : forall cwd base nm p, safe_join base nm = Some p -> beneath cwd base p = true.
Proof. exact safe_join_beneath_proof. Qed.

(* A ".." segment anywhere in the name is rejected; so is every segment that starts with a dot or
   contains a backslash. *)
Theorem safe_join_rejects_dotdot : forall base nm, In [46; 46] (split_slash nm) -> safe_join base nm = None.
Proof. exact safe_join_rejects_dotdot_proof. Qed.

Theorem safe_join_rejects : forall base nm seg, In seg (split_slash nm) ->
  starts_with_dot seg = true \/ contains_backslash seg = true -> safe_join base nm = None.
Proof. exact safe_join_rejects_proof. Qed.

(* The loader returns content only of a file beneath the base, whatever the file system answers. *)
Theorem loader_confined : forall cwd read dir nm s,
  path_loader read dir nm = LoadOk s ->
  exists p, safe_join dir nm = Some p /\ read p = ReadOk s /\ beneath cwd dir p = true.
Proof. exact loader_confined_proof. Qed.

(* non-vacuity: "/srv/t" + "a//b/" is accepted and stays beneath; ".." spellings are rejected;
   look-alikes that are plain names to the OS are accepted as plain names *)
Example safe_join_witness :
  let base := [47; 115; 114; 118; 47; 116] in
  safe_join base [97; 47; 47; 98; 47] = Some [47; 115; 114; 118; 47; 116; 47; 97; 47; 98; 47] /\
  resolve [[99]] [47; 115; 114; 118; 47; 116; 47; 97; 47; 98; 47] = [[115; 114; 118]; [116]; [97]; [98]] /\
  safe_join base [97; 47; 46; 46; 47; 98] = None /\
  safe_join base [46; 46; 92; 97] = None /\
  safe_join base [37; 50; 101; 37; 50; 101; 47; 97] = Some (base ++ [47; 37; 50; 101; 37; 50; 101; 47; 97]) /\
  resolve [[99]] [47; 97; 47; 46; 46; 47; 46; 46; 47; 98] = [[98]] /\
  beneath [[99]] base [47; 115; 114; 118; 47; 116; 47; 46; 46; 47; 120] = false.
Proof. vm_compute. repeat split. Qed.

Print Assumptions safe_join_confined.
Print Assumptions safe_join_beneath.
Print Assumptions safe_join_rejects_dotdot.
Print Assumptions safe_join_rejects.
Print Assumptions loader_confined.

(* ---- names computed inside templates (include / import / from-import / extends) ---- *)

(* Without a path-join callback the computed name is handed to the environment - and so to the
   loader - verbatim. *)
Theorem names_from_templates_unchanged : forall e parent name, path_join e = None ->
  state_get_template e parent name = env_get_template e name /\
  extends_lookup e parent (Some name) = env_get_template e name.
Proof. exact names_unchanged_proof. Qed.

(* With a callback it is exactly the callback's result for (name, referring template). *)
Theorem names_from_templates_joined : forall e parent name cb, path_join e = Some cb ->
  state_get_template e parent name = env_get_template e (cb name parent) /\
  extends_lookup e parent (Some name) = env_get_template e (cb name parent).
Proof. exact names_joined_proof. Qed.

(* The loader is asked at most once per lookup, with exactly that name, and only when the store
   does not already hold a template under it. *)
Theorem loader_asked_with_joined_name : forall e parent name r asked,
  state_get_template e parent name = (r, asked) ->
  (asked = [] \/ asked = [join_template_path e name parent]) /\
  (asked <> [] -> stored e (join_template_path e name parent) = None).
Proof. exact loader_asked_proof. Qed.

(* An include over several choices asks the loader only for joined forms of its choices. *)
Theorem include_asks_joined_names : forall e parent choices r asked,
  include_lookup e parent choices = (r, asked) ->
  Forall (fun a => exists name, In (Some name) choices /\ a = join_template_path e name parent) asked.
Proof. exact include_asks_joined_proof. Qed.

(* End to end in the model: with the path loader installed, for EVERY join callback (or none),
   every referring template and every computed name, a source obtained through an include that
   was not registered by the host is the content of a file beneath the base directory. *)
Theorem include_confined : forall cwd read dir e parent choices s asked,
  loader e = Some (path_loader read dir) -> (forall n, stored e n = None) ->
  include_lookup e parent choices = (Found s, asked) ->
  exists name p, In (Some name) choices /\
    safe_join dir (join_template_path e name parent) = Some p /\ read p = ReadOk s /\ beneath cwd dir p = true.
Proof. exact include_confined_proof. Qed.

Print Assumptions names_from_templates_unchanged.
Print Assumptions names_from_templates_joined.
Print Assumptions loader_asked_with_joined_name.
Print Assumptions include_asks_joined_names.
Print Assumptions include_confined.

(* ---- the acceptance set, exactly ---- *)

(* safe_join refuses a name exactly when one of its '/'-separated segments starts with a dot or
   contains a backslash: confinement is not bought by refusing more than that, and whether a name
   is accepted does not depend on the base directory. *)
Theorem safe_join_rejects_exactly : forall base nm,
  safe_join base nm = None <-> existsb bad_segment (split_slash nm) = true.
Proof. exact safe_join_none_iff. Qed.

Theorem safe_join_acceptance_base_independent : forall base base' nm,
  safe_join base nm = None <-> safe_join base' nm = None.
Proof. exact safe_join_accept_base_independent. Qed.

(* non-vacuity: both sides of the characterisation are inhabited ("a/b" accepted; "a/.b", "a\b" refused;
   "//abs" - two empty segments, then a plain one - accepted and, by safe_join_confined, joined beneath) *)
Example acceptance_witness :
  existsb bad_segment (split_slash [97; 47; 98]) = false /\ safe_join [116] [97; 47; 98] = Some [116; 47; 97; 47; 98] /\
  existsb bad_segment (split_slash [97; 47; 46; 98]) = true /\ safe_join [116] [97; 47; 46; 98] = None /\
  existsb bad_segment (split_slash [97; 92; 98]) = true /\ safe_join [116] [97; 92; 98] = None /\
  safe_join [116] [47; 47; 97] = Some [116; 47; 97].
Proof. vm_compute. repeat split. Qed.

Print Assumptions safe_join_rejects_exactly.
Print Assumptions safe_join_acceptance_base_independent.
