(* C17 -- The file-system loader never reads outside its base directory.
   Only statements here; proofs live in MJ.C17.Proofs.
   Names and bases: EVERY list of code points (every Rust &str and more), any length, any depth.
   Unix path semantics; symbolic links aside (as the property says). *)
From MJ Require Import Common.Base C17.Model C17.Spec C17.Proofs.

(* Whatever safe_join accepts resolves to the base's own location followed by the non-empty
   segments of the name, and each of those can only descend: it is not empty, does not start with
   a dot (so it is neither "." nor ".."), has no '/' and no backslash. *)
Theorem safe_join_confined : forall cwd base nm p,
  safe_join base nm = Some p ->
  let segs := filter nonempty (split_slash nm) in
  resolve cwd p = resolve cwd base ++ segs /\ Forall plain segs.
Proof. exact safe_join_confined_proof. Qed.

(* ... hence the accepted path lies beneath the base directory. *)
Theorem safe_join_beneath : forall cwd base nm p, safe_join base nm = Some p -> beneath cwd base p = true.
Proof. exact safe_join_beneath_proof. Qed.

(* A ".." segment anywhere in the name is rejected; so is every segment that starts with a dot or
   contains a backslash. *)
Theorem safe_join_rejects_dotdot : forall base nm, In [46; 46] (split_slash nm) -> safe_join base nm = None.
Proof. exact safe_join_rejects_dotdot_proof. Qed.

Theorem safe_join_rejects : forall base nm seg, In seg (split_slash nm) ->
  starts_with_dot seg = true \/ contains_backslash seg = true -> safe_join base nm = None.
Proof. exact safe_join_rejects_proof. Qed.

(* The loader returns content only of a file beneath the base, whatever the file system answers. *)
Theorem loader_confined : forall cwd read dir nm s,
  path_loader read dir nm = LoadOk s ->
  exists p, safe_join dir nm = Some p /\ read p = ReadOk s /\ beneath cwd dir p = true.
Proof. exact loader_confined_proof. Qed.

(* non-vacuity: "/srv/t" + "a//b/" is accepted and stays beneath; ".." spellings are rejected;
   look-alikes that are plain names to the OS are accepted as plain names *)
Example safe_join_witness :
  let base := [47; 115; 114; 118; 47; 116] in
  safe_join base [97; 47; 47; 98; 47] = Some [47; 115; 114; 118; 47; 116; 47; 97; 47; 98; 47] /\
  resolve [[99]] [47; 115; 114; 118; 47; 116; 47; 97; 47; 98; 47] = [[115; 114; 118]; [116]; [97]; [98]] /\
  safe_join base [97; 47; 46; 46; 47; 98] = None /\
  safe_join base [46; 46; 92; 97] = None /\
  safe_join base [37; 50; 101; 37; 50; 101; 47; 97] = Some (base ++ [47; 37; 50; 101; 37; 50; 101; 47; 97]) /\
  resolve [[99]] [47; 97; 47; 46; 46; 47; 46; 46; 47; 98] = [[98]] /\
  beneath [[99]] base [47; 115; 114; 118; 47; 116; 47; 46; 46; 47; 120] = false.
Proof. vm_compute. repeat split. Qed.

Print Assumptions safe_join_confined.
Print Assumptions safe_join_beneath.
Print Assumptions safe_join_rejects_dotdot.
Print Assumptions safe_join_rejects.
Print Assumptions loader_confined.
