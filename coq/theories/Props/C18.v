(* C18 -- undeclared_variables never omits a variable the template reads (stub while building) *)
From MJ Require Import Common.Base Lang.Syntax Lang.Meta Lang.Interp C18.Old C18.Proofs.
