(* C18 -- undeclared_variables never omits a variable the template reads.
   Statements only; proofs in MJ.C18.Proofs (tracker facts in C18.Tracker / C18.NTracker, run-time
   facts in C18.Runtime, interpreter agreement in C18.XAgree).

   Lang/Meta.v mirrors compiler/meta.rs (AssignmentTracker, track_walk, tracker_visit_expr,
   find_macro_closure) after the C18 fixes; C18/NMeta.v mirrors its nested mode (assign_nested).
   C18/XInterp.v is the reference interpreter of Lang/Interp.v with an outcome that keeps, on
   failure, the context lookups recorded up to the failure ([run_asks], [asks_of]), and with a
   meaning for slices e[a:b:c] and attribute assignments {% set x.attr = e %} (written ESlice and
   SSetAttr with the constructors of the core syntax, so that the tracker visits their sub-terms in
   the order meta.rs and codegen.rs do).  Its state records every key the render context is asked for
   (Context::load: frames innermost-out - locals, `loop`, closure, render context - then globals).
   The check ties all of this to the engine on generated programs (tools/props/C18.py). *)
From MJ Require Import Common.Base Lang.Syntax Lang.Meta Lang.Interp
     C18.Old C18.Tracker C18.Runtime C18.XInterp C18.XAgree C18.NMeta C18.NTracker C18.Proofs.

(* Soundness of the static report, for EVERY outcome of the render: for every program (expressions
   incl. slices, map literals and map lookups, if/elif/else, for with filter / else / break / continue
   over lists, strings and maps, set and with incl. unpacking into two names, attribute assignment,
   set blocks, macros with defaults, keyword arguments and caller, call blocks, filter blocks,
   autoescape), every undefined-behaviour mode, every render context whose values contain no macro
   objects and every amount of fuel: every key the render asked the context for - until it finished
   or until it failed - is in [find_undeclared] (globals such as `range` are asked and reported too).
   Invariant of the proof (Runtime.Inv): every name the tracker regards as assigned is already
   reported or bound locally at run time, on every path reaching the program point. *)
Theorem undeclared_sound : forall (c : cfg) (fuel : nat) (body : list stmt),
  plain_context c = true ->
  forall x, In x (asks_of (run_asks c fuel body)) -> In x (find_undeclared body).
Proof. exact undeclared_sound_proof. Qed.

(* the error-carrying interpreter only adds information: when the shared interpreter finishes, it
   finishes in the same state ... *)
Theorem xrun_agrees : forall (c : cfg) (fuel : nat) (body : list stmt) (s : st),
  Interp.run c fuel body = Ok s -> run_asks c fuel body = OkE s.
Proof. exact xrun_agrees_proof. Qed.

(* ... so the report is sound for the shared interpreter (the one C03 compares with the engine) too *)
Theorem undeclared_sound_interp : forall (c : cfg) (fuel : nat) (body : list stmt) (s : st),
  plain_context c = true -> Interp.run c fuel body = Ok s ->
  forall x, In x (s_asks s) -> In x (find_undeclared body).
Proof. exact undeclared_sound_interp_proof. Qed.

(* Nested mode, `undeclared_variables(true)`: every key the render asked the context for - whatever
   its outcome - is the first segment of a reported dotted name. *)
Theorem undeclared_nested_sound : forall (c : cfg) (fuel : nat) (body : list stmt),
  plain_context c = true ->
  forall x, In x (asks_of (run_asks c fuel body)) -> exists p, In p (find_undeclared_nested body) /\ fst p = x.
Proof. exact nested_sound_proof. Qed.

(* its tracker-only core: what the flat walk reports, the nested walk reports as a first segment *)
Theorem flat_report_in_nested_report : forall body x,
  mem x (find_undeclared body) = true -> heads_mem x (find_undeclared_nested body) = true.
Proof. exact flat_in_nested. Qed.

(* The part of the argument that concerns find_macro_closure: a macro value is well formed when its
   closure holds every name the fresh tracker found free in the macro; calling such a macro never asks
   the render context for anything, whether the call finishes or fails. *)
Theorem macro_call_asks_nothing : forall (c : cfg) fuel esc s mc cl args kwargs,
  plain_context c = true -> sgood s -> mgood (s_clos s) mc cl ->
  Forall (vgood (s_clos s)) args -> Forall (fun kv => vgood (s_clos s) (snd kv)) kwargs ->
  match xcall_macro c fuel esc s mc cl args kwargs with
  | OkE (_, s') => s_asks s' = s_asks s
  | ErrE _ a => a = s_asks s
  | _ => True
  end.
Proof. exact macro_call_asks_nothing_proof. Qed.

(* ... and what Enclose asks for when the macro is declared is reported by the surrounding walk: a name
   free in the macro (other than `caller`) that is not assigned outside is in the report *)
Theorem closure_names_reported : forall ps ds body t x,
  mem x (closure_raw ps ds body) = true -> x <> N_caller -> asgl (t_assigned t) x = false ->
  mem x (t_out (visit_macro true ps ds body (t_push t))) = true.
Proof. exact closure_in_context. Qed.

(* The tracker as it was before the fixes (C18/Old.v) is refuted on every construct it got wrong -
   {% set x = x %}, {% with x = x %}, {% set x %}{{ x }}{% endset %}, {% macro m(x=x) %},
   {% macro m(y, x=y) %}, a macro that mentions its own name, {% for x in loop %},
   {% for x in [1] if loop %}, {% autoescape x %}, {{ x[1:2]|length }}, {% set x.attr = 1 %} (a
   failing render) - and the fixed tracker is not. *)
Theorem undeclared_refuted_before_fix :
  forallb (asked_not_reported find_undeclared_old cfg0 50) refutation_programs = true /\
  forallb (fun p => negb (asked_not_reported find_undeclared cfg0 50 p)) refutation_programs = true.
Proof. exact refuted_before_fix_proof. Qed.

(* non-vacuity: a render that finishes (set, macro whose default reads the context, filtered loop, call
   block, reversed slice) and asks six times; a render that fails in its second statement (attribute
   assignment) after asking three times *)
Example undeclared_sound_nonvacuous :
  (exists s, run_asks demo_ctx 60 demo_body = OkE s /\ plain_context demo_ctx = true /\ length (s_asks s) = 6%nat) /\
  (exists a, run_asks demo_ctx 60 demo_fail = ErrE E_InvalidOperation a /\ length a = 3%nat).
Proof. split; [exact demo_runs|exact demo_fails]. Qed.

(* Lang v2 (maps, unpacking assignments): the pre-fix tracker is also refuted on {% set x, y = [x, y] %},
   {% with (x, y) = [y, x] %}, {% set x, y = y %} (a render that fails to unpack after asking for y) and
   {% set x = {x: 1} %}, and the fixed tracker is not; non-vacuity of undeclared_sound on programs with map
   literals, map lookups, a loop over a map, unpacking set / with (a finished render asking five times, a
   render that fails to unpack after asking four times) *)
Example undeclared_refuted_before_fix_v2 :
  forallb (asked_not_reported find_undeclared_old cfg0 50) refutation_programs_v2 = true /\
  forallb (fun p => negb (asked_not_reported find_undeclared cfg0 50 p)) refutation_programs_v2 = true.
Proof. exact refuted_before_fix_v2_proof. Qed.

Example undeclared_sound_nonvacuous_maps :
  (exists s, run_asks demo_ctx2 60 demo_map_body = OkE s /\ plain_context demo_ctx2 = true /\
             output_of s = [112; 113; 55; 55; 49] /\ length (s_asks s) = 5%nat) /\
  (exists a, run_asks demo_ctx2 60 demo_unpack_fail = ErrE E_CannotUnpack a /\ length a = 4%nat).
Proof. split; [exact demo_maps_run|exact demo_unpack_fails]. Qed.

Print Assumptions undeclared_sound.
Print Assumptions xrun_agrees.
Print Assumptions undeclared_sound_interp.
Print Assumptions undeclared_nested_sound.
Print Assumptions flat_report_in_nested_report.
Print Assumptions macro_call_asks_nothing.
Print Assumptions closure_names_reported.
Print Assumptions undeclared_refuted_before_fix.
