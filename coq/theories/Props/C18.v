(* C18 -- undeclared_variables never omits a variable the template reads.
   Statements only; proofs in MJ.C18.Proofs (tracker facts in C18.Tracker, run-time facts in C18.Runtime).

   Lang/Meta.v mirrors compiler/meta.rs (AssignmentTracker, track_walk, tracker_visit_expr,
   find_macro_closure) after the C18 fixes; Lang/Interp.v is the reference interpreter, whose state
   records in [s_asks] every key the render context was asked for (Context::load: frames
   innermost-out - locals, `loop`, closure, render context - then globals).  The check ties both to
   the engine on generated programs (tools/props/C18.py). *)
From MJ Require Import Common.Base Lang.Syntax Lang.Meta Lang.Interp C18.Old C18.Tracker C18.Runtime C18.Proofs.

(* Soundness of the static report: for every program of the core fragment (expressions, if/elif/else,
   for with filter / else / break / continue, set, set blocks, with, macros with defaults, keyword
   arguments and caller, call blocks, filter blocks, autoescape), every undefined-behaviour mode,
   every render context whose values contain no macro objects, and every amount of fuel: every key a
   completed render asked the context for is in [find_undeclared] (globals such as `range` are asked
   and reported too).  Stated for renders that finish (the interpreter does not return the lookups of
   a failed render; failing renders are covered on the implementation by the check).
   Invariant of the proof (Runtime.Inv): every name the tracker regards as assigned is already
   reported or bound locally at run time, on every path reaching the program point. *)
Theorem undeclared_sound : forall (c : cfg) (fuel : nat) (body : list stmt) (s : st),
  plain_context c = true ->
  Interp.run c fuel body = Ok s ->
  forall x, In x (s_asks s) -> In x (find_undeclared body).
Proof. exact undeclared_sound_proof. Qed.

(* Failing renders, as far as the interpreter exposes them: when the render fails (or stops) inside a
   later top-level statement, everything the completed statements before it asked for is in the report
   of the whole template. *)
Theorem undeclared_sound_prefix : forall (c : cfg) (fuel : nat) (done rest : list stmt) (s : st),
  plain_context c = true -> Interp.run c fuel done = Ok s ->
  forall x, In x (s_asks s) -> In x (find_undeclared (done ++ rest)).
Proof. exact undeclared_sound_prefix_proof. Qed.

(* The part of the argument that concerns find_macro_closure: a macro value is well formed when its
   closure holds every name the fresh tracker found free in the macro; calling such a macro never asks
   the render context for anything, whatever its body does. *)
Theorem macro_call_asks_nothing : forall (c : cfg) fuel esc s mc cl args kwargs v s',
  plain_context c = true -> sgood s -> mgood (s_clos s) mc cl ->
  Forall (vgood (s_clos s)) args -> Forall (fun kv => vgood (s_clos s) (snd kv)) kwargs ->
  call_macro c fuel esc s mc cl args kwargs = Ok (v, s') -> s_asks s' = s_asks s.
Proof. exact macro_call_asks_nothing_proof. Qed.

(* ... and what Enclose asks for when the macro is declared is reported by the surrounding walk: a name
   free in the macro (other than `caller`) that is not assigned outside is in the report *)
Theorem closure_names_reported : forall ps ds body t x,
  mem x (closure_raw ps ds body) = true -> x <> N_caller -> asgl (t_assigned t) x = false ->
  mem x (t_out (visit_macro true ps ds body (t_push t))) = true.
Proof. exact closure_in_context. Qed.

(* The tracker as it was before the fixes (C18/Old.v) is refuted on every construct whose visit order
   was wrong - {% set x = x %}, {% with x = x %}, {% set x %}{{ x }}{% endset %}, {% macro m(x=x) %},
   {% macro m(y, x=y) %}, a macro that mentions its own name, {% for x in loop %},
   {% for x in [1] if loop %}, {% autoescape x %} - and the fixed tracker is not. *)
Theorem undeclared_refuted_before_fix :
  forallb (asked_not_reported find_undeclared_old cfg0 50) refutation_programs = true /\
  forallb (fun p => negb (asked_not_reported find_undeclared cfg0 50 p)) refutation_programs = true.
Proof. exact refuted_before_fix_proof. Qed.

(* non-vacuity of undeclared_sound: a program with a set, a macro whose default reads the context, a
   filtered loop and a call block, on a context of plain values, renders and asks five times *)
Example undeclared_sound_nonvacuous :
  exists s, Interp.run demo_ctx 60 demo_body = Ok s /\ plain_context demo_ctx = true /\ length (s_asks s) = 5%nat.
Proof. exact demo_runs. Qed.

Print Assumptions undeclared_sound.
Print Assumptions undeclared_sound_prefix.
Print Assumptions macro_call_asks_nothing.
Print Assumptions closure_names_reported.
Print Assumptions undeclared_refuted_before_fix.
