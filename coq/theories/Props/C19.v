(* C19 -- A failing output sink stops the render with the sink's own error.
   Statements only; proofs in MJ.C19.Proofs.  Model: C19/Model.v (write_all, WriteWrapper, take_err),
   C19/Spec.v (render_to_sink = the sink-driven run of a core-fragment program as a function of the
   chunk list of its plain run; see the header of Model.v for what this abstracts). *)
From MJ Require Import Common.Base Lang.Syntax Lang.Interp C19.Model C19.Partial C19.PartialProofs C19.PartialOut C19.Spec C19.Proofs.

(* Generic: for ANY deterministic sequence of writes [ws] and ANY sink (call number -> accepted |
   refused with a kind), what gets delivered is a prefix of the free run, cut exactly at the first
   refusal: every earlier call was accepted, the refusing call is call number n + |delivered|, and
   nothing after it is delivered. *)
Theorem monitor_prefix : forall (W : Type) (sink : nat -> option Z) (ws : list W) n d res,
  monitor sink n ws = (d, res) ->
  exists rest, ws = d ++ rest /\
    (forall i, (i < length d)%nat -> sink (n + i)%nat = None) /\
    match res with
    | None => rest = []
    | Some (j, k) => j = (n + length d)%nat /\ sink j = Some k /\ rest <> []
    end.
Proof. intros W. exact monitor_prefix_proof. Qed.

(* The bytes delivered to the sink are a prefix of the plain render (in order, no duplication, no
   omission), for every program, context, mode, fuel, every sink script (short writes, Ok(0),
   Interrupted, any error kind at any call) and every way the engine may cut a chunk into pieces;
   when the call succeeds they are the whole render. *)
Theorem sink_prefix : forall c fuel body split wrappers sc log e s,
  split_ok split -> run c fuel body = Ok s ->
  render_to_sink c fuel body split wrappers sc = Ok (log, e) ->
  exists rest, delivered log ++ rest = output_of s /\ (e = None -> rest = []).
Proof. exact sink_prefix_proof. Qed.

(* Without short writes the cut is at a chunk boundary of the plain run (empty chunks make no call). *)
Theorem sink_prefix_at_chunk_boundary : forall c fuel body wrappers sc log e s,
  simple sc -> run c fuel body = Ok s ->
  render_to_sink c fuel body no_split wrappers sc = Ok (log, e) ->
  exists n, delivered log = concat (firstn n (nonempty (rev (s_out s)))).
Proof. exact sink_prefix_chunks_proof. Qed.

(* No write after the first failure: a call the sink fails is the last call of the log, and the render
   returns WriteFailure with that failure as source. *)
Theorem sink_stops : forall c fuel body split wrappers sc log e,
  render_to_sink c fuel body split wrappers sc = Ok (log, e) ->
  forall l1 cl l2 k, log = l1 ++ cl :: l2 -> call_fails cl = Some k ->
    l2 = [] /\ e = Some (MkErr E_WriteFailure (IoSrc k)).
Proof. exact sink_stops_proof. Qed.

(* An error is returned only because of the sink: it is WriteFailure, its source is the io error of
   the last call, which is the answer the script gave to that call number - whatever wrappers
   (BadInclude, EvalBlock) were put around the fmt::Error on the way out. *)
Theorem sink_error_kind : forall c fuel body split wrappers sc log e0,
  render_to_sink c fuel body split wrappers sc = Ok (log, Some e0) ->
  exists l1 cl k, log = l1 ++ [cl] /\ c_ans cl = nth (length l1) sc AFull /\ call_fails cl = Some k /\
    e0 = MkErr E_WriteFailure (IoSrc k).
Proof. exact sink_error_kind_proof. Qed.

(* ... and success is returned only if no call failed (a failure is never swallowed) *)
Theorem sink_failure_not_swallowed : forall c fuel body split wrappers sc log,
  render_to_sink c fuel body split wrappers sc = Ok (log, None) -> forall cl, In cl log -> call_fails cl = None.
Proof. exact sink_no_failure_proof. Qed.

(* A sink that never fails (it may take the bytes in pieces and be interrupted) receives exactly the
   plain render and the call succeeds. *)
Theorem sink_success : forall c fuel body split wrappers sc s,
  split_ok split -> (forall a, In a sc -> answer_ok a) -> run c fuel body = Ok s ->
  exists log, render_to_sink c fuel body split wrappers sc = Ok (log, None) /\ delivered log = output_of s.
Proof. exact sink_success_proof. Qed.

(* non-vacuity: `a{{ 12 }}{% set x %}zz{% endset %}{{ x }}b` into a sink that takes one byte, is
   interrupted, then breaks the pipe: "a" and "1" arrive, the captured "zz" was never offered before. *)
Example sink_example :
  render_to_sink (mkCfg Lenient [] false) 50
    [SRaw [97]; SEmit (EConst (LInt 12)); SSetBlock 100 [SRaw [122; 122]] None; SEmit (EVar 100); SRaw [98]]
    no_split [E_BadInclude] [AFull; AInterrupted; AAccept 1; AFail K_BrokenPipe]
  = Ok ([mkCall [97] AFull; mkCall [49; 50] AInterrupted; mkCall [49; 50] (AAccept 1); mkCall [50] (AFail K_BrokenPipe)],
        Some (MkErr E_WriteFailure (IoSrc K_BrokenPipe))).
Proof. vm_compute. reflexivity. Qed.

(* ---- renders that fail for a reason of their own (C19/Partial.v keeps the chunks written before the error) ---- *)

(* the output-keeping interpreter is the interpreter: same success state, same error code, for every
   program, context, mode and fuel *)
Theorem run_partial_agrees : forall c fuel body, forget (run_partial c fuel body) = run c fuel body.
Proof. exact run_partial_agrees_proof. Qed.

(* so on a successful render the sink-driven run is the one of the theorems above *)
Theorem render_to_sink_p_on_success : forall c fuel body split wrappers sc s,
  run c fuel body = Ok s ->
  render_to_sink_p c fuel body split wrappers sc = render_to_sink c fuel body split wrappers sc.
Proof. exact render_to_sink_p_ok. Qed.

(* a render that fails with [code] after writing [out]: what the sink received is a prefix of those
   bytes; if no call failed it received all of them and the render's own error comes back unchanged;
   if a call failed it is the last call and the result is WriteFailure with that failure as source
   (the render error is never reached) *)
Theorem sink_prefix_failing_render : forall c fuel body split wrappers sc code out log e,
  split_ok split -> run_partial c fuel body = PErr code out ->
  render_to_sink_p c fuel body split wrappers sc = Ok (log, e) ->
  (exists rest, delivered log ++ rest = concat (rev out) /\
     ((forall cl, In cl log -> call_fails cl = None) -> rest = [] /\ e = Some (MkErr code NoSrc))) /\
  (forall l1 cl l2 k, log = l1 ++ cl :: l2 -> call_fails cl = Some k ->
     l2 = [] /\ e = Some (MkErr E_WriteFailure (IoSrc k))).
Proof. exact sink_failing_render_proof. Qed.

(* a failing render never loses or rewrites what was written earlier: the chunks reported at the
   error (and the buffer after a success) are the buffer the statements started from plus new
   chunks in front of it (lists are most-recent-first) *)
Theorem partial_out_extends : forall c fuel esc s l code out,
  exec_list_p c fuel esc s l = PErr code out -> exists new, out = new ++ s_out s.
Proof. exact partial_out_extends_proof. Qed.

Theorem output_only_grows : forall c fuel esc s l sg s',
  exec_list_p c fuel esc s l = POk (sg, s') -> exists new, s_out s' = new ++ s_out s.
Proof. exact exec_list_p_ok_extends_proof. Qed.

(* non-vacuity: `ab{% set x %}zz{{ 1 // 0 }}{% endset %}cd`: "ab" was written, the captured "zz" never *)
Example partial_example :
  run_partial (mkCfg Lenient [] false) 50
    [SRaw [97; 98]; SSetBlock 100 [SRaw [122; 122]; SEmit (EBin OFloorDiv (EConst (LInt 1)) (EConst (LInt 0)))] None; SRaw [99; 100]]
  = PErr E_InvalidOperation [[97; 98]].
Proof. vm_compute. reflexivity. Qed.

(* maps and unpacking: `ab{% for k in {"x": 1} %}{{ k }}{% endfor %}{% set a, b = [1] %}cd` - the loop over the
   map's keys wrote "x", then the unpacking `set` fails (one item for two targets): "ab" and "x" were written;
   and `ab{% with (a, b) = {"p": 1, "q": 2} %}{{ b }}{{ 1 // 0 }}{% endwith %}`: a map unpacks into its keys *)
Example partial_example_unpack :
  run_partial (mkCfg Lenient [] false) 50
    [SRaw [97; 98]; SFor (TVar 101) (EMap [(EConst (LStr [120]), EConst (LInt 1))]) None [SEmit (EVar 101)] None false;
     SSet (TPair 102 103) (EList [EConst (LInt 1)]); SRaw [99; 100]]
  = PErr E_CannotUnpack [[120]; [97; 98]] /\
  run_partial (mkCfg Lenient [] false) 50
    [SRaw [97; 98];
     SWith [(TPair 102 103, EMap [(EConst (LStr [112]), EConst (LInt 1)); (EConst (LStr [113]), EConst (LInt 2))])]
       [SEmit (EVar 103); SEmit (EBin OFloorDiv (EConst (LInt 1)) (EConst (LInt 0)))]]
  = PErr E_InvalidOperation [[113]; [97; 98]].
Proof. split; vm_compute; reflexivity. Qed.

Print Assumptions run_partial_agrees.
Print Assumptions render_to_sink_p_on_success.
Print Assumptions sink_prefix_failing_render.
Print Assumptions partial_out_extends.
Print Assumptions output_only_grows.
Print Assumptions monitor_prefix.
Print Assumptions sink_prefix.
Print Assumptions sink_prefix_at_chunk_boundary.
Print Assumptions sink_stops.
Print Assumptions sink_error_kind.
Print Assumptions sink_failure_not_swallowed.
Print Assumptions sink_success.
